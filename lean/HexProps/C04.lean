import HexProofs.Numeric.AvgExtra
import HexProofs.Numeric.SeriesOnManagersC04
import HexProofs.Numeric.SeriesInputsHMA
import HexProofs.Numeric.SeriesInputsAvg
import HexProofs.Numeric.Composite
import HexProofs.Numeric.SeriesMore
import HexProofs.Numeric.Demo
import HexProofs.Numeric.SeriesHMA
import HexProofs.Numeric.SeriesWindows
/-
C04 – Moving averages match their definitions and are position independent
(NUMERIC layer: ordered field `K` with `LawfulPyF K`; see HexProofs/Numeric/Lawful.lean for the
trusted gap – IEEE rounding error, overflow and NaN are outside these theorems).

WHAT IS PROVED NOW

1. Per `_calculate_reading` call (SMA, EMA, RMA, WMA, VWMA, HMA assembly): given the readings the
   Python method reads (named through `Ctx.reading` / `Ctx.prevReading`, addressed RELATIVE to the
   active index), the returned value is the textbook expression in those readings.  Because every
   statement mentions the inputs only through their offsets from the active index, the value does
   not depend on where in the candle list the input series starts (`*_position_independent`) – this
   is the part that covers inputs that are ANOTHER indicator's reading and inputs that begin late.
   `rsum p f = Σ_{k<p} f k`.

2. Whole series, every raw stream, input a candle field (`sma_series`, `ema_series`, `rma_series`,
   `wma_series`, `vwma_series`, `period ≥ 2`): the row-major run never raises, the first reading
   appears exactly at index `period − 1`, and every stored reading is within the stated rounding
   budget of the textbook series (SMA: `(j − (period−1) + 1)·ε_n`, growing with the running update;
   EMA: `ε_n/a`, RMA: `ε_n·period`, not growing; WMA / VWMA: `ε_n`).  `series_engine` / `series_live`:
   that row-major run IS what the engine's `calculate()`, the batch run of the object and every
   append schedule return (all five kinds are `Covered` leaf kinds: their framework contracts are
   proved).  `C04_FULL_raw`: the instance of `C04_FULL` for raw candles through the engine.

3. HMA, whole series (`hma_series`, `hma_candles`, `hma_series_batch`, `hma_batch_readings`,
   `hma_series_live`, `hma_budget`; `period = p ≥ 2`, input a candle field), through its two prior
   WMA helpers and its managed raw series: for EVERY raw stream the run returns and candle `j` is an
   explicit function `hmaDeco` of the raw candles with
     * `name_WMA`  = `None` before index `p − 1`, then `round₄(WMA_p(x))`               (within `ε₄`),
     * `name_WMAh` = `None` before index `⌊p/2⌋ − 1`, then `round₄(WMA_{⌊p/2⌋}(x))`      (within `ε₄`),
     * `name_HMAr` = absent before `p − 1`, then EXACTLY `2·name_WMAh − name_WMA` of the two STORED
       readings (`Managed.set_reading` does not round)                (within `3·ε₄` of the textbook),
     * `name_HMAs` = `None` before the TRUE WARM-UP INDEX `hmaT0 p = (p − 1) + (⌊√p⌋ − 1)`, then
       `round₄(WMA_{⌊√p⌋}(name_HMAr))`             (within `4·ε₄` of the textbook HMA, at every index),
     * `name`      = `name_HMAs` rounded to the node's `rounding` `n`: `None` before `hmaT0 p`, then
       within `ε_n + 4·ε₄` of `WMA_{⌊√p⌋}(2·WMA_{⌊p/2⌋}(x) − WMA_p(x))`; with the default `n = 4` the
       second rounding is the identity (`hma_own_default`).
   Helper series are rounded to `defaultRound = 4` decimals by the engine whatever the node's own
   `rounding` is – this is why the budget is stated in `ε₄` and `ε_n` separately.
   The series theorems are over the base timeframe (`runIndicator … {} …`, no collapsing);
   `hma_series_live` covers every append schedule.

STILL OPEN (`C04_FULL` below): the whole-series statement over a candle list that ALREADY HOLDS
other indicators' readings, for an input that is another indicator's reading and starts late
(the per-call theorems and `*_position_independent` cover each call; the series induction needs the
key-locality half of the framework `Contract` along foreign columns); the numeric statement on a
collapsing timeframe (C01/C03 give live = batch and the collapse structurally; the series theorems
are not composed with `collapse`); IEEE effects.
-/
namespace Hex.C04
open Hex Hex.Numeric
variable {K : Type} [Field K] [LinearOrder K] [IsStrictOrderedRing K] [LawfulPyF K]

/-! ### SMA -/

/-- **SMA, first reading** = mean of the `period` inputs ending at the active index. -/
theorem sma_seed (x : Ctx K) (p : Nat) (input : String) (r : Nat → Num K)
    (hprev : x.prevReading x.name = .ok .none) (hrp : x.readingPeriod p input = true)
    (hp1 : 1 ≤ p) (hpi : (p : Int) ≤ x.i + 1) (hi0 : 1 ≤ x.i)
    (h : ∀ j, j < p → x.reading input (some (x.i + 1 - p + j)) = .ok (.num (r j))) :
    Calc.sma x p input = .ok (.flt (rsum p (fun j => (r j).toF) / p)) :=
  sma_seed_window x p input r hprev hrp hp1 hpi hi0 h

example : Calc.sma (Demo.ctx "SMA_3" 2) (3 : Nat) "close"
    = .ok (.flt (rsum 3 (fun j => ((fun j => Num.int ([11, 12, 14].getD j 0)) j : Num ℚ).toF) / (3 : Nat))) :=
  sma_seed (Demo.ctx "SMA_3" 2) 3 "close" (fun j => .int ([11, 12, 14].getD j 0)) rfl (by decide)
    (by norm_num) (by decide) (by decide) (by intro j hj; interval_cases j <;> rfl)

/-- **SMA, running reading** = previous − (leaving − entering)/period, and this keeps the window
mean: if the previous reading is the mean of `r 0 … r (p-1)` the new one is the mean of `r 1 … r p`. -/
theorem sma_step (x : Ctx K) (p : Nat) (input : String) (prev : Num K) (r : Nat → Num K) (hp : 1 ≤ p)
    (hprev : x.prevReading x.name = .ok (.num prev))
    (ho : x.reading input (some (x.i - p)) = .ok (.num (r 0)))
    (hc : x.reading input = .ok (.num (r p)))
    (hmean : prev.toF = rsum p (fun j => (r j).toF) / p) :
    IsNum (Calc.sma x p input) (rsum p (fun j => (r (j + 1)).toF) / p) :=
  sma_rec_window x p input prev r hp hprev ho hc hmean

example : IsNum (Calc.sma (Demo.ctx "SMA_3") (3 : Nat) "close")
    (rsum 3 (fun j => ((fun j => Num.int ([11, 12, 14, 15].getD j 0)) (j + 1) : Num ℚ).toF) / (3 : Nat)) :=
  sma_step (Demo.ctx "SMA_3") 3 "close" (.flt (37 / 3)) (fun j => .int ([11, 12, 14, 15].getD j 0))
    (by norm_num) rfl rfl rfl (by simp [rsum, List.range_succ]; norm_num)

/-- **SMA appears exactly with a full window**: no previous reading and no full window ⇒ `None`. -/
theorem sma_warmup (x : Ctx K) (period : Int) (input : String)
    (hprev : x.prevReading x.name = .ok .none) (hrp : x.readingPeriod period input = false) :
    Calc.sma x period input = .ok .none :=
  sma_none x period input hprev hrp

example : Calc.sma (Demo.ctx "SMA_3" 1) 3 "close" = .ok .none :=
  sma_warmup (Demo.ctx "SMA_3" 1) 3 "close" rfl (by decide)

/-- **SMA lies within its inputs.** -/
theorem sma_within (p : Nat) (r : Nat → K) (lo hi : K) (hp : 1 ≤ p)
    (hr : ∀ k, k < p → lo ≤ r k ∧ r k ≤ hi) : lo ≤ rsum p r / p ∧ rsum p r / p ≤ hi :=
  mean_between p r lo hi hp hr

/-! ### EMA -/

/-- **EMA recurrence** `r[t] = a·x[t] + (1−a)·r[t−1]`, `a = smoothing/(period+1)`. -/
theorem ema_step (x : Ctx K) (period : Int) (input : String) (s prev cur : Num K)
    (hprev : x.prevReading x.name = .ok (.num prev)) (hc : x.reading input = .ok (.num cur))
    (hp : (period : K) + 1 ≠ 0) :
    Calc.ema x period input s =
      .ok (.flt (s.toF / (period + 1) * cur.toF + prev.toF * (1 - s.toF / (period + 1)))) :=
  ema_rec x period input s prev cur hprev hc hp

example : Calc.ema (Demo.ctx "EMA_3") 3 "close" (fl 2)
    = .ok (.flt ((fl 2 : Num ℚ).toF / ((3 : Int) + 1) * (Num.int 15 : Num ℚ).toF
                 + (Num.flt 12 : Num ℚ).toF * (1 - (fl 2 : Num ℚ).toF / ((3 : Int) + 1)))) :=
  ema_step (Demo.ctx "EMA_3") 3 "close" (fl 2) (.flt 12) (.int 15) rfl rfl (by norm_num)

/-- **EMA seed** = mean of the first full window. -/
theorem ema_seed (x : Ctx K) (p : Nat) (input : String) (s : Num K) (r : Nat → Num K)
    (hprev : x.prevReading x.name = .ok .none) (hrp : x.readingPeriod p input = true)
    (hp1 : 1 ≤ p) (hpi : (p : Int) ≤ x.i + 1) (hi0 : 1 ≤ x.i)
    (h : ∀ j, j < p → x.reading input (some (x.i + 1 - p + j)) = .ok (.num (r j))) :
    Calc.ema x p input s = .ok (.flt (rsum p (fun j => (r j).toF) / p)) :=
  ema_seed_window x p input s r hprev hrp hp1 hpi hi0 h

theorem ema_warmup (x : Ctx K) (period : Int) (input : String) (s : Num K)
    (hprev : x.prevReading x.name = .ok .none) (hrp : x.readingPeriod period input = false) :
    Calc.ema x period input s = .ok .none :=
  ema_none x period input s hprev hrp

/-- **EMA/RMA step lies between the previous reading and the input** (`0 ≤ a ≤ 1`). -/
theorem ema_within (a prev cur : K) (h0 : 0 ≤ a) (h1 : a ≤ 1) :
    min prev cur ≤ a * cur + (1 - a) * prev ∧ a * cur + (1 - a) * prev ≤ max prev cur :=
  convex_between a prev cur h0 h1

/-- the shipped smoothing constants are in (0,1] for every period ≥ 1 -/
theorem alpha_ranges (p : Int) (hp : 1 ≤ p) :
    ((0 : K) < 2 / ((p : K) + 1) ∧ 2 / ((p : K) + 1) ≤ 1) ∧ ((0 : K) < 1 / (p : K) ∧ 1 / (p : K) ≤ 1) :=
  ⟨ema_alpha_range p hp, rma_alpha_range p hp⟩

/-! ### RMA -/

/-- **RMA recurrence** `r[t] = a·x[t] + (1−a)·r[t−1]`, `a = 1/period`. -/
theorem rma_step (x : Ctx K) (period : Int) (input : String) (prev cur : Num K)
    (hprev : x.prevReading x.name = .ok (.num prev)) (hc : x.reading input = .ok (.num cur))
    (hp : (period : K) ≠ 0) :
    Calc.rma x period input =
      .ok (.flt (1 / (period : K) * cur.toF + (1 - 1 / (period : K)) * prev.toF)) :=
  rma_rec x period input prev cur hprev hc hp

example : Calc.rma (Demo.ctx "RMA_3") 3 "close"
    = .ok (.flt (1 / ((3 : Int) : ℚ) * (Num.int 15 : Num ℚ).toF + (1 - 1 / ((3 : Int) : ℚ)) * (Num.flt 12 : Num ℚ).toF)) :=
  rma_step (Demo.ctx "RMA_3") 3 "close" (.flt 12) (.int 15) rfl rfl (by norm_num)

/-- **RMA seed** = decay-weighted mean of the first full window, newest input weighted 1:
`Σ_k (1−1/p)^k·x[t−k] / Σ_k (1−1/p)^k`.  The weights depend on the OFFSET `k` only – not on the
absolute index – so an input that starts late is seeded the same way. -/
theorem rma_seed (x : Ctx K) (p : Nat) (input : String) (r : Nat → Num K)
    (hprev : x.prevReading x.name = .ok .none) (hrp : x.readingPeriod p input = true) (hp1 : 1 ≤ p)
    (h : ∀ k, k < p → x.reading input (some (x.i - k)) = .ok (.num (r k))) :
    Calc.rma x p input = .ok (.flt (rsum p (fun k => (1 - 1 / (p : K)) ^ k * (r k).toF)
                                    / rsum p (fun k => (1 - 1 / (p : K)) ^ k))) :=
  rma_seed_window x p input r hprev hrp hp1 h

example : Calc.rma (Demo.ctx "RMA_3" 2) (3 : Nat) "close"
    = .ok (.flt (rsum 3 (fun k => (1 - 1 / ((3 : Nat) : ℚ)) ^ k * ((fun j => Num.int ([14, 12, 11].getD j 0)) k : Num ℚ).toF)
                 / rsum 3 (fun k => (1 - 1 / ((3 : Nat) : ℚ)) ^ k))) :=
  rma_seed (Demo.ctx "RMA_3" 2) 3 "close" (fun j => .int ([14, 12, 11].getD j 0)) rfl (by decide)
    (by norm_num) (by intro j hj; interval_cases j <;> rfl)

/-- the RMA seed is a weighted mean with non-negative weights, hence within its inputs -/
theorem rma_seed_within (p : Nat) (r : Nat → K) (lo hi : K) (hp : 1 ≤ p)
    (hr : ∀ k, k < p → lo ≤ r k ∧ r k ≤ hi) :
    lo ≤ rsum p (fun k => (1 - 1 / (p : K)) ^ k * r k) / rsum p (fun k => (1 - 1 / (p : K)) ^ k) ∧
    rsum p (fun k => (1 - 1 / (p : K)) ^ k * r k) / rsum p (fun k => (1 - 1 / (p : K)) ^ k) ≤ hi := by
  have hb : (0 : K) ≤ 1 - 1 / (p : K) := by
    have h1 : (1 : K) ≤ p := by exact_mod_cast hp
    have : 1 / (p : K) ≤ 1 := by rw [div_le_one (by linarith)]; exact h1
    linarith
  exact wmean_between p (fun k => (1 - 1 / (p : K)) ^ k) r lo hi (fun k _ => pow_nonneg hb k)
    (rsum_pow_pos p _ hb hp) hr

/-! ### WMA, VWMA -/

/-- **WMA** = `Σ_k (period−k)·x[t−k] / Σ_k (period−k)` (newest input weighted `period`;
the divisor is `period(period+1)/2`). -/
theorem wma (x : Ctx K) (p : Nat) (input : String) (pv : Val K) (r : Nat → Num K)
    (hprev : x.prevReading x.name = .ok pv)
    (hg : pv.isNone = false ∨ x.readingPeriod p input = true) (hp1 : 1 ≤ p)
    (h : ∀ k, k < p → x.reading input (some (x.i - k)) = .ok (.num (r k))) :
    Calc.wma x p input = .ok (.flt (rsum p (fun k => ((p : K) - k) * (r k).toF)
                                    / rsum p (fun k => (p : K) - k))) ∧
    rsum p (fun k => (p : K) - k) = (p : K) * (p + 1) / 2 :=
  ⟨wma_def x p input pv r hprev hg hp1 h, wma_weight_sum p⟩

example : Calc.wma (Demo.ctx "WMA_3") (3 : Nat) "close"
    = .ok (.flt (rsum 3 (fun k => (((3 : Nat) : ℚ) - k) * ((fun j => Num.int ([15, 14, 12].getD j 0)) k : Num ℚ).toF)
                 / rsum 3 (fun k => ((3 : Nat) : ℚ) - k))) :=
  (wma (Demo.ctx "WMA_3") 3 "close" .none (fun j => .int ([15, 14, 12].getD j 0)) rfl (Or.inr (by decide))
    (by norm_num) (by intro j hj; interval_cases j <;> rfl)).1

theorem wma_within (p : Nat) (r : Nat → K) (lo hi : K) (hp : 1 ≤ p)
    (hr : ∀ k, k < p → lo ≤ r k ∧ r k ≤ hi) :
    lo ≤ rsum p (fun k => ((p : K) - k) * r k) / rsum p (fun k => (p : K) - k) ∧
    rsum p (fun k => ((p : K) - k) * r k) / rsum p (fun k => (p : K) - k) ≤ hi := by
  have hpK : (0 : K) < p := by exact_mod_cast (by omega : 0 < p)
  refine wmean_between p (fun k => (p : K) - k) r lo hi (fun k hk => ?_) ?_ hr
  · have : (k : K) ≤ p := by exact_mod_cast hk.le
    linarith
  · rw [wma_weight_sum]; positivity

/-- **VWMA** = `Σ close·volume / Σ volume` over the window; with zero window volume the plain
mean of the closes (the division is guarded – see C09). -/
theorem vwma (x : Ctx K) (p : Nat) (pv : Val K) (c v : Nat → Num K)
    (hprev : x.prevReading x.name = .ok pv)
    (hg : pv.isNone = false ∨ x.readingPeriod p "close" = true)
    (hp1 : 1 ≤ p) (hpi : (p : Int) ≤ x.i + 1) (hi0 : 1 ≤ x.i)
    (hc : ∀ j, j < p → x.reading "close" (some (x.i + 1 - p + j)) = .ok (.num (c j)))
    (hv : ∀ j, j < p → x.reading "volume" (some (x.i + 1 - p + j)) = .ok (.num (v j))) :
    Calc.vwma x p = .ok (.flt (
      if rsum p (fun j => (v j).toF) = 0 then rsum p (fun j => (c j).toF) / p
      else rsum p (fun j => (c j).toF * (v j).toF) / rsum p (fun j => (v j).toF))) :=
  vwma_def x p pv c v hprev hg hp1 hpi hi0 hc hv

example : ∃ y : ℚ, Calc.vwma (Demo.ctx "VWMA_3") (3 : Nat) = .ok (.flt y) :=
  ⟨_, vwma (Demo.ctx "VWMA_3") 3 .none (fun j => .int ([12, 14, 15].getD j 0)) (fun j => .int ([200, 300, 0].getD j 0))
    rfl (Or.inr (by decide)) (by norm_num) (by decide) (by decide)
    (by intro j hj; interval_cases j <;> rfl) (by intro j hj; interval_cases j <;> rfl)⟩

/-- VWMA lies within its closes (volumes are non-negative weights) -/
theorem vwma_within (p : Nat) (c v : Nat → K) (lo hi : K) (hp : 1 ≤ p)
    (hv : ∀ k, k < p → 0 ≤ v k) (hc : ∀ k, k < p → lo ≤ c k ∧ c k ≤ hi) :
    lo ≤ (if rsum p v = 0 then rsum p c / p else rsum p (fun j => c j * v j) / rsum p v) ∧
    (if rsum p v = 0 then rsum p c / p else rsum p (fun j => c j * v j) / rsum p v) ≤ hi := by
  by_cases h0 : rsum p v = 0
  · simp only [h0, if_true]; exact mean_between p c lo hi hp hc
  · simp only [h0, if_false]
    have hpos : 0 < rsum p v := lt_of_le_of_ne (rsum_nonneg p v hv) (Ne.symm h0)
    have := wmean_between p v c lo hi hv hpos hc
    simpa [mul_comm] using this

/-! ### HMA (one call; the whole series is below) -/

/-- **HMA raw series** = `2·WMA(period/2) − WMA(period)`; the reading is the `WMA(√period)` helper
over that series (the helper is an ordinary WMA, covered by `wma`). -/
theorem hma_raw (ops : Ops K) (x : Ctx K) (cs1 : List (Candle K)) (w wh : Num K) (r : Val K)
    (hw : x.reading (x.name ++ "_WMA") = .ok (.num w))
    (hwh : x.reading (x.name ++ "_WMAh") = .ok (.num wh))
    (hset : ops.setManaged "raw_HMA" (.num (((Num.int 2).mul wh).sub w)) x.cs = .ok cs1)
    (hr : (Ctx.on x cs1).reading (x.name ++ "_HMAs") = .ok r) :
    Calc.hma ops x = .ok (r, cs1) ∧ (((Num.int 2 : Num K).mul wh).sub w).toF = 2 * wh.toF - w.toF :=
  hma_def ops x cs1 w wh r hw hwh hset hr

/-! ### position independence -/

/-- **Position independence (seed).**  Two contexts – different lists, different absolute
indices – whose last `period` inputs agree give the same first SMA/EMA reading. -/
theorem seed_position_independent (x y : Ctx K) (p : Nat) (input input' : String) (s : Num K) (r : Nat → Num K)
    (hx : x.prevReading x.name = .ok .none) (hy : y.prevReading y.name = .ok .none)
    (hrx : x.readingPeriod p input = true) (hry : y.readingPeriod p input' = true)
    (hp1 : 1 ≤ p) (hxi : (p : Int) ≤ x.i + 1) (hyi : (p : Int) ≤ y.i + 1) (hx0 : 1 ≤ x.i) (hy0 : 1 ≤ y.i)
    (h1 : ∀ j, j < p → x.reading input (some (x.i + 1 - p + j)) = .ok (.num (r j)))
    (h2 : ∀ j, j < p → y.reading input' (some (y.i + 1 - p + j)) = .ok (.num (r j))) :
    Calc.sma x p input = Calc.sma y p input' ∧ Calc.ema x p input s = Calc.ema y p input' s := by
  rw [sma_seed x p input r hx hrx hp1 hxi hx0 h1, sma_seed y p input' r hy hry hp1 hyi hy0 h2,
    ema_seed x p input s r hx hrx hp1 hxi hx0 h1, ema_seed y p input' s r hy hry hp1 hyi hy0 h2]
  exact ⟨rfl, rfl⟩

/-- **Position independence (RMA seed)** – the property the absolute-index version of the seed
violated. -/
theorem rma_seed_position_independent (x y : Ctx K) (p : Nat) (input input' : String) (r : Nat → Num K)
    (hx : x.prevReading x.name = .ok .none) (hy : y.prevReading y.name = .ok .none)
    (hrx : x.readingPeriod p input = true) (hry : y.readingPeriod p input' = true) (hp1 : 1 ≤ p)
    (h1 : ∀ k, k < p → x.reading input (some (x.i - k)) = .ok (.num (r k)))
    (h2 : ∀ k, k < p → y.reading input' (some (y.i - k)) = .ok (.num (r k))) :
    Calc.rma x p input = Calc.rma y p input' := by
  rw [rma_seed x p input r hx hrx hp1 h1, rma_seed y p input' r hy hry hp1 h2]

/-- **Position independence (recurrences).**  Same previous reading and same current input ⇒ same
EMA and RMA reading, wherever the candles sit. -/
theorem step_position_independent (x y : Ctx K) (period : Int) (input input' : String) (s prev cur : Num K)
    (hx : x.prevReading x.name = .ok (.num prev)) (hy : y.prevReading y.name = .ok (.num prev))
    (hcx : x.reading input = .ok (.num cur)) (hcy : y.reading input' = .ok (.num cur))
    (hp : (period : K) + 1 ≠ 0) (hp0 : (period : K) ≠ 0) :
    Calc.ema x period input s = Calc.ema y period input' s ∧ Calc.rma x period input = Calc.rma y period input' := by
  rw [ema_step x period input s prev cur hx hcx hp, ema_step y period input' s prev cur hy hcy hp,
    rma_step x period input prev cur hx hcx hp0, rma_step y period input' prev cur hy hcy hp0]
  exact ⟨rfl, rfl⟩

/-! ### rounding error budgets -/

/-- stored EMA/RMA readings stay within `ε/a` of the exact recurrence, step after step -/
theorem ema_rounding_budget (n : Nat) (a c prevS prevE : K) (ha0 : 0 < a) (ha1 : a ≤ 1)
    (h : |prevS - prevE| ≤ eps K n / a) :
    |PyF.round n (a * c + (1 - a) * prevS) - (a * c + (1 - a) * prevE)| ≤ eps K n / a :=
  ema_error_budget n a c prevS prevE ha0 ha1 h

/-- each stored running-SMA step adds at most `ε` to the deviation from the exact window mean -/
theorem sma_rounding_budget (n : Nat) (p old cur prevS prevE e : K) (h : |prevS - prevE| ≤ e) :
    |PyF.round n (prevS - (old - cur) / p) - (prevE - (old - cur) / p)| ≤ e + eps K n :=
  sma_error_budget n p old cur prevS prevE e h

/-- the first stored reading of a seeded average is within `ε` of the exact window mean -/
theorem seed_rounding (n : Nat) (v : Num K) : |(v.roundBy n).toF - v.toF| ≤ eps K n :=
  stored_close n v

/-! ### whole series (top-level average over a candle field) -/

/-- **SMA, whole series.**  For every stream of raw candles, every `period ≥ 2`, every candle
field and every `round_value`: the run never raises; reading `j` is `None` for `j < period − 1`
and otherwise a float within `(j − (period−1) + 1)·ε` of the mean of inputs `j−period+1 … j`. -/
theorem sma_series (p : Nat) (hp : 2 ≤ p) (nm input : String) (fld : Candle K → Num K) (n : Nat)
    (hk : IsKey nm) (hd : NoDot input) (hattr : ∀ c : Candle K, c.attr input = some (.num (fld c)))
    (raw : List (Candle K)) (hraw : ∀ c ∈ raw, Plain c) :
    ∃ vs : List (Val K), vs.length = raw.length ∧
      rowMajor (mkTop (.sma p input) nm n) raw = .ok (deco nm raw vs) ∧
      ∀ j, j < raw.length → SmaOK p n (fieldAt fld raw) j (vs.getD j .none) :=
  Numeric.sma_series p hp nm input fld n hk hd hattr raw hraw

/-- five raw candles over ℚ -/
def demoRaw : List (Candle ℚ) :=
  [Demo.mk 10 12 9 11 100, Demo.mk 11 13 10 12 200, Demo.mk 12 15 11 14 300, Demo.mk 14 16 13 15 0,
   Demo.mk 15 15 15 15 0]

theorem demoRaw_plain : ∀ c ∈ demoRaw, Plain c := by
  intro c hc
  simp only [demoRaw, List.mem_cons, List.not_mem_nil, or_false] at hc
  rcases hc with rfl | rfl | rfl | rfl | rfl <;> exact ⟨rfl, rfl⟩

example : ∃ vs : List (Val ℚ), vs.length = demoRaw.length ∧
    rowMajor (mkTop (.sma (3 : Nat) "close") "SMA_3" 4) demoRaw = .ok (deco "SMA_3" demoRaw vs) ∧
    ∀ j, j < demoRaw.length → SmaOK 3 4 (fieldAt (·.c) demoRaw) j (vs.getD j .none) :=
  sma_series 3 (by norm_num) "SMA_3" "close" (·.c) 4 (by decide) noDot_close (fun _ => rfl) demoRaw demoRaw_plain

/-- **EMA, whole series**: `None` before index `period − 1`, seeded there by the window mean, then
`r[t] = a·x[t] + (1−a)·r[t−1]`, `a = smoothing/(period+1)`; every stored reading within `ε/a` of
the exact series `recExact`. -/
theorem ema_series (p : Nat) (hp : 2 ≤ p) (s : Num K) (nm input : String) (fld : Candle K → Num K) (n : Nat)
    (ha0 : 0 < s.toF / ((p : K) + 1)) (ha1 : s.toF / ((p : K) + 1) ≤ 1)
    (hk : IsKey nm) (hd : NoDot input) (hattr : ∀ c : Candle K, c.attr input = some (.num (fld c)))
    (raw : List (Candle K)) (hraw : ∀ c ∈ raw, Plain c) :
    ∃ vs : List (Val K), vs.length = raw.length ∧
      rowMajor (mkTop (.ema p input s) nm n) raw = .ok (deco nm raw vs) ∧
      ∀ j, j < raw.length → RecOK p n (s.toF / ((p : K) + 1))
        (recExact (s.toF / ((p : K) + 1)) (winMean (fieldAt fld raw) p (p - 1)) (fieldAt fld raw) p) j (vs.getD j .none) :=
  Numeric.ema_series p hp s nm input fld n ha0 ha1 hk hd hattr raw hraw

example : ∃ vs : List (Val ℚ), vs.length = demoRaw.length ∧
    rowMajor (mkTop (.ema (3 : Nat) "close" (fl 2)) "EMA_3" 4) demoRaw = .ok (deco "EMA_3" demoRaw vs) ∧
    ∀ j, j < demoRaw.length → RecOK 3 4 ((fl 2 : Num ℚ).toF / (((3 : Nat) : ℚ) + 1))
      (recExact ((fl 2 : Num ℚ).toF / (((3 : Nat) : ℚ) + 1)) (winMean (fieldAt (·.c) demoRaw) 3 (3 - 1))
        (fieldAt (·.c) demoRaw) 3) j (vs.getD j .none) :=
  ema_series 3 (by norm_num) (fl 2) "EMA_3" "close" (·.c) 4 (by simp; norm_num) (by simp; norm_num)
    (by decide) noDot_close (fun _ => rfl) demoRaw demoRaw_plain

/-- **RMA, whole series**: seeded at index `period − 1` by the decay-weighted window mean (weights
by OFFSET), then `r[t] = x[t]/p + (1−1/p)·r[t−1]`; every stored reading within `ε·p` of the exact
series. -/
theorem rma_series (p : Nat) (hp : 2 ≤ p) (nm input : String) (fld : Candle K → Num K) (n : Nat)
    (hk : IsKey nm) (hd : NoDot input) (hattr : ∀ c : Candle K, c.attr input = some (.num (fld c)))
    (raw : List (Candle K)) (hraw : ∀ c ∈ raw, Plain c) :
    ∃ vs : List (Val K), vs.length = raw.length ∧
      rowMajor (mkTop (.rma p input) nm n) raw = .ok (deco nm raw vs) ∧
      ∀ j, j < raw.length → RecOK p n (1 / (p : K))
        (recExact (1 / (p : K)) (decayMean (fieldAt fld raw) p (p - 1)) (fieldAt fld raw) p) j (vs.getD j .none) :=
  Numeric.rma_series p hp nm input fld n hk hd hattr raw hraw

/-- **WMA, whole series**: every reading from index `period − 1` on within `ε` of the linearly
weighted window mean. -/
theorem wma_series (p : Nat) (hp : 2 ≤ p) (nm input : String) (fld : Candle K → Num K) (n : Nat)
    (hk : IsKey nm) (hd : NoDot input) (hattr : ∀ c : Candle K, c.attr input = some (.num (fld c)))
    (raw : List (Candle K)) (hraw : ∀ c ∈ raw, Plain c) :
    ∃ vs : List (Val K), vs.length = raw.length ∧
      rowMajor (mkTop (.wma p input) nm n) raw = .ok (deco nm raw vs) ∧
      ∀ j, j < raw.length → DirectOK p n (wmaAt (fieldAt fld raw) p) j (vs.getD j .none) :=
  Numeric.wma_series p hp nm input fld n hk hd hattr raw hraw

/-- **VWMA, whole series**: every reading from index `period − 1` on within `ε` of the
volume-weighted window mean (plain mean on zero-volume windows); the run never raises. -/
theorem vwma_series (p : Nat) (hp : 2 ≤ p) (nm : String) (n : Nat) (hk : IsKey nm)
    (raw : List (Candle K)) (hraw : ∀ c ∈ raw, Plain c) :
    ∃ vs : List (Val K), vs.length = raw.length ∧
      rowMajor (mkTop (.vwma p) nm n) raw = .ok (deco nm raw vs) ∧
      ∀ j, j < raw.length →
        DirectOK p n (vwmaAt (fieldAt (·.c) raw) (fieldAt (·.v) raw) p) j (vs.getD j .none) :=
  Numeric.vwma_series p hp nm n hk raw hraw

example : ∃ vs : List (Val ℚ), vs.length = demoRaw.length ∧
    rowMajor (mkTop (.vwma (2 : Nat)) "VWMA_2" 4) demoRaw = .ok (deco "VWMA_2" demoRaw vs) ∧
    ∀ j, j < demoRaw.length →
      DirectOK 2 4 (vwmaAt (fieldAt (·.c) demoRaw) (fieldAt (·.v) demoRaw) 2) j (vs.getD j .none) :=
  vwma_series 2 (by norm_num) "VWMA_2" 4 (by decide) demoRaw demoRaw_plain

/-! ### the leaf averages through the engine and the object -/

/-- **… through the engine and the object.**  For every `Covered` leaf kind – SMA, EMA, RMA, WMA,
VWMA with `period ≥ 1`, an ordinary name and a candle-attribute input – and every raw stream:
whenever the row-major run of the series theorems above returns `out`, the engine's `calculate()`
on the raw candles (`engineCalc` = `calculate` with the fuel the object passes) and the batch run
of the object (build over the whole stream, `calculate()` once) return exactly `out`. -/
theorem series_engine (k : Kind K) (nm : String) (n : Nat) (hc : Covered nm k)
    (raw : List (Candle K)) (hraw : ∀ c ∈ raw, Plain c) (out : List (Candle K))
    (h : rowMajor (mkTop k nm n) raw = .ok out) :
    engineCalc (mkTop k nm n) raw = .ok out ∧
    candlesOf (runIndicator (mkTop k nm n) {} raw []) = .ok out :=
  leaf_series_engine k nm n hc raw hraw out h

/-- **… for every append schedule**: whenever a live history (construction over `init`,
`calculate()`, then the appends `chunks`, each followed by `calculate()`) returns `snap`, `snap` is
the row-major run over the whole stream – the candles the series theorems describe. -/
theorem series_live (k : Kind K) (nm : String) (n : Nat) (hc : Covered nm k)
    (init : List (Candle K)) (chunks : List (List (Candle K)))
    (hraw : ∀ c ∈ init ++ chunks.flatten, Plain c) (snap out : List (Candle K))
    (hsnap : candlesOf (runIndicator (mkTop k nm n) {} init chunks) = .ok snap)
    (h : rowMajor (mkTop k nm n) (init ++ chunks.flatten) = .ok out) : snap = out :=
  leaf_series_live k nm n hc init chunks hraw snap out hsnap h

/-- `SMA_3` over the demo candles, through the engine and the object -/
example : ∃ vs : List (Val ℚ), vs.length = demoRaw.length ∧
    engineCalc (mkTop (.sma (3 : Nat) "close") "SMA_3" 4) demoRaw = .ok (deco "SMA_3" demoRaw vs) ∧
    candlesOf (runIndicator (mkTop (.sma (3 : Nat) "close") "SMA_3" 4) {} demoRaw []) = .ok (deco "SMA_3" demoRaw vs) ∧
    ∀ j, j < demoRaw.length → SmaOK 3 4 (fieldAt (·.c) demoRaw) j (vs.getD j .none) := by
  obtain ⟨vs, h1, h2, h3⟩ := sma_series 3 (by norm_num) "SMA_3" "close" (·.c) 4 (by decide) noDot_close
    (fun _ => rfl) demoRaw demoRaw_plain
  obtain ⟨e1, e2⟩ := series_engine _ "SMA_3" 4
    (Covered.sma _ _ (by decide) (by decide) ⟨noDot_close, by decide⟩) demoRaw demoRaw_plain _ h2
  exact ⟨vs, h1, e1, e2, h3⟩

/-! ### HMA, whole series (two prior WMA helpers, managed raw series, smoothing WMA) -/

/-- **HMA, whole series** (row-major run of `hmaTree`; `period = p ≥ 2`, input a candle field, the
five names `name`, `name_WMA`, `name_WMAh`, `name_HMAr`, `name_HMAs` ordinary pairwise distinct keys:
`HmaNames`).  For EVERY raw stream the run returns, and the result is `hmaDeco`: candle `j` is raw
candle `j` carrying exactly the row `hmaRow p x j` – an explicit function of the raw candles
(`x` = the input series): `name_WMA = round₄(WMA_p(x))` from index `p − 1`,
`name_WMAh = round₄(WMA_{⌊p/2⌋}(x))` from `⌊p/2⌋ − 1`, `name_HMAr = 2·name_WMAh − name_WMA` UNROUNDED
from `p − 1`, `name_HMAs = round₄(WMA_{⌊√p⌋}(name_HMAr))` from the TRUE WARM-UP INDEX
`hmaT0 p = (p − 1) + (⌊√p⌋ − 1)`, own reading `= round_n(name_HMAs)`. -/
theorem hma_series (p : Nat) (hp : 2 ≤ p) (nm input : String) (fld : Candle K → Num K) (n : Nat)
    (hn : HmaNames nm) (hin : NoDot input ∧ input ∈ Candle.attrNames)
    (hattr : ∀ c : Candle K, c.attr input = some (.num (fld c)))
    (raw : List (Candle K)) (hraw : ∀ c ∈ raw, Plain c) :
    Gen.rowMajor (hmaTree (F := K) nm n (p : Int) input (by omega) hn hin).S raw
      = .ok (hmaDeco nm n p fld raw) :=
  Numeric.hma_series p hp nm input fld n hn hin hattr raw hraw

/-- **HMA, whole series, candle by candle**: candle `j` of `hmaDeco` is raw candle `j` (same bare
candle) and its five entries satisfy `HmaOK` against the textbook series
`hmaSeries p x = WMA_{⌊√p⌋}(2·WMA_{⌊p/2⌋}(x) − WMA_p(x))`:
`name_WMA` / `name_WMAh` `None` before `p − 1` / `⌊p/2⌋ − 1`, then within `ε₄`;
`name_HMAr` absent before `p − 1`, then exactly `2·name_WMAh − name_WMA` of the stored readings,
within `3·ε₄` of the textbook raw value; `name_HMAs` `None` before `hmaT0 p`, then within `4·ε₄`
(the budget does not grow: WMA is a convex combination); the own reading `None` before `hmaT0 p`,
then within `ε_n + 4·ε₄` of the textbook HMA. -/
theorem hma_candles (p : Nat) (hp : 2 ≤ p) (nm : String) (fld : Candle K → Num K) (n : Nat)
    (hn : HmaNames nm) (raw : List (Candle K)) (hraw : ∀ c ∈ raw, Plain c) (j : Nat) (hj : j < raw.length) :
    ((hmaDeco nm n p fld raw).getD j default).bare = (raw.getD j default).bare ∧
    HmaOK n p (fieldAt fld raw) j
      (readingByCandle ((hmaDeco nm n p fld raw).getD j default) nm)
      (readingByCandle ((hmaDeco nm n p fld raw).getD j default) (nm ++ "_WMA"))
      (readingByCandle ((hmaDeco nm n p fld raw).getD j default) (nm ++ "_WMAh"))
      (readingByCandle ((hmaDeco nm n p fld raw).getD j default) (nm ++ "_HMAr"))
      (readingByCandle ((hmaDeco nm n p fld raw).getD j default) (nm ++ "_HMAs")) :=
  hmaDeco_ok p hp nm fld n hn raw hraw j hj

/-- **the rounding budget of the stored smoothed reading**: `4·ε₄` at EVERY index (`3·ε₄` from the
two rounded helpers entering `2·WMAh − WMA`, not amplified by the smoothing WMA, plus its own
rounding to 4 decimals); the true warm-up index is the sum of the two waits. -/
theorem hma_budget (p : Nat) (x : Nat → K) (hp : 1 ≤ p) (j : Nat) :
    |hmaS4 p x j - hmaExact p x j| ≤ 4 * eps K defaultRound ∧ hmaT0 p = (p - 1) + (Nat.sqrt p - 1) :=
  ⟨hmaS4_err p x hp j, hmaT0_eq p hp⟩

/-- with the default `rounding = 4` the own reading IS the stored `name_HMAs` reading -/
theorem hma_own_default {p : Nat} {x : Nat → K} {j : Nat} {own w wh r s : Val K}
    (h : HmaOK defaultRound p x j own w wh r s) : own = s :=
  h.own_default

/-- **… through the object**: building the indicator over the raw candles and calling `calculate()`
once (the batch run) returns exactly the candles of `hma_series`. -/
theorem hma_series_batch (p : Nat) (hp : 2 ≤ p) (nm input : String) (fld : Candle K → Num K) (n : Nat)
    (hn : HmaNames nm) (hin : NoDot input ∧ input ∈ Candle.attrNames)
    (hattr : ∀ c : Candle K, c.attr input = some (.num (fld c)))
    (raw : List (Candle K)) (hraw : ∀ c ∈ raw, Plain c) :
    candlesOf (runIndicator (mkTop (.hma (p : Int) input : Kind K) nm n) {} raw [])
      = .ok (hmaDeco nm n p fld raw) :=
  Numeric.hma_series_batch p hp nm input fld n hn hin hattr raw hraw

/-- **… and through the engine**: `calculate()` on the raw candles returns the same candles. -/
theorem hma_series_engine (p : Nat) (hp : 2 ≤ p) (nm input : String) (fld : Candle K → Num K) (n : Nat)
    (hn : HmaNames nm) (hin : NoDot input ∧ input ∈ Candle.attrNames)
    (hattr : ∀ c : Candle K, c.attr input = some (.num (fld c)))
    (raw : List (Candle K)) (hraw : ∀ c ∈ raw, Plain c) :
    engineCalc (mkTop (.hma (p : Int) input : Kind K) nm n) raw = .ok (hmaDeco nm n p fld raw) :=
  Numeric.hma_series_engine p hp nm input fld n hn hin hattr raw hraw

/-- **whenever the batch run returns, its candles carry exactly those readings** (and it does
return: `hma_series_batch`): same length, same bare candles, `HmaOK` on every candle. -/
theorem hma_batch_readings (p : Nat) (hp : 2 ≤ p) (nm input : String) (fld : Candle K → Num K) (n : Nat)
    (hn : HmaNames nm) (hin : NoDot input ∧ input ∈ Candle.attrNames)
    (hattr : ∀ c : Candle K, c.attr input = some (.num (fld c)))
    (raw : List (Candle K)) (hraw : ∀ c ∈ raw, Plain c) (out : List (Candle K))
    (hout : candlesOf (runIndicator (mkTop (.hma (p : Int) input : Kind K) nm n) {} raw []) = .ok out) :
    out = hmaDeco nm n p fld raw ∧ out.length = raw.length ∧
    ∀ j, j < raw.length →
      (out.getD j default).bare = (raw.getD j default).bare ∧
      HmaOK n p (fieldAt fld raw) j
        (readingByCandle (out.getD j default) nm) (readingByCandle (out.getD j default) (nm ++ "_WMA"))
        (readingByCandle (out.getD j default) (nm ++ "_WMAh")) (readingByCandle (out.getD j default) (nm ++ "_HMAr"))
        (readingByCandle (out.getD j default) (nm ++ "_HMAs")) :=
  Numeric.hma_batch_readings p hp nm input fld n hn hin hattr raw hraw out hout

/-- **… for every append schedule**: whenever a live history (construction over `init`,
`calculate()`, then any appends) returns, its candles are those of `hma_series` over the whole
stream. -/
theorem hma_series_live (p : Nat) (hp : 2 ≤ p) (nm input : String) (fld : Candle K → Num K) (n : Nat)
    (hn : HmaNames nm) (hin : NoDot input ∧ input ∈ Candle.attrNames)
    (hattr : ∀ c : Candle K, c.attr input = some (.num (fld c)))
    (init : List (Candle K)) (chunks : List (List (Candle K)))
    (hraw : ∀ c ∈ init ++ chunks.flatten, Plain c) (snap : List (Candle K))
    (hsnap : candlesOf (runIndicator (mkTop (.hma (p : Int) input : Kind K) nm n) {} init chunks) = .ok snap) :
    snap = hmaDeco nm n p fld (init ++ chunks.flatten) :=
  Numeric.hma_series_live p hp nm input fld n hn hin hattr init chunks hraw snap hsnap

/-- `HMA(period = 4)` on `close` over the five demo candles (closes 11, 12, 14, 15, 15): the batch
run returns `hmaDeco`; the true warm-up index is `hmaT0 4 = (4 − 1) + (2 − 1) = 4`; on candle 4 the
own reading is within `ε₄ + 4·ε₄` of the textbook value.  (HexProofs/Numeric/SeriesHMA.lean evaluates
this run: `HMA_4_WMA = 13.7`, `HMA_4_WMAh = 14.6667`, `HMA_4_HMAr = 15.6334`, `HMA_4_HMAs = None` on
candle 3; `HMA_4_HMAr = 15.5`, `HMA_4_HMAs = HMA_4 = 15.5445` on candle 4; textbook `1399/90`.) -/
example : candlesOf (runIndicator (mkTop (.hma ((4 : Nat) : Int) "close" : Kind ℚ) "HMA_4" 4) {} demoRaw [])
      = .ok (hmaDeco "HMA_4" 4 4 (·.c) demoRaw) ∧
    Within (hmaSeries 4 (fieldAt (·.c) demoRaw) 4) (eps ℚ 4 + 4 * eps ℚ defaultRound)
      (readingByCandle ((hmaDeco "HMA_4" 4 4 (·.c) demoRaw).getD 4 default) "HMA_4") :=
  ⟨hma_series_batch 4 (by norm_num) "HMA_4" "close" (·.c) 4 hmaNames_demo ⟨noDot_close, by decide⟩
      (fun _ => rfl) demoRaw demoRaw_plain,
   (hma_candles 4 (by norm_num) "HMA_4" (·.c) 4 hmaNames_demo demoRaw demoRaw_plain 4 (by decide)).2.own_ok⟩

example : hmaT0 4 = 4 := by rw [(hma_budget (K := ℚ) 4 (fun _ => 0) (by norm_num) 0).2, sqrt_four]

/-! ### what is still open -/

/-- the input series read off a candle list: `none` where the input reading is missing -/
def inputAt (cs : List (Candle K)) (input : String) (j : Nat) : Option K :=
  match readingByCandle (cs.getD j default) input with
  | .s (.num r) => some r.toF
  | _ => none

/-- The full property, stated for SMA (EMA, RMA, WMA, VWMA, HMA: the same shape with `RecOK` /
`DirectOK` / `HmaOK` and their exact series): for EVERY candle list – possibly already holding other
indicators' readings – and every input name (a candle field or another indicator's reading that is
missing on the first `t0` candles and numeric afterwards), the ENGINE `calculate()` never raises and
stores under `nm` exactly `None` on the first `t0 + period − 1` candles and afterwards a float
within the budget of the mean of the last `period` inputs – i.e. the result depends on the input
values only, not on `t0`.
(Corrected statement: the earlier version ran `calculate (fuelFor cs)`; what the object's
`calculate()` runs is `engineCalc ind cs = calculate (fuelFor cs + 1) ind cs` – `IndState.calculate_engine`
– and that is what the proved instances below and C01 are about.)
FALSE AS WRITTEN (`C04_FULL_false`): "not a number on the first `t0` candles" admits a BOOL column (`positive`), which the library
counts as a reading and sums as 0/1 (a dict there raises `TypeError`) – replayed on the library.  With the one extra hypothesis that the
input reading is `None` on the first `t0` candles the statement is PROVED for every candle list, whatever else it holds:
`C04_FULL_partial_holds` (SMA), `C04_EMA_/RMA_/WMA_inputs_holds`, `C04_VWMA_foreign_holds` (end of this file).
Proved earlier: the instance for raw candles and candle-field inputs (`t0 = 0`,
`C04_FULL_raw`; likewise EMA, RMA, WMA, VWMA by `*_series` + `series_engine`, HMA by
`hma_series_engine`, every append schedule by `series_live` / `hma_series_live`), and, for arbitrary
inputs and start positions, every single call (`sma_seed`, `sma_step`, `ema_*`, `rma_*`, `wma`,
`vwma`, `*_position_independent`).  Missing: the series induction over candle lists that hold
foreign readings and a late-starting reading as input (needs the key-locality half of the framework
`Contract` along foreign columns for every kind), the composition with a collapsing timeframe, IEEE
effects. -/
def C04_FULL : Prop :=
  ∀ (K : Type) [Field K] [LinearOrder K] [IsStrictOrderedRing K] [LawfulPyF K]
    (p : Nat) (nm input : String) (n t0 : Nat) (cs : List (Candle K)) (x : Nat → K),
    2 ≤ p → IsKey nm → nm ≠ input →
    (∀ c ∈ cs, dlookup nm c.inds = none ∧ dlookup nm c.subs = none) →
    (∀ j, j < cs.length → inputAt cs input j = if j < t0 then none else some (x (j - t0))) →
    ∃ vs : List (Val K), vs.length = cs.length ∧
      engineCalc (mkTop (.sma p input) nm n) cs = .ok (deco nm cs vs) ∧
      ∀ j, j < cs.length →
        (j < t0 → vs.getD j .none = .none) ∧ (t0 ≤ j → SmaOK p n x (j - t0) (vs.getD j .none))

/-- **the proved instance of `C04_FULL`**: raw candles (no foreign readings), input a candle field
(`t0 = 0`) – the engine's `calculate()` never raises and stores the SMA series of `sma_series`. -/
theorem C04_FULL_raw (p : Nat) (hp : 2 ≤ p) (nm input : String) (fld : Candle K → Num K) (n : Nat)
    (hk : IsKey nm) (hin : AttrInput input) (hattr : ∀ c : Candle K, c.attr input = some (.num (fld c)))
    (raw : List (Candle K)) (hraw : ∀ c ∈ raw, Plain c) :
    ∃ vs : List (Val K), vs.length = raw.length ∧
      engineCalc (mkTop (.sma p input) nm n) raw = .ok (deco nm raw vs) ∧
      ∀ j, j < raw.length → SmaOK p n (fieldAt fld raw) j (vs.getD j .none) := by
  obtain ⟨vs, h1, h2, h3⟩ := sma_series p hp nm input fld n hk hin.1 hattr raw hraw
  exact ⟨vs, h1, (series_engine _ nm n (Covered.sma _ _ (by omega) hk hin) raw hraw _ h2).1, h3⟩

/-- **`C04_FULL` is false as written**: it lets the first `t0` input readings be anything that is not a
number; a `bool` is a reading for `reading_period` and counts as `0/1` in `sum(...)`.
Witness: `SMA(period=2, input_value="positive")` over two raw candles stores `[None, 0.5]`, the
statement (with `t0 = 2`) promises `[None, None]`. -/
theorem C04_FULL_false : ¬ C04_FULL := Numeric.c04_full_false

/-- `C04_FULL` with the missing hypothesis made explicit: on the first `t0` candles the input reading is
`None` (absent or stored as `None`). -/
def C04_FULL_partial : Prop :=
  ∀ (K : Type) [Field K] [LinearOrder K] [IsStrictOrderedRing K] [LawfulPyF K]
    (p : Nat) (nm input : String) (n t0 : Nat) (cs : List (Candle K)) (x : Nat → K),
    2 ≤ p → IsKey nm → nm ≠ input →
    (∀ c ∈ cs, dlookup nm c.inds = none ∧ dlookup nm c.subs = none) →
    (∀ j, j < cs.length → inputAt cs input j = if j < t0 then none else some (x (j - t0))) →
    (∀ j, j < cs.length → j < t0 → readingByCandle (cs.getD j default) input = .none) →
    ∃ vs : List (Val K), vs.length = cs.length ∧
      engineCalc (mkTop (.sma p input) nm n) cs = .ok (deco nm cs vs) ∧
      ∀ j, j < cs.length →
        (j < t0 → vs.getD j .none = .none) ∧ (t0 ≤ j → SmaOK p n x (j - t0) (vs.getD j .none))

/-- **the corrected `C04_FULL` holds** (SMA; every candle list, every input name, every start `t0`) -/
theorem C04_FULL_partial_holds : C04_FULL_partial := Numeric.c04_full_partial

/-- the same for EMA (`RecOK`, budget `ε_n/a`), RMA (`RecOK`, `ε_n·p`), WMA (`DirectOK`, `ε_n`) -/
theorem C04_EMA_inputs_holds : Numeric.C04EmaStatement := Numeric.c04_ema
theorem C04_RMA_inputs_holds : Numeric.C04RmaStatement := Numeric.c04_rma
theorem C04_WMA_inputs_holds : Numeric.C04WmaStatement := Numeric.c04_wma

/-- VWMA (no input parameter) over every candle list, whatever it holds under other names -/
theorem C04_VWMA_foreign_holds (p : Nat) (hp : 2 ≤ p) (nm : String) (n : Nat) (hk : IsKey nm)
    (cs : List (Candle K)) (habs : ∀ c ∈ cs, dlookup nm c.inds = none ∧ dlookup nm c.subs = none) :
    ∃ vs : List (Val K), vs.length = cs.length ∧
      engineCalc (mkTop (.vwma p) nm n) cs = .ok (deco nm cs vs) ∧
      ∀ j, j < cs.length →
        DirectOK p n (vwmaAt (fieldAt (·.c) cs) (fieldAt (·.v) cs) p) j (vs.getD j .none) :=
  Numeric.c04_vwma p hp nm n hk cs habs

/-- non-vacuity: `SMA_2` of the foreign reading `"EMA_2"` (`None, None, 12, 14, 15`) of `demoForeign`, a
list that also holds a dict-valued `"MACD"` column and a `.sub_indicators` entry -/
example : ∃ vs : List (Val ℚ), vs.length = demoForeign.length ∧
    engineCalc (mkTop (.sma ((2 : Nat) : Int) "EMA_2") "SMA_2" 4) demoForeign = .ok (deco "SMA_2" demoForeign vs) ∧
    ∀ j, j < demoForeign.length →
      (j < 2 → vs.getD j .none = .none) ∧ (2 ≤ j → SmaOK 2 4 demoX (j - 2) (vs.getD j .none)) :=
  C04_FULL_partial_holds ℚ 2 "SMA_2" "EMA_2" 4 2 demoForeign demoX (by norm_num) (by decide) (by decide)
    (demoForeign_abs "SMA_2" (by decide) (by decide) (by decide)) demoForeign_in demoForeign_none

/-- **HMA over a late-starting foreign input, every candle list** (the HMA item of `C04_FULL`, with the
`None` hypothesis): `HmaOK` of `hma_series`, shifted by `t0`; nothing else changes -/
theorem C04_HMA_inputs_holds : Numeric.C04HmaInputsStatement := Numeric.c04_hma_inputs

/-- … exact rows: candle `j` of the result is input candle `j` carrying the row of `hma_series` at
`j − t0` (`hmaOut`), only `None` readings before `t0` -/
theorem C04_HMA_inputs_rows {K : Type} [Field K] [LinearOrder K] [IsStrictOrderedRing K] [LawfulPyF K]
    (p : Nat) (hp : 2 ≤ p) (nm input : String) (n t0 : Nat) (cs : List (Candle K))
    (r : Nat → Num K) (hn : HmaNames nm) (hi : hmaI_Input nm input) (habs : ∀ c ∈ cs, hmaI_Absent nm c)
    (hnone : ∀ j, j < cs.length → j < t0 → readingByCandle (cs.getD j default) input = .none)
    (hnum : ∀ j, j < cs.length → t0 ≤ j → readingByCandle (cs.getD j default) input = .num (r (j - t0))) :
    ∃ out : List (Candle K), engineCalc (mkTop (.hma (p : Int) input : Kind K) nm n) cs = .ok out ∧
      out.length = cs.length ∧
      ∀ j, j < cs.length →
        out.getD j default = hmaOut nm n (cs.getD j default) (hmaI_row p t0 (fun k => (r k).toF) j) :=
  Numeric.hmaI_rows p hp nm input n t0 cs r hn hi habs hnone hnum

/-- **SMA is its textbook series on every manager** -/
theorem sma_series_on_manager (M : MgrSpec K) (p : Nat) (hp : 2 ≤ p) (nm input : String)
    (fld : Candle K → Num K) (n : Nat) (hk : IsKey nm) (hin : AttrInput input)
    (hattr : ∀ c : Candle K, c.attr input = some (.num (fld c))) :
    HoldsOn M (mkTop (.sma p input) nm n) (SmaCandle p n nm fld) :=
  Numeric.sma_series_on_manager M p hp nm input fld n hk hin hattr

/-- **SMA on a collapsing timeframe**: every history over a sorted stamped raw stream returns one candle per
collapsed bucket, candle `j` being bucket `j` with the SMA of the COLLAPSED candles' inputs -/
theorem sma_series_on_tf (tf : Int) (htf : 0 < tf) (p : Nat) (hp : 2 ≤ p) (nm input : String)
    (fld : Candle K → Num K) (n : Nat) (hk : IsKey nm) (hin : AttrInput input)
    (hattr : ∀ c : Candle K, c.attr input = some (.num (fld c)))
    (init : List (Candle K)) (chunks : List (List (Candle K))) (hraw : RawTf (init ++ chunks.flatten)) :
    ∃ snap, candlesOf (runIndicator (mkTop (.sma p input) nm n) { tf := some tf } init chunks) = .ok snap ∧
      snap.length = (resample tf (init ++ chunks.flatten)).length ∧
      ∀ j, j < (resample tf (init ++ chunks.flatten)).length →
        (snap.getD j default).bare = ((resample tf (init ++ chunks.flatten)).getD j default).bare ∧
        SmaOK p n (fieldAt fld (resample tf (init ++ chunks.flatten))) j (readingByCandle (snap.getD j default) nm) :=
  Numeric.sma_series_tf tf htf p hp nm input fld n hk hin hattr init chunks hraw

/-- **SMA on timeframe + gap filling + Heikin-Ashi** -/
theorem sma_series_on_fillHA (tf : Int) (htf : 0 < tf) (p : Nat) (hp : 2 ≤ p) (nm input : String)
    (fld : Candle K → Num K) (n : Nat) (hk : IsKey nm) (hin : AttrInput input)
    (hattr : ∀ c : Candle K, c.attr input = some (.num (fld c)))
    (init : List (Candle K)) (chunks : List (List (Candle K)))
    (hraw : RawTf (init ++ chunks.flatten) ∧ ∀ c ∈ init ++ chunks.flatten, c.tag = false) :
    ∃ snap, candlesOf (runIndicator (mkTop (.sma p input) nm n) { tf := some tf, fill := true, ha := true }
        init chunks) = .ok snap ∧
      snap.length = (haSpec (fillSpec tf (init ++ chunks.flatten))).length ∧
      ∀ j, j < (haSpec (fillSpec tf (init ++ chunks.flatten))).length →
        (snap.getD j default).bare = ((haSpec (fillSpec tf (init ++ chunks.flatten))).getD j default).bare ∧
        SmaOK p n (fieldAt fld (haSpec (fillSpec tf (init ++ chunks.flatten)))) j
          (readingByCandle (snap.getD j default) nm) :=
  Numeric.sma_series_fillHA tf htf p hp nm input fld n hk hin hattr init chunks hraw

/-- **EMA is its textbook series on every manager** -/
theorem ema_series_on_manager (M : MgrSpec K) (p : Nat) (hp : 2 ≤ p) (s : Num K) (nm input : String)
    (fld : Candle K → Num K) (n : Nat) (ha0 : 0 < s.toF / ((p : K) + 1)) (ha1 : s.toF / ((p : K) + 1) ≤ 1)
    (hk : IsKey nm) (hin : AttrInput input) (hattr : ∀ c : Candle K, c.attr input = some (.num (fld c))) :
    HoldsOn M (mkTop (.ema p input s) nm n) (EmaCandle p n s nm fld) :=
  Numeric.ema_series_on_manager M p hp s nm input fld n ha0 ha1 hk hin hattr

/-- **EMA on a collapsing timeframe** -/
theorem ema_series_on_tf (tf : Int) (htf : 0 < tf) (p : Nat) (hp : 2 ≤ p) (s : Num K) (nm input : String)
    (fld : Candle K → Num K) (n : Nat) (ha0 : 0 < s.toF / ((p : K) + 1)) (ha1 : s.toF / ((p : K) + 1) ≤ 1)
    (hk : IsKey nm) (hin : AttrInput input) (hattr : ∀ c : Candle K, c.attr input = some (.num (fld c)))
    (init : List (Candle K)) (chunks : List (List (Candle K))) (hraw : RawTf (init ++ chunks.flatten)) :
    ∃ snap, candlesOf (runIndicator (mkTop (.ema p input s) nm n) { tf := some tf } init chunks) = .ok snap ∧
      snap.length = (resample tf (init ++ chunks.flatten)).length ∧
      ∀ j, j < (resample tf (init ++ chunks.flatten)).length →
        (snap.getD j default).bare = ((resample tf (init ++ chunks.flatten)).getD j default).bare ∧
        RecOK p n (s.toF / ((p : K) + 1))
          (recExact (s.toF / ((p : K) + 1)) (winMean (fieldAt fld (resample tf (init ++ chunks.flatten))) p (p - 1))
            (fieldAt fld (resample tf (init ++ chunks.flatten))) p) j (readingByCandle (snap.getD j default) nm) :=
  Numeric.ema_series_tf tf htf p hp s nm input fld n ha0 ha1 hk hin hattr init chunks hraw

/-- **EMA on timeframe + gap filling + Heikin-Ashi** -/
theorem ema_series_on_fillHA (tf : Int) (htf : 0 < tf) (p : Nat) (hp : 2 ≤ p) (s : Num K) (nm input : String)
    (fld : Candle K → Num K) (n : Nat) (ha0 : 0 < s.toF / ((p : K) + 1)) (ha1 : s.toF / ((p : K) + 1) ≤ 1)
    (hk : IsKey nm) (hin : AttrInput input) (hattr : ∀ c : Candle K, c.attr input = some (.num (fld c)))
    (init : List (Candle K)) (chunks : List (List (Candle K)))
    (hraw : RawTf (init ++ chunks.flatten) ∧ ∀ c ∈ init ++ chunks.flatten, c.tag = false) :
    ∃ snap, candlesOf (runIndicator (mkTop (.ema p input s) nm n) { tf := some tf, fill := true, ha := true }
        init chunks) = .ok snap ∧
      EveryCandle (EmaCandle p n s nm fld) (haSpec (fillSpec tf (init ++ chunks.flatten))) snap :=
  Numeric.ema_series_fillHA tf htf p hp s nm input fld n ha0 ha1 hk hin hattr init chunks hraw

/-- **RMA is its textbook series on every manager** -/
theorem rma_series_on_manager (M : MgrSpec K) (p : Nat) (hp : 2 ≤ p) (nm input : String)
    (fld : Candle K → Num K) (n : Nat) (hk : IsKey nm) (hin : AttrInput input)
    (hattr : ∀ c : Candle K, c.attr input = some (.num (fld c))) :
    HoldsOn M (mkTop (.rma p input) nm n) (RmaCandle p n nm fld) :=
  Numeric.rma_series_on_manager M p hp nm input fld n hk hin hattr

/-- **RMA on a collapsing timeframe** -/
theorem rma_series_on_tf (tf : Int) (htf : 0 < tf) (p : Nat) (hp : 2 ≤ p) (nm input : String)
    (fld : Candle K → Num K) (n : Nat) (hk : IsKey nm) (hin : AttrInput input)
    (hattr : ∀ c : Candle K, c.attr input = some (.num (fld c)))
    (init : List (Candle K)) (chunks : List (List (Candle K))) (hraw : RawTf (init ++ chunks.flatten)) :
    ∃ snap, candlesOf (runIndicator (mkTop (.rma p input) nm n) { tf := some tf } init chunks) = .ok snap ∧
      snap.length = (resample tf (init ++ chunks.flatten)).length ∧
      ∀ j, j < (resample tf (init ++ chunks.flatten)).length →
        (snap.getD j default).bare = ((resample tf (init ++ chunks.flatten)).getD j default).bare ∧
        RecOK p n (1 / (p : K))
          (recExact (1 / (p : K)) (decayMean (fieldAt fld (resample tf (init ++ chunks.flatten))) p (p - 1))
            (fieldAt fld (resample tf (init ++ chunks.flatten))) p) j (readingByCandle (snap.getD j default) nm) :=
  Numeric.rma_series_tf tf htf p hp nm input fld n hk hin hattr init chunks hraw

/-- **RMA on timeframe + gap filling + Heikin-Ashi** -/
theorem rma_series_on_fillHA (tf : Int) (htf : 0 < tf) (p : Nat) (hp : 2 ≤ p) (nm input : String)
    (fld : Candle K → Num K) (n : Nat) (hk : IsKey nm) (hin : AttrInput input)
    (hattr : ∀ c : Candle K, c.attr input = some (.num (fld c)))
    (init : List (Candle K)) (chunks : List (List (Candle K)))
    (hraw : RawTf (init ++ chunks.flatten) ∧ ∀ c ∈ init ++ chunks.flatten, c.tag = false) :
    ∃ snap, candlesOf (runIndicator (mkTop (.rma p input) nm n) { tf := some tf, fill := true, ha := true }
        init chunks) = .ok snap ∧
      EveryCandle (RmaCandle p n nm fld) (haSpec (fillSpec tf (init ++ chunks.flatten))) snap :=
  Numeric.rma_series_fillHA tf htf p hp nm input fld n hk hin hattr init chunks hraw

/-- **WMA is its textbook series on every manager** -/
theorem wma_series_on_manager (M : MgrSpec K) (p : Nat) (hp : 2 ≤ p) (nm input : String)
    (fld : Candle K → Num K) (n : Nat) (hk : IsKey nm) (hin : AttrInput input)
    (hattr : ∀ c : Candle K, c.attr input = some (.num (fld c))) :
    HoldsOn M (mkTop (.wma p input) nm n) (WmaCandle p n nm fld) :=
  Numeric.wma_series_on_manager M p hp nm input fld n hk hin hattr

/-- **WMA on a collapsing timeframe** -/
theorem wma_series_on_tf (tf : Int) (htf : 0 < tf) (p : Nat) (hp : 2 ≤ p) (nm input : String)
    (fld : Candle K → Num K) (n : Nat) (hk : IsKey nm) (hin : AttrInput input)
    (hattr : ∀ c : Candle K, c.attr input = some (.num (fld c)))
    (init : List (Candle K)) (chunks : List (List (Candle K))) (hraw : RawTf (init ++ chunks.flatten)) :
    ∃ snap, candlesOf (runIndicator (mkTop (.wma p input) nm n) { tf := some tf } init chunks) = .ok snap ∧
      snap.length = (resample tf (init ++ chunks.flatten)).length ∧
      ∀ j, j < (resample tf (init ++ chunks.flatten)).length →
        (snap.getD j default).bare = ((resample tf (init ++ chunks.flatten)).getD j default).bare ∧
        DirectOK p n (wmaAt (fieldAt fld (resample tf (init ++ chunks.flatten))) p) j
          (readingByCandle (snap.getD j default) nm) :=
  Numeric.wma_series_tf tf htf p hp nm input fld n hk hin hattr init chunks hraw

/-- **WMA on timeframe + gap filling + Heikin-Ashi** -/
theorem wma_series_on_fillHA (tf : Int) (htf : 0 < tf) (p : Nat) (hp : 2 ≤ p) (nm input : String)
    (fld : Candle K → Num K) (n : Nat) (hk : IsKey nm) (hin : AttrInput input)
    (hattr : ∀ c : Candle K, c.attr input = some (.num (fld c)))
    (init : List (Candle K)) (chunks : List (List (Candle K)))
    (hraw : RawTf (init ++ chunks.flatten) ∧ ∀ c ∈ init ++ chunks.flatten, c.tag = false) :
    ∃ snap, candlesOf (runIndicator (mkTop (.wma p input) nm n) { tf := some tf, fill := true, ha := true }
        init chunks) = .ok snap ∧
      EveryCandle (WmaCandle p n nm fld) (haSpec (fillSpec tf (init ++ chunks.flatten))) snap :=
  Numeric.wma_series_fillHA tf htf p hp nm input fld n hk hin hattr init chunks hraw

/-- **VWMA is its textbook series on every manager** (volume-weighted over the manager's candles: a collapsed
candle's volume is the bucket's total) -/
theorem vwma_series_on_manager (M : MgrSpec K) (p : Nat) (hp : 2 ≤ p) (nm : String) (n : Nat) (hk : IsKey nm) :
    HoldsOn M (mkTop (.vwma p) nm n) (VwmaCandle (K := K) p n nm) :=
  Numeric.vwma_series_on_manager M p hp nm n hk

/-- **VWMA on a collapsing timeframe** -/
theorem vwma_series_on_tf (tf : Int) (htf : 0 < tf) (p : Nat) (hp : 2 ≤ p) (nm : String) (n : Nat) (hk : IsKey nm)
    (init : List (Candle K)) (chunks : List (List (Candle K))) (hraw : RawTf (init ++ chunks.flatten)) :
    ∃ snap, candlesOf (runIndicator (mkTop (.vwma p) nm n) { tf := some tf } init chunks) = .ok snap ∧
      snap.length = (resample tf (init ++ chunks.flatten)).length ∧
      ∀ j, j < (resample tf (init ++ chunks.flatten)).length →
        (snap.getD j default).bare = ((resample tf (init ++ chunks.flatten)).getD j default).bare ∧
        DirectOK p n (vwmaAt (fieldAt (·.c) (resample tf (init ++ chunks.flatten)))
          (fieldAt (·.v) (resample tf (init ++ chunks.flatten))) p) j (readingByCandle (snap.getD j default) nm) :=
  Numeric.vwma_series_tf tf htf p hp nm n hk init chunks hraw

/-- **VWMA on timeframe + gap filling + Heikin-Ashi** -/
theorem vwma_series_on_fillHA (tf : Int) (htf : 0 < tf) (p : Nat) (hp : 2 ≤ p) (nm : String) (n : Nat) (hk : IsKey nm)
    (init : List (Candle K)) (chunks : List (List (Candle K)))
    (hraw : RawTf (init ++ chunks.flatten) ∧ ∀ c ∈ init ++ chunks.flatten, c.tag = false) :
    ∃ snap, candlesOf (runIndicator (mkTop (.vwma p) nm n) { tf := some tf, fill := true, ha := true }
        init chunks) = .ok snap ∧
      EveryCandle (VwmaCandle p n nm) (haSpec (fillSpec tf (init ++ chunks.flatten))) snap :=
  Numeric.vwma_series_fillHA tf htf p hp nm n hk init chunks hraw

/-- **the HMA run on every manager is `hmaDeco` of the manager's candles** -/
theorem hma_runs_on_manager (M : MgrSpec K) (p : Nat) (hp : 2 ≤ p) (nm input : String) (fld : Candle K → Num K)
    (n : Nat) (hn : HmaNames nm) (hin : AttrInput input)
    (hattr : ∀ c : Candle K, c.attr input = some (.num (fld c))) :
    RunsAs M (mkTop (.hma (p : Int) input : Kind K) nm n) (hmaDeco nm n p fld) :=
  Numeric.hma_runs_on_manager M p hp nm input fld n hn hin hattr

/-- **HMA (all five series) is its textbook series on every manager** -/
theorem hma_series_on_manager (M : MgrSpec K) (p : Nat) (hp : 2 ≤ p) (nm input : String) (fld : Candle K → Num K)
    (n : Nat) (hn : HmaNames nm) (hin : AttrInput input)
    (hattr : ∀ c : Candle K, c.attr input = some (.num (fld c))) :
    HoldsOn M (mkTop (.hma (p : Int) input : Kind K) nm n) (HmaCandle p n nm fld) :=
  Numeric.hma_series_on_manager M p hp nm input fld n hn hin hattr

/-- **HMA on a collapsing timeframe** -/
theorem hma_series_on_tf (tf : Int) (htf : 0 < tf) (p : Nat) (hp : 2 ≤ p) (nm input : String)
    (fld : Candle K → Num K) (n : Nat) (hn : HmaNames nm) (hin : AttrInput input)
    (hattr : ∀ c : Candle K, c.attr input = some (.num (fld c)))
    (init : List (Candle K)) (chunks : List (List (Candle K))) (hraw : RawTf (init ++ chunks.flatten)) :
    ∃ snap, candlesOf (runIndicator (mkTop (.hma (p : Int) input : Kind K) nm n) { tf := some tf } init chunks)
        = .ok snap ∧
      snap = hmaDeco nm n p fld (resample tf (init ++ chunks.flatten)) ∧
      snap.length = (resample tf (init ++ chunks.flatten)).length ∧
      ∀ j, j < (resample tf (init ++ chunks.flatten)).length →
        (snap.getD j default).bare = ((resample tf (init ++ chunks.flatten)).getD j default).bare ∧
        HmaOK n p (fieldAt fld (resample tf (init ++ chunks.flatten))) j
          (readingByCandle (snap.getD j default) nm) (readingByCandle (snap.getD j default) (nm ++ "_WMA"))
          (readingByCandle (snap.getD j default) (nm ++ "_WMAh")) (readingByCandle (snap.getD j default) (nm ++ "_HMAr"))
          (readingByCandle (snap.getD j default) (nm ++ "_HMAs")) :=
  Numeric.hma_series_tf tf htf p hp nm input fld n hn hin hattr init chunks hraw

/-- **HMA on timeframe + gap filling + Heikin-Ashi** -/
theorem hma_series_on_fillHA (tf : Int) (htf : 0 < tf) (p : Nat) (hp : 2 ≤ p) (nm input : String)
    (fld : Candle K → Num K) (n : Nat) (hn : HmaNames nm) (hin : AttrInput input)
    (hattr : ∀ c : Candle K, c.attr input = some (.num (fld c)))
    (init : List (Candle K)) (chunks : List (List (Candle K)))
    (hraw : RawTf (init ++ chunks.flatten) ∧ ∀ c ∈ init ++ chunks.flatten, c.tag = false) :
    ∃ snap, candlesOf (runIndicator (mkTop (.hma (p : Int) input : Kind K) nm n)
        { tf := some tf, fill := true, ha := true } init chunks) = .ok snap ∧
      snap = hmaDeco nm n p fld (haSpec (fillSpec tf (init ++ chunks.flatten))) ∧
      EveryCandle (HmaCandle p n nm fld) (haSpec (fillSpec tf (init ++ chunks.flatten))) snap :=
  Numeric.hma_series_fillHA tf htf p hp nm input fld n hn hin hattr init chunks hraw

/-- every moving average on `{ha}`, `{tf, ha}`, `{tf, fill, ha}` (`HoldsOnHA.unfold` spells the three out) -/
theorem sma_series_ha (p : Nat) (hp : 2 ≤ p) (nm input : String) (fld : Candle K → Num K) (n : Nat)
    (hk : IsKey nm) (hin : AttrInput input) (hattr : ∀ c : Candle K, c.attr input = some (.num (fld c))) :
    HoldsOnHA (mkTop (.sma p input) nm n) (SmaCandle p n nm fld) :=
  Numeric.sma_series_ha p hp nm input fld n hk hin hattr

theorem hma_series_ha (p : Nat) (hp : 2 ≤ p) (nm input : String) (fld : Candle K → Num K) (n : Nat)
    (hn : HmaNames nm) (hin : AttrInput input) (hattr : ∀ c : Candle K, c.attr input = some (.num (fld c))) :
    HoldsOnHA (mkTop (.hma (p : Int) input : Kind K) nm n) (HmaCandle p n nm fld) :=
  Numeric.hma_series_ha p hp nm input fld n hn hin hattr

/-- non-vacuity (ℚ, two-minute timeframe; `haStamped`: five one-minute candles, four buckets): SMA(2) returns four
candles, the first without a reading, the last within `3·ε₄` of the mean of the last two COLLAPSED closes.  (`Int`
runs by `decide +kernel`: end of HexProofs/Numeric/SeriesOnManagersC04.lean.) -/
example : ∃ snap : List (Candle ℚ),
    candlesOf (runIndicator (mkTop (.sma (2 : Nat) "close") "SMA_2" 4) { tf := some 120 }
      (haStamped.take 2) [haStamped.drop 2]) = .ok snap ∧ snap.length = 4 ∧
    readingByCandle (snap.getD 0 default) "SMA_2" = .none ∧
    ∃ y, readingByCandle (snap.getD 3 default) "SMA_2" = .flt y ∧
      |y - winMean (fieldAt (·.c) (resample 120 haStamped)) 2 3| ≤ ((3 : Nat) : ℚ) * eps ℚ 4 := by
  obtain ⟨snap, h1, h2, h3⟩ := sma_series_on_tf (K := ℚ) 120 (by decide) 2 (by norm_num) "SMA_2" "close" (·.c) 4
    (by decide) ⟨noDot_close, by decide⟩ (fun _ => rfl) (haStamped.take 2) [haStamped.drop 2] haStamped_ok.1
  have e : haStamped.take 2 ++ [haStamped.drop 2].flatten = haStamped := by simp
  rw [e] at h2 h3
  rw [haStamped_resample_length] at h2 h3
  exact ⟨snap, h1, h2, (h3 0 (by decide)).2.1 (by decide), (h3 3 (by decide)).2.2 (by decide)⟩

end Hex.C04

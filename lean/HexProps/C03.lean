import HexProofs.Manager.Schedule
/-
C03 – Timeframe collapsing equals right-closed, right-labelled OHLCV resampling.
ONLY property statements live here (lemmas are under HexProofs).  All theorems hold for every
float carrier `F`, hence for the executed `Float` model that is diffed against the code.
-/
namespace Hex.C03
open Hex
variable {F : Type} [PyF F]

/-- a well-formed raw stream: every candle stamped, nothing converted, stamps non-decreasing -/
structure RawStream (xs : List (Candle F)) : Prop where
  stamped : ∀ c ∈ xs, c.ts ≠ none
  plain : ∀ c ∈ xs, c.clean = none
  sorted : (xs.filterMap (·.ts)).Pairwise (· ≤ ·)

/-- a collapsing manager: timeframe only -/
def cfgOf (tf : Int) : MgrCfg := { tf := some tf }

/-- construct with `init`, then append the chunks one call at a time -/
def runSchedule (cfg : MgrCfg) (init : List (Candle F)) (chunks : List (List (Candle F))) :
    PyM (Manager F) := do
  let m ← Manager.init cfg init
  chunks.foldlM (fun m ch => m.append ch) m

theorem RawStream.cleanOk {xs : List (Candle F)} (h : RawStream xs) (tf : Int) :
    ∀ c ∈ xs, CleanOk tf c := by
  intro c hc k hk; rw [h.plain c hc] at hk; cases hk

theorem RawStream.append_left {a b : List (Candle F)} (h : RawStream (a ++ b)) : RawStream a :=
  ⟨fun c hc => h.stamped c (by simp [hc]), fun c hc => h.plain c (by simp [hc]),
   by have := h.sorted; rw [List.filterMap_append] at this; exact (List.pairwise_append.1 this).1⟩

theorem tasks_cfgOf (tf : Int) (cs : List (Candle F)) :
    tasks (cfgOf tf) cs = collapseCandles (some tf) false cs := by
  unfold tasks cfgOf trimCandles
  cases collapseCandles (some tf) false cs <;> simp [bind, Except.bind]

/-- **Batch.**  Building the manager over a whole well-formed stream never raises (in particular
`InvalidCandleOrder` is unreachable) and yields exactly the resampling fold. -/
theorem batch (tf : Int) (htf : 0 < tf) (xs : List (Candle F)) (h : RawStream xs) :
    Manager.init (cfgOf tf) xs = .ok { cfg := cfgOf tf, candles := resample tf xs } := by
  unfold Manager.init
  rw [tasks_cfgOf, collapse_eq_resample tf htf xs
    (by intro c hc; exact h.stamped c (List.mem_of_mem_head? hc)) (h.cleanOk tf)
    (labelsMono_of_sorted tf htf xs h.sorted)]
  rfl

/-- **Every append schedule.**  Constructing with any prefix (possibly empty) and appending the
rest in chunks of any sizes ends with the resampling of the whole stream. -/
theorem schedule (tf : Int) (htf : 0 < tf) (init : List (Candle F)) (chunks : List (List (Candle F)))
    (h : RawStream (init ++ chunks.flatten)) :
    runSchedule (cfgOf tf) init chunks
      = .ok { cfg := cfgOf tf, candles := resample tf (init ++ chunks.flatten) } := by
  unfold runSchedule
  have hinit : RawStream init := h.append_left
  rw [batch tf htf init hinit]
  simp only [bind, Except.bind]
  -- generalise the collapsed prefix
  suffices H : ∀ (chunks : List (List (Candle F))) (s : List (Candle F)), RawStream (s ++ chunks.flatten) →
      chunks.foldlM (fun (m : Manager F) ch => m.append ch) { cfg := cfgOf tf, candles := resample tf s }
        = .ok { cfg := cfgOf tf, candles := resample tf (s ++ chunks.flatten) } from H chunks init h
  intro chunks
  induction chunks with
  | nil => intro s _; simp [List.foldlM, pure, Except.pure]
  | cons ch rest ih =>
    intro s hs
    have hs' : RawStream ((s ++ ch) ++ rest.flatten) := by simpa [List.append_assoc] using hs
    have hsch : RawStream (s ++ ch) := hs'.append_left
    simp only [List.foldlM_cons, bind, Except.bind]
    have happ : Manager.append ({ cfg := cfgOf tf, candles := resample tf s } : Manager F) ch
        = .ok { cfg := cfgOf tf, candles := resample tf (s ++ ch) } := by
      unfold Manager.append
      by_cases hch : ch = []
      · subst hch; simp
      · have : ch.isEmpty = false := by cases ch <;> simp at hch ⊢
        simp only [this, Bool.false_eq_true, if_false]
        rw [tasks_cfgOf, collapse_resample_append tf htf s ch hsch.stamped (hsch.cleanOk tf)
          (labelsMono_of_sorted tf htf _ hsch.sorted)]
        rfl
    rw [happ]
    have := ih (s ++ ch) hs'
    simpa [List.append_assoc] using this

/-- **Repeated passes.**  Running the manager's tasks again over an already collapsed list
changes nothing. -/
theorem repeated (tf : Int) (htf : 0 < tf) (xs : List (Candle F)) (h : RawStream xs) :
    tasks (cfgOf tf) (resample tf xs) = .ok (resample tf xs) := by
  have := collapse_resample_append tf htf xs [] (by simpa using h.stamped)
    (by simpa using h.cleanOk tf) (by simpa using labelsMono_of_sorted tf htf xs h.sorted)
  rw [tasks_cfgOf]
  simpa using this

/-- **Labels.**  Every collapsed candle is stamped with a multiple of the timeframe, and the
stamps are strictly increasing. -/
theorem strictly_increasing (tf : Int) (htf : 0 < tf) (xs : List (Candle F)) (h : RawStream xs) :
    (∀ c ∈ resample tf xs, ∃ t, c.ts = some t ∧ t % tf = 0) ∧
    ((resample tf xs).filterMap (·.ts)).Pairwise (· < ·) := by
  have hb := resampleR_bucketed tf htf xs (h.cleanOk tf) (labelsMono_of_sorted tf htf xs h.sorted)
  exact ⟨fun c hc => hb.stamped c (List.mem_reverse.1 hc), hb.incr_reverse tf _⟩

/-- **The bucket of a second** is the right-closed interval ending at its label. -/
theorem bucket_interval (tf t e : Int) (htf : 0 < tf) (he : e % tf = 0) :
    label tf t = e ↔ (e - tf < t ∧ t ≤ e) := label_eq_iff tf t e htf he

/-- **What merging means** for a plain bucket: open stays, high/low are the running extremes,
close is the newest close, volume accumulates left to right, and the label stays. -/
theorem merge_ohlcv (a b : Candle F) (ha : a.clean = none) :
    (a.merge b).o = a.o ∧ (a.merge b).h = Num.max2 a.h b.h ∧ (a.merge b).l = Num.min2 a.l b.l ∧
    (a.merge b).c = b.c ∧ (a.merge b).v = a.v.add b.v ∧ (a.merge b).ts = a.ts := by
  simp [Candle.merge, Candle.reset, Candle.recoverClean, ha]

/-! ### non-vacuity: the hypotheses are met by a concrete two-bucket stream -/

def demo : List (Candle Int) :=
  [ { o := .int 1, h := .int 3, l := .int 1, c := .int 2, v := .int 10, ts := some 61 },
    { o := .int 2, h := .int 5, l := .int 2, c := .int 4, v := .int 20, ts := some 120 },
    { o := .int 4, h := .int 4, l := .int 0, c := .int 1, v := .int 5, ts := some 121 } ]

example : (labels 60 demo) = [120, 120, 180] := by decide
example : (demo.filterMap (·.ts)).Pairwise (· ≤ ·) := by decide
example : ∀ c ∈ demo, c.ts ≠ none ∧ c.clean = none := by decide

end Hex.C03

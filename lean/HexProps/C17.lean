import HexProofs.Analysis.Invariance
/-
C17 – Movement, candle-shape and pattern predicates mean what they document.

Structural part: every float carrier `F`, no arithmetic or order law.  Each function is
characterised over the readings BY POSITION (`rd cs ind j` = the numeric reading of series `ind` at
candle `j`, `none` when missing / `None` / dict), i.e. over a reference window that is defined
independently of the slice / reverse / filter pipeline of `_get_clean_readings`.
Order part (`[OrdLaws F]`: `<` is a strict weak order, `≤` its reversed complement, `ofInt`
monotone – true of every ordered field and of NaN-free floats): strictness, extremes, ties.
Geometry: the `abs` forms for every carrier; the documented differences under `[AbsLaws F]`
(`|x - y| = x - y` for `y ≤ x`) on well-formed candles.

Windows (all clamped at candle 0, `lo i n = max(i - n, 0)`):
  rising / falling / mean_*    the `n` candles before `i`:          `lo i n ≤ j < i`
  highest / lowest / value_range  those and the current candle:      `lo i n ≤ j ≤ i`
  highestbar / lowestbar       the current candle and `n - 1` before: offsets `0 ≤ k < min(n, i+1)`
  cross / crossover / crossunder  steps `k-1 → k` for `lo i n < k ≤ i`

Scale / shift invariance of the patterns (`invariance`): over an exact linearly ordered field
(`LawfulPyF` of HexProofs/Numeric – IEEE rounding is outside that theorem).
Not covered: invariance of the MOVEMENT functions under a transformation of the named reading series
(they read arbitrary indicator columns, not prices; nothing in the property text pins which columns
would be transformed), and the "clear margin ≥ 2x" witnesses of the oracle, which are test inputs,
not statements.
-/
namespace Hex.C17
open Hex Hex.Ana
variable {F : Type} [PyF F]

/-! ### the reference window -/

/-- The window readings are exactly the numeric readings at the positions of the range: missing,
`None` and dict readings contribute nothing. -/
theorem window_mem (cs : List (Candle F)) (ind : String) (lo' hi' : Int) (r : Num F) :
    r ∈ window cs ind lo' hi' ↔ ∃ j, lo' ≤ j ∧ j < hi' ∧ rd cs ind j = some r :=
  mem_window cs ind lo' hi' r

/-- `_get_clean_readings(candles, ind, n, i, include_latest)` is that window (newest first). -/
theorem clean_readings (cs : List (Candle F)) (ind : String) (n i : Int) (incl : Bool)
    (h0 : 0 ≤ i) (hi : i < cs.length) :
    Mov.cleanReadings cs ind n i incl = window cs ind (lo i n) (if incl then i + 1 else i) :=
  cleanReadings_eq cs ind n i incl h0 hi

/-! ### above / below (any index, valid or not) -/

/-- `above` ⇔ both readings are numbers and the first is strictly greater; `below` ⇔ … strictly less. -/
theorem above_below (cs : List (Candle F)) (a b : String) (i : Int) :
    Decides (Mov.above cs a b i) (∃ x y, rd cs a i = some x ∧ rd cs b i = some y ∧ Num.lt y x = true) ∧
    Decides (Mov.below cs a b i) (∃ x y, rd cs a i = some x ∧ rd cs b i = some y ∧ Num.lt x y = true) :=
  ⟨above_decides cs a b i, below_decides cs a b i⟩

/-! ### rising / falling -/

/-- `rising` ⇔ the latest reading is a number, at least one of the `n` candles before it has a
number, and none of those numbers is `>=` the latest (`falling`: none is `<=`). -/
theorem rising_falling (cs : List (Candle F)) (ind : String) (n i : Int) (h0 : 0 ≤ i) (hi : i < cs.length) :
    Decides (Mov.rising cs ind n i)
      (∃ l, rd cs ind i = some l ∧ (∃ j, lo i n ≤ j ∧ j < i ∧ (rd cs ind j).isSome = true) ∧
        ∀ j r, lo i n ≤ j → j < i → rd cs ind j = some r → Num.ge r l = false) ∧
    Decides (Mov.falling cs ind n i)
      (∃ l, rd cs ind i = some l ∧ (∃ j, lo i n ≤ j ∧ j < i ∧ (rd cs ind j).isSome = true) ∧
        ∀ j r, lo i n ≤ j → j < i → rd cs ind j = some r → Num.le r l = false) :=
  ⟨rising_decides cs ind n i h0 hi, falling_decides cs ind n i h0 hi⟩

/-- Under the order laws the comparisons are the documented strict ones: every earlier reading of
the window is strictly below (above) the latest. -/
theorem rising_falling_strict [OrdLaws F] (cs : List (Candle F)) (ind : String) (n i : Int)
    (h0 : 0 ≤ i) (hi : i < cs.length) :
    Decides (Mov.rising cs ind n i)
      (∃ l, rd cs ind i = some l ∧ (∃ j, lo i n ≤ j ∧ j < i ∧ (rd cs ind j).isSome = true) ∧
        ∀ j r, lo i n ≤ j → j < i → rd cs ind j = some r → Num.lt r l = true) ∧
    Decides (Mov.falling cs ind n i)
      (∃ l, rd cs ind i = some l ∧ (∃ j, lo i n ≤ j ∧ j < i ∧ (rd cs ind j).isSome = true) ∧
        ∀ j r, lo i n ≤ j → j < i → rd cs ind j = some r → Num.lt l r = true) :=
  ⟨rising_strict cs ind n i h0 hi, falling_strict cs ind n i h0 hi⟩

/-! ### mean_rising / mean_falling -/

/-- `mean_rising` ⇔ the latest reading is a number, the window before it is non-empty and
`sum(window) / len(window)` (float division, `meanOf`) is strictly below the latest. -/
theorem mean_rising_falling (cs : List (Candle F)) (ind : String) (n i : Int) (h0 : 0 ≤ i) (hi : i < cs.length) :
    Decides (Mov.meanRising cs ind n i)
      (∃ l, rd cs ind i = some l ∧ window cs ind (lo i n) i ≠ [] ∧
        Num.lt (meanOf (window cs ind (lo i n) i)) l = true) ∧
    Decides (Mov.meanFalling cs ind n i)
      (∃ l, rd cs ind i = some l ∧ window cs ind (lo i n) i ≠ [] ∧
        Num.lt l (meanOf (window cs ind (lo i n) i)) = true) :=
  ⟨meanRising_decides cs ind n i h0 hi, meanFalling_decides cs ind n i h0 hi⟩

theorem mean_def (w : List (Num F)) : meanOf w = .flt (PyF.div (pySum w).toF (PyF.ofInt (w.length : Int))) := rfl

/-! ### highest / lowest: extremes that include the current candle, most recent on ties -/

/-- `highest` (length ≥ 1): `None` when no candle of `lo i n … i` has a number; otherwise the
reading `m` of some candle `jm` of that range (returned as stored – `extremeOut` only turns the bool
`False` into `None`), every reading of the range is `≤ m`, and every more recent one is `< m`. -/
theorem highest (cs : List (Candle F)) [OrdLaws F] (ind : String) (n i : Int)
    (h0 : 0 ≤ i) (hi : i < cs.length) (hn : 1 ≤ n) :
    ((∀ j, lo i n ≤ j → j ≤ i → rd cs ind j = none) ∧ Mov.highest cs ind n i = .ok .none) ∨
    ∃ (m : Scalar F) (jm : Int), Mov.highest cs ind n i = .ok (extremeOut (some m)) ∧
      lo i n ≤ jm ∧ jm ≤ i ∧ scalarOf (readingByIndex cs ind jm) = some m ∧
      (∀ j r, lo i n ≤ j → j ≤ i → rd cs ind j = some r → Num.le r (Mov.scalarNum m) = true) ∧
      (∀ j r, jm < j → j ≤ i → rd cs ind j = some r → Num.lt r (Mov.scalarNum m) = true) :=
  highest_spec cs ind n i h0 hi hn

theorem lowest (cs : List (Candle F)) [OrdLaws F] (ind : String) (n i : Int)
    (h0 : 0 ≤ i) (hi : i < cs.length) (hn : 1 ≤ n) :
    ((∀ j, lo i n ≤ j → j ≤ i → rd cs ind j = none) ∧ Mov.lowest cs ind n i = .ok .none) ∨
    ∃ (m : Scalar F) (jm : Int), Mov.lowest cs ind n i = .ok (extremeOut (some m)) ∧
      lo i n ≤ jm ∧ jm ≤ i ∧ scalarOf (readingByIndex cs ind jm) = some m ∧
      (∀ j r, lo i n ≤ j → j ≤ i → rd cs ind j = some r → Num.le (Mov.scalarNum m) r = true) ∧
      (∀ j r, jm < j → j ≤ i → rd cs ind j = some r → Num.lt (Mov.scalarNum m) r = true) :=
  lowest_spec cs ind n i h0 hi hn

/-- a numeric extreme is returned unchanged -/
theorem extreme_returned (x : Num F) : extremeOut (some (.num x)) = Val.num x := rfl

/-- with `length < 1` the functions return `False` (as the code does) -/
theorem highest_lowest_short (cs : List (Candle F)) (ind : String) (n i : Int)
    (h0 : 0 ≤ i) (hi : i < cs.length) (hn : n < 1) :
    Mov.highest cs ind n i = .ok (.bool false) ∧ Mov.lowest cs ind n i = .ok (.bool false) :=
  ⟨extreme_short cs ind n i _ h0 hi hn, extreme_short cs ind n i _ h0 hi hn⟩

/-! ### value_range -/

/-- `value_range` is `|min - max|` of the window including the current candle when `length ≥ 2` and
the window has at least two numbers, else `None`. -/
theorem value_range [OrdLaws F] (cs : List (Candle F)) (ind : String) (n i : Int)
    (h0 : 0 ≤ i) (hi : i < cs.length) :
    ((n < 2 ∨ (window cs ind (lo i n) (i + 1)).length < 2) ∧ Mov.valueRange cs ind n i = .ok .none) ∨
    (2 ≤ n ∧ 2 ≤ (window cs ind (lo i n) (i + 1)).length ∧
      ∃ mn mx, Mov.valueRange cs ind n i = .ok (.num (mn.sub mx).abs) ∧
        mn ∈ window cs ind (lo i n) (i + 1) ∧ mx ∈ window cs ind (lo i n) (i + 1) ∧
        ∀ r ∈ window cs ind (lo i n) (i + 1), Num.le mn r = true ∧ Num.le r mx = true) :=
  valueRange_spec cs ind n i h0 hi

/-! ### highestbar / lowestbar: the offset of the MOST RECENT extreme -/

/-- `highestbar` looks at offsets `0 ≤ k < barCount i n = min(n, i+1)` (candle `i - k`).  It returns
`0` when none of them has a number; otherwise the offset `d` of a number `m` such that every more
recent number (`k < d`) is strictly lower and no older one (`k ≥ d`) is higher. -/
theorem highestbar [OrdLaws F] (cs : List (Candle F)) (ind : String) (n i : Int)
    (h0 : 0 ≤ i) (hi : i < cs.length) :
    ∃ d, Mov.highestbar cs ind n i = .ok (.int d) ∧
      (((∀ k, 0 ≤ k → k < barCount i n → rd cs ind (i - k) = none) ∧ d = 0) ∨
       (0 ≤ d ∧ d < barCount i n ∧ ∃ m, rd cs ind (i - d) = some m ∧
          (∀ k r, 0 ≤ k → k < d → rd cs ind (i - k) = some r → Num.lt r m = true) ∧
          (∀ k r, d ≤ k → k < barCount i n → rd cs ind (i - k) = some r → Num.le r m = true))) :=
  highestbar_spec cs ind n i h0 hi

theorem lowestbar [OrdLaws F] (cs : List (Candle F)) (ind : String) (n i : Int)
    (h0 : 0 ≤ i) (hi : i < cs.length) :
    ∃ d, Mov.lowestbar cs ind n i = .ok (.int d) ∧
      (((∀ k, 0 ≤ k → k < barCount i n → rd cs ind (i - k) = none) ∧ d = 0) ∨
       (0 ≤ d ∧ d < barCount i n ∧ ∃ m, rd cs ind (i - d) = some m ∧
          (∀ k r, 0 ≤ k → k < d → rd cs ind (i - k) = some r → Num.lt m r = true) ∧
          (∀ k r, d ≤ k → k < barCount i n → rd cs ind (i - k) = some r → Num.le m r = true))) :=
  lowestbar_spec cs ind n i h0 hi

theorem barCount_def (i n : Int) : barCount i n = if i - n < -1 then i + 1 else n := rfl

/-! ### cross / crossover / crossunder -/

/-- `crossover` ⇔ for some step `k-1 → k` with `lo i n < k ≤ i`: `above` at `k` and `below` at `k-1`;
`crossunder` ⇔ … `below` at `k` and `above` at `k-1`. -/
theorem crossover_crossunder (cs : List (Candle F)) (a b : String) (n i : Int) (h0 : 0 ≤ i) (hi : i < cs.length) :
    Decides (Mov.crossover cs a b n i)
      (∃ k, lo i n < k ∧ k ≤ i ∧ Mov.above cs a b k = .ok (.bool true) ∧ Mov.below cs a b (k - 1) = .ok (.bool true)) ∧
    Decides (Mov.crossunder cs a b n i)
      (∃ k, lo i n < k ∧ k ≤ i ∧ Mov.below cs a b k = .ok (.bool true) ∧ Mov.above cs a b (k - 1) = .ok (.bool true)) :=
  ⟨crossover_decides cs a b n i h0 hi, crossunder_decides cs a b n i h0 hi⟩

/-- At the default length 1 (and `i ≥ 1`): above now and below one candle earlier. -/
theorem crossover_length_one (cs : List (Candle F)) (a b : String) (i : Int) (h1 : 1 ≤ i) (hi : i < cs.length) :
    Decides (Mov.crossover cs a b 1 i)
      (Mov.above cs a b i = .ok (.bool true) ∧ Mov.below cs a b (i - 1) = .ok (.bool true)) ∧
    Decides (Mov.crossunder cs a b 1 i)
      (Mov.below cs a b i = .ok (.bool true) ∧ Mov.above cs a b (i - 1) = .ok (.bool true)) := by
  have hl := lo_one i h1
  constructor
  · apply (crossover_decides cs a b 1 i (by omega) hi).congr
    rw [hl]
    constructor
    · rintro ⟨k, h1, h2, h3⟩; have : k = i := by omega
      subst this; exact h3
    · intro h; exact ⟨i, by omega, le_refl i, h⟩
  · apply (crossunder_decides cs a b 1 i (by omega) hi).congr
    rw [hl]
    constructor
    · rintro ⟨k, h1, h2, h3⟩; have : k = i := by omega
      subst this; exact h3
    · intro h; exact ⟨i, by omega, le_refl i, h⟩

/-- `cross` (either direction) ⇔ for some step of the range all four readings are numbers and `a`
went from `≤ b` to `> b` or from `≥ b` to `< b`. -/
theorem cross (cs : List (Candle F)) (a b : String) (n i : Int) (h0 : 0 ≤ i) (hi : i < cs.length) :
    Decides (Mov.cross cs a b n i)
      (∃ k, lo i n < k ∧ k ≤ i ∧
        ∃ an bn ap bp, rd cs a k = some an ∧ rd cs b k = some bn ∧ rd cs a (k - 1) = some ap ∧ rd cs b (k - 1) = some bp ∧
          ((Num.lt bn an = true ∧ Num.le ap bp = true) ∨ (Num.lt an bn = true ∧ Num.le bp ap = true))) := by
  apply (cross_decides cs a b n i h0 hi).congr
  simp only [crossAt_iff]

/-- At the first candle there is no earlier candle to cross from. -/
theorem cross_first (cs : List (Candle F)) (a b : String) (n : Int) (hne : (0 : Int) < cs.length) :
    Mov.cross cs a b n 0 = .ok (.bool false) ∧ Mov.crossover cs a b n 0 = .ok (.bool false) ∧
    Mov.crossunder cs a b n 0 = .ok (.bool false) := by
  refine ⟨(cross_decides cs a b n 0 (le_refl 0) hne).false_of_not ?_,
    (crossover_decides cs a b n 0 (le_refl 0) hne).false_of_not ?_,
    (crossunder_decides cs a b n 0 (le_refl 0) hne).false_of_not ?_⟩ <;>
  · rintro ⟨k, h1, h2, _⟩
    have : 0 ≤ lo 0 n := by unfold lo; split <;> omega
    omega

/-! ### missing readings never make a predicate true -/

theorem missing_latest (cs : List (Candle F)) (ind : String) (n i : Int) (h0 : 0 ≤ i) (hi : i < cs.length)
    (hm : rd cs ind i = none) :
    Mov.rising cs ind n i = .ok (.bool false) ∧ Mov.falling cs ind n i = .ok (.bool false) ∧
    Mov.meanRising cs ind n i = .ok (.bool false) ∧ Mov.meanFalling cs ind n i = .ok (.bool false) := by
  refine ⟨(rising_decides cs ind n i h0 hi).false_of_not ?_, (falling_decides cs ind n i h0 hi).false_of_not ?_,
    (meanRising_decides cs ind n i h0 hi).false_of_not ?_, (meanFalling_decides cs ind n i h0 hi).false_of_not ?_⟩ <;>
  · rintro ⟨l, hl, _⟩; rw [hm] at hl; cases hl

theorem missing_window (cs : List (Candle F)) (ind : String) (n i : Int) (h0 : 0 ≤ i) (hi : i < cs.length)
    (hm : ∀ j, lo i n ≤ j → j < i → rd cs ind j = none) :
    Mov.rising cs ind n i = .ok (.bool false) ∧ Mov.falling cs ind n i = .ok (.bool false) ∧
    Mov.meanRising cs ind n i = .ok (.bool false) ∧ Mov.meanFalling cs ind n i = .ok (.bool false) := by
  have hw : window cs ind (lo i n) i = [] := by
    cases h : window cs ind (lo i n) i with
    | nil => rfl
    | cons r rs =>
      obtain ⟨j, h1, h2, h3⟩ := (mem_window cs ind (lo i n) i r).1 (by rw [h]; simp)
      have e : numOf (readingByIndex cs ind j) = none := hm j h1 h2
      rw [e] at h3; cases h3
  refine ⟨(rising_decides cs ind n i h0 hi).false_of_not ?_, (falling_decides cs ind n i h0 hi).false_of_not ?_,
    (meanRising_decides cs ind n i h0 hi).false_of_not ?_, (meanFalling_decides cs ind n i h0 hi).false_of_not ?_⟩
  · rintro ⟨l, _, ⟨j, h1, h2, h3⟩, _⟩; rw [hm j h1 h2] at h3; cases h3
  · rintro ⟨l, _, ⟨j, h1, h2, h3⟩, _⟩; rw [hm j h1 h2] at h3; cases h3
  · rintro ⟨l, _, h, _⟩; exact h hw
  · rintro ⟨l, _, h, _⟩; exact h hw

theorem missing_compare (cs : List (Candle F)) (a b : String) (i : Int)
    (hm : rd cs a i = none ∨ rd cs b i = none) :
    Mov.above cs a b i = .ok (.bool false) ∧ Mov.below cs a b i = .ok (.bool false) := by
  refine ⟨(above_decides cs a b i).false_of_not ?_, (below_decides cs a b i).false_of_not ?_⟩ <;>
  · rintro ⟨x, y, hx, hy, _⟩
    rcases hm with h | h
    · rw [h] at hx; cases hx
    · rw [h] at hy; cases hy

theorem missing_cross (cs : List (Candle F)) (a b : String) (i : Int) (h1 : 1 ≤ i) (hi : i < cs.length)
    (hm : rd cs a i = none ∨ rd cs b i = none ∨ rd cs a (i - 1) = none ∨ rd cs b (i - 1) = none) :
    Mov.cross cs a b 1 i = .ok (.bool false) ∧ Mov.crossover cs a b 1 i = .ok (.bool false) ∧
    Mov.crossunder cs a b 1 i = .ok (.bool false) := by
  have hl := lo_one i h1
  refine ⟨(cross cs a b 1 i (by omega) hi).false_of_not ?_,
    (crossover_length_one cs a b i h1 hi).1.false_of_not ?_,
    (crossover_length_one cs a b i h1 hi).2.false_of_not ?_⟩
  · rintro ⟨k, hk1, hk2, an, bn, ap, bp, e1, e2, e3, e4, _⟩
    rw [hl] at hk1
    have : k = i := by omega
    subst this
    rcases hm with h | h | h | h
    · rw [h] at e1; cases e1
    · rw [h] at e2; cases e2
    · rw [h] at e3; cases e3
    · rw [h] at e4; cases e4
  · rintro ⟨ha, hb⟩
    rcases hm with h | h | h | h
    · rw [(missing_compare cs a b i (Or.inl h)).1] at ha; cases ha
    · rw [(missing_compare cs a b i (Or.inr h)).1] at ha; cases ha
    · rw [(missing_compare cs a b (i - 1) (Or.inl h)).2] at hb; cases hb
    · rw [(missing_compare cs a b (i - 1) (Or.inr h)).2] at hb; cases hb
  · rintro ⟨ha, hb⟩
    rcases hm with h | h | h | h
    · rw [(missing_compare cs a b i (Or.inl h)).2] at ha; cases ha
    · rw [(missing_compare cs a b i (Or.inr h)).2] at ha; cases ha
    · rw [(missing_compare cs a b (i - 1) (Or.inl h)).1] at hb; cases hb
    · rw [(missing_compare cs a b (i - 1) (Or.inr h)).1] at hb; cases hb

/-! ### candle geometry -/

/-- body, range and shadows (Python's `max` / `min` return their first extremal argument);
positive / negative ⇔ close strictly above / below open. -/
theorem geometry (c : Candle F) :
    c.realbody = (c.o.sub c.c).abs ∧ c.highLow = (c.h.sub c.l).abs ∧
    c.shadowUpper = (c.h.sub (Num.max2 c.o c.c)).abs ∧ c.shadowLower = (c.l.sub (Num.min2 c.c c.o)).abs ∧
    (c.positive = true ↔ Num.lt c.o c.c = true) ∧ (c.negative = true ↔ Num.lt c.c c.o = true) :=
  ⟨rfl, rfl, shadowUpper_eq c, shadowLower_eq c, Iff.rfl, Iff.rfl⟩

/-- on a well-formed candle (`low ≤ min(close, open)`, `max(open, close) ≤ high`, `low ≤ high`) the
shadows and the range are the documented differences without `abs` -/
theorem geometry_well_formed [AbsLaws F] (c : Candle F) (w : WellFormed c) :
    c.shadowUpper = c.h.sub (Num.max2 c.o c.c) ∧ c.shadowLower = (Num.min2 c.c c.o).sub c.l ∧
    c.highLow = c.h.sub c.l := geometry_wellFormed c w

theorem body_is_max_minus_min [AbsLaws F] [OrdLaws F] (c : Candle F) :
    c.realbody = (Num.max2 c.o c.c).sub (Num.min2 c.c c.o) := realbody_max_min c

theorem positive_negative_exclusive [OrdLaws F] (c : Candle F) : (c.positive && c.negative) = false :=
  not_positive_and_negative c

/-! ### patterns: the conjunction of the documented clauses -/

/-- The four patterns at a valid index: reported for candle `k` exactly when `k ≥ 10` and the
reference clause test holds; with a look-back, for any candle of `max(i+1-lb, 0) … i`. -/
theorem patterns (cs : List (Candle F)) (lb : Option Int) (i : Int) (h0 : 0 ≤ i) (hi : i < cs.length) :
    Pat.doji cs lb (some i) = .ok (.bool (patRef dojiRef cs lb i)) ∧
    Pat.dojistar cs lb (some i) = .ok (.bool (patRef dojistarRef cs lb i)) ∧
    Pat.hammer cs lb (some i) = .ok (.bool (patRef hammerRef cs lb i)) ∧
    Pat.invHammer cs lb (some i) = .ok (.bool (patRef invHammerRef cs lb i)) :=
  ⟨pattern_spec dojiAt_spec cs lb i h0 hi, pattern_spec dojistarAt_spec cs lb i h0 hi,
   pattern_spec hammerAt_spec cs lb i h0 hi, pattern_spec invHammerAt_spec cs lb i h0 hi⟩

theorem pattern_window (ref : List (Candle F) → Int → Bool) (cs : List (Candle F)) (lb i : Int) :
    (patRef ref cs none i = true ↔ 10 ≤ i ∧ ref cs i = true) ∧
    (patRef ref cs (some lb) i = true ↔ ∃ k, i + 1 - lb ≤ k ∧ 10 ≤ k ∧ k ≤ i ∧ ref cs k = true) :=
  ⟨by simp [patRef, atRef], patRef_lookback_iff ref cs lb i⟩

/-- The clauses (`c` = candle `j`, `p` = candle `j-1`; `dojiThr` = 10 % of the average range of the
last 10 candles, `bodyAvg` = average body of the last 10, `nearThr` = 20 % of the average range of
the last 5 – each including the candle it is anchored at). -/
theorem pattern_clauses (cs : List (Candle F)) (j : Int) :
    (dojiRef cs j = true ↔ (candleAt cs j).realbody.lt (dojiThr cs j) = true) ∧
    (dojistarRef cs j = true ↔
      ((candleAt cs (j - 1)).realbody.gt (bodyAvg cs (j - 1)) = true ∧
        (candleAt cs j).realbody.le (dojiThr cs j) = true) ∧
      (((candleAt cs (j - 1)).positive = true ∧ Pat.realbodyGapUp (candleAt cs j) (candleAt cs (j - 1)) = true) ∨
       ((candleAt cs (j - 1)).negative = true ∧ Pat.realbodyGapDown (candleAt cs j) (candleAt cs (j - 1)) = true))) ∧
    (hammerRef cs j = true ↔
      (((candleAt cs j).realbody.lt (bodyAvg cs j) = true ∧
        (candleAt cs j).shadowLower.gt (candleAt cs j).realbody = true) ∧
        (candleAt cs j).shadowUpper.lt (dojiThr cs j) = true) ∧
      (Num.min2 (candleAt cs j).c (candleAt cs j).o).le ((candleAt cs (j - 1)).l.add (nearThr cs (j - 1))) = true) ∧
    (invHammerRef cs j = true ↔
      (((candleAt cs j).realbody.lt (bodyAvg cs j) = true ∧
        (candleAt cs j).shadowUpper.gt (candleAt cs j).realbody = true) ∧
        (candleAt cs j).shadowLower.lt (dojiThr cs j) = true) ∧
      Pat.realbodyGapDown (candleAt cs j) (candleAt cs (j - 1)) = true) := by
  refine ⟨Iff.rfl, ?_, ?_, ?_⟩
  · simp only [dojistarRef, Bool.and_eq_true, Bool.or_eq_true]
  · simp only [hammerRef, Bool.and_eq_true]
  · simp only [invHammerRef, Bool.and_eq_true]

/-- the thresholds: averages over the last 10 / 5 candles, the anchor candle included -/
theorem thresholds (cs : List (Candle F)) (j : Int) :
    dojiThr cs j = (avgRef Candle.highLow cs 10 j).mul (Pat.lit 1 10) ∧
    bodyAvg cs j = (avgRef Candle.realbody cs 10 j).mul (fl 1) ∧
    nearThr cs j = (avgRef Candle.highLow cs 5 j).mul (Pat.lit 2 10) ∧
    (∀ f len, avgRef f cs len j
      = .flt (PyF.div (pySum (((cs.drop (j + 1 - len).toNat).take len.toNat).map f)).toF (PyF.ofInt len))) :=
  ⟨rfl, rfl, rfl, fun _ _ => rfl⟩

/-- the body-gap tests -/
theorem gaps (c p : Candle F) :
    Pat.realbodyGapUp c p = (Num.max2 p.o p.c).lt (Num.min2 c.o c.c) ∧
    Pat.realbodyGapDown c p = (Num.max2 c.o c.c).lt (Num.min2 p.o p.c) := ⟨rfl, rfl⟩

/-! ### scale and shift invariance (exact ordered field) -/

/-- **No pattern predicate changes when all prices are multiplied by a positive factor and shifted
by a constant** (`mapPrices (aff k s)` replaces every open / high / low / close `x` by `x * k + s`),
for every look-back and every index argument – over a carrier whose operations are those of a
linearly ordered field (`LawfulPyF`, e.g. ℚ or ℝ: exact arithmetic, so CPython's compensated `sum` is
the sum).  IEEE rounding is outside this theorem; there the oracle uses power-of-two factors and
integer shifts on which the arithmetic is exact. -/
theorem invariance {K : Type} [Field K] [LinearOrder K] [IsStrictOrderedRing K] [LawfulPyF K]
    (cs : List (Candle K)) (lb index : Option Int) (k s : Num K) (hk : 0 < k.toF) :
    Pat.doji (mapPrices (aff k s) cs) lb index = Pat.doji cs lb index ∧
    Pat.dojistar (mapPrices (aff k s) cs) lb index = Pat.dojistar cs lb index ∧
    Pat.hammer (mapPrices (aff k s) cs) lb index = Pat.hammer cs lb index ∧
    Pat.invHammer (mapPrices (aff k s) cs) lb index = Pat.invHammer cs lb index :=
  patterns_invariant cs lb index k s hk

/-- … and neither do `positive` / `negative`. -/
theorem invariance_sign {K : Type} [Field K] [LinearOrder K] [IsStrictOrderedRing K] [LawfulPyF K]
    (cs : List (Candle K)) (i : Int) (k s : Num K) (hk : 0 < k.toF) :
    Mov.positive (mapPrices (aff k s) cs) i = Mov.positive cs i ∧
    Mov.negative (mapPrices (aff k s) cs) i = Mov.negative cs i :=
  positive_negative_invariant cs i k s hk

/-- the transformation -/
theorem mapPrices_def {F : Type} [PyF F] (k s : Num F) (c : Candle F) :
    mapC (aff k s) c = { c with o := (c.o.mul k).add s, h := (c.h.mul k).add s,
                                l := (c.l.mul k).add s, c := (c.c.mul k).add s } := rfl

/-- every lawful ordered field satisfies the order and `abs` laws used above; ℚ is one -/
example : OrdLaws ℚ ∧ AbsLaws ℚ := ⟨inferInstance, inferInstance⟩
example : (0 : ℚ) < (Num.int 2 : Num ℚ).toF := by rw [Num.toF_int]; norm_num

/-! ### non-vacuity -/

def mk (o h l c : Int) (inds : List (String × Val Int)) : Candle Int :=
  { o := .int o, h := .int h, l := .int l, c := .int c, v := .int 1, inds := inds }

/-- series `x`: 5, missing, 1, None, 5, 7 – series `y`: 6, 6, 6, 6, 6, 6 -/
def demo : List (Candle Int) :=
  [mk 1 3 0 2 [("x", .int 5), ("y", .int 6)], mk 2 4 1 3 [("y", .int 6)], mk 3 5 2 4 [("x", .int 1), ("y", .int 6)],
   mk 4 6 3 5 [("x", .none), ("y", .int 6)], mk 5 7 4 6 [("x", .int 5), ("y", .int 6)], mk 6 9 5 5 [("x", .int 7), ("y", .int 6)]]

/-- the call returned the Python bool `b` -/
def isB (b : Bool) : PyM (Val Int) → Bool
  | .ok (.s (.bool x)) => x == b
  | _ => false
/-- the call returned the Python int `k` -/
def isI (k : Int) : PyM (Val Int) → Bool
  | .ok (.s (.num (.int x))) => x == k
  | _ => false
def rdIs : Option (Num Int) → Option Int → Bool
  | some (.int x), some k => x == k
  | none, none => true
  | _, _ => false

-- the hypotheses of the theorems are satisfiable: a valid index, the law classes on the toy carrier
example : (0 : Int) ≤ 5 ∧ (5 : Int) < demo.length := by decide
example : OrdLaws Int ∧ AbsLaws Int := ⟨inferInstance, inferInstance⟩
-- the readings by position
example : rdIs (rd demo "x" 0) (some 5) = true ∧ rdIs (rd demo "x" 1) none = true ∧ rdIs (rd demo "x" 3) none = true := by decide
-- rising: 7 is above 5, 1 (the missing and the None reading are skipped); not rising at candle 4 over 4 candles (5 ≥ 5)
example : isB true (Mov.rising demo "x" 3 5) = true := by decide
example : isB false (Mov.rising demo "x" 4 4) = true := by decide
example : isB false (Mov.rising demo "x" 1 3) = true := by decide   -- latest is None
-- highest includes the current candle; highestbar reports the most recent of the two 5s at candle 4
example : isI 5 (Mov.highest demo "x" 4 4) = true := by decide
example : isI 0 (Mov.highestbar demo "x" 5 4) = true := by decide
example : isI 2 (Mov.lowestbar demo "x" 5 4) = true := by decide
example : isI 4 (Mov.valueRange demo "x" 4 4) = true := by decide
-- x crosses over y between candle 4 and candle 5
example : isB true (Mov.crossover demo "x" "y" 1 5) = true := by decide
example : isB false (Mov.crossunder demo "x" "y" 1 5) = true := by decide
example : isB true (Mov.cross demo "x" "y" 1 5) = true := by decide
-- a well-formed candle
example : WellFormed (mk 6 9 5 5 []) := ⟨by decide, by decide, by decide⟩
-- patterns: ten flat candles, a long rising candle, then a doji that gaps up – a doji star at candle 11
-- (every clause holds), none at candle 10 (its body is not doji-sized), and none before candle 10
def demoP : List (Candle Int) :=
  List.replicate 10 (mk 10 11 9 10 []) ++ [mk 10 21 9 20 [], mk 25 26 24 25 []]
example : dojistarRef demoP 11 = true ∧ dojistarRef demoP 10 = false := by decide
example : isB true (Pat.dojistar demoP none (some 11)) = true ∧ isB false (Pat.dojistar demoP none (some 10)) = true ∧
    isB true (Pat.dojistar demoP (some 3) (some 11)) = true := by decide

end Hex.C17

import HexProofs.Framework.Schedule
import HexProofs.Framework.Kinds.SMA
import HexProofs.Lib.IntInst
import HexProps.C03
/-
C01 – Incremental appends give exactly the batch result (schedule independence).

Proved here, for every float carrier `F` (hence for the executed `Float` model), GENERICALLY in
the indicator: for every LEAF indicator (no sub-indicators, no managed helpers, a read-only
`_calculate_reading`) that satisfies the per-indicator `Contract` (HexProofs/Framework/Contract.lean),
on the base timeframe (no timeframe / fill / conversion / lifespan), any construction prefix and
any append schedule end with the same candles and readings as one batch `calculate()` – and both
equal the row-major specification `rowMajor` (each reading computed from the prefix only).
The equality is in `PyM`: if a reading raises, both runs raise the same exception.
Contract instances proved so far: HLA, SMA.  The full statement (all 27 kinds incl. composites,
collapsing timeframes, gap filling) is `C01_FULL`; what is missing is listed there.
-/
namespace Hex.C01
open Hex
variable {F : Type} [PyF F]

/-- a raw input stream: the candles carry no readings yet -/
def RawInput (xs : List (Candle F)) : Prop := ∀ c ∈ xs, Plain c

instance (xs : List (Candle F)) : Decidable (RawInput xs) := by unfold RawInput; infer_instance

/-- build the indicator over the whole stream and call `calculate()` once -/
def runBatch (ind : Ind F) (cfg : MgrCfg) (stream : List (Candle F)) : PyM (IndState F) :=
  runIndicator ind cfg stream []

/-- **Live = row-major spec** (leaf kinds under their contract, base timeframe). -/
theorem schedule_rowMajor_leaf (ind : Ind F) (hl : IsLeaf ind) (K : Contract ind)
    (init : List (Candle F)) (chunks : List (List (Candle F)))
    (hp : RawInput (init ++ chunks.flatten)) :
    candlesOf (runIndicator ind {} init chunks) = rowMajor ind (init ++ chunks.flatten) :=
  runIndicator_refines ind hl K init chunks hp

/-- **C01 for leaf kinds (base timeframe).**  Any construction prefix `init` (empty or
pre-loaded) and any split of the rest of the stream into `append` chunks (single candles, chunks
of any sizes, empty chunks) ends with exactly the candles – OHLCV, timestamps and both reading
dicts – of one batch `calculate()` over the whole stream. -/
theorem schedule_independent_leaf (ind : Ind F) (hl : IsLeaf ind) (K : Contract ind)
    (init : List (Candle F)) (chunks : List (List (Candle F)))
    (hp : RawInput (init ++ chunks.flatten)) :
    candlesOf (runIndicator ind {} init chunks)
      = candlesOf (runBatch ind {} (init ++ chunks.flatten)) := by
  unfold runBatch
  rw [runIndicator_refines ind hl K init chunks hp,
      runIndicator_refines ind hl K (init ++ chunks.flatten) [] (by rw [List.flatten_nil, List.append_nil]; exact hp)]
  simp

/-! ### the shipped leaf kinds as top-level indicators -/

theorem isLeaf_mkTop (k : Kind F) (name : String) (round : Nat) (hr : k.readOnly = true)
    (hc : children k name = ([], [])) : IsLeaf (mkTop k name round) := by
  unfold mkTop
  rw [hc]
  exact ⟨rfl, rfl, hr⟩

/-- **C01, HighLowAverage** (no side conditions at all). -/
theorem schedule_independent_hla (name : String) (round : Nat)
    (init : List (Candle F)) (chunks : List (List (Candle F)))
    (hp : RawInput (init ++ chunks.flatten)) :
    candlesOf (runIndicator (mkTop .hla name round) {} init chunks)
      = candlesOf (runBatch (mkTop .hla name round) {} (init ++ chunks.flatten)) :=
  schedule_independent_leaf _ (isLeaf_mkTop .hla name round rfl rfl)
    (hlaContract _ (by simp [mkTop, children, Ind.kind])) init chunks hp

/-- **C01, SMA** over any candle field, `period ≥ 1`, any ordinary name. -/
theorem schedule_independent_sma (p : Int) (input name : String) (round : Nat) (hp1 : 1 ≤ p)
    (hname : IsKey name) (hin : NoDot input) (hattr : input ∈ Candle.attrNames)
    (init : List (Candle F)) (chunks : List (List (Candle F)))
    (hp : RawInput (init ++ chunks.flatten)) :
    candlesOf (runIndicator (mkTop (.sma p input) name round) {} init chunks)
      = candlesOf (runBatch (mkTop (.sma p input) name round) {} (init ++ chunks.flatten)) :=
  schedule_independent_leaf _ (isLeaf_mkTop (.sma p input) name round rfl rfl)
    (smaContract _ p input (by simp [mkTop, children, Ind.kind]) hp1
      (by simpa [mkTop, children, Ind.name] using hname)
      (by simpa [mkTop, children, Ind.name] using indep_attr name input hin hattr))
    init chunks hp

/-! ### the full statement -/

/-- period parameters of a kind -/
def periods : Kind F → List Int
  | .sma p _ | .ema p _ _ | .rma p _ | .wma p _ | .vwma p | .hma p _ | .atr p | .stdev p _
  | .bbands p _ | .kc p _ _ | .donchian p | .hl p | .supertrend p _ _ | .stdevthres p _ _
  | .rsi p _ | .roc p _ | .aroon p | .vwap p => [p]
  | .macd f s g _ => [f, s, g]
  | .stoch p s k _ => [p, s, k]
  | .tsi p s _ => [p, s]
  | .adx p s => [p, s]
  | _ => []

/-- a well-formed stream for a timeframe run: stamped, non-decreasing, unconverted, no readings -/
structure WellFormed (xs : List (Candle F)) : Prop where
  raw : C03.RawStream xs
  plain : RawInput xs
  untagged : ∀ c ∈ xs, c.tag = false

/-- **C01 at full strength**: every shipped kind (27 classes, composites included, as built by
`mkTop`), every parameter choice with positive periods, base or collapsing timeframe, with or
without gap filling, every construction prefix and append schedule.
NOT proved yet.  Missing: (i) contracts for the remaining leaf kinds (EMA, RMA, WMA, VWMA, TR,
OBV, ROC, Counter, Donchian, HL, Aroon, Amorph) – each is one `*_trunc` + one `*_congr` lemma
like SMA's; (ii) the framework refinement for trees with sub-indicators / managed helpers
(`calcSubs`, `setManagedReading`), where ADX is known to violate the statement (see
known_findings); (iii) the timeframe/fill case, which needs "re-collapsing keeps the readings of
untouched buckets and wipes the merged one" on top of `collapse_resample_append`. -/
def C01_FULL (F : Type) [PyF F] : Prop :=
  ∀ (k : Kind F) (name : String) (round : Nat) (tf : Option Int) (fill : Bool)
    (init : List (Candle F)) (chunks : List (List (Candle F))),
    (∀ p ∈ periods k, 1 ≤ p) → IsKey name → (∀ t, tf = some t → 0 < t) →
    WellFormed (init ++ chunks.flatten) →
    candlesOf (runIndicator (mkTop k name round) { tf := tf, fill := fill } init chunks)
      = candlesOf (runBatch (mkTop k name round) { tf := tf, fill := fill } (init ++ chunks.flatten))

/-! ### non-vacuity -/

def demo : List (Candle Int) :=
  [ { o := .int 1, h := .int 3, l := .int 1, c := .int 2, v := .int 10, ts := some 60 },
    { o := .int 2, h := .int 5, l := .int 2, c := .int 4, v := .int 20, ts := some 120 },
    { o := .int 4, h := .int 4, l := .int 0, c := .int 1, v := .int 5, ts := some 180 },
    { o := .int 1, h := .int 7, l := .int 1, c := .int 6, v := .int 8, ts := some 240 } ]

def demoSMA : Ind Int := mkTop (.sma 2 "close") "SMA_2" 4

theorem isKey_SMA_2 : IsKey "SMA_2" := by decide

example : RawInput demo := by decide
example : IsLeaf demoSMA := isLeaf_mkTop _ _ _ rfl rfl
/-- the contract hypotheses of `schedule_independent_sma` are met by `SMA_2` over `close` -/
example : Nonempty (Contract demoSMA) :=
  ⟨smaContract _ 2 "close" rfl (by decide) isKey_SMA_2 (indep_attr "SMA_2" "close" noDot_close (by decide))⟩
/-- … and the theorem applies to a schedule with an empty start, a single candle, an empty chunk
and a larger chunk -/
example : candlesOf (runIndicator demoSMA {} [] [demo.take 1, [], demo.drop 1])
    = candlesOf (runBatch demoSMA {} demo) :=
  schedule_independent_sma 2 "close" "SMA_2" 4 (by decide) isKey_SMA_2 noDot_close (by decide)
    [] [demo.take 1, [], demo.drop 1] (by decide)
/-- the SMA column of a run (`none` if the run raised) -/
def smaColumn (r : PyM (List (Candle Int))) : Option (List (Option Int)) :=
  match r with
  | .ok cs => some (cs.map fun c => match (dlookup "SMA_2" c.inds : Option (Val Int)) with
      | some (Val.s (Scalar.num (Num.flt x))) => some x
      | _ => none)
  | .error _ => none

/-- … and the runs are not errors and the readings not all `None` -/
example : smaColumn (candlesOf (runBatch demoSMA {} demo)) = some [none, some 3, some 3, some 4] := by
  decide

end Hex.C01

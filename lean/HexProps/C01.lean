import HexProofs.Framework.Schedule
import HexProofs.Framework.Gen.ObjectHADemo
import HexProofs.Framework.Gen.ChainMoreDemo
import HexProofs.Framework.Fill
import HexProofs.Framework.Kinds.All
import HexProofs.Framework.Gen.AllX
import HexProofs.Framework.Gen.ChainHex
import HexProofs.Lib.IntInst
import HexProps.C03
/-
C01 – Incremental appends give exactly the batch result (schedule independence).

Proved here, for every float carrier `F` (hence for the executed `Float` model), GENERICALLY in
the indicator: for every LEAF indicator (no sub-indicators, no managed helpers, a read-only
`_calculate_reading`) that satisfies the per-indicator `Contract` (HexProofs/Framework/Contract.lean),
on the base timeframe (no timeframe / fill / conversion / lifespan), any construction prefix and
any append schedule end with the same candles and readings as one batch `calculate()` – and both
equal the row-major specification `rowMajor` (each reading computed from the prefix only).
The equality is in `PyM`: if a reading raises, both runs raise the same exception.
On a COLLAPSING timeframe, with or without gap filling, the same holds whenever the live history runs (a reading on
the still-forming bucket may raise where the batch run, which never sees that intermediate
bucket, does not): the live candles equal the batch candles and both equal
`rowMajor ind (resample tf stream)`, resp. `rowMajor ind (fillSpec tf stream)` with fill.
Contract instances proved so far (`Covered`): HLA, TR, OBV, SMA, EMA, RMA, WMA, VWMA, ROC,
Counter, HL, Aroon, Donchian, Amorph (all 20 wrapped functions) – i.e. every shipped leaf class;
see `C01_partial`, `C01_partial_tf`.  The full statement (composites, indicator-on-indicator
inputs) is `C01_FULL`; what is missing is listed there.
-/
namespace Hex.C01
open Hex
variable {F : Type} [PyF F]

/-- a raw input stream: the candles carry no readings yet -/
def RawInput (xs : List (Candle F)) : Prop := ∀ c ∈ xs, Plain c

instance (xs : List (Candle F)) : Decidable (RawInput xs) := by unfold RawInput; infer_instance

/-- build the indicator over the whole stream and call `calculate()` once -/
def runBatch (ind : Ind F) (cfg : MgrCfg) (stream : List (Candle F)) : PyM (IndState F) :=
  runIndicator ind cfg stream []

/-- **Live = row-major spec** (leaf kinds under their contract, base timeframe). -/
theorem schedule_rowMajor_leaf (ind : Ind F) (hl : IsLeaf ind) (K : Contract ind)
    (init : List (Candle F)) (chunks : List (List (Candle F)))
    (hp : RawInput (init ++ chunks.flatten)) :
    candlesOf (runIndicator ind {} init chunks) = rowMajor ind (init ++ chunks.flatten) :=
  runIndicator_refines ind hl K init chunks hp

/-- **C01 for leaf kinds (base timeframe).**  Any construction prefix `init` (empty or
pre-loaded) and any split of the rest of the stream into `append` chunks (single candles, chunks
of any sizes, empty chunks) ends with exactly the candles – OHLCV, timestamps and both reading
dicts – of one batch `calculate()` over the whole stream. -/
theorem schedule_independent_leaf (ind : Ind F) (hl : IsLeaf ind) (K : Contract ind)
    (init : List (Candle F)) (chunks : List (List (Candle F)))
    (hp : RawInput (init ++ chunks.flatten)) :
    candlesOf (runIndicator ind {} init chunks)
      = candlesOf (runBatch ind {} (init ++ chunks.flatten)) := by
  unfold runBatch
  rw [runIndicator_refines ind hl K init chunks hp,
      runIndicator_refines ind hl K (init ++ chunks.flatten) [] (by rw [List.flatten_nil, List.append_nil]; exact hp)]
  simp

/-- **Live = row-major spec of the resampled stream** (leaf kinds, collapsing timeframe). -/
theorem schedule_rowMajor_leaf_tf (tf : Int) (htf : 0 < tf) (ind : Ind F) (hl : IsLeaf ind)
    (K : Contract ind) (init : List (Candle F)) (chunks : List (List (Candle F)))
    (hraw : RawTf (init ++ chunks.flatten)) (snap : List (Candle F))
    (hlive : candlesOf (runIndicator ind (cfgTf tf) init chunks) = .ok snap) :
    rowMajor ind (resample tf (init ++ chunks.flatten)) = .ok snap :=
  runIndicator_tf_refines tf htf ind hl K init chunks hraw snap hlive

/-- **C01 for leaf kinds on a collapsing timeframe.**  Whenever the live history – any
construction prefix, any append chunks; every append re-collapses the open bucket and wipes its
readings – runs, the batch run over the whole stream runs too and ends with exactly the same
candles (collapsed OHLCV, bucket labels, both reading dicts). -/
theorem schedule_independent_leaf_tf (tf : Int) (htf : 0 < tf) (ind : Ind F) (hl : IsLeaf ind)
    (K : Contract ind) (init : List (Candle F)) (chunks : List (List (Candle F)))
    (hraw : RawTf (init ++ chunks.flatten)) (snap : List (Candle F))
    (hlive : candlesOf (runIndicator ind (cfgTf tf) init chunks) = .ok snap) :
    candlesOf (runBatch ind (cfgTf tf) (init ++ chunks.flatten)) = .ok snap := by
  unfold runBatch
  rw [runBatch_tf tf htf ind hl K _ hraw]
  exact runIndicator_tf_refines tf htf ind hl K init chunks hraw snap hlive

/-- **C01 for leaf kinds on a collapsing timeframe with gap filling.**  Whenever the live history
runs (every append re-collapses the open bucket and re-fills the gaps), the batch run over the
whole stream ends with exactly the same candles – real buckets, inserted flat candles, and the
readings on both. -/
theorem schedule_independent_leaf_fill (tf : Int) (htf : 0 < tf) (ind : Ind F) (hl : IsLeaf ind)
    (K : Contract ind) (init : List (Candle F)) (chunks : List (List (Candle F)))
    (hraw : RawTf (init ++ chunks.flatten)) (snap : List (Candle F))
    (hlive : candlesOf (runIndicator ind (cfgFill tf) init chunks) = .ok snap) :
    candlesOf (runBatch ind (cfgFill tf) (init ++ chunks.flatten)) = .ok snap := by
  unfold runBatch
  rw [runBatch_fill tf htf ind hl K _ hraw]
  exact runIndicator_fill_refines tf htf ind hl K init chunks hraw snap hlive

/-! ### the shipped leaf kinds as top-level indicators -/

/-- **C01, partial: all covered kinds, base timeframe.**  `Covered name k` lists the leaf kinds
whose contract is proved (HLA, TR, OBV, SMA, EMA, RMA, WMA, VWMA, ROC, Counter, HL, Aroon,
Donchian, Amorph over all 20 analysis functions – every shipped leaf class) with their
parameter conditions; for each of them, as the top-level indicator `mkTop k name round`, every
append schedule ends with exactly the batch candles (same exception if a reading raises). -/
theorem C01_partial (k : Kind F) (name : String) (round : Nat) (hk : Covered name k)
    (init : List (Candle F)) (chunks : List (List (Candle F)))
    (hp : RawInput (init ++ chunks.flatten)) :
    candlesOf (runIndicator (mkTop k name round) {} init chunks)
      = candlesOf (runBatch (mkTop k name round) {} (init ++ chunks.flatten)) := by
  obtain ⟨K⟩ := hk.contract round
  exact schedule_independent_leaf _ (hk.isLeaf round) K init chunks hp

/-- **C01, partial: all covered kinds, collapsing timeframe, gap filling off or on**: whenever
the live history runs, the batch run returns the same candles. -/
theorem C01_partial_tf (tf : Int) (htf : 0 < tf) (fill : Bool) (k : Kind F) (name : String)
    (round : Nat) (hk : Covered name k) (init : List (Candle F)) (chunks : List (List (Candle F)))
    (hraw : RawTf (init ++ chunks.flatten)) (snap : List (Candle F))
    (hlive : candlesOf (runIndicator (mkTop k name round) { tf := some tf, fill := fill } init chunks)
      = .ok snap) :
    candlesOf (runBatch (mkTop k name round) { tf := some tf, fill := fill } (init ++ chunks.flatten))
      = .ok snap := by
  obtain ⟨K⟩ := hk.contract round
  cases fill with
  | false => exact schedule_independent_leaf_tf tf htf _ (hk.isLeaf round) K init chunks hraw snap hlive
  | true => exact schedule_independent_leaf_fill tf htf _ (hk.isLeaf round) K init chunks hraw snap hlive

/-! ### composite trees -/

/-- **C01, partial: all covered TREES** (`CoveredTreeX`: every leaf class and the composite kinds
whose refinement is proved – the data-series kinds VWAP, STDEV, RSI, ATR with its prior TR
helper, KC with its ATR and EMA helpers, STDEVTHRES and BBANDS with their STDEV / SMA helpers,
Supertrend with ATR / HLA helpers and its own data series, and the kinds whose step drives
indicator-type managed children: MACD (signal EMA over its own dict entry), HMA (WMA over a managed
raw series), STOCH (two SMAs over its data series), TSI (two two-level EMA chains), ADX (prior ATR tree,
two RMAs over its data series and a managed RMA) – every shipped indicator class), base timeframe.  If the
live history returns, the batch run returns the same candles: OHLCV, stamps, the node's readings
and its helper series. -/
theorem C01_trees_base (k : Kind F) (name : String) (round : Nat) (hk : CoveredTreeX name k)
    (init : List (Candle F)) (chunks : List (List (Candle F)))
    (hp : RawInput (init ++ chunks.flatten)) (snap : List (Candle F))
    (hlive : candlesOf (runIndicator (mkTop k name round) {} init chunks) = .ok snap) :
    candlesOf (runBatch (mkTop k name round) {} (init ++ chunks.flatten)) = .ok snap := by
  obtain ⟨T, _⟩ := hk.spec round
  exact T.live_eq_batch (MgrSpec.base F) init chunks hp snap hlive

/-- **C01, partial: all covered trees, any timeframe, gap filling off or on.** -/
theorem C01_trees (tf : Option Int) (htf : ∀ t, tf = some t → 0 < t) (fill : Bool) (k : Kind F)
    (name : String) (round : Nat) (hk : CoveredTreeX name k)
    (init : List (Candle F)) (chunks : List (List (Candle F)))
    (hraw : RawTf (init ++ chunks.flatten)) (snap : List (Candle F))
    (hlive : candlesOf (runIndicator (mkTop k name round) { tf := tf, fill := fill && tf.isSome } init chunks)
      = .ok snap) :
    candlesOf (runBatch (mkTop k name round) { tf := tf, fill := fill && tf.isSome } (init ++ chunks.flatten))
      = .ok snap := by
  obtain ⟨T, _⟩ := hk.spec round
  have hcfg := mgrSpecOf_cfg (F := F) tf htf fill
  unfold runBatch
  rw [← hcfg] at hlive ⊢
  exact T.live_eq_batch (mgrSpecOf F tf htf fill) init chunks (mgrSpecOf_ok tf htf fill _ hraw) snap hlive

/-- the batch run returns iff the row-major spec does (trees compute their helper series
column-major, so when a reading raises the two may raise different exceptions) -/
theorem batch_iff_rowMajor_trees (k : Kind F) (name : String) (round : Nat) (hk : CoveredTreeX name k)
    (stream : List (Candle F)) (hp : RawInput stream) :
    ∃ T : TreeSpec (mkTop k name round), ∀ out,
      candlesOf (runBatch (mkTop k name round) {} stream) = .ok out ↔ Gen.rowMajor T.S stream = .ok out := by
  obtain ⟨T, _⟩ := hk.spec round
  exact ⟨T, fun out => T.batch_iff (MgrSpec.base F) stream hp out⟩

/-! ### inputs that are another indicator's reading: chains of members in a Hexital -/

open Hex.Chain in
/-- **C01 for an indicator-valued input** (the standard usage pattern): a `Hexital` holding a SOURCE member
`A = mkTop kA nameA roundA` – SMA / EMA / RMA / WMA / ROC over a candle attribute, MACD, KC, Supertrend, BBANDS,
STOCH, TSI or ADX (`ChainSource`) – and a DEPENDENT member `B`, an SMA / EMA / RMA / WMA / ROC (`DepKind`) whose
`input_value` addresses `A`'s output: its name or a dotted field of its dict (`InputOf main inp`; the input therefore
starts late).  Both on the Hexital's own manager, any timeframe, gap filling off or on.  `pairRun` is construction
over `init`, `calculate()`, then one `Hexital.append` per chunk.  Whenever the live history returns, the batch
Hexital over the whole stream returns with the same managers: the same candles and the same readings of BOTH
members on every candle.  (HexProofs/Framework/Gen/Chain.lean: `A.calculate(); B.calculate()` on shared candles is
the pass of `TComp.seq` of their components.) -/
theorem C01_chain_covered (tf : Option Int) (htf : ∀ t, tf = some t → 0 < t) (fill : Bool)
    {nameA : String} {kA : Kind F} (hA : ChainSource nameA kA) (roundA : Nat)
    {inp : String} {kB : Kind F} (d : DepKind (F := F) inp kB) (nameB : String) (roundB : Nat)
    (hB : IsKey nameB) (main : String) (hin : InputOf main inp) (hneB : nameB ≠ main)
    (hfresh : nameB ∉ (mkTop kA nameA roundA).allNames) (tfn : Option String)
    (init : List (Candle F)) (chunks : List (List (Candle F))) (hraw : RawTf (init ++ chunks.flatten))
    (H : Hexital F)
    (hlive : pairRun (mkTop kA nameA roundA) (mkTop kB nameB roundB) { tf := tf, fill := fill && tf.isSome }
      tfn init chunks = .ok H) :
    ∃ Hb, pairRun (mkTop kA nameA roundA) (mkTop kB nameB roundB) { tf := tf, fill := fill && tf.isSome }
        tfn (init ++ chunks.flatten) [] = .ok Hb ∧ Hb.managers = H.managers :=
  Hex.Chain.C01_chain_covered tf htf fill hA roundA d nameB roundB hB main hin hneB hfresh tfn init chunks hraw H hlive

open Hex.Chain in
/-- **Chains of any length**: members `ts` registered in this order on the one default manager, each reading only under
the names of EARLIER members and its own (`ChainComps`), names pairwise disjoint.  Whenever the live history returns,
the batch Hexital returns with the same managers and registrations, and the candles are the row-major run of the
chain's spec over the (collapsed / filled) stream. -/
theorem C01_chain_any_length {ts : List (Ind F)} (c : ChainComps [] ts) (M : MgrSpec F) (tfn : Option String)
    (init : List (Candle F)) (chunks : List (List (Candle F))) (hok : M.Ok (init ++ chunks.flatten))
    (H : Hexital F) (hlive : chainRun ts M.cfg tfn init chunks = .ok H) :
    ∃ Hb cs, chainRun ts M.cfg tfn (init ++ chunks.flatten) [] = .ok Hb ∧
      Hb.managers = H.managers ∧ Hb.indicators.map regInfo = H.indicators.map regInfo ∧
      H.managers = [(defaultKey, { cfg := M.cfg, candles := cs })] ∧
      Gen.rowMajor (chainSpec c).S (M.spec (init ++ chunks.flatten)) = .ok cs :=
  chain_live_eq_batch c M tfn init chunks hok H hlive

/-- non-vacuity: the three-member chain SMA_2 → EMA_2 over "SMA_2" → ROC over "EMA_2" of HexProofs/Framework/Gen/ChainHex.lean
(`Hex.Chain.Demo`, evaluated there with `decide +kernel`: the live run returns, the dependent readings start late) -/
example := @Hex.Chain.Demo.demoChain

/-! ### the full statement -/

/-- period parameters of a kind -/
def periods : Kind F → List Int
  | .sma p _ | .ema p _ _ | .rma p _ | .wma p _ | .vwma p | .hma p _ | .atr p | .stdev p _
  | .bbands p _ | .kc p _ _ | .donchian p | .hl p | .supertrend p _ _ | .stdevthres p _ _
  | .rsi p _ | .roc p _ | .aroon p | .vwap p => [p]
  | .macd f s g _ => [f, s, g]
  | .stoch p s k _ => [p, s, k]
  | .tsi p s _ => [p, s]
  | .adx p s => [p, s]
  | _ => []

/-- a well-formed stream for a timeframe run: stamped, non-decreasing, unconverted, no readings -/
structure WellFormed (xs : List (Candle F)) : Prop where
  raw : C03.RawStream xs
  plain : RawInput xs
  untagged : ∀ c ∈ xs, c.tag = false

/-- **C01 at full strength**: every shipped kind (27 classes, composites included, as built by
`mkTop`), every parameter choice with positive periods, base or collapsing timeframe, with or
without gap filling, every construction prefix and append schedule.
NOT proved at this strength.  Item (i) below is CLOSED since round 5 for members on ONE manager (`C01_pair_more`, `C01_chain_more`,
`C01_chain_more_tf` at the end of this file; `HexProofs/Framework/Gen/ChainMore*.lean`): every class that takes an `input_value` as a
DEPENDENT (SMA, EMA, RMA, WMA, ROC, Counter, Amorph × 20, STDEV, RSI, MACD, KC, BBANDS, STDEVTHRES, HMA, STOCH, TSI) over a source
member's reading or dict field, every one of the 27 classes as a SOURCE, chains of any length, any timeframe / fill – the hypothesis
`AttrInput input` generalised to `InputVia` (the input column is a function of the bare row and the entries under the read keys,
stable under the tree's own writes).  (Members on DIFFERENT timeframes cannot feed each other in the library: a dependent reads its input from its own manager's
candles, where the other manager's readings do not exist – nothing to prove there.)  Original list: (i) inputs that are other indicators' readings are proved for the standard
pattern only (`C01_chain_covered`, `C01_chain_any_length`: dependent SMA / EMA / RMA / WMA / ROC members over a source member on
the same manager); not for dependent composites (RSI over an EMA, …), sources without a component instance (ATR, RSI, VWAP, STDEV,
HMA, the non-average leaves) or members on different timeframes;
(ii) parameter corners the covered proofs exclude because the code then
takes the `if start_index and end_index` fallback to a full `calculate()` of a child at index 0: period 1 for HMA
and STOCH; Amorph wrappers are covered for the 20 shipped analysis functions only; (iii) names that are not ordinary
keys (a dot in `fullname_override`) or collide with helper names.
Covered (`C01_trees`; one constructor of `CoveredTreeX` per class): all 27 shipped classes – 14 leaf classes, VWAP, STDEV, RSI, ATR, KC,
STDEVTHRES, BBANDS, Supertrend, MACD, HMA, STOCH, TSI, ADX.  (Timeframes and gap filling are done:
`schedule_independent_leaf_tf`, `schedule_independent_leaf_fill`.)
Note that with a timeframe the statement can only hold for histories that run: a reading on the
still-forming bucket may raise where the batch run does not; so the full statement is about
runs that return. -/
def C01_FULL (F : Type) [PyF F] : Prop :=
  ∀ (k : Kind F) (name : String) (round : Nat) (tf : Option Int) (fill : Bool)
    (init : List (Candle F)) (chunks : List (List (Candle F))),
    (∀ p ∈ periods k, 1 ≤ p) → IsKey name → (∀ t, tf = some t → 0 < t) →
    WellFormed (init ++ chunks.flatten) → ∀ snap,
    candlesOf (runIndicator (mkTop k name round) { tf := tf, fill := fill } init chunks) = .ok snap →
    candlesOf (runBatch (mkTop k name round) { tf := tf, fill := fill } (init ++ chunks.flatten)) = .ok snap

/-! ### non-vacuity -/

def demo : List (Candle Int) :=
  [ { o := .int 1, h := .int 3, l := .int 1, c := .int 2, v := .int 10, ts := some 60 },
    { o := .int 2, h := .int 5, l := .int 2, c := .int 4, v := .int 20, ts := some 120 },
    { o := .int 4, h := .int 4, l := .int 0, c := .int 1, v := .int 5, ts := some 180 },
    { o := .int 1, h := .int 7, l := .int 1, c := .int 6, v := .int 8, ts := some 240 } ]

def demoSMA : Ind Int := mkTop (.sma 2 "close") "SMA_2" 4


example : RawInput demo := by decide
/-- `SMA_2` over `close` is covered: the name is an ordinary key, the input a candle field … -/
example : IsKey "SMA_2" := by decide
example : Covered (F := Int) "SMA_2" (.sma 2 "close") := .sma 2 "close" (by decide) (by decide) (by decide)
example : IsLeaf demoSMA := (Covered.sma 2 "close" (by decide) (by decide) (by decide)).isLeaf 4
example : Nonempty (Contract demoSMA) :=
  (Covered.sma 2 "close" (by decide) (by decide) (by decide)).contract 4
/-- … and the theorem applies to a schedule with an empty start, a single candle, an empty chunk
and a larger chunk -/
example : candlesOf (runIndicator demoSMA {} [] [demo.take 1, [], demo.drop 1])
    = candlesOf (runBatch demoSMA {} demo) :=
  C01_partial (.sma 2 "close") "SMA_2" 4 (.sma 2 "close" (by decide) (by decide) (by decide))
    [] [demo.take 1, [], demo.drop 1] (by decide)
/-- other covered kinds with concrete parameters -/
example : Covered (F := Int) "EMA_3" (.ema 3 "close" (.int 2)) := .ema 3 "close" _ (by decide) (by decide)
example : Covered (F := Int) "VWMA_4" (.vwma 4) := .vwma 4 (by decide) (by decide)
example : Covered (F := Int) "ROC" (.roc 1 "high") := .roc 1 "high" (by decide) (by decide) (by decide)
example : Covered (F := Int) "rising_3" (.amorph (.rising "close" 3)) := .amorph _ (by decide)
example : Covered (F := Int) "hammer" (.amorph (.hammer none)) := .amorph _ (by decide)

/-- composite trees: the hypotheses of `C01_trees` are met and the runs return -/
example : CoveredTree (F := Int) "VWAP_3" (.vwap 3) := .vwap 3
example : CoveredTree (F := Int) "STDEV_2" (.stdev 2 "close") := .stdev 2 "close" (by decide) (by decide)
example : RsiNames "RSI_2" := ⟨by decide, by decide, by decide, by decide⟩
example : CoveredTree (F := Int) "RSI_2" (.rsi 2 "close") :=
  .rsi 2 "close" (by decide) ⟨by decide, by decide, by decide, by decide⟩ (by decide)
example : CoveredTree (F := Int) "ATR_2" (.atr 2) := .atr 2 (by decide) ⟨by decide, by decide⟩
/-- ATR over the demo: its TR helper is computed column-major before the node's own loop; live and
batch return, every candle holds the helper's key, the node's own reading starts at index 2 -/
example : (match candlesOf (runIndicator (mkTop (.atr 2) "ATR_2" 4) {} [] [demo.take 1, demo.drop 1]) with
    | .ok cs => cs.map (fun c => ((dlookup "ATR_2" c.inds).map (fun v => !v.isNone), (dlookup "ATR_2_TR" c.subs).isSome))
    | .error _ => []) = [(some false, true), (some false, true), (some true, true), (some true, true)] := by
  decide +kernel
/-- Keltner Channel: helpers ATR (with its own TR helper) and EMA – a depth-3 tree, five keys per
candle; live and batch return and every candle holds all of them -/
example : KcNames "KC_2" := ⟨by decide, by decide, by decide, by decide, by decide, by decide, by decide,
  by decide, by decide⟩
example : CoveredTree (F := Int) "KC_2" (.kc 2 "close" (.int 2)) :=
  .kc 2 "close" _ (by decide) ⟨by decide, by decide, by decide, by decide, by decide, by decide, by decide,
    by decide, by decide⟩ (by decide)
example : (match candlesOf (runIndicator (mkTop (.kc 2 "close" (.int 2)) "KC_2" 4) {} [] [demo.take 1, demo.drop 1]) with
    | .ok cs => cs.map (fun c => ((dlookup "KC_2" c.inds).isSome, (c.subs.map (·.1))))
    | .error _ => []) = [(true, ["KC_2_ATR_TR", "KC_2_ATR", "KC_2_EMA"]), (true, ["KC_2_ATR_TR", "KC_2_ATR", "KC_2_EMA"]),
      (true, ["KC_2_ATR_TR", "KC_2_ATR", "KC_2_EMA"]), (true, ["KC_2_ATR_TR", "KC_2_ATR", "KC_2_EMA"])] := by
  decide +kernel
/-- Bollinger Bands (STDEV data helper + SMA helper) and STDEVTHRES (STDEV data helper) -/
example : CoveredTree (F := Int) "BB_2" (.bbands 2 "close") :=
  .bbands 2 "close" (by decide) ⟨by decide, by decide, ⟨by decide, by decide, by decide⟩, by decide, by decide,
    by decide, by decide, by decide⟩ (by decide)
example : CoveredTree (F := Int) "TH_2" (.stdevthres 2 "close" (.int 1)) :=
  .stdevthres 2 "close" _ (by decide) ⟨by decide, ⟨by decide, by decide, by decide⟩, by decide, by decide⟩
    (by decide)
example : (match candlesOf (runIndicator (mkTop (.bbands 2 "close") "BB_2" 4) {} [] [demo.take 2, demo.drop 2]) with
    | .ok cs => cs.map (fun c => ((dlookup "BB_2" c.inds).isSome, (c.subs.map (·.1))))
    | .error _ => []) = [(true, ["BB_2_STDEV_data", "BB_2_STDEV", "BB_2_SMA"]), (true, ["BB_2_STDEV_data", "BB_2_STDEV", "BB_2_SMA"]),
      (true, ["BB_2_STDEV_data", "BB_2_STDEV", "BB_2_SMA"]), (true, ["BB_2_STDEV_data", "BB_2_STDEV", "BB_2_SMA"])] := by
  decide +kernel
/-- Supertrend: ATR tree + HLA helper + own `_data` series – six keys per candle -/
example : CoveredTree (F := Int) "ST_2" (.supertrend 2 "close" (.int 3)) :=
  .supertrend 2 "close" _ (by decide) ⟨by decide, by decide, by decide, by decide, by decide, by decide,
    by decide, by decide, by decide, by decide, by decide, by decide, by decide, by decide, by decide, by decide⟩
example : (match candlesOf (runIndicator (mkTop (.supertrend 2 "close" (.int 3)) "ST_2" 4) {} [] [demo.take 1, demo.drop 1]) with
    | .ok cs => cs.map (fun c => ((dlookup "ST_2" c.inds).isSome, (c.subs.map (·.1))))
    | .error _ => []) = [(true, ["ST_2_atr_TR", "ST_2_atr", "ST_2_HL"]), (true, ["ST_2_atr_TR", "ST_2_atr", "ST_2_HL"]),
      (true, ["ST_2_atr_TR", "ST_2_atr", "ST_2_HL", "ST_2_data"]), (true, ["ST_2_atr_TR", "ST_2_atr", "ST_2_HL", "ST_2_data"])] := by
  decide +kernel
/-! the composites that drive managed children -/
example : CoveredTreeX (F := Int) "MACD_2_3_2" (.macd 2 3 2 "close") :=
  .macd 2 3 2 "close" (by decide) (by decide) (by decide)
    ⟨by decide, by decide, by decide, by decide, by decide, by decide, by decide, by decide, by decide,
      by decide⟩ (by decide)
example : CoveredTreeX (F := Int) "HMA_4" (.hma 4 "close") :=
  .hma 4 "close" (by decide)
    ⟨by decide, by decide, by decide, by decide, by decide, by decide, by decide, by decide, by decide, by decide,
      by decide, by decide, by decide, by decide, by decide⟩ (by decide)
example : CoveredTreeX (F := Int) "STOCH_3" (.stoch 3 3 3 "close") :=
  .stoch 3 3 3 "close" (by decide) (by decide) (by decide)
    ⟨by decide, by decide, by decide, by decide, by decide, by decide, by decide, by decide, by decide,
      by decide⟩ (by decide)
example : CoveredTreeX (F := Int) "TSI_3_1" (.tsi 3 1 "close") :=
  .tsi 3 1 "close" (by decide) (by decide)
    ⟨by decide, by decide, by decide, by decide, by decide, by decide, by decide, by decide, by decide,
      by decide, by decide, by decide, by decide, by decide, by decide, by decide, by decide, by decide,
      by decide, by decide, by decide⟩ (by decide)
example : CoveredTreeX (F := Int) "ADX_3_3" (.adx 3 3) :=
  .adx 3 3 (by decide) (by decide)
    ⟨by decide, by decide, by decide, by decide, by decide, by decide, by decide, by decide, by decide, by decide,
      by decide, by decide, by decide, by decide, by decide, by decide, by decide, by decide, by decide, by decide,
      by decide, by decide, by decide, by decide, by decide, by decide, by decide, by decide⟩
/-- MACD over the demo, one candle at a time from an empty start: the live run returns and every candle
carries the node's dict and both prior EMA helpers; the signal line appears once the slow EMA exists -/
example : (match candlesOf (runIndicator (mkTop (.macd 2 3 2 "close") "MACD_2_3_2" 4) {} [] [demo.take 1, demo.drop 1]) with
    | .ok cs => cs.map (fun c => ((dlookup "MACD_2_3_2" c.inds).isSome, (c.subs.map (·.1))))
    | .error _ => []) = [(true, ["MACD_2_3_2_EMA_fast", "MACD_2_3_2_EMA_slow"]), (true, ["MACD_2_3_2_EMA_fast", "MACD_2_3_2_EMA_slow"]),
      (true, ["MACD_2_3_2_EMA_fast", "MACD_2_3_2_EMA_slow", "MACD_2_3_2_signal_line"]),
      (true, ["MACD_2_3_2_EMA_fast", "MACD_2_3_2_EMA_slow", "MACD_2_3_2_signal_line"])] := by
  decide +kernel
/-- VWAP over the demo, live = batch, with its `VWAP_3_data` helper series written on every candle -/
example : (match candlesOf (runIndicator (mkTop (.vwap 3) "VWAP_3" 4) {} [] [demo.take 1, demo.drop 1]) with
    | .ok cs => cs.map (fun c => ((dlookup "VWAP_3" c.inds).isSome, (dlookup "VWAP_3_data" c.subs).isSome))
    | .error _ => []) = [(true, true), (true, true), (true, true), (true, true)] := by decide +kernel
/-- the SMA column of a run (`none` if the run raised) -/
def smaColumn (r : PyM (List (Candle Int))) : Option (List (Option Int)) :=
  match r with
  | .ok cs => some (cs.map fun c => match (dlookup "SMA_2" c.inds : Option (Val Int)) with
      | some (Val.s (Scalar.num (Num.flt x))) => some x
      | _ => none)
  | .error _ => none

/-- … and the runs are not errors and the readings not all `None` -/
example : smaColumn (candlesOf (runBatch demoSMA {} demo)) = some [none, some 3, some 3, some 4] := by
  decide

/-- the same stream on a two-minute timeframe: two buckets, the first one re-opened by the
second append; the hypotheses of `schedule_independent_leaf_tf` hold and the live run returns -/
example : RawTf demo := ⟨by decide, by decide, by decide, by decide⟩
example : smaColumn (candlesOf (runIndicator demoSMA (cfgTf 120) [] [demo.take 1, demo.drop 1]))
    = some [none, some 5] := by decide +kernel
example : smaColumn (candlesOf (runBatch demoSMA (cfgTf 120) demo)) = some [none, some 5] := by
  decide +kernel

/-- with gap filling: a stream with a two-bucket gap (stamps 60, 120 | gap | 420, 480 on a
two-minute timeframe): the filled series has 4 candles, the live and the batch run return -/
def gappy : List (Candle Int) :=
  [ { o := .int 1, h := .int 3, l := .int 1, c := .int 2, v := .int 10, ts := some 60 },
    { o := .int 2, h := .int 5, l := .int 2, c := .int 4, v := .int 20, ts := some 120 },
    { o := .int 4, h := .int 4, l := .int 0, c := .int 1, v := .int 5, ts := some 420 },
    { o := .int 1, h := .int 7, l := .int 1, c := .int 6, v := .int 8, ts := some 480 } ]
example : RawTf gappy := ⟨by decide, by decide, by decide, by decide⟩
example : smaColumn (candlesOf (runIndicator demoSMA (cfgFill 120) [] [gappy.take 1, gappy.drop 1]))
    = some [none, some 4, some 4, some 5] := by decide +kernel

/-! ### indicator-valued inputs, every class: dependents of any covered class over sources of any covered class -/

open Hex.Chain in
/-- **C01 for an indicator-valued input, every class.**  A `Hexital` holding a SOURCE member `A = mkTop kA nameA roundA` of ANY
of the 27 classes over candle attributes (`SrcVia`, i.e. `MemberVia []`; ATR, RSI, VWAP, STDEV, HMA, STDEVTHRES and the
non-average leaves included) and a DEPENDENT member `B = mkTop kB nameB roundB` of ANY class that takes an `input_value`
(`DepVia main`, i.e. `MemberVia [main]`: SMA / EMA / RMA / WMA / ROC / Counter / Amorph / STDEV / RSI / MACD / KC / BBANDS /
STDEVTHRES / HMA / STOCH / TSI) whose input is `main` or a dotted field `main.field` (`InputVia.ofInput`), `main` a key
written by `A`, names disjoint.  Both on the Hexital's own manager, any timeframe, gap filling off or on.  Whenever the
live history returns, the batch Hexital over the whole stream returns with the same managers. -/
theorem C01_pair_more (tf : Option Int) (htf : ∀ t, tf = some t → 0 < t) (fill : Bool)
    {nameA : String} {kA : Kind F} (hA : SrcVia nameA kA) (roundA : Nat)
    {main nameB : String} {kB : Kind F} (hB : DepVia main nameB kB) (roundB : Nat)
    (hmain : main ∈ (mkTop kA nameA roundA).allNames)
    (hdis : ∀ x ∈ (mkTop kA nameA roundA).allNames, x ∉ (mkTop kB nameB roundB).allNames)
    (tfn : Option String) (init : List (Candle F)) (chunks : List (List (Candle F)))
    (hraw : RawTf (init ++ chunks.flatten)) (H : Hexital F)
    (hlive : pairRun (mkTop kA nameA roundA) (mkTop kB nameB roundB) { tf := tf, fill := fill && tf.isSome }
      tfn init chunks = .ok H) :
    ∃ Hb, pairRun (mkTop kA nameA roundA) (mkTop kB nameB roundB) { tf := tf, fill := fill && tf.isSome }
        tfn (init ++ chunks.flatten) [] = .ok Hb ∧ Hb.managers = H.managers :=
  Hex.Chain.C01_pair_more tf htf fill hA roundA hB roundB hmain hdis tfn init chunks hraw H hlive

open Hex.Chain in
/-- … with the row-major spec spelled out, for any `MgrSpec`: live = row-major run of the pair's spec = batch -/
theorem C01_pair_more_spec {nameA : String} {kA : Kind F} (hA : SrcVia nameA kA) (roundA : Nat)
    {main nameB : String} {kB : Kind F} (hB : DepVia main nameB kB) (roundB : Nat)
    (hmain : main ∈ (mkTop kA nameA roundA).allNames)
    (hdis : ∀ x ∈ (mkTop kA nameA roundA).allNames, x ∉ (mkTop kB nameB roundB).allNames)
    (M : MgrSpec F) (tfn : Option String) (init : List (Candle F)) (chunks : List (List (Candle F)))
    (hok : M.Ok (init ++ chunks.flatten)) (H : Hexital F)
    (hlive : pairRun (mkTop kA nameA roundA) (mkTop kB nameB roundB) M.cfg tfn init chunks = .ok H) :
    ∃ (c : ChainCompsW [] [mkTop kA nameA roundA, mkTop kB nameB roundB]) (Hb : Hexital F) (cs : List (Candle F)),
      pairRun (mkTop kA nameA roundA) (mkTop kB nameB roundB) M.cfg tfn (init ++ chunks.flatten) [] = .ok Hb ∧
      Hb.managers = H.managers ∧ H.managers = [(defaultKey, { cfg := M.cfg, candles := cs })] ∧
      Gen.rowMajor (chainSpecW c).S (M.spec (init ++ chunks.flatten)) = .ok cs :=
  Hex.Chain.C01_pair_more_spec hA roundA hB roundB hmain hdis M tfn init chunks hok H hlive

open Hex.Chain in
/-- **Chains of any length, every class** (`CoveredChain`: each member a covered class reading only entries written by
earlier members, names pairwise disjoint), any `MgrSpec`. -/
theorem C01_chain_more {ts : List (Ind F)} (h : CoveredChain [] ts) (M : MgrSpec F) (tfn : Option String)
    (init : List (Candle F)) (chunks : List (List (Candle F))) (hok : M.Ok (init ++ chunks.flatten))
    (H : Hexital F) (hlive : chainRun ts M.cfg tfn init chunks = .ok H) :
    ∃ (c : ChainCompsW [] ts) (Hb : Hexital F) (cs : List (Candle F)),
      chainRun ts M.cfg tfn (init ++ chunks.flatten) [] = .ok Hb ∧
      Hb.managers = H.managers ∧ Hb.indicators.map regInfo = H.indicators.map regInfo ∧
      H.managers = [(defaultKey, { cfg := M.cfg, candles := cs })] ∧
      Gen.rowMajor (chainSpecW c).S (M.spec (init ++ chunks.flatten)) = .ok cs :=
  Hex.Chain.C01_chain_more h M tfn init chunks hok H hlive

open Hex.Chain in
/-- the same for any timeframe, gap filling off or on -/
theorem C01_chain_more_tf {ts : List (Ind F)} (h : CoveredChain [] ts) (tf : Option Int)
    (htf : ∀ t, tf = some t → 0 < t) (fill : Bool) (tfn : Option String) (init : List (Candle F))
    (chunks : List (List (Candle F))) (hraw : RawTf (init ++ chunks.flatten)) (H : Hexital F)
    (hlive : chainRun ts { tf := tf, fill := fill && tf.isSome } tfn init chunks = .ok H) :
    ∃ Hb, chainRun ts { tf := tf, fill := fill && tf.isSome } tfn (init ++ chunks.flatten) [] = .ok Hb ∧
      Hb.managers = H.managers ∧ Hb.indicators.map regInfo = H.indicators.map regInfo :=
  Hex.Chain.C01_chain_more_tf h tf htf fill tfn init chunks hraw H hlive

/-- non-vacuity (HexProofs/Framework/Gen/ChainMoreDemo.lean, `decide +kernel` there): RSI_2 over EMA_2, BBANDS over SMA_2,
SMA_2 over `MACD_2_3_2.MACD`, HMA_2 over SMA_2, the chain SMA_2 → RSI_2 → EMA_3 -/
example := @Hex.Chain.DemoMore.depRSI
example := @Hex.Chain.DemoMore.depBB
example := @Hex.Chain.DemoMore.depSMAm
example := @Hex.Chain.DemoMore.demoChain3


/-! ### Heikin-Ashi managers (HexProofs/Framework/Gen/ObjectHA.lean) -/

variable {F : Type} [PyF F]

/-- **C01 on any manager spec** (`M : MgrSpec F`: base timeframe, collapsing timeframe, timeframe + fill, and the three
Heikin-Ashi specs `MgrSpec.ha`, `MgrSpec.tfHA`, `MgrSpec.fillHA`), all 27 classes: if the live history returns, the
batch run over the concatenated stream returns the same candles. -/
theorem C01_trees_mgr (k : Kind F) (name : String) (round : Nat) (hk : CoveredTreeX name k) (M : MgrSpec F)
    (init : List (Candle F)) (chunks : List (List (Candle F))) (hok : M.Ok (init ++ chunks.flatten))
    (snap : List (Candle F))
    (hlive : candlesOf (runIndicator (mkTop k name round) M.cfg init chunks) = .ok snap) :
    candlesOf (runBatch (mkTop k name round) M.cfg (init ++ chunks.flatten)) = .ok snap :=
  Hex.C01_trees_mgr hk round M init chunks hok snap hlive

/-- **C01 on a Heikin-Ashi manager** `{ ha := true }` (raw stream reading-free and unconverted) -/
theorem C01_trees_ha (k : Kind F) (name : String) (round : Nat) (hk : CoveredTreeX name k)
    (init : List (Candle F)) (chunks : List (List (Candle F))) (hraw : RawHAPlain (init ++ chunks.flatten))
    (snap : List (Candle F))
    (hlive : candlesOf (runIndicator (mkTop k name round) { ha := true } init chunks) = .ok snap) :
    candlesOf (runBatch (mkTop k name round) { ha := true } (init ++ chunks.flatten)) = .ok snap :=
  Hex.C01_trees_ha hk round init chunks hraw snap hlive

/-- **C01 on any Heikin-Ashi manager**: any timeframe or none, gap filling off or on (configuration as in `C01_trees`
with `candlestick_type = Heikin-Ashi`; raw stream `RawTfHA`: stamped, sorted, reading-free, unconverted) -/
theorem C01_trees_haCfg (tf : Option Int) (htf : ∀ t, tf = some t → 0 < t) (fill : Bool) (k : Kind F)
    (name : String) (round : Nat) (hk : CoveredTreeX name k)
    (init : List (Candle F)) (chunks : List (List (Candle F)))
    (hraw : RawTfHA (init ++ chunks.flatten)) (snap : List (Candle F))
    (hlive : candlesOf (runIndicator (mkTop k name round) { tf := tf, fill := fill && tf.isSome, ha := true }
      init chunks) = .ok snap) :
    candlesOf (runBatch (mkTop k name round) { tf := tf, fill := fill && tf.isSome, ha := true }
      (init ++ chunks.flatten)) = .ok snap :=
  Hex.C01_trees_haCfg hk round tf htf fill init chunks hraw snap hlive

/-- the batch run on any Heikin-Ashi manager returns iff the row-major run over the CONVERTED collapsed (filled) stream
does, with the same candles -/
theorem batch_iff_rowMajor_trees_haCfg (k : Kind F) (name : String) (round : Nat) (hk : CoveredTreeX name k) :
    ∃ T : TreeSpec (mkTop k name round), ∀ (tf : Option Int) (htf : ∀ t, tf = some t → 0 < t) (fill : Bool)
      (stream : List (Candle F)), RawTfHA stream → ∀ out,
      candlesOf (runBatch (mkTop k name round) { tf := tf, fill := fill && tf.isSome, ha := true } stream)
          = .ok out ↔
        Gen.rowMajor T.S (haSpec ((mgrSpecOf F tf htf fill).spec stream)) = .ok out :=
  Hex.batch_iff_rowMajor_trees_haCfg hk round

open Hex.Chain in
/-- **Chains of any length, every class, on `{ ha := true }`** (shape of `C01_chain_more`) -/
theorem C01_chain_more_ha {ts : List (Ind F)} (h : CoveredChain [] ts) (tfn : Option String)
    (init : List (Candle F)) (chunks : List (List (Candle F))) (hraw : RawHAPlain (init ++ chunks.flatten))
    (H : Hexital F) (hlive : chainRun ts { ha := true } tfn init chunks = .ok H) :
    ∃ (c : ChainCompsW [] ts) (Hb : Hexital F) (cs : List (Candle F)),
      chainRun ts { ha := true } tfn (init ++ chunks.flatten) [] = .ok Hb ∧
      Hb.managers = H.managers ∧ Hb.indicators.map regInfo = H.indicators.map regInfo ∧
      H.managers = [(defaultKey, { cfg := { ha := true }, candles := cs })] ∧
      Gen.rowMajor (chainSpecW c).S (haSpec (init ++ chunks.flatten)) = .ok cs :=
  Hex.Chain.C01_chain_more_ha h tfn init chunks hraw H hlive

open Hex.Chain in
/-- **Chains of any length, every class, any Heikin-Ashi manager** (shape of `C01_chain_more_tf`) -/
theorem C01_chain_more_haCfg {ts : List (Ind F)} (h : CoveredChain [] ts) (tf : Option Int)
    (htf : ∀ t, tf = some t → 0 < t) (fill : Bool) (tfn : Option String) (init : List (Candle F))
    (chunks : List (List (Candle F))) (hraw : RawTfHA (init ++ chunks.flatten)) (H : Hexital F)
    (hlive : chainRun ts { tf := tf, fill := fill && tf.isSome, ha := true } tfn init chunks = .ok H) :
    ∃ Hb, chainRun ts { tf := tf, fill := fill && tf.isSome, ha := true } tfn (init ++ chunks.flatten) [] = .ok Hb ∧
      Hb.managers = H.managers ∧ Hb.indicators.map regInfo = H.indicators.map regInfo :=
  Hex.Chain.C01_chain_more_haCfg h tf htf fill tfn init chunks hraw H hlive

open Hex.Chain in
/-- … with the row-major spec spelled out: the candles are the run of the chain's spec over the converted collapsed
(filled) stream -/
theorem C01_chain_more_haCfg_spec {ts : List (Ind F)} (h : CoveredChain [] ts) (tf : Option Int)
    (htf : ∀ t, tf = some t → 0 < t) (fill : Bool) (tfn : Option String) (init : List (Candle F))
    (chunks : List (List (Candle F))) (hraw : RawTfHA (init ++ chunks.flatten)) (H : Hexital F)
    (hlive : chainRun ts { tf := tf, fill := fill && tf.isSome, ha := true } tfn init chunks = .ok H) :
    ∃ (c : ChainCompsW [] ts) (Hb : Hexital F) (cs : List (Candle F)),
      chainRun ts { tf := tf, fill := fill && tf.isSome, ha := true } tfn (init ++ chunks.flatten) [] = .ok Hb ∧
      Hb.managers = H.managers ∧ Hb.indicators.map regInfo = H.indicators.map regInfo ∧
      H.managers = [(defaultKey, { cfg := { tf := tf, fill := fill && tf.isSome, ha := true }, candles := cs })] ∧
      Gen.rowMajor (chainSpecW c).S (haSpec ((mgrSpecOf F tf htf fill).spec (init ++ chunks.flatten))) = .ok cs :=
  Hex.Chain.C01_chain_more_haCfg_spec h tf htf fill tfn init chunks hraw H hlive

open Hex.Chain in
/-- **a source member and a dependent member of any covered class, any Heikin-Ashi manager** (shape of `C01_pair_more`) -/
theorem C01_pair_more_haCfg (tf : Option Int) (htf : ∀ t, tf = some t → 0 < t) (fill : Bool)
    {nameA : String} {kA : Kind F} (hA : SrcVia nameA kA) (roundA : Nat)
    {main nameB : String} {kB : Kind F} (hB : DepVia main nameB kB) (roundB : Nat)
    (hmain : main ∈ (mkTop kA nameA roundA).allNames)
    (hdis : ∀ x ∈ (mkTop kA nameA roundA).allNames, x ∉ (mkTop kB nameB roundB).allNames)
    (tfn : Option String) (init : List (Candle F)) (chunks : List (List (Candle F)))
    (hraw : RawTfHA (init ++ chunks.flatten)) (H : Hexital F)
    (hlive : pairRun (mkTop kA nameA roundA) (mkTop kB nameB roundB)
      { tf := tf, fill := fill && tf.isSome, ha := true } tfn init chunks = .ok H) :
    ∃ Hb, pairRun (mkTop kA nameA roundA) (mkTop kB nameB roundB)
        { tf := tf, fill := fill && tf.isSome, ha := true } tfn (init ++ chunks.flatten) [] = .ok Hb ∧
      Hb.managers = H.managers :=
  Hex.Chain.C01_pair_more_haCfg tf htf fill hA roundA hB roundB hmain hdis tfn init chunks hraw H hlive

/-- non-vacuity (HexProofs/Framework/Gen/ObjectHADemo.lean, `decide +kernel` there): KC on `{ ha := true }`,
`{ tf := some 120, ha := true }`, `{ tf := some 120, fill := true, ha := true }` over one-minute candles (converted OHLC
different from the raw / collapsed ones), the chain SMA_2 → RSI_2 → EMA_3 on Heikin-Ashi managers -/
example := @Hex.ObjHADemo.sched_raw
example := @Hex.ObjHADemo.chunks6_raw

#print axioms C01_trees_mgr
#print axioms C01_trees_ha
#print axioms C01_trees_haCfg
#print axioms C01_chain_more_haCfg

end Hex.C01

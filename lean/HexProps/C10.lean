import HexProofs.Numeric.Simple
import HexProofs.Numeric.AvgExtra
import HexProofs.Numeric.Channel
import HexProofs.Numeric.Extremes
import HexProofs.Numeric.Bars
import HexProofs.Numeric.Rsi
import HexProofs.Numeric.Stoch
import HexProofs.Numeric.Adx
import HexProofs.Numeric.Stdev
import HexProofs.Numeric.Supertrend
import HexProofs.Numeric.Rounding
import HexProofs.Numeric.SeriesMore
import HexProofs.Numeric.Demo
/-
C10 – Outputs satisfy their structural invariants on every input
(NUMERIC layer: ordered field `K` with `LawfulPyF K`; IEEE rounding error, overflow and NaN are
outside these theorems – see HexProofs/Numeric/Lawful.lean).

Each invariant is proved of the value a `_calculate_reading` call returns, under the hypotheses
that make it meaningful (non-negative smoothed gain/loss, low ≤ input ≤ high, σ ≥ 0, …), and is
shown to survive `round_values` where the bound is an integer (`stored_between`).  Missing for the
full property (`C10_FULL`): the framework induction showing that those hypotheses hold on every
reachable state (e.g. that the stored average gain/loss are non-negative because they start
non-negative and `wilder_nonneg` preserves it – the step lemmas are here, the induction is not).
-/
namespace Hex.C10
open Hex Hex.Numeric
variable {K : Type} [Field K] [LinearOrder K] [IsStrictOrderedRing K] [LawfulPyF K]

/-! ### oscillator ranges -/

/-- **RSI ∈ [0, 100]** (running branch): the reading returned by `_calculate_reading`. -/
theorem rsi_range (ops : Ops K) (x : Ctx K) (p : Nat) (input : String) (w : Val K → List (Candle K))
    (pr pi ci g0 l0 : Num K)
    (hprev : x.prevReading x.name = .ok (.num pr))
    (hpi : x.prevReading input = .ok (.num pi)) (hci : x.reading input = .ok (.num ci))
    (hg0 : x.prevReading (x.name ++ "_data.gain") = .ok (.num g0))
    (hl0 : x.prevReading (x.name ++ "_data.loss") = .ok (.num l0))
    (hset : ∀ v, ops.setManaged "RSI_data" v x.cs = .ok (w v))
    (hdata : ∀ v, (Ctx.on x (w v)).reading (x.name ++ "_data") = .ok v)
    (hrg : ∀ g l : Num K, (Ctx.on x (w (sdict [("gain", sc g), ("loss", sc l)]))).reading (x.name ++ "_data.gain") = .ok (.num g))
    (hrl : ∀ g l : Num K, (Ctx.on x (w (sdict [("gain", sc g), ("loss", sc l)]))).reading (x.name ++ "_data.loss") = .ok (.num l))
    (hp : 1 ≤ p) (hg0n : 0 ≤ g0.toF) (hl0n : 0 ≤ l0.toF) :
    ∃ y cs', Calc.rsi ops x p input = .ok (.num (.flt y), cs') ∧ 0 ≤ y ∧ y ≤ 100 := by
  refine ⟨_, _, Numeric.rsi_step ops x p input w pr pi ci g0 l0 hprev hpi hci hg0 hl0 hset hdata hrg hrl hp hg0n hl0n, ?_⟩
  exact rsiOf_range _ _ (wilder_nonneg p _ _ hp hg0n (gainOf_nonneg _)) (wilder_nonneg p _ _ hp hl0n (lossOf_nonneg _))

example : ∃ (y : ℚ) (cs' : List (Candle ℚ)),
    Calc.rsi (Demo.opsW "RSI_3_data") (Demo.ctx "RSI_3") (3 : Nat) "close" = .ok (.num (.flt y), cs') ∧ 0 ≤ y ∧ y ≤ 100 :=
  rsi_range (Demo.opsW "RSI_3_data") (Demo.ctx "RSI_3") 3 "close" (fun v => Demo.wr "RSI_3_data" v Demo.cs)
    (.flt 50) (.int 14) (.int 15) (.flt 1) (.flt 0) rfl rfl rfl rfl rfl (fun _ => rfl) (fun _ => rfl)
    (fun _ _ => rfl) (fun _ _ => rfl) (by norm_num) (by norm_num) (by norm_num)

/-- the stored average gain and loss stay non-negative (what `rsi_range` assumes of the next step) -/
theorem rsi_state_nonneg (p : Nat) (g0 l0 change : K) (hp : 1 ≤ p) (hg : 0 ≤ g0) (hl : 0 ≤ l0) :
    0 ≤ (g0 * ((p : K) - 1) + gainOf change) / p ∧ 0 ≤ (l0 * ((p : K) - 1) + lossOf change) / p :=
  ⟨wilder_nonneg p _ _ hp hg (gainOf_nonneg _), wilder_nonneg p _ _ hp hl (lossOf_nonneg _)⟩

/-- **Stochastic ∈ [0, 100]** when the input lies between the lowest low and the highest high of
the window (true for `close`, since low ≤ close ≤ high on the window's last candle). -/
theorem stoch_range (ops : Ops K) (x : Ctx K) (p : Nat) (input : String)
    (w : Val K → List (Candle K) → List (Candle K)) (cd : List (Candle K) → List (Candle K))
    (lo hi : Nat → Num K) (cur : Num K)
    (hrp : x.readingPeriod p input = true) (hp : 1 ≤ p)
    (hlo : ∀ j, j < p → x.reading "low" (some (x.i + 1 - p + j)) = .ok (.num (lo j)))
    (hhi : ∀ j, j < p → x.reading "high" (some (x.i + 1 - p + j)) = .ok (.num (hi j)))
    (hc : x.reading input = .ok (.num cur))
    (hset : ∀ v cs, ops.setManaged "STOCH_data" v cs = .ok (w v cs))
    (hcalc : ∀ cs, ops.calcManaged "STOCH_d" cs = .ok (cd cs))
    (hk : ∀ v, ∃ ks, (Ctx.on x (w v x.cs)).reading (x.name ++ "_k") = .ok (.s ks))
    (hdr : ∀ v1 v2, ∃ ds, (Ctx.on x (cd (w v2 (w v1 x.cs)))).reading (x.name ++ "_d") = .ok (.s ds))
    (hin : (lo (p - 1)).toF ≤ cur.toF ∧ cur.toF ≤ (hi (p - 1)).toF) :
    ∃ (st : Num K) (ks ds : Scalar K) (cs' : List (Candle K)),
      Calc.stoch ops x p input = .ok (.dict [("stoch", .num st), ("k", ks), ("d", ds)], cs') ∧
      0 ≤ st.toF ∧ st.toF ≤ 100 := by
  obtain ⟨st, L, H, ks, ds, cs', h, hv, hL, _, hH, _⟩ :=
    stoch_def ops x p input w cd lo hi cur hrp hp hlo hhi hc hset hcalc hk hdr
  refine ⟨st, ks, ds, cs', h, ?_⟩
  rw [hv]
  exact stochOf_range _ _ _ (le_trans (hL (p - 1) (by omega)) hin.1) (le_trans hin.2 (hH (p - 1) (by omega)))

example : ∃ (st : Num ℚ) (ks ds : Scalar ℚ) (cs' : List (Candle ℚ)),
    Calc.stoch Demo.ops (Demo.ctx "STOCH") (3 : Nat) "close" = .ok (.dict [("stoch", .num st), ("k", ks), ("d", ds)], cs') ∧
    0 ≤ st.toF ∧ st.toF ≤ 100 :=
  stoch_range Demo.ops (Demo.ctx "STOCH") 3 "close" (fun _ cs => cs) (fun cs => cs)
    (fun j => .int ([10, 11, 13].getD j 0)) (fun j => .int ([13, 15, 16].getD j 0)) (.int 15) (by decide) (by norm_num)
    (by intro j hj; interval_cases j <;> rfl) (by intro j hj; interval_cases j <;> rfl) rfl
    (fun _ _ => rfl) (fun _ => rfl) (fun _ => ⟨.num (.flt 60), rfl⟩) (fun _ _ => ⟨.num (.flt 55), rfl⟩)
    (by simp; norm_num)

/-- **Aroon up/down ∈ [0, 100] and oscillator = up − down.** -/
theorem aroon_range (x : Ctx K) (p : Int) (hb lb : Int) (hp0 : 0 < p)
    (hrp : x.readingPeriod (p + 1) "high" = true)
    (hh : Mov.highestbar x.cs "high" (p + 1) x.i = .ok (.int hb))
    (hl : Mov.lowestbar x.cs "low" (p + 1) x.i = .ok (.int lb)) :
    ∃ u d o : Num K, Calc.aroon x p = .ok (.dict [("AROONU", .num u), ("AROOND", .num d), ("AROONOSC", .num o)]) ∧
      (0 ≤ u.toF ∧ u.toF ≤ 100) ∧ (0 ≤ d.toF ∧ d.toF ≤ 100) ∧ o.toF = u.toF - d.toF := by
  have hp : (p : K) ≠ 0 := by
    have : (0 : K) < p := by exact_mod_cast hp0
    exact this.ne'
  obtain ⟨h1, h2⟩ := highestbar_range _ _ _ _ _ hh
  obtain ⟨l1, l2⟩ := lowestbar_range _ _ _ _ _ hl
  refine ⟨_, _, _, aroon_def x p hb lb hrp hh hl hp, ?_, ?_, by simp⟩
  · rw [aroon_val]; exact Numeric.aroon_range p hb hp0 h1 (by rcases h2 with h | h <;> omega)
  · rw [aroon_val]; exact Numeric.aroon_range p lb hp0 l1 (by rcases l2 with h | h <;> omega)

example : ∃ u d o : Num ℚ, Calc.aroon (Demo.ctx "AROON_2") 2 =
      .ok (.dict [("AROONU", .num u), ("AROOND", .num d), ("AROONOSC", .num o)]) ∧
      (0 ≤ u.toF ∧ u.toF ≤ 100) ∧ (0 ≤ d.toF ∧ d.toF ≤ 100) ∧ o.toF = u.toF - d.toF :=
  aroon_range (Demo.ctx "AROON_2") 2 0 2 (by norm_num) (by decide) rfl rfl

/-- **DX ∈ [0, 100]** for non-negative DI lines, hence (Wilder smoothing being a convex
combination, `average_within`) ADX ∈ [0, 100]; **TSI ∈ [−100, 100]** when the double-smoothed
momentum is bounded by the double-smoothed absolute momentum. -/
theorem dx_tsi_range (plus minus s a : K) (hp : 0 ≤ plus) (hm : 0 ≤ minus) (hsa : |s| ≤ a) :
    (0 ≤ dxOf plus minus ∧ dxOf plus minus ≤ 100) ∧
    (-100 ≤ (if a = 0 then 0 else 100 * (s / a)) ∧ (if a = 0 then 0 else 100 * (s / a)) ≤ 100) :=
  ⟨dxOf_range plus minus hp hm, tsi_range s a hsa⟩

/-- the DI lines are non-negative when ATR and the smoothed directional movements are -/
theorem di_nonneg (a pos : K) (ha : 0 ≤ a) (hpos : 0 ≤ pos) : 0 ≤ diMod a * pos := by
  unfold diMod
  split_ifs with h
  · simp
  · exact mul_nonneg (div_nonneg (by norm_num) ha) hpos

/-! ### volatility is non-negative -/

/-- **TR ≥ high − low ≥ 0** on a well-formed candle (`low ≤ high`). -/
theorem tr_ge_range (x : Ctx K) (h l pc : Num K)
    (hh : x.reading "high" = .ok (.num h)) (hl : x.reading "low" = .ok (.num l))
    (hp : x.readingPeriod 2 "close" = true) (hpc : x.prevReading "close" = .ok (.num pc))
    (hwf : l.toF ≤ h.toF) :
    ∃ n, Calc.tr x = .ok (.num n) ∧ 0 ≤ h.toF - l.toF ∧ h.toF - l.toF ≤ n.toF := by
  obtain ⟨n, hn, hv⟩ := tr_def x h l pc hh hl hp hpc
  refine ⟨n, hn, by linarith, ?_⟩
  rw [hv]; exact (Numeric.tr_ge_range h.toF l.toF pc.toF hwf).2

example : ∃ n : Num ℚ, Calc.tr (Demo.ctx "TR") = .ok (.num n) ∧
    0 ≤ (Num.int 16 : Num ℚ).toF - (Num.int 13 : Num ℚ).toF ∧ (Num.int 16 : Num ℚ).toF - (Num.int 13 : Num ℚ).toF ≤ n.toF :=
  tr_ge_range (Demo.ctx "TR") (.int 16) (.int 13) (.int 14) rfl rfl (by decide) rfl (by simp; norm_num)

/-- **ATR ≥ 0**: Wilder step of a non-negative ATR with a non-negative TR. -/
theorem atr_nonneg (x : Ctx K) (period : Int) (trName : String) (prev t : Num K)
    (hprev : x.prevReading x.name = .ok (.num prev)) (ht : x.reading trName = .ok (.num t))
    (hp : 1 ≤ period) (h0 : 0 ≤ prev.toF) (ht0 : 0 ≤ t.toF) :
    ∃ y, Calc.atr x period trName = .ok (.flt y) ∧ 0 ≤ y := by
  have h1 : (1 : K) ≤ period := by exact_mod_cast hp
  have hp0 : (period : K) ≠ 0 := by intro h; rw [h] at h1; linarith
  exact ⟨_, atr_rec x period trName prev t hprev ht hp0, wilder_nonneg' period _ _ hp h0 ht0⟩

/-- **σ ≥ 0** (needs only `sqrt ≥ 0` on non-negative arguments). -/
theorem stdev_nonneg [NonnegSqrt K] (v : K) : 0 ≤ PyF.sqrt (max v 0) := Numeric.stdev_nonneg v

/-! ### band ordering -/

/-- **Bollinger: lower ≤ middle ≤ upper** when σ ≥ 0. -/
theorem bbands_order (x : Ctx K) (smaName stdevName : String) (m s : Num K)
    (hm : x.reading smaName = .ok (.num m)) (hs : x.reading stdevName = .ok (.num s)) (hs0 : 0 ≤ s.toF) :
    ∃ lo up : Num K, Calc.bbands x smaName stdevName =
        .ok (.dict [("BBL", .num lo), ("BBM", .num m), ("BBU", .num up)]) ∧ lo.toF ≤ m.toF ∧ m.toF ≤ up.toF :=
  ⟨_, _, bbands_def x smaName stdevName m s hm hs, Numeric.bbands_order m s hs0⟩

example : ∃ lo up : Num ℚ, Calc.bbands (Demo.ctx "BB_3") "BB_3_SMA" "BB_3_STDEV" =
      .ok (.dict [("BBL", .num lo), ("BBM", .num (.flt 13)), ("BBU", .num up)]) ∧
      lo.toF ≤ (Num.flt 13 : Num ℚ).toF ∧ (Num.flt 13 : Num ℚ).toF ≤ up.toF :=
  bbands_order (Demo.ctx "BB_3") "BB_3_SMA" "BB_3_STDEV" (.flt 13) (.flt 1) rfl rfl (by simp)

/-- **Keltner: lower ≤ band ≤ upper** when ATR ≥ 0 and multiplier ≥ 0. -/
theorem kc_order (x : Ctx K) (mult e a : Num K)
    (he : x.reading (x.name ++ "_EMA") = .ok (.num e)) (ha : x.reading (x.name ++ "_ATR") = .ok (.num a))
    (hm0 : 0 ≤ mult.toF) (ha0 : 0 ≤ a.toF) :
    ∃ lo up : Num K, Calc.kc x mult =
        .ok (.dict [("lower", .num lo), ("band", .num e), ("upper", .num up)]) ∧ lo.toF ≤ e.toF ∧ e.toF ≤ up.toF :=
  ⟨_, _, kc_def x mult e a he ha, Numeric.kc_order mult e a hm0 ha0⟩

example : ∃ lo up : Num ℚ, Calc.kc (Demo.ctx "KC_3") (fl 2) =
      .ok (.dict [("lower", .num lo), ("band", .num (.flt 13)), ("upper", .num up)]) ∧
      lo.toF ≤ (Num.flt 13 : Num ℚ).toF ∧ (Num.flt 13 : Num ℚ).toF ≤ up.toF :=
  kc_order (Demo.ctx "KC_3") (fl 2) (.flt 13) (.flt 3) rfl rfl (by simp) (by simp)

/-- **Donchian: lower ≤ middle ≤ upper, middle = mean of the bounds, and the channel encloses the
candle's own high and low** (well-formed candle: `low ≤ high`). -/
theorem donchian_order (x : Ctx K) (p : Int) (pu : Val K) (u l : Num K) (c : Candle K)
    (h0 : 0 ≤ x.i) (hp : 1 ≤ p) (hc : x.cs[x.i.toNat]? = some c) (hwf : c.l.toF ≤ c.h.toF)
    (hprev : x.prevReading (x.name ++ ".DCU") = .ok pu)
    (hg : pu.isNone = false ∨ x.readingPeriod p "high" (some x.i) = true)
    (hu : Mov.highest x.cs "high" (p - 1) x.i = .ok (.num u))
    (hl : Mov.lowest x.cs "low" (p - 1) x.i = .ok (.num l)) :
    ∃ m : K, Calc.donchian x p = .ok (.dict [("DCL", .num l), ("DCM", .num (.flt m)), ("DCU", .num u)]) ∧
      m = (u.toF + l.toF) / 2 ∧ l.toF ≤ m ∧ m ≤ u.toF ∧ c.h.toF ≤ u.toF ∧ l.toF ≤ c.l.toF := by
  obtain ⟨e1, e2⟩ := extremes_enclose x (p - 1) u l c h0 (by omega) hc hu hl
  have hlu : l.toF ≤ u.toF := by linarith
  obtain ⟨o1, o2⟩ := Numeric.donchian_order u.toF l.toF hlu
  exact ⟨_, donchian_def x p pu u l hprev hg hu hl, rfl, o1, o2, e1, e2⟩

example : ∃ m : ℚ, Calc.donchian (Demo.ctx "DC_3") 3 =
      .ok (.dict [("DCL", .num (.int 10)), ("DCM", .num (.flt m)), ("DCU", .num (.int 16))]) ∧
      m = ((Num.int 16 : Num ℚ).toF + (Num.int 10 : Num ℚ).toF) / 2 ∧ (Num.int 10 : Num ℚ).toF ≤ m ∧
      m ≤ (Num.int 16 : Num ℚ).toF ∧ (Num.int 16 : Num ℚ).toF ≤ (Num.int 16 : Num ℚ).toF ∧
      (Num.int 10 : Num ℚ).toF ≤ (Num.int 13 : Num ℚ).toF :=
  donchian_order (Demo.ctx "DC_3") 3 .none (.int 16) (.int 10) (Demo.mk 14 16 13 15 0 [] _) (by decide) (by norm_num) rfl
    (by simp [Demo.mk]; norm_num) rfl (Or.inr (by decide)) rfl rfl

/-! ### identities between fields -/

/-- **MACD histogram = MACD − signal.** -/
theorem macd_histogram (ops : Ops K) (x : Ctx K) (cs1 cs2 : List (Candle K)) (sl f sg : Num K)
    (hs : x.reading (x.name ++ "_EMA_slow") = .ok (.num sl))
    (hf : x.reading (x.name ++ "_EMA_fast") = .ok (.num f))
    (hu : updateAt x.cs x.i (fun c => { c with inds := dset x.name (sdict [("MACD", sc (f.sub sl))]) c.inds }) = .ok cs1)
    (hc : ops.calcManaged "signal" cs1 = .ok cs2)
    (hsg : (Ctx.on x cs2).reading (x.name ++ "_signal_line") = .ok (.num sg)) :
    ∃ m hist : Num K, Calc.macd ops x =
        .ok (.dict [("MACD", .num m), ("signal", .num sg), ("histogram", .num hist)], cs2) ∧
      hist.toF = m.toF - sg.toF :=
  ⟨_, _, macd_def ops x cs1 cs2 sl f sg hs hf hu hc hsg, (macd_vals f sl sg).2⟩

/-! ### Supertrend -/

/-- **Supertrend: direction ∈ {1, −1}, exactly one of long/short is set and equals trend.** -/
theorem supertrend_shape (ops : Ops K) (x : Ctx K) (mult a hl close pu pl : Num K) (pd : Int)
    (w : Val K → List (Candle K))
    (ha : x.reading (x.name ++ "_atr") = .ok (.num a))
    (hhl : x.reading (x.name ++ "_HL") = .ok (.num hl))
    (hc : x.reading "close" = .ok (.num close))
    (hpl : x.prevReading (x.name ++ "_data.lower") = .ok (.num pl))
    (hpu : x.prevReading (x.name ++ "_data.upper") = .ok (.num pu))
    (hpd : x.prevReading (x.name ++ ".direction") = .ok (.int pd))
    (hd : pd = 1 ∨ pd = -1)
    (hset : ∀ v, ops.setManaged "ST_data" v x.cs = .ok (w v)) :
    ∃ (t : Num K) (cs' : List (Candle K)),
      Calc.supertrend ops x mult =
        .ok (.dict [("trend", .num t), ("direction", .num (.int 1)), ("long", .num t), ("short", .none)], cs') ∨
      Calc.supertrend ops x mult =
        .ok (.dict [("trend", .num t), ("direction", .num (.int (-1))), ("long", .none), ("short", .num t)], cs') := by
  obtain ⟨U, L, _, _, h⟩ := Numeric.supertrend_step ops x mult a hl close pu pl pd w ha hhl hc hpl hpu hpd hd hset
  rcases stDict_fields (stDir close.toF pu.toF pl.toF pd) U L (stDir_pm _ _ _ pd hd) with ⟨_, e⟩ | ⟨_, e⟩
  · exact ⟨L, _, Or.inl (by rw [h, e])⟩
  · exact ⟨U, _, Or.inr (by rw [h, e])⟩

example : ∃ (t : Num ℚ) (cs' : List (Candle ℚ)),
    Calc.supertrend Demo.ops (Demo.ctx "ST_3") (fl 3) =
      .ok (.dict [("trend", .num t), ("direction", .num (.int 1)), ("long", .num t), ("short", .none)], cs') ∨
    Calc.supertrend Demo.ops (Demo.ctx "ST_3") (fl 3) =
      .ok (.dict [("trend", .num t), ("direction", .num (.int (-1))), ("long", .none), ("short", .num t)], cs') :=
  supertrend_shape Demo.ops (Demo.ctx "ST_3") (fl 3) (.flt 3) (.flt (29/2)) (.int 15)
    (.flt 18) (.flt 10) 1 (fun _ => Demo.cs) rfl rfl rfl rfl rfl rfl (Or.inl rfl) (fun _ => rfl)

/-! ### averages, OBV, Counter -/

/-- **Averages lie within the range of their inputs**: convex steps (EMA, RMA, ATR – `0 ≤ a ≤ 1`)
between previous reading and input; window means (SMA, WMA, VWMA, seeds) between any bounds of
the window. -/
theorem average_within (a prev cur : K) (h0 : 0 ≤ a) (h1 : a ≤ 1)
    (p : Nat) (wgt r : Nat → K) (lo hi : K) (hw : ∀ k, k < p → 0 ≤ wgt k) (hW : 0 < rsum p wgt)
    (hr : ∀ k, k < p → lo ≤ r k ∧ r k ≤ hi) :
    (min prev cur ≤ a * cur + (1 - a) * prev ∧ a * cur + (1 - a) * prev ≤ max prev cur) ∧
    (lo ≤ rsum p (fun k => wgt k * r k) / rsum p wgt ∧ rsum p (fun k => wgt k * r k) / rsum p wgt ≤ hi) :=
  ⟨convex_between a prev cur h0 h1, wmean_between p wgt r lo hi hw hW hr⟩

/-- **OBV moves by 0 or by exactly the candle's volume.** -/
theorem obv_moves (x : Ctx K) (c pc prev v : Num K)
    (hprev : x.prevReading x.name = .ok (.num prev))
    (hc : x.reading "close" = .ok (.num c)) (hpc : x.prevReading "close" = .ok (.num pc))
    (hv : x.reading "volume" = .ok (.num v)) :
    ∃ n, Calc.obv x = .ok (.num n) ∧
      (n.toF = prev.toF ∨ n.toF = prev.toF + v.toF ∨ n.toF = prev.toF - v.toF) := by
  obtain ⟨n, h, hval⟩ := obv_def x c pc prev v hprev hc hpc hv
  refine ⟨n, h, ?_⟩
  rw [hval]; split_ifs <;> simp

example : ∃ n : Num ℚ, Calc.obv (Demo.ctx "OBV") = .ok (.num n) ∧
    (n.toF = (Num.int 600 : Num ℚ).toF ∨ n.toF = (Num.int 600 : Num ℚ).toF + (Num.int 0 : Num ℚ).toF ∨
     n.toF = (Num.int 600 : Num ℚ).toF - (Num.int 0 : Num ℚ).toF) :=
  obv_moves (Demo.ctx "OBV") (.int 15) (.int 14) (.int 600) (.int 0) rfl rfl rfl rfl

/-- **Counter is a non-negative integer that keeps, grows by one, or resets** (every float carrier). -/
theorem counter_moves {F : Type} [PyF F] (x : Ctx F) (input : String) (cv : Scalar F) (r prev : Val F) (k : Int)
    (hr : x.reading input = .ok r) (hprev : x.prevReading x.name = .ok prev)
    (hpv : (prev = .none ∧ k = 0) ∨ prev = .int k) (hk : 0 ≤ k) :
    ∃ n : Int, Calc.counter x input cv = .ok (.int n) ∧ 0 ≤ n ∧ (n = k ∨ n = k + 1 ∨ n = 0) := by
  have hpc : prevCount prev = k := by
    rcases hpv with ⟨rfl, rfl⟩ | rfl <;> rfl
  have hpv' : prev = .none ∨ ∃ k : Int, prev = .int k := by
    rcases hpv with ⟨h, _⟩ | h
    · exact Or.inl h
    · exact Or.inr ⟨k, h⟩
  refine ⟨_, counter_def x input cv r prev hr hprev hpv', ?_, ?_⟩ <;> rw [hpc] <;> split_ifs <;> omega

example : ∃ n : Int, Calc.counter (Demo.ctx "COUNT") "close" (.num (.int 15)) = .ok (.int n) ∧ 0 ≤ n ∧
    (n = 2 ∨ n = 2 + 1 ∨ n = 0) :=
  counter_moves (Demo.ctx "COUNT") "close" (.num (.int 15)) (.num (.int 15)) (.int 2) 2 rfl rfl (Or.inr rfl) (by norm_num)

/-! ### rounding -/

/-- **Every stored reading is rounded**: the framework stores `v.roundBy n`; `round_values` is
idempotent, so what is stored is a fixed point of the rounding; floats are within `ε_n` of the
computed value, ints / bools / None are untouched, and integer bounds (0, 100, −100) survive. -/
theorem stored_rounded (n : Nat) (v : Val K) (a : Num K) (lo hi : Int)
    (h1 : (lo : K) ≤ a.toF) (h2 : a.toF ≤ (hi : K)) :
    (v.roundBy n).roundBy n = v.roundBy n ∧
    |(a.roundBy n).toF - a.toF| ≤ eps K n ∧
    ((lo : K) ≤ (a.roundBy n).toF ∧ (a.roundBy n).toF ≤ (hi : K)) ∧
    (∀ y, a.roundBy n = .flt y → PyF.round n y = y) :=
  ⟨Val.roundBy_idem n v, stored_close n a, stored_between n lo hi a h1 h2, fun y h => stored_float_fixed n a y h⟩

example : ((Val.flt (1234567 / 100000 : ℚ)).roundBy 2).roundBy 2 = (Val.flt (1234567 / 100000 : ℚ)).roundBy 2 :=
  (stored_rounded 2 _ (Num.int 5 : Num ℚ) 0 100 (by simp) (by simp; norm_num)).1

/-- rounding keeps the weak order of two stored floats (e.g. lower ≤ middle ≤ upper survive storing) -/
theorem stored_order (n : Nat) (x y : K) (h : x ≤ y) : PyF.round n x ≤ PyF.round n y :=
  round_le_round n x y h

/-! ### whole series -/

/-- **TR ≥ high − low ≥ 0 on every candle of every well-formed raw stream** (the stored value is
the rounding of a number with that property). -/
theorem tr_series_ge_range (nm : String) (n : Nat) (hk : IsKey nm)
    (raw : List (Candle K)) (hraw : ∀ c ∈ raw, Plain c) (hwf : ∀ c ∈ raw, c.l.toF ≤ c.h.toF) :
    ∃ vs : List (Val K), vs.length = raw.length ∧
      rowMajor (mkTop .tr nm n) raw = .ok (deco nm raw vs) ∧
      ∀ j, 1 ≤ j → j < raw.length → ∃ t : Num K, vs.getD j .none = .num (t.roundBy n) ∧
        0 ≤ fieldAt (·.h) raw j - fieldAt (·.l) raw j ∧ fieldAt (·.h) raw j - fieldAt (·.l) raw j ≤ t.toF ∧
        |(t.roundBy n).toF - t.toF| ≤ eps K n := by
  obtain ⟨vs, h1, h2, h3⟩ := tr_series nm n hk raw hraw
  refine ⟨vs, h1, h2, fun j hj1 hj => ?_⟩
  obtain ⟨t, ht, htv⟩ := (h3 j hj).2 hj1
  have hmem : raw.getD j default ∈ raw := by
    rw [List.getD_eq_getElem?_getD, List.getElem?_eq_getElem hj]; exact List.getElem_mem _
  have hlh : fieldAt (·.l) raw j ≤ fieldAt (·.h) raw j := hwf _ hmem
  refine ⟨t, ht, by linarith, ?_, stored_close n t⟩
  rw [htv]; exact le_trans (le_max_left _ _) (le_max_left _ _)

/-- **Every SMA reading lies within the range of the inputs it averages**, up to its rounding
budget. -/
theorem sma_series_within (p : Nat) (hp : 2 ≤ p) (nm : String) (n : Nat) (hk : IsKey nm)
    (raw : List (Candle K)) (hraw : ∀ c ∈ raw, Plain c) (lo hi : K)
    (hb : ∀ j, j < raw.length → lo ≤ fieldAt (·.c) raw j ∧ fieldAt (·.c) raw j ≤ hi) :
    ∃ vs : List (Val K), vs.length = raw.length ∧
      rowMajor (mkTop (.sma p "close") nm n) raw = .ok (deco nm raw vs) ∧
      ∀ j, j < raw.length → p ≤ j + 1 → ∃ y, vs.getD j .none = .flt y ∧
        lo - ((j + 2 - p : Nat) : K) * eps K n ≤ y ∧ y ≤ hi + ((j + 2 - p : Nat) : K) * eps K n := by
  obtain ⟨vs, h1, h2, h3⟩ := sma_series p hp nm "close" (·.c) n hk noDot_close (fun _ => rfl) raw hraw
  refine ⟨vs, h1, h2, fun j hj hpj => ?_⟩
  obtain ⟨y, hy, hbound⟩ := (h3 j hj).2 hpj
  have hm := mean_between p (fun k => fieldAt (·.c) raw (j + 1 - p + k)) lo hi (by omega)
    (fun k hk' => hb _ (by omega))
  have := abs_le.1 hbound
  unfold winMean at this
  exact ⟨y, hy, by linarith [this.1, hm.1], by linarith [this.2, hm.2]⟩

/-- The full property, stated for RSI (the other relations – Stochastic/Aroon/ADX in [0,100], TSI
in [−100,100], ATR, σ ≥ 0, band orderings, Donchian enclosing the candle, MACD histogram,
Supertrend shape, OBV and Counter moves – have the same shape): on every raw stream and every
`period ≥ 2` the ENGINE `calculate` returns and every stored RSI reading is `None` or a float in
[0, 100].
NOT proved.  Proved instead: each relation for the value returned by a single call under the
hypothesis that makes it meaningful, that integer bounds and weak order survive `round_values`
(`stored_rounded`, `stored_order`), and the whole-series relations for TR and SMA above.
Missing: the framework induction establishing those hypotheses on reachable states (non-negative
smoothed gain/loss and DM – the step lemmas `rsi_state_nonneg`, `di_nonneg`, `atr_nonneg` are here
–, σ ≥ 0 read back from the STDEV helper, previous Supertrend direction ±1, `|second| ≤ abs_second`
for TSI, DI ≤ 100 for ADX which needs ATR ≥ smoothed DM), and the slack analysis for relations
between two separately rounded floats (e.g. the rounded Donchian middle vs the mean of the rounded
bounds: within ε). -/
def C10_FULL : Prop :=
  ∀ (K : Type) [Field K] [LinearOrder K] [IsStrictOrderedRing K] [LawfulPyF K]
    (p : Nat) (nm : String) (n : Nat) (raw : List (Candle K)),
    2 ≤ p → IsKey nm → (∀ c ∈ raw, Plain c) →
    ∃ out : List (Candle K), calculate (fuelFor raw) (mkTop (.rsi p "close") nm n) raw = .ok out ∧
      ∀ c ∈ out, readingByCandle c nm = .none ∨
        ∃ y : K, readingByCandle c nm = .flt y ∧ 0 ≤ y ∧ y ≤ 100

end Hex.C10

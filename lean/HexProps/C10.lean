import HexProofs.Numeric.Simple
import HexProofs.Numeric.RoundedAnyCfg
import HexProofs.Numeric.RangesMore
import HexProofs.Numeric.AvgExtra
import HexProofs.Numeric.Channel
import HexProofs.Numeric.Extremes
import HexProofs.Numeric.Bars
import HexProofs.Numeric.Rsi
import HexProofs.Numeric.Stoch
import HexProofs.Numeric.Adx
import HexProofs.Numeric.Stdev
import HexProofs.Numeric.Supertrend
import HexProofs.Numeric.Rounding
import HexProofs.Numeric.SeriesMore
import HexProofs.Numeric.Demo
import HexProofs.Numeric.SeriesRSI
import HexProofs.Numeric.SeriesSTOCH
import HexProofs.Numeric.SeriesWindows
import HexProofs.Numeric.SeriesADX
import HexProofs.Numeric.SeriesTSI
import HexProofs.Numeric.SeriesATR
import HexProofs.Numeric.SeriesStdevBB
import HexProofs.Numeric.SeriesKC
import HexProofs.Numeric.SeriesSupertrend
import HexProofs.Numeric.SeriesUtility
/-
C10 – Outputs satisfy their structural invariants on every input
(NUMERIC layer: ordered field `K` with `LawfulPyF K`; IEEE rounding error, overflow and NaN are
outside these theorems – see HexProofs/Numeric/Lawful.lean).

Two layers.

(1) PER CALL (first part of the file, unchanged): each invariant is proved of the value one
`_calculate_reading` call returns, under the hypotheses that make it meaningful (non-negative smoothed
gain/loss, low ≤ input ≤ high, σ ≥ 0, previous direction ±1, …), and is shown to survive `round_values`
where the bound is an integer (`stored_rounded`, `stored_order`).

(2) WHOLE RUNS (section "whole runs", from the whole-series theorems of `HexProofs/Numeric/Series*.lean`): the
hypotheses of layer (1) are now ESTABLISHED by induction along the run, so the invariants are statements about
every candle of every raw stream.  For each relation there is a `…_run_…` theorem (for EVERY list of raw candles
the batch run on the base timeframe RETURNS and every candle satisfies the invariant) and a `…_live_…` theorem
(every manager with an incremental spec – base timeframe, collapsing timeframe, collapsing + gap filling –, every
initial list, every append schedule: whenever the history returns, every candle satisfies the invariant, indices
counted on the manager's candles).  Inputs are candle fields; `hraw` / `M.Ok`: the incoming candles carry no
readings yet.  True warm-up indices (several differ from what one would guess) and budgets:

  relation                         theorems                      first value at   budget on the bound
  RSI ∈ [0,100]                    `rsi_run_range/_live_`        p                none (exact)
  STOCH stoch ∈ [0,100]            `stoch_run_ranges/_live_`     p−1              none (exact; own dict never `None`)
        %K, %D ∈ [0,100] ± b       (`StochInRange`)              p+k−2, p+k+s−3   b_K=(j−t_K+1)ε₄, b_D=(j−t_D+1)ε₄+b_K (+ε_n own)
  Aroon up/down ∈ [0,100]          `aroon_run_range/_live_`      p                none (exact); osc ∈ [−100,100]
  ADX ∈ [0,100], DI± ≥ 0           `adx_run_ranges/_live_`       p+sg−1 / p       none (exact); no upper bound on DI±
  TSI ∈ [−100,100]                 `tsi_run_range/_live_`        p+s−1            exact under `RoundNegLe`; else 100+200β/A+ε_n
  ATR ≥ 0 (and its TR helper)      `atr_run_nonneg/_live_`       p (TR: 1)        none
  σ ≥ 0                            `stdev_run_nonneg/_live_`     p                none (needs `NonnegSqrt`)
  BBANDS lower ≤ middle ≤ upper    `bbands_run_order/_live_`     p                none (exact order of the stored floats)
  KC lower ≤ band ≤ upper (m ≥ 0)  `kc_run_order/_live_`         p                none
  Donchian lower ≤ mid ≤ upper,    `donchian_run_order/_live_`   p−1              none for order and enclosure of the stored
    encloses the candle                                                            values; ε for "= window extreme / mean"
  HighestLowest encloses           `hl_run_enclose/_live_`       0                ε (ints exact)
  Supertrend direction ±1,         `supertrend_run_shape/_live_` p                none (dict on every candle)
    exactly one of long/short
  Counter int, +1 or reset         `counter_run_moves`           0                none; every `[PyF F]`, every schedule
  TR ≥ high−low ≥ 0, SMA within    `tr_series_ge_range`, `sma_series_within` (row-major spec; C01 ties it to the engine)

`C10_RSI` – the statement the former `C10_FULL` made (every stored RSI reading of the ENGINE's `calculate()` on
every raw stream is `None` or in [0,100]), corrected (fuel, name hypothesis) – is PROVED: `C10_RSI_holds`.
Still open (`C10_FULL`, new and broader): inputs that are another indicator's reading / late-starting inputs,
manager configurations without a spec (Heikin-Ashi, lifespan), candles already carrying other readings; IEEE
effects; TSI's range without the extra oddness law `RoundNegLe`; `DI± ≤ 100`; whole-run forms of the MACD
histogram identity and the OBV step (per call here; MACD series: C06).
-/
namespace Hex.C10
open Hex Hex.Numeric
variable {K : Type} [Field K] [LinearOrder K] [IsStrictOrderedRing K] [LawfulPyF K]

/-! ### oscillator ranges -/

/-- **RSI ∈ [0, 100]** (running branch): the reading returned by `_calculate_reading`. -/
theorem rsi_range (ops : Ops K) (x : Ctx K) (p : Nat) (input : String) (w : Val K → List (Candle K))
    (pr pi ci g0 l0 : Num K)
    (hprev : x.prevReading x.name = .ok (.num pr))
    (hpi : x.prevReading input = .ok (.num pi)) (hci : x.reading input = .ok (.num ci))
    (hg0 : x.prevReading (x.name ++ "_data.gain") = .ok (.num g0))
    (hl0 : x.prevReading (x.name ++ "_data.loss") = .ok (.num l0))
    (hset : ∀ v, ops.setManaged "RSI_data" v x.cs = .ok (w v))
    (hdata : ∀ v, (Ctx.on x (w v)).reading (x.name ++ "_data") = .ok v)
    (hrg : ∀ g l : Num K, (Ctx.on x (w (sdict [("gain", sc g), ("loss", sc l)]))).reading (x.name ++ "_data.gain") = .ok (.num g))
    (hrl : ∀ g l : Num K, (Ctx.on x (w (sdict [("gain", sc g), ("loss", sc l)]))).reading (x.name ++ "_data.loss") = .ok (.num l))
    (hp : 1 ≤ p) (hg0n : 0 ≤ g0.toF) (hl0n : 0 ≤ l0.toF) :
    ∃ y cs', Calc.rsi ops x p input = .ok (.num (.flt y), cs') ∧ 0 ≤ y ∧ y ≤ 100 := by
  refine ⟨_, _, Numeric.rsi_step ops x p input w pr pi ci g0 l0 hprev hpi hci hg0 hl0 hset hdata hrg hrl hp hg0n hl0n, ?_⟩
  exact rsiOf_range _ _ (wilder_nonneg p _ _ hp hg0n (gainOf_nonneg _)) (wilder_nonneg p _ _ hp hl0n (lossOf_nonneg _))

example : ∃ (y : ℚ) (cs' : List (Candle ℚ)),
    Calc.rsi (Demo.opsW "RSI_3_data") (Demo.ctx "RSI_3") (3 : Nat) "close" = .ok (.num (.flt y), cs') ∧ 0 ≤ y ∧ y ≤ 100 :=
  rsi_range (Demo.opsW "RSI_3_data") (Demo.ctx "RSI_3") 3 "close" (fun v => Demo.wr "RSI_3_data" v Demo.cs)
    (.flt 50) (.int 14) (.int 15) (.flt 1) (.flt 0) rfl rfl rfl rfl rfl (fun _ => rfl) (fun _ => rfl)
    (fun _ _ => rfl) (fun _ _ => rfl) (by norm_num) (by norm_num) (by norm_num)

/-- the stored average gain and loss stay non-negative (what `rsi_range` assumes of the next step) -/
theorem rsi_state_nonneg (p : Nat) (g0 l0 change : K) (hp : 1 ≤ p) (hg : 0 ≤ g0) (hl : 0 ≤ l0) :
    0 ≤ (g0 * ((p : K) - 1) + gainOf change) / p ∧ 0 ≤ (l0 * ((p : K) - 1) + lossOf change) / p :=
  ⟨wilder_nonneg p _ _ hp hg (gainOf_nonneg _), wilder_nonneg p _ _ hp hl (lossOf_nonneg _)⟩

/-- **Stochastic ∈ [0, 100]** when the input lies between the lowest low and the highest high of
the window (true for `close`, since low ≤ close ≤ high on the window's last candle). -/
theorem stoch_range (ops : Ops K) (x : Ctx K) (p : Nat) (input : String)
    (w : Val K → List (Candle K) → List (Candle K)) (cd : List (Candle K) → List (Candle K))
    (lo hi : Nat → Num K) (cur : Num K)
    (hrp : x.readingPeriod p input = true) (hp : 1 ≤ p)
    (hlo : ∀ j, j < p → x.reading "low" (some (x.i + 1 - p + j)) = .ok (.num (lo j)))
    (hhi : ∀ j, j < p → x.reading "high" (some (x.i + 1 - p + j)) = .ok (.num (hi j)))
    (hc : x.reading input = .ok (.num cur))
    (hset : ∀ v cs, ops.setManaged "STOCH_data" v cs = .ok (w v cs))
    (hcalc : ∀ cs, ops.calcManaged "STOCH_d" cs = .ok (cd cs))
    (hk : ∀ v, ∃ ks, (Ctx.on x (w v x.cs)).reading (x.name ++ "_k") = .ok (.s ks))
    (hdr : ∀ v1 v2, ∃ ds, (Ctx.on x (cd (w v2 (w v1 x.cs)))).reading (x.name ++ "_d") = .ok (.s ds))
    (hin : (lo (p - 1)).toF ≤ cur.toF ∧ cur.toF ≤ (hi (p - 1)).toF) :
    ∃ (st : Num K) (ks ds : Scalar K) (cs' : List (Candle K)),
      Calc.stoch ops x p input = .ok (.dict [("stoch", .num st), ("k", ks), ("d", ds)], cs') ∧
      0 ≤ st.toF ∧ st.toF ≤ 100 := by
  obtain ⟨st, L, H, ks, ds, cs', h, hv, hL, _, hH, _⟩ :=
    stoch_def ops x p input w cd lo hi cur hrp hp hlo hhi hc hset hcalc hk hdr
  refine ⟨st, ks, ds, cs', h, ?_⟩
  rw [hv]
  exact stochOf_range _ _ _ (le_trans (hL (p - 1) (by omega)) hin.1) (le_trans hin.2 (hH (p - 1) (by omega)))

example : ∃ (st : Num ℚ) (ks ds : Scalar ℚ) (cs' : List (Candle ℚ)),
    Calc.stoch Demo.ops (Demo.ctx "STOCH") (3 : Nat) "close" = .ok (.dict [("stoch", .num st), ("k", ks), ("d", ds)], cs') ∧
    0 ≤ st.toF ∧ st.toF ≤ 100 :=
  stoch_range Demo.ops (Demo.ctx "STOCH") 3 "close" (fun _ cs => cs) (fun cs => cs)
    (fun j => .int ([10, 11, 13].getD j 0)) (fun j => .int ([13, 15, 16].getD j 0)) (.int 15) (by decide) (by norm_num)
    (by intro j hj; interval_cases j <;> rfl) (by intro j hj; interval_cases j <;> rfl) rfl
    (fun _ _ => rfl) (fun _ => rfl) (fun _ => ⟨.num (.flt 60), rfl⟩) (fun _ _ => ⟨.num (.flt 55), rfl⟩)
    (by simp; norm_num)

/-- **Aroon up/down ∈ [0, 100] and oscillator = up − down.** -/
theorem aroon_range (x : Ctx K) (p : Int) (hb lb : Int) (hp0 : 0 < p)
    (hrp : x.readingPeriod (p + 1) "high" = true)
    (hh : Mov.highestbar x.cs "high" (p + 1) x.i = .ok (.int hb))
    (hl : Mov.lowestbar x.cs "low" (p + 1) x.i = .ok (.int lb)) :
    ∃ u d o : Num K, Calc.aroon x p = .ok (.dict [("AROONU", .num u), ("AROOND", .num d), ("AROONOSC", .num o)]) ∧
      (0 ≤ u.toF ∧ u.toF ≤ 100) ∧ (0 ≤ d.toF ∧ d.toF ≤ 100) ∧ o.toF = u.toF - d.toF := by
  have hp : (p : K) ≠ 0 := by
    have : (0 : K) < p := by exact_mod_cast hp0
    exact this.ne'
  obtain ⟨h1, h2⟩ := highestbar_range _ _ _ _ _ hh
  obtain ⟨l1, l2⟩ := lowestbar_range _ _ _ _ _ hl
  refine ⟨_, _, _, aroon_def x p hb lb hrp hh hl hp, ?_, ?_, by simp⟩
  · rw [aroon_val]; exact Numeric.aroon_range p hb hp0 h1 (by rcases h2 with h | h <;> omega)
  · rw [aroon_val]; exact Numeric.aroon_range p lb hp0 l1 (by rcases l2 with h | h <;> omega)

example : ∃ u d o : Num ℚ, Calc.aroon (Demo.ctx "AROON_2") 2 =
      .ok (.dict [("AROONU", .num u), ("AROOND", .num d), ("AROONOSC", .num o)]) ∧
      (0 ≤ u.toF ∧ u.toF ≤ 100) ∧ (0 ≤ d.toF ∧ d.toF ≤ 100) ∧ o.toF = u.toF - d.toF :=
  aroon_range (Demo.ctx "AROON_2") 2 0 2 (by norm_num) (by decide) rfl rfl

/-- **DX ∈ [0, 100]** for non-negative DI lines, hence (Wilder smoothing being a convex
combination, `average_within`) ADX ∈ [0, 100]; **TSI ∈ [−100, 100]** when the double-smoothed
momentum is bounded by the double-smoothed absolute momentum. -/
theorem dx_tsi_range (plus minus s a : K) (hp : 0 ≤ plus) (hm : 0 ≤ minus) (hsa : |s| ≤ a) :
    (0 ≤ dxOf plus minus ∧ dxOf plus minus ≤ 100) ∧
    (-100 ≤ (if a = 0 then 0 else 100 * (s / a)) ∧ (if a = 0 then 0 else 100 * (s / a)) ≤ 100) :=
  ⟨dxOf_range plus minus hp hm, tsi_range s a hsa⟩

/-- the DI lines are non-negative when ATR and the smoothed directional movements are -/
theorem di_nonneg (a pos : K) (ha : 0 ≤ a) (hpos : 0 ≤ pos) : 0 ≤ diMod a * pos := by
  unfold diMod
  split_ifs with h
  · simp
  · exact mul_nonneg (div_nonneg (by norm_num) ha) hpos

/-! ### volatility is non-negative -/

/-- **TR ≥ high − low ≥ 0** on a well-formed candle (`low ≤ high`). -/
theorem tr_ge_range (x : Ctx K) (h l pc : Num K)
    (hh : x.reading "high" = .ok (.num h)) (hl : x.reading "low" = .ok (.num l))
    (hp : x.readingPeriod 2 "close" = true) (hpc : x.prevReading "close" = .ok (.num pc))
    (hwf : l.toF ≤ h.toF) :
    ∃ n, Calc.tr x = .ok (.num n) ∧ 0 ≤ h.toF - l.toF ∧ h.toF - l.toF ≤ n.toF := by
  obtain ⟨n, hn, hv⟩ := tr_def x h l pc hh hl hp hpc
  refine ⟨n, hn, by linarith, ?_⟩
  rw [hv]; exact (Numeric.tr_ge_range h.toF l.toF pc.toF hwf).2

example : ∃ n : Num ℚ, Calc.tr (Demo.ctx "TR") = .ok (.num n) ∧
    0 ≤ (Num.int 16 : Num ℚ).toF - (Num.int 13 : Num ℚ).toF ∧ (Num.int 16 : Num ℚ).toF - (Num.int 13 : Num ℚ).toF ≤ n.toF :=
  tr_ge_range (Demo.ctx "TR") (.int 16) (.int 13) (.int 14) rfl rfl (by decide) rfl (by simp; norm_num)

/-- **ATR ≥ 0**: Wilder step of a non-negative ATR with a non-negative TR. -/
theorem atr_nonneg (x : Ctx K) (period : Int) (trName : String) (prev t : Num K)
    (hprev : x.prevReading x.name = .ok (.num prev)) (ht : x.reading trName = .ok (.num t))
    (hp : 1 ≤ period) (h0 : 0 ≤ prev.toF) (ht0 : 0 ≤ t.toF) :
    ∃ y, Calc.atr x period trName = .ok (.flt y) ∧ 0 ≤ y := by
  have h1 : (1 : K) ≤ period := by exact_mod_cast hp
  have hp0 : (period : K) ≠ 0 := by intro h; rw [h] at h1; linarith
  exact ⟨_, atr_rec x period trName prev t hprev ht hp0, wilder_nonneg' period _ _ hp h0 ht0⟩

/-- **σ ≥ 0** (needs only `sqrt ≥ 0` on non-negative arguments). -/
theorem stdev_nonneg [NonnegSqrt K] (v : K) : 0 ≤ PyF.sqrt (max v 0) := Numeric.stdev_nonneg v

/-! ### band ordering -/

/-- **Bollinger: lower ≤ middle ≤ upper** when σ ≥ 0. -/
theorem bbands_order (x : Ctx K) (smaName stdevName : String) (m s : Num K)
    (hm : x.reading smaName = .ok (.num m)) (hs : x.reading stdevName = .ok (.num s)) (hs0 : 0 ≤ s.toF) :
    ∃ lo up : Num K, Calc.bbands x smaName stdevName =
        .ok (.dict [("BBL", .num lo), ("BBM", .num m), ("BBU", .num up)]) ∧ lo.toF ≤ m.toF ∧ m.toF ≤ up.toF :=
  ⟨_, _, bbands_def x smaName stdevName m s hm hs, Numeric.bbands_order m s hs0⟩

example : ∃ lo up : Num ℚ, Calc.bbands (Demo.ctx "BB_3") "BB_3_SMA" "BB_3_STDEV" =
      .ok (.dict [("BBL", .num lo), ("BBM", .num (.flt 13)), ("BBU", .num up)]) ∧
      lo.toF ≤ (Num.flt 13 : Num ℚ).toF ∧ (Num.flt 13 : Num ℚ).toF ≤ up.toF :=
  bbands_order (Demo.ctx "BB_3") "BB_3_SMA" "BB_3_STDEV" (.flt 13) (.flt 1) rfl rfl (by simp)

/-- **Keltner: lower ≤ band ≤ upper** when ATR ≥ 0 and multiplier ≥ 0. -/
theorem kc_order (x : Ctx K) (mult e a : Num K)
    (he : x.reading (x.name ++ "_EMA") = .ok (.num e)) (ha : x.reading (x.name ++ "_ATR") = .ok (.num a))
    (hm0 : 0 ≤ mult.toF) (ha0 : 0 ≤ a.toF) :
    ∃ lo up : Num K, Calc.kc x mult =
        .ok (.dict [("lower", .num lo), ("band", .num e), ("upper", .num up)]) ∧ lo.toF ≤ e.toF ∧ e.toF ≤ up.toF :=
  ⟨_, _, kc_def x mult e a he ha, Numeric.kc_order mult e a hm0 ha0⟩

example : ∃ lo up : Num ℚ, Calc.kc (Demo.ctx "KC_3") (fl 2) =
      .ok (.dict [("lower", .num lo), ("band", .num (.flt 13)), ("upper", .num up)]) ∧
      lo.toF ≤ (Num.flt 13 : Num ℚ).toF ∧ (Num.flt 13 : Num ℚ).toF ≤ up.toF :=
  kc_order (Demo.ctx "KC_3") (fl 2) (.flt 13) (.flt 3) rfl rfl (by simp) (by simp)

/-- **Donchian: lower ≤ middle ≤ upper, middle = mean of the bounds, and the channel encloses the
candle's own high and low** (well-formed candle: `low ≤ high`). -/
theorem donchian_order (x : Ctx K) (p : Int) (pu : Val K) (u l : Num K) (c : Candle K)
    (h0 : 0 ≤ x.i) (hp : 1 ≤ p) (hc : x.cs[x.i.toNat]? = some c) (hwf : c.l.toF ≤ c.h.toF)
    (hprev : x.prevReading (x.name ++ ".DCU") = .ok pu)
    (hg : pu.isNone = false ∨ x.readingPeriod p "high" (some x.i) = true)
    (hu : Mov.highest x.cs "high" (p - 1) x.i = .ok (.num u))
    (hl : Mov.lowest x.cs "low" (p - 1) x.i = .ok (.num l)) :
    ∃ m : K, Calc.donchian x p = .ok (.dict [("DCL", .num l), ("DCM", .num (.flt m)), ("DCU", .num u)]) ∧
      m = (u.toF + l.toF) / 2 ∧ l.toF ≤ m ∧ m ≤ u.toF ∧ c.h.toF ≤ u.toF ∧ l.toF ≤ c.l.toF := by
  obtain ⟨e1, e2⟩ := extremes_enclose x (p - 1) u l c h0 (by omega) hc hu hl
  have hlu : l.toF ≤ u.toF := by linarith
  obtain ⟨o1, o2⟩ := Numeric.donchian_order u.toF l.toF hlu
  exact ⟨_, donchian_def x p pu u l hprev hg hu hl, rfl, o1, o2, e1, e2⟩

example : ∃ m : ℚ, Calc.donchian (Demo.ctx "DC_3") 3 =
      .ok (.dict [("DCL", .num (.int 10)), ("DCM", .num (.flt m)), ("DCU", .num (.int 16))]) ∧
      m = ((Num.int 16 : Num ℚ).toF + (Num.int 10 : Num ℚ).toF) / 2 ∧ (Num.int 10 : Num ℚ).toF ≤ m ∧
      m ≤ (Num.int 16 : Num ℚ).toF ∧ (Num.int 16 : Num ℚ).toF ≤ (Num.int 16 : Num ℚ).toF ∧
      (Num.int 10 : Num ℚ).toF ≤ (Num.int 13 : Num ℚ).toF :=
  donchian_order (Demo.ctx "DC_3") 3 .none (.int 16) (.int 10) (Demo.mk 14 16 13 15 0 [] _) (by decide) (by norm_num) rfl
    (by simp [Demo.mk]; norm_num) rfl (Or.inr (by decide)) rfl rfl

/-! ### identities between fields -/

/-- **MACD histogram = MACD − signal.** -/
theorem macd_histogram (ops : Ops K) (x : Ctx K) (cs1 cs2 : List (Candle K)) (sl f sg : Num K)
    (hs : x.reading (x.name ++ "_EMA_slow") = .ok (.num sl))
    (hf : x.reading (x.name ++ "_EMA_fast") = .ok (.num f))
    (hu : updateAt x.cs x.i (fun c => { c with inds := dset x.name (sdict [("MACD", sc (f.sub sl))]) c.inds }) = .ok cs1)
    (hc : ops.calcManaged "signal" cs1 = .ok cs2)
    (hsg : (Ctx.on x cs2).reading (x.name ++ "_signal_line") = .ok (.num sg)) :
    ∃ m hist : Num K, Calc.macd ops x =
        .ok (.dict [("MACD", .num m), ("signal", .num sg), ("histogram", .num hist)], cs2) ∧
      hist.toF = m.toF - sg.toF :=
  ⟨_, _, macd_def ops x cs1 cs2 sl f sg hs hf hu hc hsg, (macd_vals f sl sg).2⟩

/-! ### Supertrend -/

/-- **Supertrend: direction ∈ {1, −1}, exactly one of long/short is set and equals trend.** -/
theorem supertrend_shape (ops : Ops K) (x : Ctx K) (mult a hl close pu pl : Num K) (pd : Int)
    (w : Val K → List (Candle K))
    (ha : x.reading (x.name ++ "_atr") = .ok (.num a))
    (hhl : x.reading (x.name ++ "_HL") = .ok (.num hl))
    (hc : x.reading "close" = .ok (.num close))
    (hpl : x.prevReading (x.name ++ "_data.lower") = .ok (.num pl))
    (hpu : x.prevReading (x.name ++ "_data.upper") = .ok (.num pu))
    (hpd : x.prevReading (x.name ++ ".direction") = .ok (.int pd))
    (hd : pd = 1 ∨ pd = -1)
    (hset : ∀ v, ops.setManaged "ST_data" v x.cs = .ok (w v)) :
    ∃ (t : Num K) (cs' : List (Candle K)),
      Calc.supertrend ops x mult =
        .ok (.dict [("trend", .num t), ("direction", .num (.int 1)), ("long", .num t), ("short", .none)], cs') ∨
      Calc.supertrend ops x mult =
        .ok (.dict [("trend", .num t), ("direction", .num (.int (-1))), ("long", .none), ("short", .num t)], cs') := by
  obtain ⟨U, L, _, _, h⟩ := Numeric.supertrend_step ops x mult a hl close pu pl pd w ha hhl hc hpl hpu hpd hd hset
  rcases stDict_fields (stDir close.toF pu.toF pl.toF pd) U L (stDir_pm _ _ _ pd hd) with ⟨_, e⟩ | ⟨_, e⟩
  · exact ⟨L, _, Or.inl (by rw [h, e])⟩
  · exact ⟨U, _, Or.inr (by rw [h, e])⟩

example : ∃ (t : Num ℚ) (cs' : List (Candle ℚ)),
    Calc.supertrend Demo.ops (Demo.ctx "ST_3") (fl 3) =
      .ok (.dict [("trend", .num t), ("direction", .num (.int 1)), ("long", .num t), ("short", .none)], cs') ∨
    Calc.supertrend Demo.ops (Demo.ctx "ST_3") (fl 3) =
      .ok (.dict [("trend", .num t), ("direction", .num (.int (-1))), ("long", .none), ("short", .num t)], cs') :=
  supertrend_shape Demo.ops (Demo.ctx "ST_3") (fl 3) (.flt 3) (.flt (29/2)) (.int 15)
    (.flt 18) (.flt 10) 1 (fun _ => Demo.cs) rfl rfl rfl rfl rfl rfl (Or.inl rfl) (fun _ => rfl)

/-! ### averages, OBV, Counter -/

/-- **Averages lie within the range of their inputs**: convex steps (EMA, RMA, ATR – `0 ≤ a ≤ 1`)
between previous reading and input; window means (SMA, WMA, VWMA, seeds) between any bounds of
the window. -/
theorem average_within (a prev cur : K) (h0 : 0 ≤ a) (h1 : a ≤ 1)
    (p : Nat) (wgt r : Nat → K) (lo hi : K) (hw : ∀ k, k < p → 0 ≤ wgt k) (hW : 0 < rsum p wgt)
    (hr : ∀ k, k < p → lo ≤ r k ∧ r k ≤ hi) :
    (min prev cur ≤ a * cur + (1 - a) * prev ∧ a * cur + (1 - a) * prev ≤ max prev cur) ∧
    (lo ≤ rsum p (fun k => wgt k * r k) / rsum p wgt ∧ rsum p (fun k => wgt k * r k) / rsum p wgt ≤ hi) :=
  ⟨convex_between a prev cur h0 h1, wmean_between p wgt r lo hi hw hW hr⟩

/-- **OBV moves by 0 or by exactly the candle's volume.** -/
theorem obv_moves (x : Ctx K) (c pc prev v : Num K)
    (hprev : x.prevReading x.name = .ok (.num prev))
    (hc : x.reading "close" = .ok (.num c)) (hpc : x.prevReading "close" = .ok (.num pc))
    (hv : x.reading "volume" = .ok (.num v)) :
    ∃ n, Calc.obv x = .ok (.num n) ∧
      (n.toF = prev.toF ∨ n.toF = prev.toF + v.toF ∨ n.toF = prev.toF - v.toF) := by
  obtain ⟨n, h, hval⟩ := obv_def x c pc prev v hprev hc hpc hv
  refine ⟨n, h, ?_⟩
  rw [hval]; split_ifs <;> simp

example : ∃ n : Num ℚ, Calc.obv (Demo.ctx "OBV") = .ok (.num n) ∧
    (n.toF = (Num.int 600 : Num ℚ).toF ∨ n.toF = (Num.int 600 : Num ℚ).toF + (Num.int 0 : Num ℚ).toF ∨
     n.toF = (Num.int 600 : Num ℚ).toF - (Num.int 0 : Num ℚ).toF) :=
  obv_moves (Demo.ctx "OBV") (.int 15) (.int 14) (.int 600) (.int 0) rfl rfl rfl rfl

/-- **Counter is a non-negative integer that keeps, grows by one, or resets** (every float carrier). -/
theorem counter_moves {F : Type} [PyF F] (x : Ctx F) (input : String) (cv : Scalar F) (r prev : Val F) (k : Int)
    (hr : x.reading input = .ok r) (hprev : x.prevReading x.name = .ok prev)
    (hpv : (prev = .none ∧ k = 0) ∨ prev = .int k) (hk : 0 ≤ k) :
    ∃ n : Int, Calc.counter x input cv = .ok (.int n) ∧ 0 ≤ n ∧ (n = k ∨ n = k + 1 ∨ n = 0) := by
  have hpc : prevCount prev = k := by
    rcases hpv with ⟨rfl, rfl⟩ | rfl <;> rfl
  have hpv' : prev = .none ∨ ∃ k : Int, prev = .int k := by
    rcases hpv with ⟨h, _⟩ | h
    · exact Or.inl h
    · exact Or.inr ⟨k, h⟩
  refine ⟨_, counter_def x input cv r prev hr hprev hpv', ?_, ?_⟩ <;> rw [hpc] <;> split_ifs <;> omega

example : ∃ n : Int, Calc.counter (Demo.ctx "COUNT") "close" (.num (.int 15)) = .ok (.int n) ∧ 0 ≤ n ∧
    (n = 2 ∨ n = 2 + 1 ∨ n = 0) :=
  counter_moves (Demo.ctx "COUNT") "close" (.num (.int 15)) (.num (.int 15)) (.int 2) 2 rfl rfl (Or.inr rfl) (by norm_num)

/-! ### rounding -/

/-- **Every stored reading is rounded**: the framework stores `v.roundBy n`; `round_values` is
idempotent, so what is stored is a fixed point of the rounding; floats are within `ε_n` of the
computed value, ints / bools / None are untouched, and integer bounds (0, 100, −100) survive. -/
theorem stored_rounded (n : Nat) (v : Val K) (a : Num K) (lo hi : Int)
    (h1 : (lo : K) ≤ a.toF) (h2 : a.toF ≤ (hi : K)) :
    (v.roundBy n).roundBy n = v.roundBy n ∧
    |(a.roundBy n).toF - a.toF| ≤ eps K n ∧
    ((lo : K) ≤ (a.roundBy n).toF ∧ (a.roundBy n).toF ≤ (hi : K)) ∧
    (∀ y, a.roundBy n = .flt y → PyF.round n y = y) :=
  ⟨Val.roundBy_idem n v, stored_close n a, stored_between n lo hi a h1 h2, fun y h => stored_float_fixed n a y h⟩

example : ((Val.flt (1234567 / 100000 : ℚ)).roundBy 2).roundBy 2 = (Val.flt (1234567 / 100000 : ℚ)).roundBy 2 :=
  (stored_rounded 2 _ (Num.int 5 : Num ℚ) 0 100 (by simp) (by simp; norm_num)).1

/-- rounding keeps the weak order of two stored floats (e.g. lower ≤ middle ≤ upper survive storing) -/
theorem stored_order (n : Nat) (x y : K) (h : x ≤ y) : PyF.round n x ≤ PyF.round n y :=
  round_le_round n x y h

/-! ### whole series -/

/-- **TR ≥ high − low ≥ 0 on every candle of every well-formed raw stream** (the stored value is
the rounding of a number with that property). -/
theorem tr_series_ge_range (nm : String) (n : Nat) (hk : IsKey nm)
    (raw : List (Candle K)) (hraw : ∀ c ∈ raw, Plain c) (hwf : ∀ c ∈ raw, c.l.toF ≤ c.h.toF) :
    ∃ vs : List (Val K), vs.length = raw.length ∧
      rowMajor (mkTop .tr nm n) raw = .ok (deco nm raw vs) ∧
      ∀ j, 1 ≤ j → j < raw.length → ∃ t : Num K, vs.getD j .none = .num (t.roundBy n) ∧
        0 ≤ fieldAt (·.h) raw j - fieldAt (·.l) raw j ∧ fieldAt (·.h) raw j - fieldAt (·.l) raw j ≤ t.toF ∧
        |(t.roundBy n).toF - t.toF| ≤ eps K n := by
  obtain ⟨vs, h1, h2, h3⟩ := tr_series nm n hk raw hraw
  refine ⟨vs, h1, h2, fun j hj1 hj => ?_⟩
  obtain ⟨t, ht, htv⟩ := (h3 j hj).2 hj1
  have hmem : raw.getD j default ∈ raw := by
    rw [List.getD_eq_getElem?_getD, List.getElem?_eq_getElem hj]; exact List.getElem_mem _
  have hlh : fieldAt (·.l) raw j ≤ fieldAt (·.h) raw j := hwf _ hmem
  refine ⟨t, ht, by linarith, ?_, stored_close n t⟩
  rw [htv]; exact le_trans (le_max_left _ _) (le_max_left _ _)

/-- **Every SMA reading lies within the range of the inputs it averages**, up to its rounding
budget. -/
theorem sma_series_within (p : Nat) (hp : 2 ≤ p) (nm : String) (n : Nat) (hk : IsKey nm)
    (raw : List (Candle K)) (hraw : ∀ c ∈ raw, Plain c) (lo hi : K)
    (hb : ∀ j, j < raw.length → lo ≤ fieldAt (·.c) raw j ∧ fieldAt (·.c) raw j ≤ hi) :
    ∃ vs : List (Val K), vs.length = raw.length ∧
      rowMajor (mkTop (.sma p "close") nm n) raw = .ok (deco nm raw vs) ∧
      ∀ j, j < raw.length → p ≤ j + 1 → ∃ y, vs.getD j .none = .flt y ∧
        lo - ((j + 2 - p : Nat) : K) * eps K n ≤ y ∧ y ≤ hi + ((j + 2 - p : Nat) : K) * eps K n := by
  obtain ⟨vs, h1, h2, h3⟩ := sma_series p hp nm "close" (·.c) n hk noDot_close (fun _ => rfl) raw hraw
  refine ⟨vs, h1, h2, fun j hj hpj => ?_⟩
  obtain ⟨y, hy, hbound⟩ := (h3 j hj).2 hpj
  have hm := mean_between p (fun k => fieldAt (·.c) raw (j + 1 - p + k)) lo hi (by omega)
    (fun k hk' => hb _ (by omega))
  have := abs_le.1 hbound
  unfold winMean at this
  exact ⟨y, hy, by linarith [this.1, hm.1], by linarith [this.2, hm.2]⟩

/-! ### whole runs: every candle of every raw stream, every append schedule, every timeframe

From here on the statements are about RUNS of the real object, not about single `_calculate_reading`
calls.  Two forms per indicator:

* `…_run_…` – the batch run on the base timeframe: for EVERY list of raw candles, building the indicator
  over it and calling `calculate()` RETURNS, and every candle of the result satisfies the invariant
  (`None` / the all-`None` dict strictly before the TRUE warm-up index, the invariant from it on);
* `…_live_…` – for every manager with an incremental spec `M : MgrSpec K` (base timeframe `MgrSpec.base`,
  collapsing timeframe `MgrSpec.tf`, collapsing + gap filling `MgrSpec.fill`), every initial list and every
  append schedule: WHENEVER the history returns, its candles are as many as the manager's candles
  `M.spec stream` (the stream itself on the base timeframe, the collapsed / filled candles otherwise) and
  every one satisfies the invariant (indices and textbook quantities refer to `M.spec stream`).

They are the whole-series theorems of `HexProofs/Numeric/Series*.lean` (induction along the row-major run of
the kind's `TreeSpec`) composed with `TreeSpec.batch_iff` / `TreeSpec.live_refines`. -/

/-- how a stored `Num` relates to its value: `round_values` leaves ints alone, and rounding fixes ints -/
theorem stored_num (n : Nat) (a : Num K) : (a.roundBy n).toF = PyF.round n a.toF := by
  cases a with
  | int i => simp [Num.roundBy, round_int]
  | flt x => rfl

/-! #### RSI ∈ [0, 100] -/

/-- **RSI ∈ [0, 100] on every candle of every history** (`period ≥ 1`, input a candle field): the own
reading is `None` on candles `0 … p−1` and from the warm-up index `p` on a float in `[0, 100]` EXACTLY
(no budget: the `<name>_data` averages are stored unrounded and are non-negative by induction, and
monotone rounding fixes `0` and `100`). -/
theorem rsi_live_range (M : MgrSpec K) (p : Nat) (hp : 1 ≤ p) (nm input : String) (fld : Candle K → Num K)
    (n : Nat) (hn : RsiNames nm) (hk : IsKey nm) (hin : NoDot input ∧ input ∈ Candle.attrNames)
    (hattr : ∀ c : Candle K, c.attr input = some (.num (fld c)))
    (init : List (Candle K)) (chunks : List (List (Candle K))) (hok : M.Ok (init ++ chunks.flatten))
    (snap : List (Candle K))
    (hsnap : candlesOf (runIndicator (mkTop (.rsi (p : Int) input : Kind K) nm n) M.cfg init chunks) = .ok snap) :
    snap.length = (M.spec (init ++ chunks.flatten)).length ∧
    ∀ j, j < (M.spec (init ++ chunks.flatten)).length →
      (j < p → readingByCandle (snap.getD j default) nm = .none) ∧
      (p ≤ j → ∃ y, readingByCandle (snap.getD j default) nm = .flt y ∧ 0 ≤ y ∧ y ≤ 100) := by
  obtain ⟨out, hl, hrun, hall⟩ := rsi_series_candles p hp nm input fld n hn hk hin hattr _ (M.spec_plain _ hok)
  have h := (rsiTree (F := K) nm n (p : Int) input (by omega) hn hin).live_refines M init chunks hok snap hsnap
  rw [hrun] at h
  cases h
  refine ⟨hl, fun j hj => ?_⟩
  have h := (hall j hj).1
  unfold rsiSeries at h
  exact ⟨fun hjp => by rw [if_pos hjp] at h; exact h,
    fun hjp => by rw [if_neg (by omega)] at h; obtain ⟨y, hy, _, h0, h1⟩ := h; exact ⟨y, hy, h0, h1⟩⟩

/-- … and the batch run on the base timeframe returns -/
theorem rsi_run_range (p : Nat) (hp : 1 ≤ p) (nm input : String) (fld : Candle K → Num K) (n : Nat)
    (hn : RsiNames nm) (hk : IsKey nm) (hin : NoDot input ∧ input ∈ Candle.attrNames)
    (hattr : ∀ c : Candle K, c.attr input = some (.num (fld c)))
    (raw : List (Candle K)) (hraw : ∀ c ∈ raw, Plain c) :
    ∃ out : List (Candle K),
      candlesOf (runIndicator (mkTop (.rsi (p : Int) input : Kind K) nm n) {} raw []) = .ok out ∧
      out.length = raw.length ∧
      ∀ j, j < raw.length →
        (j < p → readingByCandle (out.getD j default) nm = .none) ∧
        (p ≤ j → ∃ y, readingByCandle (out.getD j default) nm = .flt y ∧ 0 ≤ y ∧ y ≤ 100) := by
  obtain ⟨rows, _, hrun, _⟩ := rsi_series_batch p hp nm input fld n hn hk hin hattr raw hraw
  have := rsi_live_range (MgrSpec.base K) p hp nm input fld n hn hk hin hattr raw []
    (show ∀ c ∈ raw ++ ([] : List (List (Candle K))).flatten, Plain c by simpa using hraw) _ hrun
  exact ⟨_, hrun, by simpa [MgrSpec.base] using this⟩

/-! #### Stochastic ∈ [0, 100] -/

/-- the range statement of one STOCH candle (`own` = the dict under `name`, `k` / `d` = the readings of the
SMA helpers `name_k` / `name_d`): from index `p − 1` on the own `stoch` field lies in `[0, 100]` EXACTLY; from
`t_K = p + smoothK − 2` on the stored `%K` lies within its rounding budget `b_K = (j − t_K + 1)·ε₄` of
`[0, 100]` (and the own `k` field within `ε_n + b_K`); from `t_D = t_K + slow − 1` on the stored `%D` within
`b_D = (j − t_D + 1)·ε₄ + b_K` (own `d` field: `ε_n + b_D`).  The budgets are there because `%K` / `%D` are
running SMAs on their STORED (4-decimal) predecessors. -/
def StochInRange (n p sk sl j : Nat) (own k d : Val K) : Prop :=
  (p ≤ j + 1 → ∃ y, own.nested "stoch" = .flt y ∧ 0 ≤ y ∧ y ≤ 100) ∧
  (stochTK p sk ≤ j →
    (∃ y, k = .flt y ∧ -stochBK K p sk j ≤ y ∧ y ≤ 100 + stochBK K p sk j) ∧
    (∃ y, own.nested "k" = .flt y ∧ -(eps K n + stochBK K p sk j) ≤ y ∧ y ≤ 100 + (eps K n + stochBK K p sk j))) ∧
  (stochTD p sk sl ≤ j →
    (∃ y, d = .flt y ∧ -stochBD K p sk sl j ≤ y ∧ y ≤ 100 + stochBD K p sk sl j) ∧
    (∃ y, own.nested "d" = .flt y ∧ -(eps K n + stochBD K p sk sl j) ≤ y ∧
      y ≤ 100 + (eps K n + stochBD K p sk sl j)))

/-- **Stochastic on every candle of every history** (`period ≥ 2`, `slow, smoothK ≥ 1`, input a candle
field with `low ≤ input ≤ high` on the manager's candles – true for `close`): `StochInRange`. -/
theorem stoch_live_ranges (M : MgrSpec K) (p sk sl : Nat) (hp : 2 ≤ p) (hsk : 1 ≤ sk) (hsl : 1 ≤ sl)
    (nm input : String) (fld : Candle K → Num K) (n : Nat) (hn : StochNames nm)
    (hin : NoDot input ∧ input ∈ Candle.attrNames) (hattr : ∀ c : Candle K, c.attr input = some (.num (fld c)))
    (init : List (Candle K)) (chunks : List (List (Candle K))) (hok : M.Ok (init ++ chunks.flatten))
    (hw : ∀ i, i < (M.spec (init ++ chunks.flatten)).length →
      fieldAt (·.l) (M.spec (init ++ chunks.flatten)) i ≤ fieldAt fld (M.spec (init ++ chunks.flatten)) i ∧
      fieldAt fld (M.spec (init ++ chunks.flatten)) i ≤ fieldAt (·.h) (M.spec (init ++ chunks.flatten)) i)
    (snap : List (Candle K))
    (hsnap : candlesOf (runIndicator (mkTop (.stoch (p : Int) (sl : Int) (sk : Int) input : Kind K) nm n) M.cfg
      init chunks) = .ok snap) :
    snap.length = (M.spec (init ++ chunks.flatten)).length ∧
    ∀ j, j < (M.spec (init ++ chunks.flatten)).length →
      StochInRange n p sk sl j (readingByCandle (snap.getD j default) nm)
        (readingByCandle (snap.getD j default) (nm ++ "_k")) (readingByCandle (snap.getD j default) (nm ++ "_d")) := by
  have hpl := M.spec_plain _ hok
  have hrun := stoch_series p sk sl hp hsk hsl nm input fld n hn hin hattr _ hpl
  have h := (stochTree (F := K) nm n (p : Int) (sl : Int) (sk : Int) input (by omega) (by omega) (by omega)
    hn hin).live_refines M init chunks hok snap hsnap
  rw [hrun] at h
  cases h
  exact ⟨stochDeco_length _ _ _ _ _ _ _, fun j hj =>
    stoch_ranges n p sk sl _ _ _ hp hsk hsl j (fun i hi => hw i (by omega)) _ _ _ _
      (stochDeco_ok p sk sl hp hsk hsl nm fld n hn _ hpl j hj)⟩

/-- … and the batch run on the base timeframe RETURNS for every list of raw candles (with `low ≤ input ≤ high`),
every candle being `StochInRange` -/
theorem stoch_run_ranges (p sk sl : Nat) (hp : 2 ≤ p) (hsk : 1 ≤ sk) (hsl : 1 ≤ sl) (nm input : String)
    (fld : Candle K → Num K) (n : Nat) (hn : StochNames nm) (hin : NoDot input ∧ input ∈ Candle.attrNames)
    (hattr : ∀ c : Candle K, c.attr input = some (.num (fld c)))
    (raw : List (Candle K)) (hraw : ∀ c ∈ raw, Plain c)
    (hw : ∀ i, i < raw.length → fieldAt (·.l) raw i ≤ fieldAt fld raw i ∧ fieldAt fld raw i ≤ fieldAt (·.h) raw i) :
    ∃ out : List (Candle K),
      candlesOf (runIndicator (mkTop (.stoch (p : Int) (sl : Int) (sk : Int) input : Kind K) nm n) {} raw []) = .ok out ∧
      out.length = raw.length ∧
      ∀ j, j < raw.length →
        StochInRange n p sk sl j (readingByCandle (out.getD j default) nm)
          (readingByCandle (out.getD j default) (nm ++ "_k")) (readingByCandle (out.getD j default) (nm ++ "_d")) :=
  ⟨_, stoch_series_batch p sk sl hp hsk hsl nm input fld n hn hin hattr raw hraw, stochDeco_length _ _ _ _ _ _ _,
    fun j hj => stoch_ranges n p sk sl _ _ _ hp hsk hsl j (fun i hi => hw i (by omega)) _ _ _ _
      (stochDeco_ok p sk sl hp hsk hsl nm fld n hn _ hraw j hj)⟩

/-! #### Aroon ∈ [0, 100], oscillator ∈ [−100, 100] -/

/-- what a covered leaf kind stores over any manager: the row-major run on the manager's candles -/
theorem leaf_live (M : MgrSpec K) (k : Kind K) (nm : String) (n : Nat) (hc : Covered nm k)
    (init : List (Candle K)) (chunks : List (List (Candle K))) (hok : M.Ok (init ++ chunks.flatten))
    (snap : List (Candle K)) (hsnap : candlesOf (runIndicator (mkTop k nm n) M.cfg init chunks) = .ok snap) :
    rowMajor (mkTop k nm n) (M.spec (init ++ chunks.flatten)) = .ok snap := by
  obtain ⟨C⟩ := hc.contract n
  exact (TreeSpec.ofLeaf _ (hc.isLeaf n) C).live_refines M init chunks hok snap hsnap

/-- **Aroon on every candle of every history** (`period ≥ 1`): the stored dict `vs[j]` is the all-`None`
dict on candles `0 … p−1`; from the warm-up index `p` on `AROONU`, `AROOND` are floats in `[0, 100]` EXACTLY,
within `ε` of `100·(p − bars)/p` (`bars` since the most recent highest high / lowest low of the last `p + 1`
candles), and `AROONOSC` is a float in `[−100, 100]` within `ε` of the exact difference. -/
theorem aroon_live_range (M : MgrSpec K) (p : Nat) (hp : 1 ≤ p) (nm : String) (n : Nat)
    (init : List (Candle K)) (chunks : List (List (Candle K))) (hok : M.Ok (init ++ chunks.flatten))
    (snap : List (Candle K))
    (hsnap : candlesOf (runIndicator (mkTop (.aroon p : Kind K) nm n) M.cfg init chunks) = .ok snap) :
    ∃ vs : List (Val K), vs.length = (M.spec (init ++ chunks.flatten)).length ∧
      snap = deco nm (M.spec (init ++ chunks.flatten)) vs ∧
      ∀ j, j < (M.spec (init ++ chunks.flatten)).length →
        (j < p → vs.getD j .none = aroonNone) ∧
        (p ≤ j → ∃ u d o : K, (vs.getD j .none).nested "AROONU" = .flt u ∧
          (vs.getD j .none).nested "AROOND" = .flt d ∧ (vs.getD j .none).nested "AROONOSC" = .flt o ∧
          |u - aroonOf p (hiBar (fieldAt (·.h) (M.spec (init ++ chunks.flatten))) j p)| ≤ eps K n ∧ 0 ≤ u ∧ u ≤ 100 ∧
          |d - aroonOf p (loBar (fieldAt (·.l) (M.spec (init ++ chunks.flatten))) j p)| ≤ eps K n ∧ 0 ≤ d ∧ d ≤ 100 ∧
          |o - (aroonOf p (hiBar (fieldAt (·.h) (M.spec (init ++ chunks.flatten))) j p)
                - aroonOf p (loBar (fieldAt (·.l) (M.spec (init ++ chunks.flatten))) j p))| ≤ eps K n ∧
          -100 ≤ o ∧ o ≤ 100) := by
  obtain ⟨vs, hl, hrun, hall⟩ := aroon_series p hp nm n _ (M.spec_plain _ hok)
  have h := leaf_live M _ nm n (Covered.aroon (p : Int) (by omega)) init chunks hok snap hsnap
  rw [hrun] at h
  exact ⟨vs, hl, (Except.ok.inj h).symm, fun j hj => ⟨(hall j hj).1, aroonOK_near p n hp _ _ j _ (hall j hj)⟩⟩

/-- … and the batch run on the base timeframe RETURNS for every list of raw candles, with the same readings -/
theorem aroon_run_range (p : Nat) (hp : 1 ≤ p) (nm : String) (n : Nat)
    (raw : List (Candle K)) (hraw : ∀ c ∈ raw, Plain c) :
    ∃ vs : List (Val K), vs.length = raw.length ∧
      candlesOf (runIndicator (mkTop (.aroon p : Kind K) nm n) {} raw []) = .ok (deco nm raw vs) ∧
      ∀ j, j < raw.length →
        (j < p → vs.getD j .none = aroonNone) ∧
        (p ≤ j → ∃ u d o : K, (vs.getD j .none).nested "AROONU" = .flt u ∧
          (vs.getD j .none).nested "AROOND" = .flt d ∧ (vs.getD j .none).nested "AROONOSC" = .flt o ∧
          |u - aroonOf p (hiBar (fieldAt (·.h) raw) j p)| ≤ eps K n ∧ 0 ≤ u ∧ u ≤ 100 ∧
          |d - aroonOf p (loBar (fieldAt (·.l) raw) j p)| ≤ eps K n ∧ 0 ≤ d ∧ d ≤ 100 ∧
          |o - (aroonOf p (hiBar (fieldAt (·.h) raw) j p) - aroonOf p (loBar (fieldAt (·.l) raw) j p))| ≤ eps K n ∧
          -100 ≤ o ∧ o ≤ 100) := by
  obtain ⟨vs, hl, _, hrun, hall⟩ := aroon_series_batch p hp nm n raw hraw
  exact ⟨vs, hl, hrun, fun j hj => ⟨(hall j hj).1, aroonOK_near p n hp _ _ j _ (hall j hj)⟩⟩

/-! #### ADX ∈ [0, 100], DI± ≥ 0 -/

/-- **ADX on every candle of every history** (`period, period_signal ≥ 1`): the own dict is all-`None`
before the warm-up index `p`; on EVERY candle its `ADX` field (read through the dotted name, as users do) is
`None` or a float in `[0, 100]` EXACTLY (first value at `p + period_signal − 1`), `DM_Plus` / `DM_Neg` are
`None` or non-negative floats, the `<name>_dx` helper reading is `None` or in `[0, 100]`, and the `<name>_atr`
helper reading is non-negative.  (An upper bound `DI± ≤ 100` is NOT claimed: it needs ATR ≥ smoothed DM, which
the separately rounded helper series do not guarantee.) -/
theorem adx_live_ranges (M : MgrSpec K) (nm : String) (n p sg : Nat) (hp : 1 ≤ p) (hg : 1 ≤ sg) (hn : AdxNames nm)
    (init : List (Candle K)) (chunks : List (List (Candle K))) (hok : M.Ok (init ++ chunks.flatten))
    (snap : List (Candle K))
    (hsnap : candlesOf (runIndicator (mkTop (.adx (p : Int) (sg : Int) : Kind K) nm n) M.cfg init chunks) = .ok snap) :
    snap.length = (M.spec (init ++ chunks.flatten)).length ∧
    ∀ j, j < (M.spec (init ++ chunks.flatten)).length →
      (j < p → readingByCandle (snap.getD j default) nm = adxNone3) ∧
      FieldIn 0 100 (readingByCandle (snap.getD j default) (nm ++ "." ++ "ADX")) ∧
      FieldNonneg (readingByCandle (snap.getD j default) (nm ++ "." ++ "DM_Plus")) ∧
      FieldNonneg (readingByCandle (snap.getD j default) (nm ++ "." ++ "DM_Neg")) ∧
      FieldIn 0 100 (readingByCandle (snap.getD j default) (nm ++ "_dx")) ∧
      (∀ y, readingByCandle (snap.getD j default) (nm ++ "_atr") = .flt y → 0 ≤ y) := by
  obtain ⟨out, hrun, hl, hall⟩ := adx_series_readings nm n p sg hp hg hn _ (M.spec_plain _ hok)
  have h := (adxTreeN (K := K) nm n p sg hp hg hn).live_refines M init chunks hok snap hsnap
  rw [hrun] at h
  cases h
  refine ⟨hl, fun j hj => ?_⟩
  obtain ⟨_, _, h3, _, _, _, _, _, _, _, h11, _, h13, h14, h15, h16, _⟩ := hall j hj
  exact ⟨h13, h14, h15, h16, h11, h3.2⟩

/-- … and the batch run on the base timeframe RETURNS for every list of raw candles, with the same ranges -/
theorem adx_run_ranges (nm : String) (n p sg : Nat) (hp : 1 ≤ p) (hg : 1 ≤ sg) (hn : AdxNames nm)
    (raw : List (Candle K)) (hraw : ∀ c ∈ raw, Plain c) :
    ∃ out : List (Candle K),
      candlesOf (runIndicator (mkTop (.adx (p : Int) (sg : Int) : Kind K) nm n) {} raw []) = .ok out ∧
      out.length = raw.length ∧
      ∀ j, j < raw.length →
        (j < p → readingByCandle (out.getD j default) nm = adxNone3) ∧
        FieldIn 0 100 (readingByCandle (out.getD j default) (nm ++ "." ++ "ADX")) ∧
        FieldNonneg (readingByCandle (out.getD j default) (nm ++ "." ++ "DM_Plus")) ∧
        FieldNonneg (readingByCandle (out.getD j default) (nm ++ "." ++ "DM_Neg")) ∧
        FieldIn 0 100 (readingByCandle (out.getD j default) (nm ++ "_dx")) ∧
        (∀ y, readingByCandle (out.getD j default) (nm ++ "_atr") = .flt y → 0 ≤ y) := by
  have hrun := adx_batch nm n p sg hp hg hn raw hraw
  have := adx_live_ranges (MgrSpec.base K) nm n p sg hp hg hn raw []
    (show ∀ c ∈ raw ++ ([] : List (List (Candle K))).flatten, Plain c by simpa using hraw) _ hrun
  exact ⟨_, hrun, by simpa [MgrSpec.base] using this⟩

/-! #### TSI ∈ [−100, 100] -/

/-- **TSI on every candle of every history** (`period, smooth_period ≥ 1`, input a candle field): the own
reading is `None` before the TRUE warm-up index `p + s − 1`; from there on, with `S`, `A` the STORED
(4-decimal) `<name>_second` / `<name>_abs_second` readings and `y` the own reading: `0 ≤ A`,
`|S| ≤ A + 2β` (`β = tsiChainBudget = ε₄/a_s + ε₄/a_p`), `y = 0` when `A = 0` and otherwise
`|y| ≤ 100 + 200·β/A + ε_n`; `−100 ≤ y ≤ 100` EXACTLY whenever `|S| ≤ A`, which holds for every rounding with
`RoundNegLe : −round x ≤ round (−x)` (Python's odd `round`, the ℚ instance `roundNegLe_rat`) – this law is
NOT a consequence of `LawfulPyF` (round-half-down violates it and breaks the range: see `RoundNegLe`). -/
theorem tsi_live_range (M : MgrSpec K) (nm : String) (n p s : Nat) (input : String) (fld : Candle K → Num K)
    (hp : 1 ≤ p) (hs : 1 ≤ s) (hn : TsiNames nm) (hin : NoDot input ∧ input ∈ Candle.attrNames)
    (hattr : ∀ c : Candle K, c.attr input = some (.num (fld c)))
    (init : List (Candle K)) (chunks : List (List (Candle K))) (hok : M.Ok (init ++ chunks.flatten))
    (snap : List (Candle K))
    (hsnap : candlesOf (runIndicator (mkTop (.tsi (p : Int) (s : Int) input : Kind K) nm n) M.cfg init chunks)
      = .ok snap) :
    snap.length = (M.spec (init ++ chunks.flatten)).length ∧
    ∀ j, j < (M.spec (init ++ chunks.flatten)).length →
      (j + 1 < p + s → readingByCandle (snap.getD j default) nm = .none) ∧
      (p + s ≤ j + 1 → ∃ S A y : K,
        readingByCandle (snap.getD j default) (nm ++ "_second") = .flt S ∧
        readingByCandle (snap.getD j default) (nm ++ "_abs_second") = .flt A ∧
        readingByCandle (snap.getD j default) nm = .flt y ∧ 0 ≤ A ∧
        |S| ≤ A + 2 * tsiChainBudget (K := K) p s ∧
        (A = 0 → y = 0) ∧
        (A ≠ 0 → |y| ≤ 100 + 200 * tsiChainBudget (K := K) p s / A + eps K n) ∧
        (|S| ≤ A → -100 ≤ y ∧ y ≤ 100) ∧
        (RoundNegLe K defaultRound → -100 ≤ y ∧ y ≤ 100)) := by
  obtain ⟨out, hrun, hl, hall⟩ := tsi_series_readings nm n p s input fld hp hs hn hin hattr _ (M.spec_plain _ hok)
  have h := (tsiTreeN (K := K) nm n p s input hp hs hn hin).live_refines M init chunks hok snap hsnap
  rw [hrun] at h
  cases h
  refine ⟨hl, fun j hj => ?_⟩
  obtain ⟨_, _, _, _, _, _, _, _, _, h10, h11⟩ := hall j hj
  refine ⟨h10.1, fun hj' => ?_⟩
  obtain ⟨S, A, y, e1, e2, e3, a0, _, b1, b2, b3, b4, b5⟩ := h11 hj'
  exact ⟨S, A, y, e1, e2, e3, a0, b1, b3, b4, b5, fun hodd => b5 (b2 hodd)⟩

/-- … and the batch run on the base timeframe RETURNS for every list of raw candles, with the same bounds -/
theorem tsi_run_range (nm : String) (n p s : Nat) (input : String) (fld : Candle K → Num K)
    (hp : 1 ≤ p) (hs : 1 ≤ s) (hn : TsiNames nm) (hin : NoDot input ∧ input ∈ Candle.attrNames)
    (hattr : ∀ c : Candle K, c.attr input = some (.num (fld c)))
    (raw : List (Candle K)) (hraw : ∀ c ∈ raw, Plain c) :
    ∃ out : List (Candle K),
      candlesOf (runIndicator (mkTop (.tsi (p : Int) (s : Int) input : Kind K) nm n) {} raw []) = .ok out ∧
      out.length = raw.length ∧
      ∀ j, j < raw.length →
        (j + 1 < p + s → readingByCandle (out.getD j default) nm = .none) ∧
        (p + s ≤ j + 1 → ∃ S A y : K,
          readingByCandle (out.getD j default) (nm ++ "_second") = .flt S ∧
          readingByCandle (out.getD j default) (nm ++ "_abs_second") = .flt A ∧
          readingByCandle (out.getD j default) nm = .flt y ∧ 0 ≤ A ∧
          |S| ≤ A + 2 * tsiChainBudget (K := K) p s ∧
          (A = 0 → y = 0) ∧
          (A ≠ 0 → |y| ≤ 100 + 200 * tsiChainBudget (K := K) p s / A + eps K n) ∧
          (|S| ≤ A → -100 ≤ y ∧ y ≤ 100) ∧
          (RoundNegLe K defaultRound → -100 ≤ y ∧ y ≤ 100)) := by
  have hrun := tsi_batch nm n p s input fld hp hs hn hin hattr raw hraw
  have := tsi_live_range (MgrSpec.base K) nm n p s input fld hp hs hn hin hattr raw []
    (show ∀ c ∈ raw ++ ([] : List (List (Candle K))).flatten, Plain c by simpa using hraw) _ hrun
  exact ⟨_, hrun, by simpa [MgrSpec.base] using this⟩

/-! #### ATR ≥ 0, TR ≥ 0, σ ≥ 0 -/

/-- **ATR ≥ 0 on every candle of every history** (`period ≥ 1`): the own reading is `None` on candles
`0 … p−1` – the TRUE warm-up index is `p`, not `p − 1`: the `<name>_TR` helper has no reading on candle 0 –
and from `p` on a non-negative float; the helper reading is `None` on candle 0 and afterwards a non-negative
number (the true range rounded to 4 decimals, an int for int prices). -/
theorem atr_live_nonneg (M : MgrSpec K) (p : Nat) (hp : 1 ≤ p) (nm : String) (n : Nat) (hk : IsKey nm)
    (hn : AtrNames nm) (init : List (Candle K)) (chunks : List (List (Candle K)))
    (hok : M.Ok (init ++ chunks.flatten)) (snap : List (Candle K))
    (hsnap : candlesOf (runIndicator (mkTop (.atr (p : Int)) nm n) M.cfg init chunks) = .ok snap) :
    snap.length = (M.spec (init ++ chunks.flatten)).length ∧
    ∀ j, j < (M.spec (init ++ chunks.flatten)).length →
      (j < p → readingByCandle (snap.getD j default) nm = .none) ∧
      (p ≤ j → ∃ y, readingByCandle (snap.getD j default) nm = .flt y ∧ 0 ≤ y) ∧
      (j = 0 → readingByCandle (snap.getD j default) (nm ++ "_TR") = .none) ∧
      (1 ≤ j → ∃ t : Num K, readingByCandle (snap.getD j default) (nm ++ "_TR") = .num t ∧ 0 ≤ t.toF) := by
  obtain ⟨out, h1, h2, h3⟩ := atr_series_readings p hp nm n hk hn _ (M.spec_plain _ hok)
  have h := (atrTree nm n (p : Int) (by omega) hn).live_refines M init chunks hok snap hsnap
  rw [h1] at h
  cases h
  refine ⟨h2, fun j hj => ?_⟩
  obtain ⟨_, e2, _, e4⟩ := h3 j hj
  refine ⟨e4.1, fun hjp => ?_, fun h0 => ?_, fun h1 => ?_⟩
  · obtain ⟨y, hy, _, h0⟩ := e4.2 hjp
    exact ⟨y, hy, h0⟩
  · rw [e2]; unfold trStored; rw [if_pos h0]
  · rw [e2]; unfold trStored; rw [if_neg (by omega)]
    exact ⟨_, rfl, trS_nonneg _ j⟩

/-- … and the batch run on the base timeframe RETURNS for every list of raw candles, with the same signs -/
theorem atr_run_nonneg (p : Nat) (hp : 1 ≤ p) (nm : String) (n : Nat) (hk : IsKey nm) (hn : AtrNames nm)
    (raw : List (Candle K)) (hraw : ∀ c ∈ raw, Plain c) :
    ∃ out : List (Candle K),
      candlesOf (runIndicator (mkTop (.atr (p : Int)) nm n) {} raw []) = .ok out ∧
      out.length = raw.length ∧
      ∀ j, j < raw.length →
        (j < p → readingByCandle (out.getD j default) nm = .none) ∧
        (p ≤ j → ∃ y, readingByCandle (out.getD j default) nm = .flt y ∧ 0 ≤ y) ∧
        (j = 0 → readingByCandle (out.getD j default) (nm ++ "_TR") = .none) ∧
        (1 ≤ j → ∃ t : Num K, readingByCandle (out.getD j default) (nm ++ "_TR") = .num t ∧ 0 ≤ t.toF) := by
  obtain ⟨vs, _, hrun, _⟩ := atr_batch p hp nm n hk hn raw hraw
  have := atr_live_nonneg (MgrSpec.base K) p hp nm n hk hn raw []
    (show ∀ c ∈ raw ++ ([] : List (List (Candle K))).flatten, Plain c by simpa using hraw) _ hrun
  exact ⟨_, hrun, by simpa [MgrSpec.base] using this⟩

/-- what `SdCandleOK` says about the sign: `None` before the warm-up index, then a non-negative float -/
theorem sdCandle_nonneg {p n : Nat} {nm : String} {x : Nat → K} {j : Nat} {c : Candle K}
    (h : SdCandleOK p n nm x j c) :
    (j < p → readingByCandle c nm = .none) ∧ (p ≤ j → ∃ y, readingByCandle c nm = .flt y ∧ 0 ≤ y) := by
  have hs := h.1
  unfold stdevSeries at hs
  refine ⟨fun hjp => by rw [if_pos hjp] at hs; exact hs, fun hjp => ?_⟩
  rw [if_neg (by omega)] at hs
  obtain ⟨y, hy, _, h0⟩ := hs
  exact ⟨y, hy, h0⟩

/-- **σ ≥ 0 on every candle of every history** (`period ≥ 1`, input a candle field; `sqrt ≥ 0` on
non-negative arguments is all that is used of `sqrt`): the own reading is `None` on candles `0 … p−1` – the
TRUE warm-up index is `p`: the library waits for `p + 1` inputs – and from `p` on a non-negative float. -/
theorem stdev_live_nonneg [NonnegSqrt K] (M : MgrSpec K) (p : Nat) (hp : 1 ≤ p) (nm input : String)
    (fld : Candle K → Num K) (n : Nat) (hn : SdNames nm) (hin : NoDot input ∧ input ∈ Candle.attrNames)
    (hattr : ∀ c : Candle K, c.attr input = some (.num (fld c)))
    (init : List (Candle K)) (chunks : List (List (Candle K))) (hok : M.Ok (init ++ chunks.flatten))
    (snap : List (Candle K))
    (hsnap : candlesOf (runIndicator (mkTop (.stdev (p : Int) input : Kind K) nm n) M.cfg init chunks) = .ok snap) :
    snap.length = (M.spec (init ++ chunks.flatten)).length ∧
    ∀ j, j < (M.spec (init ++ chunks.flatten)).length →
      (j < p → readingByCandle (snap.getD j default) nm = .none) ∧
      (p ≤ j → ∃ y, readingByCandle (snap.getD j default) nm = .flt y ∧ 0 ≤ y) := by
  obtain ⟨out, hl, hrun, hall⟩ := stdev_series_candles p hp nm input fld n hn hin hattr _ (M.spec_plain _ hok)
  have h := (stdevTree (F := K) nm n (p : Int) input (by omega) hin).live_refines M init chunks hok snap hsnap
  rw [hrun] at h
  cases h
  exact ⟨hl, fun j hj => sdCandle_nonneg (hall j hj)⟩

/-- … and the batch run on the base timeframe RETURNS for every list of raw candles, with the same sign -/
theorem stdev_run_nonneg [NonnegSqrt K] (p : Nat) (hp : 1 ≤ p) (nm input : String) (fld : Candle K → Num K)
    (n : Nat) (hn : SdNames nm) (hin : NoDot input ∧ input ∈ Candle.attrNames)
    (hattr : ∀ c : Candle K, c.attr input = some (.num (fld c)))
    (raw : List (Candle K)) (hraw : ∀ c ∈ raw, Plain c) :
    ∃ out : List (Candle K),
      candlesOf (runIndicator (mkTop (.stdev (p : Int) input : Kind K) nm n) {} raw []) = .ok out ∧
      out.length = raw.length ∧
      ∀ j, j < raw.length →
        (j < p → readingByCandle (out.getD j default) nm = .none) ∧
        (p ≤ j → ∃ y, readingByCandle (out.getD j default) nm = .flt y ∧ 0 ≤ y) := by
  obtain ⟨rows, _, hrun, _⟩ := stdev_series_batch p hp nm input fld n hn hin hattr raw hraw
  obtain ⟨hl, hall⟩ := stdev_batch_readings p hp nm input fld n hn hin hattr raw hraw _ hrun
  exact ⟨_, hrun, hl, fun j hj => sdCandle_nonneg (hall j hj)⟩

/-! #### band ordering: Bollinger, Keltner, Donchian, HighestLowest -/

/-- what `BbCandleOK` says about order and sign -/
theorem bbCandle_order {p n : Nat} {nm : String} {x : Nat → K} {j : Nat} {c : Candle K}
    (h : BbCandleOK p n nm x j c) :
    (j < p → readingByCandle c nm = bbNoneDict) ∧
    (p ≤ j → ∃ lo mid up : K, readingByCandle c nm = bbDict lo mid up ∧ lo ≤ mid ∧ mid ≤ up) ∧
    (∀ y, readingByCandle c (nm ++ "_STDEV") = .flt y → 0 ≤ y) := by
  obtain ⟨h1, h2, _⟩ := h
  have hs := h2.1
  unfold bbSeries at h1
  unfold stdevSeries at hs
  refine ⟨fun hjp => by rw [if_pos hjp] at h1; exact h1, fun hjp => ?_, fun y hy => ?_⟩
  · rw [if_neg (by omega)] at h1
    obtain ⟨lo, mid, up, hv, o1, o2, _⟩ := h1
    exact ⟨lo, mid, up, hv, o1, o2⟩
  · by_cases hjp : j < p
    · rw [if_pos hjp] at hs
      have hs' : readingByCandle c (nm ++ "_STDEV") = Val.none := hs
      rw [hs'] at hy; cases hy
    · rw [if_neg hjp] at hs
      obtain ⟨y', hy', _, h0⟩ := hs
      rw [hy'] at hy
      cases hy
      exact h0

/-- **Bollinger: lower ≤ middle ≤ upper on every candle of every history** (`period ≥ 2`, input a candle
field): the own dict is `{BBL: None, BBM: None, BBU: None}` on candles `0 … p−1` (the STDEV helper's warm-up
index is `p`, although the SMA helper already has a value on candle `p − 1`) and from `p` on three floats with
`BBL ≤ BBM ≤ BBU` EXACTLY (monotone rounding of `m − 2s ≤ m ≤ m + 2s` on the stored helper readings, `s ≥ 0`);
the stored σ helper reading is non-negative. -/
theorem bbands_live_order [NonnegSqrt K] (M : MgrSpec K) (p : Nat) (hp : 2 ≤ p) (nm input : String)
    (fld : Candle K → Num K) (n : Nat) (hk : IsKey nm) (hn : BbNames nm)
    (hin : NoDot input ∧ input ∈ Candle.attrNames) (hattr : ∀ c : Candle K, c.attr input = some (.num (fld c)))
    (init : List (Candle K)) (chunks : List (List (Candle K))) (hok : M.Ok (init ++ chunks.flatten))
    (snap : List (Candle K))
    (hsnap : candlesOf (runIndicator (mkTop (.bbands (p : Int) input : Kind K) nm n) M.cfg init chunks) = .ok snap) :
    snap.length = (M.spec (init ++ chunks.flatten)).length ∧
    ∀ j, j < (M.spec (init ++ chunks.flatten)).length →
      (j < p → readingByCandle (snap.getD j default) nm = bbNoneDict) ∧
      (p ≤ j → ∃ lo mid up : K, readingByCandle (snap.getD j default) nm = bbDict lo mid up ∧
        lo ≤ mid ∧ mid ≤ up) ∧
      (∀ y, readingByCandle (snap.getD j default) (nm ++ "_STDEV") = .flt y → 0 ≤ y) := by
  obtain ⟨out, hl, hrun, hall⟩ := bb_series_candles p hp nm input fld n hk hn hin hattr _ (M.spec_plain _ hok)
  have h := (bbTree (F := K) nm n (p : Int) input (by omega) hn hin).live_refines M init chunks hok snap hsnap
  rw [hrun] at h
  cases h
  exact ⟨hl, fun j hj => bbCandle_order (hall j hj)⟩

/-- … and the batch run on the base timeframe RETURNS for every list of raw candles, with the same order -/
theorem bbands_run_order [NonnegSqrt K] (p : Nat) (hp : 2 ≤ p) (nm input : String) (fld : Candle K → Num K)
    (n : Nat) (hk : IsKey nm) (hn : BbNames nm) (hin : NoDot input ∧ input ∈ Candle.attrNames)
    (hattr : ∀ c : Candle K, c.attr input = some (.num (fld c)))
    (raw : List (Candle K)) (hraw : ∀ c ∈ raw, Plain c) :
    ∃ out : List (Candle K),
      candlesOf (runIndicator (mkTop (.bbands (p : Int) input : Kind K) nm n) {} raw []) = .ok out ∧
      out.length = raw.length ∧
      ∀ j, j < raw.length →
        (j < p → readingByCandle (out.getD j default) nm = bbNoneDict) ∧
        (p ≤ j → ∃ lo mid up : K, readingByCandle (out.getD j default) nm = bbDict lo mid up ∧
          lo ≤ mid ∧ mid ≤ up) ∧
        (∀ y, readingByCandle (out.getD j default) (nm ++ "_STDEV") = .flt y → 0 ≤ y) := by
  obtain ⟨rows, _, hrun, _⟩ := bb_series_batch p hp nm input fld n hn hin hattr raw hraw
  obtain ⟨hl, hall⟩ := bb_batch_readings p hp nm input fld n hk hn hin hattr raw hraw _ hrun
  exact ⟨_, hrun, hl, fun j hj => bbCandle_order (hall j hj)⟩

/-- what `KcSeriesOK` says about order and sign (non-negative multiplier) -/
theorem kcSeries_order {p n : Nat} {mult : Num K} {nm : String} {fld : Candle K → Num K}
    {raw out : List (Candle K)} (h : KcSeriesOK p n mult nm fld raw out) (hm : 0 ≤ mult.toF) :
    out.length = raw.length ∧
    ∀ j, j < raw.length →
      (j < p → readingByCandle (out.getD j default) nm = kcNoneDict) ∧
      (p ≤ j → ∃ l b u : K, readingByCandle (out.getD j default) nm
          = .dict [("lower", .num (.flt l)), ("band", .num (.flt b)), ("upper", .num (.flt u))] ∧
        l ≤ b ∧ b ≤ u) ∧
      (∀ y, readingByCandle (out.getD j default) (nm ++ "_ATR") = .flt y → 0 ≤ y) := by
  refine ⟨h.1, fun j hj => ?_⟩
  obtain ⟨_, _, h3, _, _, _, h7, _⟩ := h.2 j hj
  unfold kcSeries at h7
  refine ⟨fun hjp => by rw [if_pos hjp] at h7; exact h7, fun hjp => ?_, h3.2⟩
  rw [if_neg (by omega)] at h7
  obtain ⟨l, b, u, hv, _, _, _, ho⟩ := h7
  exact ⟨l, b, u, hv, ho hm⟩

/-- **Keltner: lower ≤ band ≤ upper on every candle of every history** (`period ≥ 2`, input a candle
field, multiplier `≥ 0`): the own dict is `{lower: None, band: None, upper: None}` on candles `0 … p−1` (the
ATR helper's warm-up index is `p`; the EMA helper already has a value on candle `p − 1`) and from `p` on three
floats with `lower ≤ band ≤ upper` EXACTLY; the stored ATR helper reading is non-negative. -/
theorem kc_live_order (M : MgrSpec K) (p : Nat) (hp : 2 ≤ p) (nm input : String) (fld : Candle K → Num K)
    (n : Nat) (mult : Num K) (hk : IsKey nm) (hn : KcNames nm) (hin : NoDot input ∧ input ∈ Candle.attrNames)
    (hattr : ∀ c : Candle K, c.attr input = some (.num (fld c))) (hm : 0 ≤ mult.toF)
    (init : List (Candle K)) (chunks : List (List (Candle K))) (hok : M.Ok (init ++ chunks.flatten))
    (snap : List (Candle K))
    (hsnap : candlesOf (runIndicator (mkTop (.kc (p : Int) input mult : Kind K) nm n) M.cfg init chunks) = .ok snap) :
    snap.length = (M.spec (init ++ chunks.flatten)).length ∧
    ∀ j, j < (M.spec (init ++ chunks.flatten)).length →
      (j < p → readingByCandle (snap.getD j default) nm = kcNoneDict) ∧
      (p ≤ j → ∃ l b u : K, readingByCandle (snap.getD j default) nm
          = .dict [("lower", .num (.flt l)), ("band", .num (.flt b)), ("upper", .num (.flt u))] ∧
        l ≤ b ∧ b ≤ u) ∧
      (∀ y, readingByCandle (snap.getD j default) (nm ++ "_ATR") = .flt y → 0 ≤ y) := by
  obtain ⟨out, hrun, hok'⟩ := kc_series_readings p hp nm input fld n mult hk hn hin hattr _ (M.spec_plain _ hok)
  have h := (kcTree (F := K) nm n (p : Int) input mult (by omega) hn hin).live_refines M init chunks hok snap hsnap
  rw [hrun] at h
  cases h
  exact kcSeries_order hok' hm

/-- … and the batch run on the base timeframe RETURNS for every list of raw candles, with the same order -/
theorem kc_run_order (p : Nat) (hp : 2 ≤ p) (nm input : String) (fld : Candle K → Num K) (n : Nat)
    (mult : Num K) (hk : IsKey nm) (hn : KcNames nm) (hin : NoDot input ∧ input ∈ Candle.attrNames)
    (hattr : ∀ c : Candle K, c.attr input = some (.num (fld c))) (hm : 0 ≤ mult.toF)
    (raw : List (Candle K)) (hraw : ∀ c ∈ raw, Plain c) :
    ∃ out : List (Candle K),
      candlesOf (runIndicator (mkTop (.kc (p : Int) input mult : Kind K) nm n) {} raw []) = .ok out ∧
      out.length = raw.length ∧
      ∀ j, j < raw.length →
        (j < p → readingByCandle (out.getD j default) nm = kcNoneDict) ∧
        (p ≤ j → ∃ l b u : K, readingByCandle (out.getD j default) nm
            = .dict [("lower", .num (.flt l)), ("band", .num (.flt b)), ("upper", .num (.flt u))] ∧
          l ≤ b ∧ b ≤ u) ∧
        (∀ y, readingByCandle (out.getD j default) (nm ++ "_ATR") = .flt y → 0 ≤ y) := by
  obtain ⟨out, hrun, hok⟩ := kc_batch p hp nm input fld n mult hk hn hin hattr raw hraw
  exact ⟨out, hrun, kcSeries_order hok hm⟩

/-- well-formed candles (`low ≤ high`) as a statement about the two field series (also beyond the end of the
list, where both read the default candle) -/
theorem fieldAt_wf (raw : List (Candle K)) (hwf : ∀ c ∈ raw, c.l.toF ≤ c.h.toF) (k : Nat) :
    fieldAt (·.l) raw k ≤ fieldAt (·.h) raw k := by
  unfold fieldAt
  by_cases hk : k < raw.length
  · apply hwf
    rw [List.getD_eq_getElem?_getD, List.getElem?_eq_getElem hk]; exact List.getElem_mem _
  · rw [List.getD_eq_getElem?_getD, List.getElem?_eq_none (by omega)]
    exact le_refl _

/-- what `DcOK` says about the STORED fields on well-formed candles: ordered, and enclosing the candle's own
low and high rounded the same way – exactly, no slack -/
theorem dcOK_order (p n : Nat) (raw : List (Candle K)) (hwf : ∀ c ∈ raw, c.l.toF ≤ c.h.toF) (j : Nat) (v : Val K)
    (h : DcOK p n (numAt (·.h) raw) (numAt (·.l) raw) j v) (hjp : p ≤ j + 1) :
    ∃ (lo up : Num K) (mid : K),
      v = .dict [("DCL", .num lo), ("DCM", .num (.flt mid)), ("DCU", .num up)] ∧
      lo.toF ≤ mid ∧ mid ≤ up.toF ∧
      lo.toF ≤ ((numAt (·.l) raw j).roundBy n).toF ∧ ((numAt (·.h) raw j).roundBy n).toF ≤ up.toF := by
  obtain ⟨kl, kh, _, _, hv, e1, e2⟩ := h.2 hjp
  have hLH : (numAt (·.l) raw kl).toF ≤ (numAt (·.h) raw kh).toF := by
    rw [e1, e2]; exact winMin_le_winMax _ _ (fieldAt_wf raw hwf) j (p - 1)
  have hL : (numAt (·.l) raw kl).toF ≤ (numAt (·.l) raw j).toF := by
    rw [e1]; exact winMin_self (fun k => (numAt (·.l) raw k).toF) j (p - 1)
  have hH : (numAt (·.h) raw j).toF ≤ (numAt (·.h) raw kh).toF := by
    rw [e2]; exact winMax_self (fun k => (numAt (·.h) raw k).toF) j (p - 1)
  refine ⟨_, _, _, hv, ?_, ?_, ?_, ?_⟩
  · rw [stored_num]; exact LawfulPyF.round_mono n (by linarith)
  · rw [stored_num]; exact LawfulPyF.round_mono n (by linarith)
  · rw [stored_num, stored_num]; exact LawfulPyF.round_mono n hL
  · rw [stored_num, stored_num]; exact LawfulPyF.round_mono n hH

/-- **Donchian on every candle of every history** (`period ≥ 2`, well-formed candles `low ≤ high`): the
stored dict `vs[j]` is `{DCL: None, DCM: None, DCU: None}` on candles `0 … p−2`; from the warm-up index `p − 1`
on it is `{DCL: lo, DCM: mid, DCU: up}` with `lo ≤ mid ≤ up` EXACTLY on the stored values, the stored channel
encloses the candle's own (equally rounded) low and high, and each field is within `ε` of the lowest low /
highest high of the last `p` candles / their mean (`DcOK` + `dcOK_near`; ints are stored as ints, unrounded). -/
theorem donchian_live_order (M : MgrSpec K) (p : Nat) (hp : 2 ≤ p) (nm : String) (n : Nat) (hn : DcNames nm)
    (init : List (Candle K)) (chunks : List (List (Candle K))) (hok : M.Ok (init ++ chunks.flatten))
    (hwf : ∀ c ∈ M.spec (init ++ chunks.flatten), c.l.toF ≤ c.h.toF) (snap : List (Candle K))
    (hsnap : candlesOf (runIndicator (mkTop (.donchian p : Kind K) nm n) M.cfg init chunks) = .ok snap) :
    ∃ vs : List (Val K), vs.length = (M.spec (init ++ chunks.flatten)).length ∧
      snap = deco nm (M.spec (init ++ chunks.flatten)) vs ∧
      ∀ j, j < (M.spec (init ++ chunks.flatten)).length →
        (j + 1 < p → vs.getD j .none = dcNone) ∧
        (p ≤ j + 1 →
          (∃ (lo up : Num K) (mid : K),
            vs.getD j .none = .dict [("DCL", .num lo), ("DCM", .num (.flt mid)), ("DCU", .num up)] ∧
            lo.toF ≤ mid ∧ mid ≤ up.toF ∧
            lo.toF ≤ ((numAt (·.l) (M.spec (init ++ chunks.flatten)) j).roundBy n).toF ∧
            ((numAt (·.h) (M.spec (init ++ chunks.flatten)) j).roundBy n).toF ≤ up.toF) ∧
          NumNear n (winMin (fieldAt (·.l) (M.spec (init ++ chunks.flatten))) j (p - 1)) ((vs.getD j .none).nested "DCL") ∧
          NumNear n (winMax (fieldAt (·.h) (M.spec (init ++ chunks.flatten))) j (p - 1)) ((vs.getD j .none).nested "DCU") ∧
          NumNear n ((winMax (fieldAt (·.h) (M.spec (init ++ chunks.flatten))) j (p - 1)
              + winMin (fieldAt (·.l) (M.spec (init ++ chunks.flatten))) j (p - 1)) / 2)
            ((vs.getD j .none).nested "DCM")) := by
  obtain ⟨vs, hl, hrun, hall⟩ := donchian_series p hp nm n hn _ (M.spec_plain _ hok)
  have h := leaf_live M _ nm n (Covered.donchian (p : Int) (by omega)) init chunks hok snap hsnap
  rw [hrun] at h
  refine ⟨vs, hl, (Except.ok.inj h).symm, fun j hj => ⟨(hall j hj).1, fun hjp => ?_⟩⟩
  obtain ⟨n1, n2, n3, _⟩ := dcOK_near p n _ _ j _ (hall j hj) hjp
  exact ⟨dcOK_order p n _ hwf j _ (hall j hj) hjp, n1, n2, n3⟩

/-- … and the batch run on the base timeframe RETURNS for every list of well-formed raw candles, with the
same order, enclosure and budgets -/
theorem donchian_run_order (p : Nat) (hp : 2 ≤ p) (nm : String) (n : Nat) (hn : DcNames nm)
    (raw : List (Candle K)) (hraw : ∀ c ∈ raw, Plain c) (hwf : ∀ c ∈ raw, c.l.toF ≤ c.h.toF) :
    ∃ vs : List (Val K), vs.length = raw.length ∧
      candlesOf (runIndicator (mkTop (.donchian p : Kind K) nm n) {} raw []) = .ok (deco nm raw vs) ∧
      ∀ j, j < raw.length →
        (j + 1 < p → vs.getD j .none = dcNone) ∧
        (p ≤ j + 1 →
          (∃ (lo up : Num K) (mid : K),
            vs.getD j .none = .dict [("DCL", .num lo), ("DCM", .num (.flt mid)), ("DCU", .num up)] ∧
            lo.toF ≤ mid ∧ mid ≤ up.toF ∧
            lo.toF ≤ ((numAt (·.l) raw j).roundBy n).toF ∧ ((numAt (·.h) raw j).roundBy n).toF ≤ up.toF) ∧
          NumNear n (winMin (fieldAt (·.l) raw) j (p - 1)) ((vs.getD j .none).nested "DCL") ∧
          NumNear n (winMax (fieldAt (·.h) raw) j (p - 1)) ((vs.getD j .none).nested "DCU") ∧
          NumNear n ((winMax (fieldAt (·.h) raw) j (p - 1) + winMin (fieldAt (·.l) raw) j (p - 1)) / 2)
            ((vs.getD j .none).nested "DCM")) := by
  obtain ⟨vs, hl, _, hrun, hall⟩ := donchian_series_batch p hp nm n hn raw hraw
  refine ⟨vs, hl, hrun, fun j hj => ⟨(hall j hj).1, fun hjp => ?_⟩⟩
  obtain ⟨n1, n2, n3, _⟩ := dcOK_near p n _ _ j _ (hall j hj) hjp
  exact ⟨dcOK_order p n _ hwf j _ (hall j hj) hjp, n1, n2, n3⟩

/-- **HighestLowest on every candle of every history** (`period ≥ 1`; no warm-up: readings from candle 0):
`low` / `high` are numbers within `ε` of the lowest low / highest high of the window `max(j−p, 0) … j`
(exactly equal for int prices), and that window encloses the candle's own low and high. -/
theorem hl_live_enclose (M : MgrSpec K) (p : Nat) (hp : 1 ≤ p) (nm : String) (n : Nat)
    (init : List (Candle K)) (chunks : List (List (Candle K))) (hok : M.Ok (init ++ chunks.flatten))
    (snap : List (Candle K))
    (hsnap : candlesOf (runIndicator (mkTop (.hl p : Kind K) nm n) M.cfg init chunks) = .ok snap) :
    ∃ vs : List (Val K), vs.length = (M.spec (init ++ chunks.flatten)).length ∧
      snap = deco nm (M.spec (init ++ chunks.flatten)) vs ∧
      ∀ j, j < (M.spec (init ++ chunks.flatten)).length →
        NumNear n (winMin (fieldAt (·.l) (M.spec (init ++ chunks.flatten))) j p) ((vs.getD j .none).nested "low") ∧
        NumNear n (winMax (fieldAt (·.h) (M.spec (init ++ chunks.flatten))) j p) ((vs.getD j .none).nested "high") ∧
        winMin (fieldAt (·.l) (M.spec (init ++ chunks.flatten))) j p ≤ fieldAt (·.l) (M.spec (init ++ chunks.flatten)) j ∧
        fieldAt (·.h) (M.spec (init ++ chunks.flatten)) j ≤ winMax (fieldAt (·.h) (M.spec (init ++ chunks.flatten))) j p := by
  obtain ⟨vs, hl, hrun, hall⟩ := hl_series p hp nm n _ (M.spec_plain _ hok)
  have h := leaf_live M _ nm n (Covered.hl p) init chunks hok snap hsnap
  rw [hrun] at h
  exact ⟨vs, hl, (Except.ok.inj h).symm, fun j hj => hlOK_near p n _ _ j _ (hall j hj)⟩

/-- … and the batch run on the base timeframe RETURNS for every list of raw candles, with the same readings -/
theorem hl_run_enclose (p : Nat) (hp : 1 ≤ p) (nm : String) (n : Nat)
    (raw : List (Candle K)) (hraw : ∀ c ∈ raw, Plain c) :
    ∃ vs : List (Val K), vs.length = raw.length ∧
      candlesOf (runIndicator (mkTop (.hl p : Kind K) nm n) {} raw []) = .ok (deco nm raw vs) ∧
      ∀ j, j < raw.length →
        NumNear n (winMin (fieldAt (·.l) raw) j p) ((vs.getD j .none).nested "low") ∧
        NumNear n (winMax (fieldAt (·.h) raw) j p) ((vs.getD j .none).nested "high") ∧
        winMin (fieldAt (·.l) raw) j p ≤ fieldAt (·.l) raw j ∧ fieldAt (·.h) raw j ≤ winMax (fieldAt (·.h) raw) j p := by
  obtain ⟨vs, hl, _, hrun, hall⟩ := hl_series_batch p hp nm n raw hraw
  exact ⟨vs, hl, hrun, fun j hj => hlOK_near p n _ _ j _ (hall j hj)⟩

/-! #### Supertrend: direction ±1, exactly one of long / short -/

/-- what `StCandleOK` says about the shape of the own reading -/
theorem stCandle_shape {p n : Nat} {mult : K} {nm : String} {raw : List (Candle K)} {j : Nat} {c : Candle K}
    (h : StCandleOK p n mult nm raw j c) :
    (j < p → readingByCandle c nm = stNoneDict) ∧
    (p ≤ j → ∃ t : Num K,
      readingByCandle c nm
        = .dict [("trend", .num t), ("direction", .num (.int 1)), ("long", .num t), ("short", .none)] ∨
      readingByCandle c nm
        = .dict [("trend", .num t), ("direction", .num (.int (-1))), ("long", .none), ("short", .num t)]) := by
  obtain ⟨_, _, _, _, h5, _⟩ := h
  refine ⟨fun hjp => ?_, fun hjp => ?_⟩
  · rw [stSeries_none p mult raw j hjp] at h5; exact h5
  · obtain ⟨s, hs⟩ := stSeries_isSome p mult raw j hjp
    rw [hs] at h5
    obtain ⟨U, L, _, _, h | h⟩ := StOwnOK.fields (stSeries_dir p mult raw j s hs) h5
    · exact ⟨L, Or.inl h.2⟩
    · exact ⟨U, Or.inr h.2⟩

/-- **Supertrend shape on every candle of every history** (`period ≥ 1`): the own reading is a dict on EVERY
candle – `{trend: None, direction: 1, long: None, short: None}` before the first ATR (index `p`), and from `p`
on `direction ∈ {1, −1}`, `trend` = the active band, and exactly one of `long` / `short` is set and equals
`trend` (the direction of the textbook state machine `stSeries` is ±1 by induction: `stSeries_dir`). -/
theorem supertrend_live_shape (M : MgrSpec K) (p : Nat) (hp : 1 ≤ p) (nm input : String) (mult : Num K) (n : Nat)
    (hn : StNames nm) (hk : IsKey nm) (init : List (Candle K)) (chunks : List (List (Candle K)))
    (hok : M.Ok (init ++ chunks.flatten)) (snap : List (Candle K))
    (hsnap : candlesOf (runIndicator (mkTop (.supertrend (p : Int) input mult : Kind K) nm n) M.cfg init chunks)
      = .ok snap) :
    snap.length = (M.spec (init ++ chunks.flatten)).length ∧
    ∀ j, j < (M.spec (init ++ chunks.flatten)).length →
      (j < p → readingByCandle (snap.getD j default) nm = stNoneDict) ∧
      (p ≤ j → ∃ t : Num K,
        readingByCandle (snap.getD j default) nm
          = .dict [("trend", .num t), ("direction", .num (.int 1)), ("long", .num t), ("short", .none)] ∨
        readingByCandle (snap.getD j default) nm
          = .dict [("trend", .num t), ("direction", .num (.int (-1))), ("long", .none), ("short", .num t)]) := by
  obtain ⟨out, hl, hrun, hall⟩ := st_series_candles p hp nm input mult n hn hk _ (M.spec_plain _ hok)
  have h := (stTree (F := K) nm n (p : Int) input mult (by omega) hn).live_refines M init chunks hok snap hsnap
  rw [hrun] at h
  cases h
  exact ⟨hl, fun j hj => stCandle_shape (hall j hj)⟩

/-- … and the batch run on the base timeframe RETURNS for every list of raw candles, with the same shape -/
theorem supertrend_run_shape (p : Nat) (hp : 1 ≤ p) (nm input : String) (mult : Num K) (n : Nat)
    (hn : StNames nm) (hk : IsKey nm) (raw : List (Candle K)) (hraw : ∀ c ∈ raw, Plain c) :
    ∃ out : List (Candle K),
      candlesOf (runIndicator (mkTop (.supertrend (p : Int) input mult : Kind K) nm n) {} raw []) = .ok out ∧
      out.length = raw.length ∧
      ∀ j, j < raw.length →
        (j < p → readingByCandle (out.getD j default) nm = stNoneDict) ∧
        (p ≤ j → ∃ t : Num K,
          readingByCandle (out.getD j default) nm
            = .dict [("trend", .num t), ("direction", .num (.int 1)), ("long", .num t), ("short", .none)] ∨
          readingByCandle (out.getD j default) nm
            = .dict [("trend", .num t), ("direction", .num (.int (-1))), ("long", .none), ("short", .num t)]) := by
  obtain ⟨out, hl, hrun, hall⟩ := st_series_batch p hp nm input mult n hn hk raw hraw
  exact ⟨out, hrun, hl, fun j hj => stCandle_shape (hall j hj)⟩

/-! #### Counter: a non-negative int that grows by one or resets -/

/-- **Counter on every candle of every history on the base timeframe, every float carrier** (input a candle
field, any counted value): the run RETURNS for every initial list and every append schedule (`chunks = []` is
the batch run); the reading stored on candle `j` is the Python int `cnt j` with `cnt` = the textbook run length
`runLen`; `cnt 0 ∈ {0, 1}` (no warm-up) and from each candle to the next the count grows by exactly one or
resets to 0.  (For an input that can be MISSING the count may also stay: `counter_series_col`,
`runLen_succ_cases`.) -/
theorem counter_run_moves {F : Type} [PyF F] (nm input : String) (fld : Candle F → Num F) (cv : Scalar F)
    (n : Nat) (hk : IsKey nm) (hin : AttrInput input) (hattr : ∀ c : Candle F, c.attr input = some (.num (fld c)))
    (init : List (Candle F)) (chunks : List (List (Candle F)))
    (hraw : ∀ c ∈ init ++ chunks.flatten, Plain c) :
    ∃ (vs : List (Val F)) (cnt : Nat → Nat),
      cnt = runLen cv (fun i => .num (fld ((init ++ chunks.flatten).getD i default))) ∧
      vs.length = (init ++ chunks.flatten).length ∧
      candlesOf (runIndicator (mkTop (.counter input cv) nm n) {} init chunks)
        = .ok (deco nm (init ++ chunks.flatten) vs) ∧
      (∀ j, j < (init ++ chunks.flatten).length → vs.getD j .none = .int (cnt j : Int)) ∧
      (cnt 0 = 0 ∨ cnt 0 = 1) ∧ ∀ j, cnt (j + 1) = cnt j + 1 ∨ cnt (j + 1) = 0 := by
  obtain ⟨vs, h1, h2, h3⟩ := counter_series_live nm input fld cv n hk hin hattr init chunks hraw
  refine ⟨vs, _, rfl, h1, h2, h3, ?_, fun j => ?_⟩
  · show cntStep cv 0 _ = 0 ∨ cntStep cv 0 _ = 1
    unfold cntStep
    split_ifs <;> simp
  · rw [runLen_field_succ]
    split_ifs <;> simp

/-! ### the property as a closed statement -/

/-- **The RSI instance of C10, through the engine** – this is the statement the former `C10_FULL` made,
corrected in three places: (1) the engine is run with the fuel the object really passes, `engineCalc ind cs =
calculate (fuelFor cs + 1) ind cs` (`IndState.calculate_engine`), where the old text had `calculate (fuelFor raw)`;
(2) the name hypothesis is the one the RSI tree needs, `RsiNames nm` (the helper name `nm ++ "_data"` is an
ordinary key different from `nm`, and its dotted field names split as expected), not only `IsKey nm`;
(3) `period ≥ 1` suffices (the old text asked for `≥ 2`).  On every raw stream the engine's `calculate()`
returns and every stored RSI reading is `None` or a float in `[0, 100]`. -/
def C10_RSI : Prop :=
  ∀ (K : Type) [Field K] [LinearOrder K] [IsStrictOrderedRing K] [LawfulPyF K]
    (p : Nat) (nm : String) (n : Nat) (raw : List (Candle K)),
    1 ≤ p → IsKey nm → RsiNames nm → (∀ c ∈ raw, Plain c) →
    ∃ out : List (Candle K), engineCalc (mkTop (.rsi p "close") nm n) raw = .ok out ∧
      ∀ c ∈ out, readingByCandle c nm = .none ∨
        ∃ y : K, readingByCandle c nm = .flt y ∧ 0 ≤ y ∧ y ≤ 100

theorem C10_RSI_holds : C10_RSI := by
  intro K _ _ _ _ p nm n raw hp hk hn hraw
  obtain ⟨out, hl, hrun, hall⟩ := rsi_series_candles p hp nm "close" (·.c) n hn hk ⟨noDot_close, by decide⟩
    (fun _ => rfl) raw hraw
  have he := ((rsiTree (F := K) nm n (p : Int) "close" (by omega) hn ⟨noDot_close, by decide⟩).engine [] raw []
    out rfl (by simp) hraw).2 (by simpa using hrun)
  refine ⟨out, by simpa using he, fun c hc => ?_⟩
  obtain ⟨j, hj, rfl⟩ := List.mem_iff_getElem.1 hc
  have h := (hall j (hl ▸ hj)).1
  have e : out.getD j default = out[j] := by
    rw [List.getD_eq_getElem?_getD, List.getElem?_eq_getElem hj]; rfl
  rw [e] at h
  unfold rsiSeries at h
  by_cases hjp : j < p
  · rw [if_pos hjp] at h; exact Or.inl h
  · rw [if_neg hjp] at h
    obtain ⟨y, hy, _, h0, h1⟩ := h
    exact Or.inr ⟨y, hy, h0, h1⟩

/-- **General statement (open), stated for RSI** (the other relations have the same shape).  Beyond what is
proved above, the property also speaks about
* inputs that are ANOTHER INDICATOR'S READING (an ordinary key already on the candles, possibly `None` on the
  first candles – a late-starting input) instead of a candle field,
* EVERY manager configuration `cfg` – also Heikin-Ashi conversion and `candles_lifespan`, for which there is no
  `MgrSpec` (the proved `…_live_…` theorems cover the base timeframe, collapsing timeframes and collapsing + gap
  filling, every append schedule),
* candles that already carry readings of OTHER indicators (here: none under the tree's own names).
For every such history that returns, every stored RSI reading is `None` or a float in `[0, 100]`.
NOT proved in this generality.  PROVED since (end of this file, `HexProofs/Numeric/RangesMore.lean`): all fourteen relations on the
three HEIKIN-ASHI configurations `{ha}`, `{tf, ha}`, `{tf, fill, ha}` (`…_ha_…`, `C10_RSI_HA_holds`); on a LIFESPAN manager under
C15's retention hypothesis – every retained candle satisfies the relation (`…_lifespan_…`, `C10_RSI_lifespan_holds`); for a
late-starting foreign INPUT (`None` on the first `t0` candles) at engine level for RSI, STDEV, BBANDS (`rsi_chained_range`,
`stdev_chained_nonneg`, `bbands_chained_order`, `C10_RSI_chained_holds`); the whole-run MACD histogram identity (`macd_live_histogram`,
±3ε_n) and Counter on every manager (`counter_live_moves`).  Still open: lifespan without the retention hypothesis (SMA / ROC /
BBANDS then raise `IndexError`: C09 `lifespan_short_retention_raises`), lifespan combined with a timeframe or Heikin-Ashi, inputs for
the other kinds, object-level runs over candles carrying foreign columns.  Also outside: IEEE effects (`K` is an exact ordered field with a lawful decimal rounding – overflow,
NaN and binary rounding error are not modelled); for TSI the range `[−100, 100]` additionally needs the rounding
law `RoundNegLe` (true of Python's `round`, not derivable from `LawfulPyF`; without it only
`|TSI| ≤ 100 + 200·β/abs_second + ε` is proved); for ADX an upper bound `DI± ≤ 100` (needs ATR ≥ smoothed DM across
separately rounded helper series); and the whole-run forms of the MACD histogram identity and the OBV step
(`macd_histogram`, `obv_moves` above are per call; the MACD series itself is `C06.macd_series`). -/
def C10_FULL : Prop :=
  ∀ (K : Type) [Field K] [LinearOrder K] [IsStrictOrderedRing K] [LawfulPyF K]
    (p : Nat) (nm input : String) (n : Nat) (cfg : MgrCfg)
    (init : List (Candle K)) (chunks : List (List (Candle K))) (snap : List (Candle K)),
    1 ≤ p → IsKey nm → RsiNames nm →
    (AttrInput input ∨ (IsKey input ∧ input ≠ nm ∧ input ≠ nm ++ "_data")) →
    (∀ c ∈ init ++ chunks.flatten,
      dlookup nm c.inds = none ∧ dlookup nm c.subs = none ∧
      dlookup (nm ++ "_data") c.inds = none ∧ dlookup (nm ++ "_data") c.subs = none ∧
      (readingByCandle c input = .none ∨ ∃ x : Num K, readingByCandle c input = .num x)) →
    candlesOf (runIndicator (mkTop (.rsi p input) nm n) cfg init chunks) = .ok snap →
    ∀ c ∈ snap, readingByCandle c nm = .none ∨
      ∃ y : K, readingByCandle c nm = .flt y ∧ 0 ≤ y ∧ y ≤ 100

/-! ### non-vacuity of the whole-run theorems: the five demo candles over ℚ

(`C04.demoRaw` = `rsiDemoRaw` = `atrDemoRaw` = `winDemoRaw` = `kcDemoRaw` = `stochDemoRaw` = `macdDemoRaw`:
highs 12 13 15 16 15, lows 9 10 11 13 15, closes 11 12 14 15 15.)  Every hypothesis of the `…_run_…` theorems is
discharged for concrete parameters and a concrete consequence is read off; each `…_run_…` theorem is itself the
instance `M = MgrSpec.base`, `chunks = []` of its `…_live_…` twin with the hypothesis "the history returns"
discharged. -/

example : ∃ out : List (Candle ℚ),
    candlesOf (runIndicator (mkTop (.rsi ((3 : Nat) : Int) "close" : Kind ℚ) "RSI_3" 4) {} rsiDemoRaw []) = .ok out ∧
    readingByCandle (out.getD 2 default) "RSI_3" = .none ∧
    ∃ y, readingByCandle (out.getD 4 default) "RSI_3" = .flt y ∧ 0 ≤ y ∧ y ≤ 100 := by
  obtain ⟨out, h1, _, h3⟩ := rsi_run_range 3 (by norm_num) "RSI_3" "close" (·.c) 4 rsiNames_demo (by decide)
    ⟨noDot_close, by decide⟩ (fun _ => rfl) rsiDemoRaw rsiDemoRaw_plain
  exact ⟨out, h1, (h3 2 (by decide)).1 (by decide), (h3 4 (by decide)).2 (by decide)⟩

example : C10_RSI := C10_RSI_holds

example : ∃ out : List (Candle ℚ),
    candlesOf (runIndicator (mkTop (.stoch ((2 : Nat) : Int) ((2 : Nat) : Int) ((2 : Nat) : Int) "close" : Kind ℚ)
      "STOCH_2" 4) {} stochDemoRaw []) = .ok out ∧
    ∃ y, (readingByCandle (out.getD 4 default) "STOCH_2").nested "stoch" = .flt y ∧ 0 ≤ y ∧ y ≤ 100 := by
  obtain ⟨out, h1, _, h3⟩ := stoch_run_ranges 2 2 2 (by norm_num) (by norm_num) (by norm_num) "STOCH_2" "close" (·.c) 4
    stochNames_demo ⟨noDot_close, by decide⟩ (fun _ => rfl) stochDemoRaw stochDemoRaw_plain
    (by intro i hi
        have hi' : i < 5 := hi
        interval_cases i <;> simp [fieldAt, stochDemoRaw, Demo.mk] <;> norm_num)
  exact ⟨out, h1, (h3 4 (by decide)).1 (by decide)⟩

example : ∃ vs : List (Val ℚ),
    candlesOf (runIndicator (mkTop (.aroon ((2 : Nat) : Int) : Kind ℚ) "AROON_2" 4) {} winDemoRaw [])
      = .ok (deco "AROON_2" winDemoRaw vs) ∧
    vs.getD 1 .none = aroonNone ∧
    ∃ u d o : ℚ, (vs.getD 4 .none).nested "AROONU" = .flt u ∧ (vs.getD 4 .none).nested "AROOND" = .flt d ∧
      (vs.getD 4 .none).nested "AROONOSC" = .flt o ∧ 0 ≤ u ∧ u ≤ 100 ∧ 0 ≤ d ∧ d ≤ 100 ∧ -100 ≤ o ∧ o ≤ 100 := by
  obtain ⟨vs, _, h2, h3⟩ := aroon_run_range 2 (by norm_num) "AROON_2" 4 winDemoRaw winDemoRaw_plain
  obtain ⟨u, d, o, e1, e2, e3, _, a1, a2, _, b1, b2, _, c1, c2⟩ := (h3 4 (by decide)).2 (by decide)
  exact ⟨vs, h2, (h3 1 (by decide)).1 (by decide), u, d, o, e1, e2, e3, a1, a2, b1, b2, c1, c2⟩

example : ∃ out : List (Candle ℚ),
    candlesOf (runIndicator (mkTop (.adx ((2 : Nat) : Int) ((2 : Nat) : Int) : Kind ℚ) "ADX_2_2" 4) {} atrDemoRaw [])
      = .ok out ∧
    readingByCandle (out.getD 1 default) "ADX_2_2" = adxNone3 ∧
    FieldIn 0 100 (readingByCandle (out.getD 4 default) ("ADX_2_2" ++ "." ++ "ADX")) ∧
    FieldNonneg (readingByCandle (out.getD 4 default) ("ADX_2_2" ++ "." ++ "DM_Plus")) := by
  obtain ⟨out, h1, _, h3⟩ := adx_run_ranges "ADX_2_2" 4 2 2 (by norm_num) (by norm_num) adxNames_demo atrDemoRaw
    atrDemoRaw_plain
  exact ⟨out, h1, (h3 1 (by decide)).1 (by decide), (h3 4 (by decide)).2.1, (h3 4 (by decide)).2.2.1⟩

/-- TSI over ℚ: the extra rounding law holds (`roundNegLe_rat`), so the range is exact -/
example : ∃ out : List (Candle ℚ),
    candlesOf (runIndicator (mkTop (.tsi ((2 : Nat) : Int) ((2 : Nat) : Int) "high" : Kind ℚ) "TSI_2_1" 4) {}
      macdDemoRaw []) = .ok out ∧
    readingByCandle (out.getD 2 default) "TSI_2_1" = .none ∧
    ∃ y : ℚ, readingByCandle (out.getD 4 default) "TSI_2_1" = .flt y ∧ -100 ≤ y ∧ y ≤ 100 := by
  obtain ⟨out, h1, _, h3⟩ := tsi_run_range "TSI_2_1" 4 2 2 "high" (·.h) (by norm_num) (by norm_num) tsiNames_demo
    ⟨noDot_high, by decide⟩ (fun _ => rfl) macdDemoRaw macdDemoRaw_plain
  obtain ⟨S, A, y, _, _, e3, _, _, _, _, _, hodd⟩ := (h3 4 (by decide)).2 (by decide)
  exact ⟨out, h1, (h3 2 (by decide)).1 (by decide), y, e3, hodd (roundNegLe_rat _)⟩

example : ∃ out : List (Candle ℚ),
    candlesOf (runIndicator (mkTop (.atr ((2 : Nat) : Int)) "ATR_2" 4) {} atrDemoRaw []) = .ok out ∧
    readingByCandle (out.getD 1 default) "ATR_2" = .none ∧
    ∃ y : ℚ, readingByCandle (out.getD 2 default) "ATR_2" = .flt y ∧ 0 ≤ y := by
  obtain ⟨out, h1, _, h3⟩ := atr_run_nonneg 2 (by norm_num) "ATR_2" 4 (by decide) ⟨by decide, by decide⟩ atrDemoRaw
    atrDemoRaw_plain
  exact ⟨out, h1, (h3 1 (by decide)).1 (by decide), (h3 2 (by decide)).2.1 (by decide)⟩

example : ∃ out : List (Candle ℚ),
    candlesOf (runIndicator (mkTop (.stdev ((3 : Nat) : Int) "close" : Kind ℚ) "STDEV_3" 4) {} rsiDemoRaw []) = .ok out ∧
    readingByCandle (out.getD 2 default) "STDEV_3" = .none ∧
    ∃ y : ℚ, readingByCandle (out.getD 4 default) "STDEV_3" = .flt y ∧ 0 ≤ y := by
  obtain ⟨out, h1, _, h3⟩ := stdev_run_nonneg 3 (by norm_num) "STDEV_3" "close" (·.c) 4 sdNames_demo
    ⟨noDot_close, by decide⟩ (fun _ => rfl) rsiDemoRaw rsiDemoRaw_plain
  exact ⟨out, h1, (h3 2 (by decide)).1 (by decide), (h3 4 (by decide)).2 (by decide)⟩

example : ∃ out : List (Candle ℚ),
    candlesOf (runIndicator (mkTop (.bbands ((3 : Nat) : Int) "close" : Kind ℚ) "BB_3" 4) {} rsiDemoRaw []) = .ok out ∧
    readingByCandle (out.getD 2 default) "BB_3" = bbNoneDict ∧
    ∃ lo mid up : ℚ, readingByCandle (out.getD 4 default) "BB_3" = bbDict lo mid up ∧ lo ≤ mid ∧ mid ≤ up := by
  obtain ⟨out, h1, _, h3⟩ := bbands_run_order 3 (by norm_num) "BB_3" "close" (·.c) 4 (by decide) bbNames_demo
    ⟨noDot_close, by decide⟩ (fun _ => rfl) rsiDemoRaw rsiDemoRaw_plain
  exact ⟨out, h1, (h3 2 (by decide)).1 (by decide), (h3 4 (by decide)).2.1 (by decide)⟩

example : ∃ out : List (Candle ℚ),
    candlesOf (runIndicator (mkTop (.kc ((2 : Nat) : Int) "close" (fl 2) : Kind ℚ) "KC_2" 4) {} kcDemoRaw []) = .ok out ∧
    readingByCandle (out.getD 1 default) "KC_2" = kcNoneDict ∧
    ∃ l b u : ℚ, readingByCandle (out.getD 2 default) "KC_2"
        = .dict [("lower", .num (.flt l)), ("band", .num (.flt b)), ("upper", .num (.flt u))] ∧ l ≤ b ∧ b ≤ u := by
  obtain ⟨out, h1, _, h3⟩ := kc_run_order 2 (by norm_num) "KC_2" "close" (·.c) 4 (fl 2) (by decide) kcNames_demo
    ⟨noDot_close, by decide⟩ (fun _ => rfl) (by simp) kcDemoRaw kcDemoRaw_plain
  exact ⟨out, h1, (h3 1 (by decide)).1 (by decide), (h3 2 (by decide)).2.1 (by decide)⟩

theorem winDemoRaw_wf : ∀ c ∈ winDemoRaw, c.l.toF ≤ c.h.toF := by
  intro c hc
  simp only [winDemoRaw, List.mem_cons, List.not_mem_nil, or_false] at hc
  rcases hc with rfl | rfl | rfl | rfl | rfl <;> simp [Demo.mk] <;> norm_num

example : ∃ vs : List (Val ℚ),
    candlesOf (runIndicator (mkTop (.donchian ((3 : Nat) : Int) : Kind ℚ) "DONCHIAN_3" 4) {} winDemoRaw [])
      = .ok (deco "DONCHIAN_3" winDemoRaw vs) ∧
    vs.getD 1 .none = dcNone ∧
    ∃ (lo up : Num ℚ) (mid : ℚ),
      vs.getD 4 .none = .dict [("DCL", .num lo), ("DCM", .num (.flt mid)), ("DCU", .num up)] ∧
      lo.toF ≤ mid ∧ mid ≤ up.toF := by
  obtain ⟨vs, _, h2, h3⟩ := donchian_run_order 3 (by norm_num) "DONCHIAN_3" 4 dcNames_demo winDemoRaw winDemoRaw_plain
    winDemoRaw_wf
  obtain ⟨⟨lo, up, mid, e, o1, o2, _⟩, _⟩ := (h3 4 (by decide)).2 (by decide)
  exact ⟨vs, h2, (h3 1 (by decide)).1 (by decide), lo, up, mid, e, o1, o2⟩

example := hl_run_enclose (K := ℚ) 2 (by norm_num) "HL_2" 4 winDemoRaw winDemoRaw_plain

example : ∃ out : List (Candle ℚ),
    candlesOf (runIndicator (mkTop (.supertrend ((2 : Nat) : Int) "close" (fl 3) : Kind ℚ) "ST_2" 4) {} atrDemoRaw [])
      = .ok out ∧
    readingByCandle (out.getD 1 default) "ST_2" = stNoneDict ∧
    ∃ t : Num ℚ,
      readingByCandle (out.getD 4 default) "ST_2"
        = .dict [("trend", .num t), ("direction", .num (.int 1)), ("long", .num t), ("short", .none)] ∨
      readingByCandle (out.getD 4 default) "ST_2"
        = .dict [("trend", .num t), ("direction", .num (.int (-1))), ("long", .none), ("short", .num t)] := by
  obtain ⟨out, h1, _, h3⟩ := supertrend_run_shape 2 (by norm_num) "ST_2" "close" (fl 3) 4 stNames_demo (by decide)
    atrDemoRaw atrDemoRaw_plain
  exact ⟨out, h1, (h3 1 (by decide)).1 (by decide), (h3 4 (by decide)).2 (by decide)⟩

/-- Counter, fed as two candles at construction, then one, then two more: counts 0 0 0 1 2 of closes equal to 15 -/
example : ∃ (vs : List (Val ℚ)) (cnt : Nat → Nat),
    candlesOf (runIndicator (mkTop (.counter "close" (.num (.int 15))) "COUNT_close" 4) {} (rsiDemoRaw.take 2)
      [[rsiDemoRaw.getD 2 default], rsiDemoRaw.drop 3]) = .ok (deco "COUNT_close" rsiDemoRaw vs) ∧
    (∀ j, j < 5 → vs.getD j .none = .int (cnt j : Int)) ∧ (List.range 5).map cnt = [0, 0, 0, 1, 2] := by
  obtain ⟨vs, cnt, h0, _, h2, h3, _⟩ := counter_run_moves (F := ℚ) "COUNT_close" "close" (·.c) (.num (.int 15)) 4
    (by decide) ⟨noDot_close, by decide⟩ (fun _ => rfl) (rsiDemoRaw.take 2)
    [[rsiDemoRaw.getD 2 default], rsiDemoRaw.drop 3] (fun c hc => rsiDemoRaw_plain c (by
      simp [rsiDemoRaw] at hc ⊢; tauto))
  refine ⟨vs, cnt, h2, h3, ?_⟩
  subst h0
  decide

/-! ### whole runs on Heikin-Ashi managers, on lifespan managers, and for late-starting / foreign inputs
(HexProofs/Numeric/RangesMore.lean: `HoldsOn M ind P` = every history on manager `M` returns, with as many candles
as the manager's and candle `j` satisfying the per-candle invariant `P spec j`; `HoldsOnHA` = on `{ha}`, `{tf, ha}`,
`{tf, fill, ha}` (`HoldsOnHA.unfold`); `HoldsOnLifespan ind L` = on `{lifespan}` under `RetainsFrom L`: the retained
candles are the untrimmed run minus `d` popped ones, retained candle `i` satisfying `P stream (d + i)`) -/

theorem rsi_ha_range (p : Nat) (hp : 1 ≤ p) (nm input : String) (fld : Candle K → Num K)
    (n : Nat) (hn : RsiNames nm) (hk : IsKey nm) (hin : AttrInput input)
    (hattr : ∀ c : Candle K, c.attr input = some (.num (fld c))) :
    HoldsOnHA (mkTop (.rsi (p : Int) input : Kind K) nm n) (fun _ j c => RsiIn p nm j c) :=
  Numeric.rsi_ha p hp nm input fld n hn hk hin hattr

theorem stoch_ha_ranges (p sk sl : Nat) (hp : 2 ≤ p) (hsk : 1 ≤ sk) (hsl : 1 ≤ sl)
    (nm input : String) (fld : Candle K → Num K) (n : Nat) (hn : StochNames nm) (hin : AttrInput input)
    (hattr : ∀ c : Candle K, c.attr input = some (.num (fld c))) :
    HoldsOnHA (mkTop (.stoch (p : Int) (sl : Int) (sk : Int) input : Kind K) nm n)
      (fun spec j c => StochIn n p sk sl nm fld spec j c) :=
  Numeric.stoch_ha p sk sl hp hsk hsl nm input fld n hn hin hattr

theorem aroon_ha_range (p : Nat) (hp : 1 ≤ p) (nm : String) (n : Nat) (hk : IsKey nm) :
    HoldsOnHA (mkTop (.aroon p : Kind K) nm n) (fun spec j c => AroonIn p n nm spec j c) :=
  Numeric.aroon_ha p hp nm n hk

theorem adx_ha_ranges (nm : String) (n p sg : Nat) (hp : 1 ≤ p) (hg : 1 ≤ sg) (hn : AdxNames nm) :
    HoldsOnHA (mkTop (.adx (p : Int) (sg : Int) : Kind K) nm n) (fun _ j c => AdxIn p nm j c) :=
  Numeric.adx_ha nm n p sg hp hg hn

theorem tsi_ha_range (nm : String) (n p s : Nat) (input : String) (fld : Candle K → Num K)
    (hp : 1 ≤ p) (hs : 1 ≤ s) (hn : TsiNames nm) (hin : AttrInput input)
    (hattr : ∀ c : Candle K, c.attr input = some (.num (fld c))) :
    HoldsOnHA (mkTop (.tsi (p : Int) (s : Int) input : Kind K) nm n) (fun _ j c => TsiIn n p s nm j c) :=
  Numeric.tsi_ha nm n p s input fld hp hs hn hin hattr

theorem atr_ha_nonneg (p : Nat) (hp : 1 ≤ p) (nm : String) (n : Nat) (hk : IsKey nm) (hn : AtrNames nm) :
    HoldsOnHA (mkTop (.atr (p : Int) : Kind K) nm n) (fun _ j c => AtrIn p nm j c) :=
  Numeric.atr_ha p hp nm n hk hn

theorem stdev_ha_nonneg [NonnegSqrt K] (p : Nat) (hp : 1 ≤ p) (nm input : String)
    (fld : Candle K → Num K) (n : Nat) (hn : SdNames nm) (hin : AttrInput input)
    (hattr : ∀ c : Candle K, c.attr input = some (.num (fld c))) :
    HoldsOnHA (mkTop (.stdev (p : Int) input : Kind K) nm n) (fun _ j c => SigmaIn p nm j c) :=
  Numeric.stdev_ha p hp nm input fld n hn hin hattr

theorem bbands_ha_order [NonnegSqrt K] (p : Nat) (hp : 2 ≤ p) (nm input : String)
    (fld : Candle K → Num K) (n : Nat) (hk : IsKey nm) (hn : BbNames nm) (hin : AttrInput input)
    (hattr : ∀ c : Candle K, c.attr input = some (.num (fld c))) :
    HoldsOnHA (mkTop (.bbands (p : Int) input : Kind K) nm n) (fun _ j c => BbIn p nm j c) :=
  Numeric.bbands_ha p hp nm input fld n hk hn hin hattr

theorem kc_ha_order (p : Nat) (hp : 2 ≤ p) (nm input : String) (fld : Candle K → Num K)
    (n : Nat) (mult : Num K) (hk : IsKey nm) (hn : KcNames nm) (hin : AttrInput input)
    (hattr : ∀ c : Candle K, c.attr input = some (.num (fld c))) (hm : 0 ≤ mult.toF) :
    HoldsOnHA (mkTop (.kc (p : Int) input mult : Kind K) nm n) (fun _ j c => KcIn p nm j c) :=
  Numeric.kc_ha p hp nm input fld n mult hk hn hin hattr hm

theorem donchian_ha_order (p : Nat) (hp : 2 ≤ p) (nm : String) (n : Nat) (hn : DcNames nm) :
    HoldsOnHA (mkTop (.donchian p : Kind K) nm n) (fun spec j c => DcIn p n nm spec j c) :=
  Numeric.donchian_ha p hp nm n hn

theorem hl_ha_enclose (p : Nat) (hp : 1 ≤ p) (nm : String) (n : Nat) (hk : IsKey nm) :
    HoldsOnHA (mkTop (.hl p : Kind K) nm n) (fun spec j c => HlIn p n nm spec j c) :=
  Numeric.hl_ha p hp nm n hk

theorem supertrend_ha_shape (p : Nat) (hp : 1 ≤ p) (nm input : String) (mult : Num K) (n : Nat)
    (hn : StNames nm) (hk : IsKey nm) :
    HoldsOnHA (mkTop (.supertrend (p : Int) input mult : Kind K) nm n) (fun _ j c => StIn p nm j c) :=
  Numeric.supertrend_ha p hp nm input mult n hn hk

/-- the whole-run form of the MACD histogram identity, every manager with a spec (also `MgrSpec.base / tf / fill`) -/
theorem macd_live_histogram (M : MgrSpec K) (nm : String) (n pf ps pg : Nat) (input : String) (fld : Candle K → Num K)
    (hf : 2 ≤ pf) (hfs : pf ≤ ps) (hg : 1 ≤ pg) (hn : MacdNames nm) (hin : AttrInput input)
    (hattr : ∀ c : Candle K, c.attr input = some (.num (fld c))) :
    HoldsOn M (mkTop (.macd (pf : Int) (ps : Int) (pg : Int) input : Kind K) nm n)
      (fun _ j c => MacdIn n ps pg nm j c) :=
  Numeric.macd_holds M nm n pf ps pg input fld hf hfs hg hn hin hattr

theorem macd_ha_histogram (nm : String) (n pf ps pg : Nat) (input : String) (fld : Candle K → Num K)
    (hf : 2 ≤ pf) (hfs : pf ≤ ps) (hg : 1 ≤ pg) (hn : MacdNames nm) (hin : AttrInput input)
    (hattr : ∀ c : Candle K, c.attr input = some (.num (fld c))) :
    HoldsOnHA (mkTop (.macd (pf : Int) (ps : Int) (pg : Int) input : Kind K) nm n)
      (fun _ j c => MacdIn n ps pg nm j c) :=
  Numeric.macd_ha nm n pf ps pg input fld hf hfs hg hn hin hattr

/-- Counter on EVERY manager with a spec (the former `counter_run_moves` was base timeframe only), every carrier -/
theorem counter_live_moves {F : Type} [PyF F] (M : MgrSpec F) (nm input : String) (fld : Candle F → Num F)
    (cv : Scalar F) (n : Nat) (hk : IsKey nm) (hin : AttrInput input)
    (hattr : ∀ c : Candle F, c.attr input = some (.num (fld c))) :
    HoldsOn M (mkTop (.counter input cv : Kind F) nm n) (fun spec j c => CountIn cv fld nm spec j c) :=
  Numeric.counter_holds M nm input fld cv n hk hin hattr

theorem counter_ha_moves {F : Type} [PyF F] (nm input : String) (fld : Candle F → Num F)
    (cv : Scalar F) (n : Nat) (hk : IsKey nm) (hin : AttrInput input)
    (hattr : ∀ c : Candle F, c.attr input = some (.num (fld c))) :
    HoldsOnHA (mkTop (.counter input cv : Kind F) nm n) (fun spec j c => CountIn cv fld nm spec j c) :=
  Numeric.counter_ha nm input fld cv n hk hin hattr

/-- the side conditions of `StochIn` / `DcIn` on Heikin-Ashi managers, from well-formed candles before conversion -/
theorem ha_side_conditions (B : List (Candle K)) (h : ∀ c ∈ B, WellFormed c) :
    InputBetween (·.c) (haSpec B) ∧ LowLeHigh (haSpec B) :=
  ⟨inputBetween_haSpec_close B h, lowLeHigh_haSpec B h⟩

/-! #### lifespan managers (retention hypothesis `RetainsFrom (treeLook …)`) -/

theorem rsi_lifespan_range' (p : Nat) (hp : 1 ≤ p) (nm input : String) (fld : Candle K → Num K)
    (n : Nat) (hn : RsiNames nm) (hk : IsKey nm) (hin : AttrInput input)
    (hattr : ∀ c : Candle K, c.attr input = some (.num (fld c))) :
    HoldsOnLifespan (mkTop (.rsi (p : Int) input : Kind K) nm n) (treeLook (.rsi (p : Int) input : Kind K) nm n)
      (fun _ j c => RsiIn p nm j c) :=
  Numeric.rsi_lifespan p hp nm input fld n hn hk hin hattr

theorem stoch_lifespan_ranges (p sk sl : Nat) (hp : 2 ≤ p) (hsk : 1 ≤ sk) (hsl : 1 ≤ sl)
    (nm input : String) (fld : Candle K → Num K) (n : Nat) (hn : StochNames nm) (hin : AttrInput input)
    (hattr : ∀ c : Candle K, c.attr input = some (.num (fld c))) :
    HoldsOnLifespan (mkTop (.stoch (p : Int) (sl : Int) (sk : Int) input : Kind K) nm n)
      (treeLook (.stoch (p : Int) (sl : Int) (sk : Int) input : Kind K) nm n)
      (fun spec j c => StochIn n p sk sl nm fld spec j c) :=
  Numeric.stoch_lifespan p sk sl hp hsk hsl nm input fld n hn hin hattr

theorem aroon_lifespan_range (p : Nat) (hp : 1 ≤ p) (nm : String) (n : Nat) (hk : IsKey nm) :
    HoldsOnLifespan (mkTop (.aroon p : Kind K) nm n) (treeLook (.aroon p : Kind K) nm n)
      (fun spec j c => AroonIn p n nm spec j c) :=
  Numeric.aroon_lifespan p hp nm n hk

theorem adx_lifespan_ranges (nm : String) (n p sg : Nat) (hp : 1 ≤ p) (hg : 1 ≤ sg) (hn : AdxNames nm) :
    HoldsOnLifespan (mkTop (.adx (p : Int) (sg : Int) : Kind K) nm n)
      (treeLook (.adx (p : Int) (sg : Int) : Kind K) nm n) (fun _ j c => AdxIn p nm j c) :=
  Numeric.adx_lifespan nm n p sg hp hg hn

theorem tsi_lifespan_range (nm : String) (n p s : Nat) (input : String) (fld : Candle K → Num K)
    (hp : 1 ≤ p) (hs : 1 ≤ s) (hn : TsiNames nm) (hin : AttrInput input)
    (hattr : ∀ c : Candle K, c.attr input = some (.num (fld c))) :
    HoldsOnLifespan (mkTop (.tsi (p : Int) (s : Int) input : Kind K) nm n)
      (treeLook (.tsi (p : Int) (s : Int) input : Kind K) nm n) (fun _ j c => TsiIn n p s nm j c) :=
  Numeric.tsi_lifespan nm n p s input fld hp hs hn hin hattr

theorem atr_lifespan_nonneg (p : Nat) (hp : 1 ≤ p) (nm : String) (n : Nat) (hk : IsKey nm) (hn : AtrNames nm) :
    HoldsOnLifespan (mkTop (.atr (p : Int) : Kind K) nm n) (treeLook (.atr (p : Int) : Kind K) nm n)
      (fun _ j c => AtrIn p nm j c) :=
  Numeric.atr_lifespan p hp nm n hk hn

theorem stdev_lifespan_nonneg [NonnegSqrt K] (p : Nat) (hp : 1 ≤ p) (nm input : String)
    (fld : Candle K → Num K) (n : Nat) (hn : SdNames nm) (hin : AttrInput input)
    (hattr : ∀ c : Candle K, c.attr input = some (.num (fld c))) :
    HoldsOnLifespan (mkTop (.stdev (p : Int) input : Kind K) nm n)
      (treeLook (.stdev (p : Int) input : Kind K) nm n) (fun _ j c => SigmaIn p nm j c) :=
  Numeric.stdev_lifespan p hp nm input fld n hn hin hattr

theorem bbands_lifespan_order [NonnegSqrt K] (p : Nat) (hp : 2 ≤ p) (nm input : String)
    (fld : Candle K → Num K) (n : Nat) (hk : IsKey nm) (hn : BbNames nm) (hin : AttrInput input)
    (hattr : ∀ c : Candle K, c.attr input = some (.num (fld c))) :
    HoldsOnLifespan (mkTop (.bbands (p : Int) input : Kind K) nm n)
      (treeLook (.bbands (p : Int) input : Kind K) nm n) (fun _ j c => BbIn p nm j c) :=
  Numeric.bbands_lifespan p hp nm input fld n hk hn hin hattr

theorem kc_lifespan_order (p : Nat) (hp : 2 ≤ p) (nm input : String) (fld : Candle K → Num K)
    (n : Nat) (mult : Num K) (hk : IsKey nm) (hn : KcNames nm) (hin : AttrInput input)
    (hattr : ∀ c : Candle K, c.attr input = some (.num (fld c))) (hm : 0 ≤ mult.toF) :
    HoldsOnLifespan (mkTop (.kc (p : Int) input mult : Kind K) nm n)
      (treeLook (.kc (p : Int) input mult : Kind K) nm n) (fun _ j c => KcIn p nm j c) :=
  Numeric.kc_lifespan p hp nm input fld n mult hk hn hin hattr hm

theorem donchian_lifespan_order (p : Nat) (hp : 2 ≤ p) (nm : String) (n : Nat) (hn : DcNames nm) :
    HoldsOnLifespan (mkTop (.donchian p : Kind K) nm n) (treeLook (.donchian p : Kind K) nm n)
      (fun spec j c => DcIn p n nm spec j c) :=
  Numeric.donchian_lifespan p hp nm n hn

theorem hl_lifespan_enclose (p : Nat) (hp : 1 ≤ p) (nm : String) (n : Nat) (hk : IsKey nm) :
    HoldsOnLifespan (mkTop (.hl p : Kind K) nm n) (treeLook (.hl p : Kind K) nm n)
      (fun spec j c => HlIn p n nm spec j c) :=
  Numeric.hl_lifespan p hp nm n hk

theorem supertrend_lifespan_shape (p : Nat) (hp : 1 ≤ p) (nm input : String) (mult : Num K) (n : Nat)
    (hn : StNames nm) (hk : IsKey nm) :
    HoldsOnLifespan (mkTop (.supertrend (p : Int) input mult : Kind K) nm n)
      (treeLook (.supertrend (p : Int) input mult : Kind K) nm n) (fun _ j c => StIn p nm j c) :=
  Numeric.supertrend_lifespan p hp nm input mult n hn hk

theorem macd_lifespan_histogram (nm : String) (n pf ps pg : Nat) (input : String) (fld : Candle K → Num K)
    (hf : 2 ≤ pf) (hfs : pf ≤ ps) (hg : 1 ≤ pg) (hn : MacdNames nm) (hin : AttrInput input)
    (hattr : ∀ c : Candle K, c.attr input = some (.num (fld c))) :
    HoldsOnLifespan (mkTop (.macd (pf : Int) (ps : Int) (pg : Int) input : Kind K) nm n)
      (treeLook (.macd (pf : Int) (ps : Int) (pg : Int) input : Kind K) nm n)
      (fun _ j c => MacdIn n ps pg nm j c) :=
  Numeric.macd_lifespan nm n pf ps pg input fld hf hfs hg hn hin hattr

theorem counter_lifespan_moves {F : Type} [PyF F] (nm input : String) (fld : Candle F → Num F)
    (cv : Scalar F) (n : Nat) (hk : IsKey nm) (hin : AttrInput input)
    (hattr : ∀ c : Candle F, c.attr input = some (.num (fld c))) :
    HoldsOnLifespan (mkTop (.counter input cv : Kind F) nm n) (treeLook (.counter input cv : Kind F) nm n)
      (fun spec j c => CountIn cv fld nm spec j c) :=
  Numeric.counter_lifespan nm input fld cv n hk hin hattr

/-! #### late-starting / foreign-column inputs (engine level) -/

theorem rsi_chained_range (p : Nat) (nm input : String) (n t0 : Nat) (cs : List (Candle K)) (x : Nat → K)
    (hp : 1 ≤ p) (hk : IsKey nm) (hn : RsiNames nm) (hid : NoDot input) (h1 : input ≠ nm)
    (h2 : input ≠ nm ++ "_data")
    (habs : ∀ c ∈ cs, dlookup nm c.inds = none ∧ dlookup nm c.subs = none ∧
      dlookup (nm ++ "_data") c.inds = none ∧ dlookup (nm ++ "_data") c.subs = none)
    (hin : ∀ j, j < cs.length → inputSeriesAt cs input j = if j < t0 then none else some (x (j - t0)))
    (hnone : ∀ j, j < cs.length → j < t0 → readingByCandle (cs.getD j default) input = .none) :
    ∃ out : List (Candle K), out.length = cs.length ∧
      engineCalc (mkTop (.rsi (p : Int) input : Kind K) nm n) cs = .ok out ∧
      ∀ j, j < cs.length → RsiIn (t0 + p) nm j (out.getD j default) :=
  Numeric.rsi_inputs_range p nm input n t0 cs x hp hk hn hid h1 h2 habs hin hnone

theorem stdev_chained_nonneg [NonnegSqrt K] (p : Nat) (nm input : String) (n t0 : Nat) (cs : List (Candle K))
    (x : Nat → K) (hp : 1 ≤ p) (hn : SdNames nm) (hik : IsKey input) (h1 : input ≠ nm) (h2 : input ≠ nm ++ "_data")
    (habs : ∀ c ∈ cs, dlookup nm c.inds = none ∧ dlookup nm c.subs = none ∧
      dlookup (nm ++ "_data") c.inds = none ∧ dlookup (nm ++ "_data") c.subs = none)
    (hin : ∀ j, j < cs.length →
      (match readingByCandle (cs.getD j default) input with
        | .s (.num r) => some r.toF
        | _ => none) = if j < t0 then none else some (x (j - t0)))
    (hnone : ∀ j, j < cs.length → j < t0 → readingByCandle (cs.getD j default) input = .none) :
    ∃ out : List (Candle K), engineCalc (mkTop (.stdev (p : Int) input : Kind K) nm n) cs = .ok out ∧
      out.length = cs.length ∧ ∀ j, j < cs.length → SigmaIn (t0 + p) nm j (out.getD j default) :=
  Numeric.stdev_inputs_nonneg p nm input n t0 cs x hp hn hik h1 h2 habs hin hnone

theorem bbands_chained_order [NonnegSqrt K] (p : Nat) (nm input : String) (n t0 : Nat) (cs : List (Candle K))
    (x : Nat → K) (hp : 2 ≤ p) (hk : IsKey nm) (hn : BbNames nm) (hi : BbInput nm input)
    (habs : ∀ c ∈ cs, BbAbsent nm c)
    (hin : ∀ j, j < cs.length →
      (match readingByCandle (cs.getD j default) input with
        | .s (.num r) => some r.toF
        | _ => none) = if j < t0 then none else some (x (j - t0)))
    (hnone : ∀ j, j < cs.length → j < t0 → readingByCandle (cs.getD j default) input = .none) :
    ∃ out : List (Candle K), engineCalc (mkTop (.bbands (p : Int) input : Kind K) nm n) cs = .ok out ∧
      out.length = cs.length ∧
      ∀ j, j < cs.length →
        (j < t0 + p → readingByCandle (out.getD j default) nm = bbNoneDict) ∧
        (t0 + p ≤ j → ∃ lo mid up : K, readingByCandle (out.getD j default) nm = bbDict lo mid up ∧
          lo ≤ mid ∧ mid ≤ up) :=
  Numeric.bbands_inputs_order p nm input n t0 cs x hp hk hn hi habs hin hnone

/-! #### closed statements: the RSI instance of `C10_FULL` on the manager configurations it left open -/

/-- the conclusion of `C10_FULL` -/
def RsiStoredInRange {K : Type} [Field K] [LinearOrder K] [IsStrictOrderedRing K] [LawfulPyF K]
    (nm : String) (snap : List (Candle K)) : Prop :=
  ∀ c ∈ snap, readingByCandle c nm = .none ∨ ∃ y : K, readingByCandle c nm = .flt y ∧ 0 ≤ y ∧ y ≤ 100

/-- **`C10_FULL` on every Heikin-Ashi configuration** (`{ha}`, `{tf, ha}`, `{tf, fill, ha}`), candle-field input:
every history RETURNS and every stored RSI reading is `None` or in `[0, 100]` -/
def C10_RSI_HA : Prop :=
  ∀ (K : Type) [Field K] [LinearOrder K] [IsStrictOrderedRing K] [LawfulPyF K]
    (p : Nat) (nm : String) (n : Nat) (init : List (Candle K)) (chunks : List (List (Candle K))),
    1 ≤ p → IsKey nm → RsiNames nm →
    ((∀ c ∈ init ++ chunks.flatten, Plain c ∧ c.tag = false) →
      ∃ snap, candlesOf (runIndicator (mkTop (.rsi p "close") nm n) { ha := true } init chunks) = .ok snap ∧
        RsiStoredInRange nm snap) ∧
    (∀ tf : Int, 0 < tf → (RawTf (init ++ chunks.flatten) ∧ ∀ c ∈ init ++ chunks.flatten, c.tag = false) →
      (∃ snap, candlesOf (runIndicator (mkTop (.rsi p "close") nm n) { tf := some tf, ha := true } init chunks)
          = .ok snap ∧ RsiStoredInRange nm snap) ∧
      (∃ snap, candlesOf (runIndicator (mkTop (.rsi p "close") nm n) { tf := some tf, fill := true, ha := true }
          init chunks) = .ok snap ∧ RsiStoredInRange nm snap))

theorem C10_RSI_HA_holds : C10_RSI_HA := by
  intro K _ _ _ _ p nm n init chunks hp hk hn
  have h := Numeric.rsi_ha (K := K) p hp nm "close" (·.c) n hn hk ⟨noDot_close, by decide⟩ (fun _ => rfl)
  exact ⟨fun hok => h.1.every (fun _ _ _ hc => hc.free) init chunks hok,
    fun tf htf hok => ⟨(h.2 tf htf).1.every (fun _ _ _ hc => hc.free) init chunks hok,
      (h.2 tf htf).2.every (fun _ _ _ hc => hc.free) init chunks hok⟩⟩

/-- **`C10_FULL` on a lifespan manager that retains the tree's look-back**, candle-field input -/
def C10_RSI_lifespan : Prop :=
  ∀ (K : Type) [Field K] [LinearOrder K] [IsStrictOrderedRing K] [LawfulPyF K]
    (p : Nat) (nm : String) (n : Nat) (life : Int) (init : List (Candle K)) (chunks : List (List (Candle K))),
    1 ≤ p → IsKey nm → RsiNames nm → (∀ c ∈ init ++ chunks.flatten, Plain c) →
    trimCandles (some life) init = .ok init →
    RetainsFrom (treeLook (.rsi (p : Int) "close" : Kind K) nm n) life init init.length chunks →
    ∃ kept, candlesOf (runIndicator (mkTop (.rsi p "close") nm n) { lifespan := some life } init chunks) = .ok kept ∧
      RsiStoredInRange nm kept

theorem C10_RSI_lifespan_holds : C10_RSI_lifespan := by
  intro K _ _ _ _ p nm n life init chunks hp hk hn hpl hinit hret
  exact Numeric.rsi_lifespan_range p hp nm "close" (·.c) n hn hk ⟨noDot_close, by decide⟩ (fun _ => rfl) life init
    chunks hpl hinit hret

/-- **`C10_FULL` for an input that is another indicator's reading, late-starting** (engine level, `None` on the
first `t0` candles – necessary: `c06_chained_full_false`) -/
def C10_RSI_chained : Prop :=
  ∀ (K : Type) [Field K] [LinearOrder K] [IsStrictOrderedRing K] [LawfulPyF K]
    (p : Nat) (nm input : String) (n t0 : Nat) (cs : List (Candle K)) (x : Nat → K),
    1 ≤ p → IsKey nm → RsiNames nm → NoDot input → input ≠ nm → input ≠ nm ++ "_data" →
    (∀ c ∈ cs, dlookup nm c.inds = none ∧ dlookup nm c.subs = none ∧
      dlookup (nm ++ "_data") c.inds = none ∧ dlookup (nm ++ "_data") c.subs = none) →
    (∀ j, j < cs.length → inputSeriesAt cs input j = if j < t0 then none else some (x (j - t0))) →
    (∀ j, j < cs.length → j < t0 → readingByCandle (cs.getD j default) input = .none) →
    ∃ out : List (Candle K), engineCalc (mkTop (.rsi (p : Int) input : Kind K) nm n) cs = .ok out ∧
      RsiStoredInRange nm out

theorem C10_RSI_chained_holds : C10_RSI_chained := by
  intro K _ _ _ _ p nm input n t0 cs x hp hk hn hid h1 h2 habs hin hnone
  obtain ⟨out, hl, hrun, hall⟩ := Numeric.rsi_inputs_range p nm input n t0 cs x hp hk hn hid h1 h2 habs hin hnone
  refine ⟨out, hrun, fun c hc => ?_⟩
  obtain ⟨i, hi, rfl⟩ := List.mem_iff_getElem.1 hc
  have e : out.getD i default = out[i] := by
    rw [List.getD_eq_getElem?_getD, List.getElem?_eq_getElem hi]; rfl
  exact (e ▸ hall i (hl ▸ hi)).free

/-! ### whole runs: rounding, OBV step, Aroon / Donchian identities (HexProofs/Numeric/Rounded*.lean) -/

/-- **every numeric reading is rounded to the indicator's `round_value`**: all 27 classes, every manager with a spec
(also the Heikin-Ashi ones), every append schedule – whenever the history returns -/
theorem every_stored_reading_rounded (M : MgrSpec K) (k : Kind K) (name : String) (round : Nat)
    (hc : CoveredTreeX name k) (hk : IsKey name) :
    Always M (mkTop k name round) (fun _ snap => ∀ c ∈ snap, RoundedAt name round c) :=
  Hex.every_stored_reading_rounded (roundIdem_lawful K) M k name round hc hk

/-- … in the generality of `C10_FULL`: EVERY kind, name, `round_value`, EVERY manager configuration (lifespan included),
incoming candles that may carry foreign readings -/
theorem rounded_every_cfg (cfg : MgrCfg) (k : Kind K) (name : String) (round : Nat) (hk : isData k = false)
    (init : List (Candle K)) (chunks : List (List (Candle K)))
    (hfree : ∀ c ∈ init ++ chunks.flatten, FreeOf name c) (snap : List (Candle K))
    (hsnap : candlesOf (runIndicator (mkTop k name round) cfg init chunks) = .ok snap) :
    AllStored name (RoundedVal round) snap ∧ (IsKey name → ∀ c ∈ snap, RoundedAt name round c) :=
  Hex.rounded_every_cfg (roundIdem_lawful K) cfg k name round hk init chunks hfree snap hsnap

/-- helper series are rounded with THEIR OWN `round_value` (4), every configuration -/
theorem helpers_rounded_every_cfg (cfg : MgrCfg) (k : Kind K) (name : String) (round : Nat)
    (n : Ind K) (hn : n ∈ (mkTop k name round).nodes) (hd : isData n.kind = false)
    (init : List (Candle K)) (chunks : List (List (Candle K)))
    (hfree : ∀ c ∈ init ++ chunks.flatten, FreeOf n.name c) (snap : List (Candle K))
    (hsnap : candlesOf (runIndicator (mkTop k name round) cfg init chunks) = .ok snap) :
    (n = mkTop k name round ∨ n.round = 4) ∧ AllStored n.name (RoundedVal n.round) snap ∧
    (IsKey n.name → ∀ c ∈ snap, RoundedAt n.name n.round c) :=
  Hex.helpers_rounded_every_cfg (roundIdem_lawful K) cfg k name round n hn hd init chunks hfree snap hsnap

/-- `Managed.set_reading` data are NOT rounded (by design): RSI(3) stores `gain = 8/9` -/
theorem data_not_rounded : ∃ (snap : List (Candle ℚ)) (y : ℚ),
    candlesOf (runIndicator (mkTop (.rsi 3 "close" : Kind ℚ) "RSI_3" 4) {} rsiDemoRaw []) = .ok snap ∧
    readingByCandle (snap.getD 4 default) "RSI_3_data.gain" = .flt y ∧ ¬ Rounded 4 y := Hex.data_not_rounded

/-- what every OBV history stores: the series `obvStored` (rounded first volume, then `round(previous stored + step)`) -/
theorem obv_live_stored (M : MgrSpec K) (nm : String) (n : Nat) (hk : IsKey nm) :
    HoldsOn M (mkTop (.obv : Kind K) nm n) (fun spec j c => ObvIn n nm spec j c) :=
  Numeric.obv_holds M nm n hk

theorem obv_ha_stored (nm : String) (n : Nat) (hk : IsKey nm) :
    HoldsOnHA (mkTop (.obv : Kind K) nm n) (fun spec j c => ObvIn n nm spec j c) := Numeric.obv_ha nm n hk

/-- **the whole-run form of `obv_moves`**, every manager with a spec: `o j = round(o (j−1) + δ j)`,
`|o j − o (j−1) − δ j| ≤ ε_n`, `δ j ∈ {0, ±volume j}` -/
theorem obv_live_moves (M : MgrSpec K) (nm : String) (n : Nat) (hk : IsKey nm)
    (init : List (Candle K)) (chunks : List (List (Candle K))) (hok : M.Ok (init ++ chunks.flatten)) :
    ∃ (snap : List (Candle K)) (o : Nat → K),
      candlesOf (runIndicator (mkTop (.obv : Kind K) nm n) M.cfg init chunks) = .ok snap ∧
      snap.length = (M.spec (init ++ chunks.flatten)).length ∧
      (∀ j, j < (M.spec (init ++ chunks.flatten)).length →
        ∃ t : Num K, readingByCandle (snap.getD j default) nm = .num t ∧ t.toF = o j) ∧
      o 0 = PyF.round n (fieldAt (·.v) (M.spec (init ++ chunks.flatten)) 0) ∧
      ∀ j, 1 ≤ j →
        let δ := obvDelta (fieldAt (·.c) (M.spec (init ++ chunks.flatten))) (fieldAt (·.v) (M.spec (init ++ chunks.flatten))) j
        (δ = 0 ∨ δ = fieldAt (·.v) (M.spec (init ++ chunks.flatten)) j ∨
          δ = -fieldAt (·.v) (M.spec (init ++ chunks.flatten)) j) ∧
        o j = PyF.round n (o (j - 1) + δ) ∧ |o j - o (j - 1) - δ| ≤ eps K n ∧ (δ = 0 → o j = o (j - 1)) :=
  Numeric.obv_live_moves M nm n hk init chunks hok

/-- … exactly `0`, `+volume`, `−volume` when the volumes have at most `n` decimals (Python ints) -/
theorem obv_live_moves_exact (M : MgrSpec K) (nm : String) (n : Nat) (hk : IsKey nm)
    (init : List (Candle K)) (chunks : List (List (Candle K))) (hok : M.Ok (init ++ chunks.flatten))
    (hgrid : ∀ c ∈ M.spec (init ++ chunks.flatten), OnGrid n c.v.toF) :
    ∃ (snap : List (Candle K)) (o : Nat → K),
      candlesOf (runIndicator (mkTop (.obv : Kind K) nm n) M.cfg init chunks) = .ok snap ∧
      snap.length = (M.spec (init ++ chunks.flatten)).length ∧
      (∀ j, j < (M.spec (init ++ chunks.flatten)).length →
        ∃ t : Num K, readingByCandle (snap.getD j default) nm = .num t ∧ t.toF = o j) ∧
      ∀ j, 1 ≤ j → j < (M.spec (init ++ chunks.flatten)).length →
        o j - o (j - 1) = obvDelta (fieldAt (·.c) (M.spec (init ++ chunks.flatten)))
          (fieldAt (·.v) (M.spec (init ++ chunks.flatten))) j ∧
        (o j - o (j - 1) = 0 ∨ o j - o (j - 1) = fieldAt (·.v) (M.spec (init ++ chunks.flatten)) j ∨
          o j - o (j - 1) = -fieldAt (·.v) (M.spec (init ++ chunks.flatten)) j) :=
  Numeric.obv_live_moves_exact M nm n hk init chunks hok hgrid

theorem aroon_live_osc (M : MgrSpec K) (p : Nat) (hp : 1 ≤ p) (nm : String) (n : Nat) (hk : IsKey nm) :
    HoldsOn M (mkTop (.aroon p : Kind K) nm n) (fun spec j c => AroonOscIn p n nm spec j c) :=
  Numeric.aroon_osc_holds M p hp nm n hk

theorem aroon_ha_osc (p : Nat) (hp : 1 ≤ p) (nm : String) (n : Nat) (hk : IsKey nm) :
    HoldsOnHA (mkTop (.aroon p : Kind K) nm n) (fun spec j c => AroonOscIn p n nm spec j c) :=
  Numeric.aroon_osc_ha p hp nm n hk

theorem donchian_live_middle (M : MgrSpec K) (p : Nat) (hp : 2 ≤ p) (nm : String) (n : Nat) (hn : DcNames nm) :
    HoldsOn M (mkTop (.donchian p : Kind K) nm n) (fun spec j c => DcMidIn p n nm spec j c) :=
  Numeric.donchian_mid_holds M p hp nm n hn

theorem donchian_ha_middle (p : Nat) (hp : 2 ≤ p) (nm : String) (n : Nat) (hn : DcNames nm) :
    HoldsOnHA (mkTop (.donchian p : Kind K) nm n) (fun spec j c => DcMidIn p n nm spec j c) :=
  Numeric.donchian_mid_ha p hp nm n hn

end Hex.C10

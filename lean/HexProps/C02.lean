import HexProofs.Framework.Maintenance
import HexProofs.Framework.Gen.ObjectHADemo
import HexProofs.Framework.Gen.ChainMoreDemo
import HexProps.C01
/-
C02 – Readings of closed candles are final: no look-ahead, no repainting.

Proved, for every float carrier `F`, for LEAF indicators under their `Contract`; on a collapsing
timeframe (gap filling off or on): all buckets but the still-forming last one of an earlier snapshot are a
prefix of every later snapshot (`closed_candles_final_leaf_tf`); on the base timeframe (where
every candle, the newest included, is closed): the snapshot after any prefix of
an append history is a list prefix – full candles: OHLCV, timestamp, both reading dicts – of the
snapshot at any later point; a batch run over a truncated stream is the truncation of the batch
run over the longer stream; and two streams that agree on their first `k` candles give the same
first `k` output candles.  All three are corollaries of the refinement to the row-major spec
(HexProofs/Framework/Schedule.lean), which is a left fold.
-/
namespace Hex.C02
open Hex Hex.C01
variable {F : Type} [PyF F]

/-- **Closed candles are final** (base timeframe: the whole snapshot).  If the history
`init; append chunks₁; append chunks₂` runs, then so does its prefix `init; append chunks₁`, and
the earlier snapshot is a prefix of the later one. -/
theorem closed_candles_final_leaf (ind : Ind F) (hl : IsLeaf ind) (K : Contract ind)
    (init : List (Candle F)) (chunks₁ chunks₂ : List (List (Candle F)))
    (hp : RawInput (init ++ (chunks₁ ++ chunks₂).flatten)) (snap₂ : List (Candle F))
    (h₂ : candlesOf (runIndicator ind {} init (chunks₁ ++ chunks₂)) = .ok snap₂) :
    ∃ snap₁, candlesOf (runIndicator ind {} init chunks₁) = .ok snap₁ ∧ snap₁ <+: snap₂ := by
  have hp₁ : RawInput (init ++ chunks₁.flatten) := fun c hc => hp c (by
    rw [List.flatten_append, ← List.append_assoc]; exact List.mem_append_left _ hc)
  rw [runIndicator_refines ind hl K init _ hp, List.flatten_append, ← List.append_assoc] at h₂
  obtain ⟨d₁, h₁, hpre, _⟩ := rowMajor_prefix ind _ _ snap₂ h₂
  exact ⟨d₁, by rw [runIndicator_refines ind hl K init chunks₁ hp₁]; exact h₁, hpre⟩

/-- what is observed as closed: everything on the base timeframe, all but the last (still
forming) bucket on a collapsing one -/
def closed (tf : Option Int) (snap : List (Candle F)) : List (Candle F) :=
  match tf with
  | none => snap
  | some _ => snap.dropLast

/-- **Closed candles are final on a collapsing timeframe.**  If both histories run, every bucket
of the earlier snapshot except its last (still forming) one – OHLCV, label, readings – is already
what it is in the later snapshot. -/
theorem closed_candles_final_leaf_tf (tf : Int) (htf : 0 < tf) (ind : Ind F) (hl : IsLeaf ind)
    (K : Contract ind) (init : List (Candle F)) (chunks₁ chunks₂ : List (List (Candle F)))
    (hraw : RawTf (init ++ (chunks₁ ++ chunks₂).flatten)) (snap₁ snap₂ : List (Candle F))
    (h₁ : candlesOf (runIndicator ind (cfgTf tf) init chunks₁) = .ok snap₁)
    (h₂ : candlesOf (runIndicator ind (cfgTf tf) init (chunks₁ ++ chunks₂)) = .ok snap₂) :
    closed (some tf) snap₁ <+: snap₂ := by
  have hraw' : RawTf ((init ++ chunks₁.flatten) ++ chunks₂.flatten) := by
    simpa [List.flatten_append, List.append_assoc] using hraw
  have r₁ := runIndicator_tf_refines tf htf ind hl K init chunks₁ hraw'.append_left snap₁ h₁
  have r₂ := runIndicator_tf_refines tf htf ind hl K init (chunks₁ ++ chunks₂) hraw snap₂ h₂
  rw [List.flatten_append, ← List.append_assoc] at r₂
  exact closed_prefix_tf tf htf ind _ _ snap₁ snap₂ hraw' r₁ r₂

/-- **Closed candles are final with gap filling**: all candles (real buckets and inserted flat
candles, with their readings) of the earlier snapshot except the last one are a prefix of the
later snapshot. -/
theorem closed_candles_final_leaf_fill (tf : Int) (htf : 0 < tf) (ind : Ind F) (hl : IsLeaf ind)
    (K : Contract ind) (init : List (Candle F)) (chunks₁ chunks₂ : List (List (Candle F)))
    (hraw : RawTf (init ++ (chunks₁ ++ chunks₂).flatten)) (snap₁ snap₂ : List (Candle F))
    (h₁ : candlesOf (runIndicator ind (cfgFill tf) init chunks₁) = .ok snap₁)
    (h₂ : candlesOf (runIndicator ind (cfgFill tf) init (chunks₁ ++ chunks₂)) = .ok snap₂) :
    closed (some tf) snap₁ <+: snap₂ := by
  have hraw' : RawTf ((init ++ chunks₁.flatten) ++ chunks₂.flatten) := by
    simpa [List.flatten_append, List.append_assoc] using hraw
  have r₁ := runIndicator_fill_refines tf htf ind hl K init chunks₁ hraw'.append_left snap₁ h₁
  have r₂ := runIndicator_fill_refines tf htf ind hl K init (chunks₁ ++ chunks₂) hraw snap₂ h₂
  rw [List.flatten_append, ← List.append_assoc] at r₂
  exact closed_prefix_fill tf htf ind _ _ snap₁ snap₂ hraw' r₁ r₂

/-- **Truncation of a batch run**: `calculate()` over the first `k` candles gives the first `k`
candles of `calculate()` over the whole stream. -/
theorem batch_truncation_leaf (ind : Ind F) (hl : IsLeaf ind) (K : Contract ind)
    (stream out : List (Candle F)) (hp : RawInput stream)
    (h : candlesOf (runBatch ind {} stream) = .ok out) (k : Nat) :
    candlesOf (runBatch ind {} (stream.take k)) = .ok (out.take k) := by
  unfold runBatch at h ⊢
  rw [runIndicator_refines ind hl K stream [] (by simpa [RawInput] using hp)] at h
  rw [runIndicator_refines ind hl K (stream.take k) [] (by
    intro c hc; exact hp c (List.mem_of_mem_take (by simpa using hc)))]
  simp only [List.flatten_nil, List.append_nil] at h ⊢
  exact rowMajor_take ind stream out h k

/-- the same with the model's "prefix up to and including index `k`" -/
theorem batch_upto_leaf (ind : Ind F) (hl : IsLeaf ind) (K : Contract ind)
    (stream out : List (Candle F)) (hp : RawInput stream)
    (h : candlesOf (runBatch ind {} stream) = .ok out) (k : Int) :
    candlesOf (runBatch ind {} (upto stream k)) = .ok (upto out k) :=
  batch_truncation_leaf ind hl K stream out hp h _

/-- **No look-ahead**: the first `k` output candles depend on the first `k` input candles only,
whether computed over a short or a long list. -/
theorem no_lookahead_leaf (ind : Ind F) (hl : IsLeaf ind) (K : Contract ind)
    (s₁ s₂ out₁ out₂ : List (Candle F)) (hp₁ : RawInput s₁) (hp₂ : RawInput s₂)
    (h₁ : candlesOf (runBatch ind {} s₁) = .ok out₁) (h₂ : candlesOf (runBatch ind {} s₂) = .ok out₂)
    (k : Nat) (hk : s₁.take k = s₂.take k) : out₁.take k = out₂.take k := by
  have a := batch_truncation_leaf ind hl K s₁ out₁ hp₁ h₁ k
  have b := batch_truncation_leaf ind hl K s₂ out₂ hp₂ h₂ k
  rw [hk, b] at a
  exact (Except.ok.inj a).symm

/-- **C02, partial: all covered kinds** (`Covered`: every shipped leaf class, the Amorph wrapper of
the pattern / movement functions included), base timeframe (`tf = none`) or collapsing timeframe
with gap filling off or on: closed candles of an earlier snapshot are a prefix of every later
snapshot.  (`timeframe_fill` has no effect without a timeframe.) -/
theorem C02_partial (tf : Option Int) (htf : ∀ t, tf = some t → 0 < t) (fill : Bool) (k : Kind F)
    (name : String) (round : Nat) (hk : Covered name k) (init : List (Candle F))
    (chunks₁ chunks₂ : List (List (Candle F)))
    (hraw : RawTf (init ++ (chunks₁ ++ chunks₂).flatten)) (snap₁ snap₂ : List (Candle F))
    (h₁ : candlesOf (runIndicator (mkTop k name round) { tf := tf, fill := fill && tf.isSome } init chunks₁)
      = .ok snap₁)
    (h₂ : candlesOf (runIndicator (mkTop k name round) { tf := tf, fill := fill && tf.isSome } init
      (chunks₁ ++ chunks₂)) = .ok snap₂) :
    closed tf snap₁ <+: snap₂ := by
  obtain ⟨K⟩ := hk.contract round
  cases tf with
  | none =>
    simp only [Option.isSome_none, Bool.and_false] at h₁ h₂
    obtain ⟨s₁, hs₁, hpre⟩ := closed_candles_final_leaf _ (hk.isLeaf round) K init chunks₁ chunks₂
      hraw.plain snap₂ h₂
    rw [h₁] at hs₁
    cases hs₁
    exact hpre
  | some t =>
    cases fill with
    | false =>
      exact closed_candles_final_leaf_tf t (htf t rfl) _ (hk.isLeaf round) K init chunks₁ chunks₂ hraw
        snap₁ snap₂ h₁ h₂
    | true =>
      exact closed_candles_final_leaf_fill t (htf t rfl) _ (hk.isLeaf round) K init chunks₁ chunks₂ hraw
        snap₁ snap₂ h₁ h₂

/-- **C02, partial: all covered TREES** (`CoveredTree`: leaf classes and the composite kinds whose
refinement is proved), any timeframe, gap filling off or on: the closed candles of an earlier
snapshot – with the node's readings and its helper series – are a prefix of every later one. -/
theorem C02_trees (tf : Option Int) (htf : ∀ t, tf = some t → 0 < t) (fill : Bool) (k : Kind F)
    (name : String) (round : Nat) (hk : CoveredTreeX name k) (init : List (Candle F))
    (chunks₁ chunks₂ : List (List (Candle F)))
    (hraw : RawTf (init ++ (chunks₁ ++ chunks₂).flatten)) (snap₁ snap₂ : List (Candle F))
    (h₁ : candlesOf (runIndicator (mkTop k name round) { tf := tf, fill := fill && tf.isSome } init chunks₁)
      = .ok snap₁)
    (h₂ : candlesOf (runIndicator (mkTop k name round) { tf := tf, fill := fill && tf.isSome } init
      (chunks₁ ++ chunks₂)) = .ok snap₂) :
    closed tf snap₁ <+: snap₂ := by
  obtain ⟨T, _⟩ := hk.spec round
  have hraw' : RawTf ((init ++ chunks₁.flatten) ++ chunks₂.flatten) := by
    simpa [List.flatten_append, List.append_assoc] using hraw
  have hcfg := mgrSpecOf_cfg (F := F) tf htf fill
  rw [← hcfg] at h₁ h₂
  have hok := mgrSpecOf_ok tf htf fill _ hraw'
  have r₁ := T.live_refines (mgrSpecOf F tf htf fill) init chunks₁
    (mgrSpecOf_ok tf htf fill _ hraw'.append_left) snap₁ h₁
  have r₂ := T.live_refines (mgrSpecOf F tf htf fill) init (chunks₁ ++ chunks₂)
    (mgrSpecOf_ok tf htf fill _ hraw) snap₂ h₂
  rw [List.flatten_append, ← List.append_assoc] at r₂
  cases tf with
  | none => exact T.base_prefix _ _ snap₁ snap₂ hraw'.plain r₁ r₂
  | some t => exact T.closed_prefix (mgrSpecOf F (some t) htf fill) _ _ snap₁ snap₂ hok r₁ r₂

/-- **Truncation of a batch run, trees** (base timeframe). -/
theorem batch_truncation_trees (k : Kind F) (name : String) (round : Nat) (hk : CoveredTreeX name k)
    (stream out : List (Candle F)) (hp : RawInput stream)
    (h : candlesOf (runBatch (mkTop k name round) {} stream) = .ok out) (n : Nat) :
    candlesOf (runBatch (mkTop k name round) {} (stream.take n)) = .ok (out.take n) := by
  obtain ⟨T, _⟩ := hk.spec round
  have hpt : RawInput (stream.take n) := fun c hc => hp c (List.mem_of_mem_take hc)
  have h1 := (T.batch_iff (MgrSpec.base F) stream hp out).1 h
  exact (T.batch_iff (MgrSpec.base F) _ hpt _).2 (Gen.rowMajor_take T.law stream out hp h1 n)

/-- **C02 at full strength** (every shipped kind, timeframes, gap filling).  NOT proved yet; see
`C01_FULL` for what is missing (MACD, STOCH, HMA, TSI, ADX; indicator-on-indicator inputs); the
covered trees are in `C02_trees`. -/
def C02_FULL (F : Type) [PyF F] : Prop :=
  ∀ (k : Kind F) (name : String) (round : Nat) (tf : Option Int) (fill : Bool)
    (init : List (Candle F)) (chunks₁ chunks₂ : List (List (Candle F))) (snap₁ snap₂ : List (Candle F)),
    (∀ p ∈ periods k, 1 ≤ p) → IsKey name → (∀ t, tf = some t → 0 < t) →
    WellFormed (init ++ (chunks₁ ++ chunks₂).flatten) →
    candlesOf (runIndicator (mkTop k name round) { tf := tf, fill := fill } init chunks₁) = .ok snap₁ →
    candlesOf (runIndicator (mkTop k name round) { tf := tf, fill := fill } init (chunks₁ ++ chunks₂)) = .ok snap₂ →
    closed tf snap₁ <+: snap₂

/-! ### non-vacuity -/

/-- the SMA demo of C01: the history `[] ; append 1 candle ; append 3 candles` runs, so the
theorem's hypothesis `h₂` is satisfiable, and its prefix snapshot is a proper, non-empty prefix -/
example : smaColumn (candlesOf (runIndicator demoSMA {} [] ([demo.take 1] ++ [demo.drop 1])))
    = some [none, some 3, some 3, some 4] := by decide
example : smaColumn (candlesOf (runIndicator demoSMA {} [] [demo.take 2])) = some [none, some 3] := by decide
example : RawInput ([] ++ ([demo.take 1] ++ [demo.drop 1]).flatten) := by decide

/-- timeframe: the first bucket is still forming after the first append (SMA `None`, close 2),
and is re-opened by the second; the hypotheses of `closed_candles_final_leaf_tf` are met -/
example : smaColumn (candlesOf (runIndicator demoSMA (cfgTf 120) [] [demo.take 1])) = some [none] := by
  decide +kernel
example : RawTf ([] ++ ([demo.take 1] ++ [demo.drop 1]).flatten) := ⟨by decide, by decide, by decide, by decide⟩

/-- a composite tree: the history of `C02_trees` runs for STDEV over the demo -/
example : CoveredTree (F := Int) "STDEV_2" (.stdev 2 "close") := .stdev 2 "close" (by decide) (by decide)
example : (candlesOf (runIndicator (mkTop (.stdev 2 "close") "STDEV_2" 4) {} [] ([demo.take 1] ++ [demo.drop 1]))).toOption.isSome
    = true := by decide +kernel

open Hex.Chain in
/-- **C02 for an indicator-valued input, every class**: a Hexital holding a source member (any of the 27 classes over candle
attributes) and a dependent member (any class with an `input_value`) on its own manager, any timeframe, gap filling off or
on: the closed candles of an earlier snapshot – with the readings and helper series of BOTH members – are a prefix of every
later snapshot. -/
theorem C02_pair_more (tf : Option Int) (htf : ∀ t, tf = some t → 0 < t) (fill : Bool)
    {nameA : String} {kA : Kind F} (hA : SrcVia nameA kA) (roundA : Nat)
    {main nameB : String} {kB : Kind F} (hB : DepVia main nameB kB) (roundB : Nat)
    (hmain : main ∈ (mkTop kA nameA roundA).allNames)
    (hdis : ∀ x ∈ (mkTop kA nameA roundA).allNames, x ∉ (mkTop kB nameB roundB).allNames)
    (tfn : Option String) (init : List (Candle F)) (chunks₁ chunks₂ : List (List (Candle F)))
    (hraw : RawTf (init ++ (chunks₁ ++ chunks₂).flatten)) (H₁ H₂ : Hexital F)
    (h₁ : pairRun (mkTop kA nameA roundA) (mkTop kB nameB roundB) { tf := tf, fill := fill && tf.isSome } tfn init
      chunks₁ = .ok H₁)
    (h₂ : pairRun (mkTop kA nameA roundA) (mkTop kB nameB roundB) { tf := tf, fill := fill && tf.isSome } tfn init
      (chunks₁ ++ chunks₂) = .ok H₂) :
    ∃ cs₁ cs₂, H₁.managers = [(defaultKey, { cfg := { tf := tf, fill := fill && tf.isSome }, candles := cs₁ })] ∧
      H₂.managers = [(defaultKey, { cfg := { tf := tf, fill := fill && tf.isSome }, candles := cs₂ })] ∧
      closed tf cs₁ <+: cs₂ :=
  Hex.Chain.C02_pair_more tf htf fill hA roundA hB roundB hmain hdis tfn init chunks₁ chunks₂ hraw H₁ H₂ h₁ h₂

open Hex.Chain in
/-- **C02 for chains of any length, every class.** -/
theorem C02_chain_more {ts : List (Ind F)} (h : CoveredChain [] ts) (tf : Option Int)
    (htf : ∀ t, tf = some t → 0 < t) (fill : Bool) (tfn : Option String) (init : List (Candle F))
    (chunks₁ chunks₂ : List (List (Candle F))) (hraw : RawTf (init ++ (chunks₁ ++ chunks₂).flatten))
    (H₁ H₂ : Hexital F)
    (h₁ : chainRun ts { tf := tf, fill := fill && tf.isSome } tfn init chunks₁ = .ok H₁)
    (h₂ : chainRun ts { tf := tf, fill := fill && tf.isSome } tfn init (chunks₁ ++ chunks₂) = .ok H₂) :
    ∃ cs₁ cs₂, H₁.managers = [(defaultKey, { cfg := { tf := tf, fill := fill && tf.isSome }, candles := cs₁ })] ∧
      H₂.managers = [(defaultKey, { cfg := { tf := tf, fill := fill && tf.isSome }, candles := cs₂ })] ∧
      closed tf cs₁ <+: cs₂ :=
  Hex.Chain.C02_chain_more h tf htf fill tfn init chunks₁ chunks₂ hraw H₁ H₂ h₁ h₂


/-! ### Heikin-Ashi managers (HexProofs/Framework/Gen/ObjectHA.lean) -/

open Hex Hex.C01
variable {F : Type} [PyF F]

/-- **C02 on any manager spec** (`M : MgrSpec F`, the Heikin-Ashi specs included), all 27 classes: all candles of the
earlier snapshot but the last (the still-forming bucket) are a prefix of every later snapshot. -/
theorem C02_trees_mgr (k : Kind F) (name : String) (round : Nat) (hk : CoveredTreeX name k) (M : MgrSpec F)
    (init : List (Candle F)) (chunks₁ chunks₂ : List (List (Candle F)))
    (hok : M.Ok (init ++ (chunks₁ ++ chunks₂).flatten)) (snap₁ snap₂ : List (Candle F))
    (h₁ : candlesOf (runIndicator (mkTop k name round) M.cfg init chunks₁) = .ok snap₁)
    (h₂ : candlesOf (runIndicator (mkTop k name round) M.cfg init (chunks₁ ++ chunks₂)) = .ok snap₂) :
    snap₁.dropLast <+: snap₂ :=
  Hex.C02_trees_mgr hk round M init chunks₁ chunks₂ hok snap₁ snap₂ h₁ h₂

/-- **C02 on a Heikin-Ashi manager without a timeframe** `{ ha := true }`: EVERY candle of the earlier snapshot
(converted OHLC, the node's readings, its helper series) is already what it is in the later snapshot. -/
theorem C02_trees_ha (k : Kind F) (name : String) (round : Nat) (hk : CoveredTreeX name k)
    (init : List (Candle F)) (chunks₁ chunks₂ : List (List (Candle F)))
    (hraw : RawHAPlain (init ++ (chunks₁ ++ chunks₂).flatten)) (snap₁ snap₂ : List (Candle F))
    (h₁ : candlesOf (runIndicator (mkTop k name round) { ha := true } init chunks₁) = .ok snap₁)
    (h₂ : candlesOf (runIndicator (mkTop k name round) { ha := true } init (chunks₁ ++ chunks₂)) = .ok snap₂) :
    snap₁ <+: snap₂ :=
  Hex.C02_trees_ha hk round init chunks₁ chunks₂ hraw snap₁ snap₂ h₁ h₂

/-- **C02 on any Heikin-Ashi manager**: any timeframe or none, gap filling off or on (shape of `C02_trees`) -/
theorem C02_trees_haCfg (tf : Option Int) (htf : ∀ t, tf = some t → 0 < t) (fill : Bool) (k : Kind F)
    (name : String) (round : Nat) (hk : CoveredTreeX name k) (init : List (Candle F))
    (chunks₁ chunks₂ : List (List (Candle F)))
    (hraw : RawTfHA (init ++ (chunks₁ ++ chunks₂).flatten)) (snap₁ snap₂ : List (Candle F))
    (h₁ : candlesOf (runIndicator (mkTop k name round) { tf := tf, fill := fill && tf.isSome, ha := true } init
      chunks₁) = .ok snap₁)
    (h₂ : candlesOf (runIndicator (mkTop k name round) { tf := tf, fill := fill && tf.isSome, ha := true } init
      (chunks₁ ++ chunks₂)) = .ok snap₂) :
    closed tf snap₁ <+: snap₂ :=
  Hex.C02_trees_haCfg hk round tf htf fill init chunks₁ chunks₂ hraw snap₁ snap₂ h₁ h₂

/-- **Truncation of a batch run on a Heikin-Ashi manager** (no timeframe) -/
theorem batch_truncation_trees_ha (k : Kind F) (name : String) (round : Nat) (hk : CoveredTreeX name k)
    (stream out : List (Candle F)) (hp : RawHAPlain stream)
    (h : candlesOf (runBatch (mkTop k name round) { ha := true } stream) = .ok out) (n : Nat) :
    candlesOf (runBatch (mkTop k name round) { ha := true } (stream.take n)) = .ok (out.take n) :=
  Hex.batch_truncation_trees_ha hk round stream out hp h n

open Hex.Chain in
/-- **C02 for chains of any length, every class, on `{ ha := true }`**: every candle of the earlier default manager is
final -/
theorem C02_chain_more_ha {ts : List (Ind F)} (h : CoveredChain [] ts) (tfn : Option String)
    (init : List (Candle F)) (chunks₁ chunks₂ : List (List (Candle F)))
    (hraw : RawHAPlain (init ++ (chunks₁ ++ chunks₂).flatten)) (H₁ H₂ : Hexital F)
    (h₁ : chainRun ts { ha := true } tfn init chunks₁ = .ok H₁)
    (h₂ : chainRun ts { ha := true } tfn init (chunks₁ ++ chunks₂) = .ok H₂) :
    ∃ cs₁ cs₂, H₁.managers = [(defaultKey, { cfg := { ha := true }, candles := cs₁ })] ∧
      H₂.managers = [(defaultKey, { cfg := { ha := true }, candles := cs₂ })] ∧ cs₁ <+: cs₂ :=
  Hex.Chain.C02_chain_more_ha h tfn init chunks₁ chunks₂ hraw H₁ H₂ h₁ h₂

open Hex.Chain in
/-- **C02 for chains of any length, every class, any Heikin-Ashi manager** (shape of `C02_chain_more`) -/
theorem C02_chain_more_haCfg {ts : List (Ind F)} (h : CoveredChain [] ts) (tf : Option Int)
    (htf : ∀ t, tf = some t → 0 < t) (fill : Bool) (tfn : Option String) (init : List (Candle F))
    (chunks₁ chunks₂ : List (List (Candle F))) (hraw : RawTfHA (init ++ (chunks₁ ++ chunks₂).flatten))
    (H₁ H₂ : Hexital F)
    (h₁ : chainRun ts { tf := tf, fill := fill && tf.isSome, ha := true } tfn init chunks₁ = .ok H₁)
    (h₂ : chainRun ts { tf := tf, fill := fill && tf.isSome, ha := true } tfn init (chunks₁ ++ chunks₂) = .ok H₂) :
    ∃ cs₁ cs₂,
      H₁.managers = [(defaultKey, { cfg := { tf := tf, fill := fill && tf.isSome, ha := true }, candles := cs₁ })] ∧
      H₂.managers = [(defaultKey, { cfg := { tf := tf, fill := fill && tf.isSome, ha := true }, candles := cs₂ })] ∧
      closed tf cs₁ <+: cs₂ :=
  Hex.Chain.C02_chain_more_haCfg h tf htf fill tfn init chunks₁ chunks₂ hraw H₁ H₂ h₁ h₂

open Hex.Chain in
/-- **C02 for a source member and a dependent member of any covered class, any Heikin-Ashi manager** -/
theorem C02_pair_more_haCfg (tf : Option Int) (htf : ∀ t, tf = some t → 0 < t) (fill : Bool)
    {nameA : String} {kA : Kind F} (hA : SrcVia nameA kA) (roundA : Nat)
    {main nameB : String} {kB : Kind F} (hB : DepVia main nameB kB) (roundB : Nat)
    (hmain : main ∈ (mkTop kA nameA roundA).allNames)
    (hdis : ∀ x ∈ (mkTop kA nameA roundA).allNames, x ∉ (mkTop kB nameB roundB).allNames)
    (tfn : Option String) (init : List (Candle F)) (chunks₁ chunks₂ : List (List (Candle F)))
    (hraw : RawTfHA (init ++ (chunks₁ ++ chunks₂).flatten)) (H₁ H₂ : Hexital F)
    (h₁ : pairRun (mkTop kA nameA roundA) (mkTop kB nameB roundB)
      { tf := tf, fill := fill && tf.isSome, ha := true } tfn init chunks₁ = .ok H₁)
    (h₂ : pairRun (mkTop kA nameA roundA) (mkTop kB nameB roundB)
      { tf := tf, fill := fill && tf.isSome, ha := true } tfn init (chunks₁ ++ chunks₂) = .ok H₂) :
    ∃ cs₁ cs₂,
      H₁.managers = [(defaultKey, { cfg := { tf := tf, fill := fill && tf.isSome, ha := true }, candles := cs₁ })] ∧
      H₂.managers = [(defaultKey, { cfg := { tf := tf, fill := fill && tf.isSome, ha := true }, candles := cs₂ })] ∧
      closed tf cs₁ <+: cs₂ :=
  Hex.Chain.C02_pair_more_haCfg tf htf fill hA roundA hB roundB hmain hdis tfn init chunks₁ chunks₂ hraw H₁ H₂ h₁ h₂

/-- non-vacuity: HexProofs/Framework/Gen/ObjectHADemo.lean (KC on the three Heikin-Ashi configurations: the earlier
snapshot is a proper prefix; on `{ tf := some 120, ha := true }` its last bucket is still forming and NOT final) -/
example := @Hex.ObjHADemo.sched_raw

#print axioms C02_trees_mgr
#print axioms C02_trees_ha
#print axioms C02_trees_haCfg
#print axioms batch_truncation_trees_ha
#print axioms C02_chain_more_haCfg

end Hex.C02

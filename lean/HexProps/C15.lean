import HexProofs.Manager.Trim
import HexProps.C03
/-
C15 – Lifespan trimming keeps exactly the window (first clause; every float carrier `F`).
The second clause (readings on retained candles equal those of the untrimmed run) rests on the
per-indicator shift invariance and is stated in `HexProps/C15b.lean` once those contracts exist;
until then it is covered by correspondence + search only (see DESIGN.md, C15).
-/
namespace Hex.C15
open Hex Hex.C03
variable {F : Type} [PyF F]

def cfgLife (life : Int) : MgrCfg := { lifespan := some life }

/-- the window predicate: not older than `newest - life` -/
def inWindow (newest life : Int) (c : Candle F) : Bool := !tooOld (newest - life) c

/-- the newest stamp of a list (stamp of its last candle) -/
def newest (cs : List (Candle F)) : Option Int := cs.getLast?.bind (·.ts)

theorem tasks_life (life : Int) (cs : List (Candle F)) :
    tasks (cfgLife life) cs = trimCandles (some life) cs := by
  unfold tasks cfgLife collapseCandles
  simp [bind, Except.bind]

/-- **The window after one trim.** -/
theorem window (life : Int) (hlife : 0 ≤ life) (cs : List (Candle F)) (h : SortedStamped cs)
    (n : Int) (hn : newest cs = some n) :
    tasks (cfgLife life) cs = .ok (cs.filter (inWindow n life)) := by
  rw [tasks_life]
  unfold newest at hn
  cases hl : cs.getLast? with
  | none => rw [hl] at hn; cases hn
  | some lastC =>
    rw [hl] at hn
    exact trim_eq_window life hlife cs h lastC n hl (by simpa using hn)

theorem sortedStamped_append_left {a b : List (Candle F)} (h : SortedStamped (a ++ b)) : SortedStamped a :=
  ⟨fun c hc => h.stamped c (by simp [hc]), by
    have := h.sorted; rw [List.filterMap_append] at this; exact (List.pairwise_append.1 this).1⟩

theorem sortedStamped_filter {cs : List (Candle F)} (p : Candle F → Bool) (h : SortedStamped cs) :
    SortedStamped (cs.filter p) :=
  ⟨fun c hc => h.stamped c (List.mem_filter.1 hc).1, by
    have hsub : (cs.filter p).Sublist cs := List.filter_sublist
    exact (h.sorted).sublist (hsub.filterMap _)⟩

/-- **Every append schedule.**  After construction and after every append, the retained
candles are exactly the candles of the stream so far that are not older than the newest stamp
minus the lifespan, in order. -/
theorem schedule (life : Int) (hlife : 0 ≤ life) (chunks : List (List (Candle F))) :
    ∀ (s : List (Candle F)) (n : Int), SortedStamped (s ++ chunks.flatten) →
      (s = [] ∨ newest s = some n) →
      ∃ n', (chunks.foldlM (fun (m : Manager F) ch => m.append ch)
              { cfg := cfgLife life, candles := s.filter (inWindow n life) }
            = .ok { cfg := cfgLife life, candles := (s ++ chunks.flatten).filter (inWindow n' life) }) ∧
            (s ++ chunks.flatten = [] ∨ newest (s ++ chunks.flatten) = some n') := by
  induction chunks with
  | nil => intro s n _ hn; exact ⟨n, by simp [List.foldlM, pure, Except.pure], by simpa using hn⟩
  | cons ch rest ih =>
    intro s n hs hn
    have hs' : SortedStamped ((s ++ ch) ++ rest.flatten) := by simpa [List.append_assoc] using hs
    have hsch : SortedStamped (s ++ ch) := sortedStamped_append_left hs'
    simp only [List.foldlM_cons, bind, Except.bind]
    by_cases hch : ch = []
    · subst hch
      have e : Manager.append ({ cfg := cfgLife life, candles := s.filter (inWindow n life) } : Manager F) []
          = .ok { cfg := cfgLife life, candles := s.filter (inWindow n life) } := by
        simp [Manager.append]
      rw [e]
      have := ih s n (by simpa using hs) hn
      simpa using this
    · -- the appended chunk is non-empty: the newest stamp is that of its last candle
      obtain ⟨lastC, hlast⟩ : ∃ l, ch.getLast? = some l := by
        cases hq : ch.getLast? with
        | none => simp at hq; exact absurd hq hch
        | some l => exact ⟨l, rfl⟩
      obtain ⟨n1, hn1⟩ : ∃ n1, lastC.ts = some n1 := by
        cases hq : lastC.ts with
        | none => exact absurd hq (hsch.stamped lastC (by simp [List.mem_of_getLast? hlast]))
        | some t => exact ⟨t, rfl⟩
      have hnew : newest (s ++ ch) = some n1 := by
        unfold newest
        rw [List.getLast?_append, hlast]; simp [hn1]
      have hempty : ch.isEmpty = false := by cases ch <;> simp at hch ⊢
      -- old window ++ new chunk, trimmed with the new bound = whole prefix filtered with the new bound
      have hle : ∀ c ∈ s, ∀ t, c.ts = some t → t ≤ n1 := by
        intro c hc t ht
        have := hsch.sorted
        rw [List.filterMap_append] at this
        exact (List.pairwise_append.1 this).2.2 t (List.mem_filterMap.2 ⟨c, hc, ht⟩) n1
          (List.mem_filterMap.2 ⟨lastC, List.mem_of_getLast? hlast, hn1⟩)
      have hsorted' : SortedStamped (s.filter (inWindow n life) ++ ch) :=
        ⟨fun c hc => by
            rcases List.mem_append.1 hc with h | h
            · exact hsch.stamped c (by simp [(List.mem_filter.1 h).1])
            · exact hsch.stamped c (by simp [h]),
         by
            have hsub : (s.filter (inWindow n life) ++ ch).Sublist (s ++ ch) :=
              List.Sublist.append List.filter_sublist (List.Sublist.refl _)
            exact (hsch.sorted).sublist (hsub.filterMap _)⟩
      have hnew' : newest (s.filter (inWindow n life) ++ ch) = some n1 := by
        unfold newest
        rw [List.getLast?_append, hlast]; simp [hn1]
      have htrim := window life hlife _ hsorted' n1 hnew'
      have hfilter : (s.filter (inWindow n life) ++ ch).filter (inWindow n1 life)
          = (s ++ ch).filter (inWindow n1 life) := by
        rw [List.filter_append, List.filter_append, List.filter_filter]
        congr 1
        apply List.filter_congr
        intro c hc
        -- inside the new window implies inside the old one (the newest stamp only grows)
        rcases hn with hse | hn
        · subst hse; simp at hc
        · cases hts : c.ts with
          | none => simp [inWindow, tooOld, hts]
          | some t =>
            have hnle : n ≤ n1 := by
              unfold newest at hn
              cases hq : s.getLast? with
              | none => rw [hq] at hn; cases hn
              | some l =>
                rw [hq] at hn
                exact hle l (List.mem_of_getLast? hq) n (by simpa using hn)
            simp only [inWindow, tooOld, hts, Bool.and_eq_true, Bool.not_eq_true', decide_eq_false_iff_not, not_lt]
            by_cases h1 : n1 - life ≤ t
            · have : n - life ≤ t := by linarith
              simp [h1, this]
            · simp [h1]
      have happ : Manager.append ({ cfg := cfgLife life, candles := s.filter (inWindow n life) } : Manager F) ch
          = .ok { cfg := cfgLife life, candles := (s ++ ch).filter (inWindow n1 life) } := by
        unfold Manager.append
        simp only [hempty, Bool.false_eq_true, if_false, htrim, bind, Except.bind, hfilter]
        rfl
      rw [happ]
      have := ih (s ++ ch) n1 hs' (Or.inr hnew)
      simpa [List.append_assoc] using this

end Hex.C15

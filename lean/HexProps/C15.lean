import HexProofs.Manager.Trim
import HexProofs.Manager2.TwinTreesFillHA
import HexProofs.Writes.MembersC15HA
import HexProofs.Manager2.TwinTreesHA
import HexProofs.Writes.MembersC15
import HexProofs.Manager2.TrimTf
import HexProofs.Manager2.ShiftInst
import HexProofs.Manager2.TwinSched
import HexProofs.Manager2.TwinWindow
import HexProofs.Footprint.Schedule
import HexProofs.Manager2.TwinTrees
import HexProofs.Manager2.TwinTreesTf
import HexProofs.Framework.Gen.AllX
import HexProofs.Lib.IntInst
import HexProps.C03
/-
C15 – Lifespan trimming keeps exactly the window (first clause; every float carrier `F`):
`schedule` (no timeframe) and `schedule_tf` (collapsing timeframe).
The second clause (readings on retained candles equal those of the untrimmed run): PROVED for ALL 27 classes over
whole schedules (construction, `calculate()`, any appends) whenever each popping append retains the class's look-back –
leaf classes `C15b_leaf` / `C15b_FULL_holds` (from the bounded-footprint theorem), every composite
`C15b_trees_FULL_holds` / `C15b_trees_look` (drop law of the whole engine, look-back `treeLook` = max over the tree's nodes,
helper and `_data` series included), and the same on a COLLAPSING TIMEFRAME without / with gap filling `C15b_trees_tf` /
`C15b_trees_tf_fill` (retention counted in closed buckets; `C15b_trees_tf_naive_false`: counting the still-forming bucket
as retained history is not enough – replayed on the library).  The older per-kind forms (`readings_unchanged_by_trimming_*`,
`C15b_partial`, EMA / RMA seeded at construction) are kept.  Open: members of a Hexital, Heikin-Ashi managers.
-/
namespace Hex.C15
open Hex Hex.C03
variable {F : Type} [PyF F]

def cfgLife (life : Int) : MgrCfg := { lifespan := some life }

/-- the window predicate: not older than `newest - life` -/
def inWindow (newest life : Int) (c : Candle F) : Bool := !tooOld (newest - life) c

/-- the newest stamp of a list (stamp of its last candle) -/
def newest (cs : List (Candle F)) : Option Int := cs.getLast?.bind (·.ts)

theorem tasks_life (life : Int) (cs : List (Candle F)) :
    tasks (cfgLife life) cs = trimCandles (some life) cs := by
  unfold tasks cfgLife collapseCandles
  simp [bind, Except.bind]

/-- **The window after one trim.** -/
theorem window (life : Int) (hlife : 0 ≤ life) (cs : List (Candle F)) (h : SortedStamped cs)
    (n : Int) (hn : newest cs = some n) :
    tasks (cfgLife life) cs = .ok (cs.filter (inWindow n life)) := by
  rw [tasks_life]
  unfold newest at hn
  cases hl : cs.getLast? with
  | none => rw [hl] at hn; cases hn
  | some lastC =>
    rw [hl] at hn
    exact trim_eq_window life hlife cs h lastC n hl (by simpa using hn)

theorem sortedStamped_append_left {a b : List (Candle F)} (h : SortedStamped (a ++ b)) : SortedStamped a :=
  ⟨fun c hc => h.stamped c (by simp [hc]), by
    have := h.sorted; rw [List.filterMap_append] at this; exact (List.pairwise_append.1 this).1⟩

theorem sortedStamped_filter {cs : List (Candle F)} (p : Candle F → Bool) (h : SortedStamped cs) :
    SortedStamped (cs.filter p) :=
  ⟨fun c hc => h.stamped c (List.mem_filter.1 hc).1, by
    have hsub : (cs.filter p).Sublist cs := List.filter_sublist
    exact (h.sorted).sublist (hsub.filterMap _)⟩

/-- **Every append schedule.**  After construction and after every append, the retained
candles are exactly the candles of the stream so far that are not older than the newest stamp
minus the lifespan, in order. -/
theorem schedule (life : Int) (hlife : 0 ≤ life) (chunks : List (List (Candle F))) :
    ∀ (s : List (Candle F)) (n : Int), SortedStamped (s ++ chunks.flatten) →
      (s = [] ∨ newest s = some n) →
      ∃ n', (chunks.foldlM (fun (m : Manager F) ch => m.append ch)
              { cfg := cfgLife life, candles := s.filter (inWindow n life) }
            = .ok { cfg := cfgLife life, candles := (s ++ chunks.flatten).filter (inWindow n' life) }) ∧
            (s ++ chunks.flatten = [] ∨ newest (s ++ chunks.flatten) = some n') := by
  induction chunks with
  | nil => intro s n _ hn; exact ⟨n, by simp [List.foldlM, pure, Except.pure], by simpa using hn⟩
  | cons ch rest ih =>
    intro s n hs hn
    have hs' : SortedStamped ((s ++ ch) ++ rest.flatten) := by simpa [List.append_assoc] using hs
    have hsch : SortedStamped (s ++ ch) := sortedStamped_append_left hs'
    simp only [List.foldlM_cons, bind, Except.bind]
    by_cases hch : ch = []
    · subst hch
      have e : Manager.append ({ cfg := cfgLife life, candles := s.filter (inWindow n life) } : Manager F) []
          = .ok { cfg := cfgLife life, candles := s.filter (inWindow n life) } := by
        simp [Manager.append]
      rw [e]
      have := ih s n (by simpa using hs) hn
      simpa using this
    · -- the appended chunk is non-empty: the newest stamp is that of its last candle
      obtain ⟨lastC, hlast⟩ : ∃ l, ch.getLast? = some l := by
        cases hq : ch.getLast? with
        | none => simp at hq; exact absurd hq hch
        | some l => exact ⟨l, rfl⟩
      obtain ⟨n1, hn1⟩ : ∃ n1, lastC.ts = some n1 := by
        cases hq : lastC.ts with
        | none => exact absurd hq (hsch.stamped lastC (by simp [List.mem_of_getLast? hlast]))
        | some t => exact ⟨t, rfl⟩
      have hnew : newest (s ++ ch) = some n1 := by
        unfold newest
        rw [List.getLast?_append, hlast]; simp [hn1]
      have hempty : ch.isEmpty = false := by cases ch <;> simp at hch ⊢
      -- old window ++ new chunk, trimmed with the new bound = whole prefix filtered with the new bound
      have hle : ∀ c ∈ s, ∀ t, c.ts = some t → t ≤ n1 := by
        intro c hc t ht
        have := hsch.sorted
        rw [List.filterMap_append] at this
        exact (List.pairwise_append.1 this).2.2 t (List.mem_filterMap.2 ⟨c, hc, ht⟩) n1
          (List.mem_filterMap.2 ⟨lastC, List.mem_of_getLast? hlast, hn1⟩)
      have hsorted' : SortedStamped (s.filter (inWindow n life) ++ ch) :=
        ⟨fun c hc => by
            rcases List.mem_append.1 hc with h | h
            · exact hsch.stamped c (by simp [(List.mem_filter.1 h).1])
            · exact hsch.stamped c (by simp [h]),
         by
            have hsub : (s.filter (inWindow n life) ++ ch).Sublist (s ++ ch) :=
              List.Sublist.append List.filter_sublist (List.Sublist.refl _)
            exact (hsch.sorted).sublist (hsub.filterMap _)⟩
      have hnew' : newest (s.filter (inWindow n life) ++ ch) = some n1 := by
        unfold newest
        rw [List.getLast?_append, hlast]; simp [hn1]
      have htrim := window life hlife _ hsorted' n1 hnew'
      have hfilter : (s.filter (inWindow n life) ++ ch).filter (inWindow n1 life)
          = (s ++ ch).filter (inWindow n1 life) := by
        rw [List.filter_append, List.filter_append, List.filter_filter]
        congr 1
        apply List.filter_congr
        intro c hc
        -- inside the new window implies inside the old one (the newest stamp only grows)
        rcases hn with hse | hn
        · subst hse; simp at hc
        · cases hts : c.ts with
          | none => simp [inWindow, tooOld, hts]
          | some t =>
            have hnle : n ≤ n1 := by
              unfold newest at hn
              cases hq : s.getLast? with
              | none => rw [hq] at hn; cases hn
              | some l =>
                rw [hq] at hn
                exact hle l (List.mem_of_getLast? hq) n (by simpa using hn)
            simp only [inWindow, tooOld, hts, Bool.and_eq_true, Bool.not_eq_true', decide_eq_false_iff_not, not_lt]
            by_cases h1 : n1 - life ≤ t
            · have : n - life ≤ t := by linarith
              simp [h1, this]
            · simp [h1]
      have happ : Manager.append ({ cfg := cfgLife life, candles := s.filter (inWindow n life) } : Manager F) ch
          = .ok { cfg := cfgLife life, candles := (s ++ ch).filter (inWindow n1 life) } := by
        unfold Manager.append
        simp only [hempty, Bool.false_eq_true, if_false, htrim, bind, Except.bind, hfilter]
        rfl
      rw [happ]
      have := ih (s ++ ch) n1 hs' (Or.inr hnew)
      simpa [List.append_assoc] using this

/-! ### with a collapsing timeframe -/

omit [PyF F] in
theorem rawBk_of {xs : List (Candle F)} (h : RawStream xs) : RawBk xs := ⟨h.stamped, h.plain, h.sorted⟩

omit [PyF F] in
theorem inWindow_eq (n life : Int) : (inWindow n life : Candle F → Bool) = fun c => !tooOld (n - life) c := rfl

/-- **Every append schedule on a collapsing timeframe.**  After construction and after every
append (the statement holds for every schedule, hence for every prefix of one) the retained
candles are exactly the buckets of the resampled stream so far (`resample tf`, C03) that are not
older than the newest bucket stamp minus the lifespan, in order; no call raises.  Trimming drops
whole leading buckets and never the newest one, so re-collapsing the retained buckets with later
candles loses nothing. -/
theorem schedule_tf (tf : Int) (htf : 0 < tf) (life : Int) (hlife : 0 ≤ life)
    (init : List (Candle F)) (chunks : List (List (Candle F))) (h : RawStream (init ++ chunks.flatten)) :
    ∃ n', runSchedule (cfgTfLife tf life) init chunks
        = .ok { cfg := cfgTfLife tf life,
                candles := (resample tf (init ++ chunks.flatten)).filter (inWindow n' life) } ∧
      (init ++ chunks.flatten = [] ∨ newest (resample tf (init ++ chunks.flatten)) = some n') := by
  have hraw : RawBk (init ++ chunks.flatten) := rawBk_of h
  suffices H : ∀ (chunks : List (List (Candle F))) (s : List (Candle F)) (n : Int), RawBk (s ++ chunks.flatten) →
      (s = [] ∨ newest (resample tf s) = some n) →
      ∃ n', (chunks.foldlM (fun (m : Manager F) ch => m.append ch)
              { cfg := cfgTfLife tf life, candles := (resample tf s).filter (inWindow n life) }
            = .ok { cfg := cfgTfLife tf life,
                    candles := (resample tf (s ++ chunks.flatten)).filter (inWindow n' life) }) ∧
            (s ++ chunks.flatten = [] ∨ newest (resample tf (s ++ chunks.flatten)) = some n') by
    unfold runSchedule Manager.init
    obtain ⟨n0, h0, hn0, _⟩ := tasks_tf_life_append tf htf life hlife [] init
      (by simpa using hraw.append_left) 0 (Or.inl rfl)
    simp only [resample, resampleR, List.foldl_nil, List.reverse_nil, List.filter_nil, List.nil_append] at h0 hn0
    rw [h0]
    simp only [bind, Except.bind, pure, Except.pure]
    exact H chunks init n0 hraw (by simpa [newest, resample, resampleR] using hn0)
  intro chunks
  induction chunks with
  | nil => intro s n _ hn; exact ⟨n, by simp [List.foldlM, pure, Except.pure], by simpa using hn⟩
  | cons ch rest ih =>
    intro s n hs hn
    have hs' : RawBk ((s ++ ch) ++ rest.flatten) := by simpa [List.append_assoc] using hs
    simp only [List.foldlM_cons, bind, Except.bind]
    by_cases hch : ch = []
    · subst hch
      have e : Manager.append ({ cfg := cfgTfLife tf life, candles := (resample tf s).filter (inWindow n life) } : Manager F) []
          = .ok { cfg := cfgTfLife tf life, candles := (resample tf s).filter (inWindow n life) } := by
        simp [Manager.append]
      rw [e]
      have := ih s n (by simpa using hs) hn
      simpa using this
    · have hempty : ch.isEmpty = false := by cases ch <;> simp at hch ⊢
      obtain ⟨n1, h1, hn1, _⟩ := tasks_tf_life_append tf htf life hlife s ch hs'.append_left n hn
      have happ : Manager.append ({ cfg := cfgTfLife tf life, candles := (resample tf s).filter (inWindow n life) } : Manager F) ch
          = .ok { cfg := cfgTfLife tf life, candles := (resample tf (s ++ ch)).filter (inWindow n1 life) } := by
        unfold Manager.append
        simp only [hempty, Bool.false_eq_true, if_false, inWindow_eq, h1, bind, Except.bind]
        rfl
      rw [happ]
      have hn1' : s ++ ch = [] ∨ newest (resample tf (s ++ ch)) = some n1 := hn1
      have := ih (s ++ ch) n1 hs' hn1'
      simpa [List.append_assoc] using this

/-- the retained buckets are a SUFFIX of the resampled stream (whole leading buckets are dropped,
nothing else), and the newest bucket is always retained -/
theorem window_is_suffix (tf : Int) (htf : 0 < tf) (life : Int) (hlife : 0 ≤ life) (xs : List (Candle F))
    (h : RawStream xs) (n : Int) (hn : newest (resample tf xs) = some n) :
    (resample tf xs).filter (inWindow n life) <:+ resample tf xs ∧
    (resample tf xs).getLast? = ((resample tf xs).filter (inWindow n life)).getLast? := by
  have hraw := rawBk_of h
  have hb := resampleR_bucketed tf htf xs (hraw.cleanOk tf) (labelsMono_of_sorted tf htf xs h.sorted)
  have hSS : SortedStamped (resample tf xs) := sortedStamped_of_bucketedR tf _ hb
  rw [inWindow_eq, ← dropWhile_eq_filter_sorted (n - life) _ hSS]
  refine ⟨List.dropWhile_suffix _, ?_⟩
  unfold newest at hn
  cases hl : (resample tf xs).getLast? with
  | none => rw [hl] at hn; cases hn
  | some lastC =>
    rw [hl] at hn
    have hlt : lastC.ts = some n := by simpa using hn
    have hkeep : tooOld (n - life) lastC = false := by
      simp only [tooOld, hlt, decide_eq_false_iff_not, not_lt]; linarith
    have hsplit := (List.takeWhile_append_dropWhile (p := tooOld (n - life)) (l := resample tf xs))
    have hne : (resample tf xs).dropWhile (tooOld (n - life)) ≠ [] := by
      intro he
      rw [he, List.append_nil] at hsplit
      have hmem : lastC ∈ (resample tf xs).takeWhile (tooOld (n - life)) := by
        rw [hsplit]; exact List.mem_of_getLast? hl
      have := mem_takeWhile_imp' _ _ lastC hmem
      rw [hkeep] at this; cases this
    have : (resample tf xs).getLast? = ((resample tf xs).dropWhile (tooOld (n - life))).getLast? := by
      conv_lhs => rw [← hsplit]
      rw [List.getLast?_append]
      cases hq : ((resample tf xs).dropWhile (tooOld (n - life))).getLast? with
      | none => exact absurd (List.getLast?_eq_none_iff.1 hq) hne
      | some q => simp
    rw [← this, hl]

/-! ### non-vacuity -/

example : RawStream C03.demo := ⟨by decide, by decide, by decide⟩

/-- the demo stream appended one candle at a time from an EMPTY manager, 60-second timeframe,
lifespan 30 s: only the newest bucket (stamp 180) is retained; with lifespan 60 s both are -/
example : ((runSchedule (cfgTfLife 60 30) [] [[C03.demo[0]], [C03.demo[1]], [C03.demo[2]]]).toOption.map
      (fun m => m.candles.map (·.ts))) = some [some 180] := by decide
example : ((runSchedule (cfgTfLife 60 60) [] [[C03.demo[0]], [C03.demo[1]], [C03.demo[2]]]).toOption.map
      (fun m => m.candles.map (·.ts))) = some [some 120, some 180] := by decide

/-! ### second clause: the readings on the retained candles -/

/-- **Shift invariance of one reading** (purely recursive leaf kinds, through `calcKind` with any
helper services): computing index `i - d` on the list whose first `d` candles were popped gives
the reading of index `i` on the untrimmed list (and returns the popped list), as long as ONE
predecessor is retained (`d ≤ i - 1`) and, for EMA / RMA, the recurrence has been seeded. -/
theorem readings_unchanged_by_trimming_reading (ops ops' : Ops F) (ind : Ind F) (hk : OnePred ind.kind)
    (cs : List (Candle F)) (i : Int) (d : Nat) (hd : (d : Int) + 1 ≤ i) (hi : i < cs.length)
    (hs : Seeded ind.kind { cs := cs, i := i, name := ind.name }) :
    calcKind ops' ind { cs := cs.drop d, i := i - d, name := ind.name }
      = (calcKind ops ind { cs := cs, i := i, name := ind.name }).map (fun r => (r.1, r.2.drop d)) :=
  calcKind_shift ops ops' ind hk cs i d hd hi hs

/-- EMA before seeding: shift-invariant when the whole start-up window (`period` candles ending at
the current one) and one more index are retained -/
theorem readings_unchanged_by_trimming_ema_window (x : Ctx F) (d : Nat) (p : Int) (input : String)
    (sm : Num F) (hp : 1 ≤ p) (hd : (d : Int) + 1 ≤ x.i) (hi : x.i < x.cs.length) (hw : (d : Int) + p ≤ x.i + 1) :
    Calc.ema (x.shift d) p input sm = Calc.ema x p input sm := ema_shift_window x d p input sm hp hd hi hw

/-- SMA (running update reads `index - period`): shift-invariant when `period` predecessors are retained -/
theorem readings_unchanged_by_trimming_sma_window (x : Ctx F) (d : Nat) (p : Int) (input : String)
    (hp : 1 ≤ p) (hi : x.i < x.cs.length) (hw : (d : Int) + p ≤ x.i) :
    Calc.sma (x.shift d) p input = Calc.sma x p input := sma_shift_window x d p input hp hi hw

/-- ROC (reads `index - period`): shift-invariant when `period` (≥ 1: one) predecessors are retained -/
theorem readings_unchanged_by_trimming_roc_window (x : Ctx F) (d : Nat) (p : Int) (input : String)
    (hp : 0 ≤ p) (hi : x.i < x.cs.length) (hd : (d : Int) + 1 ≤ x.i) (hw : (d : Int) + p ≤ x.i) :
    Calc.roc (x.shift d) p input = Calc.roc x p input := roc_shift_window x d p input hp hi hd hw

/-- **One `append` on a trimmed indicator next to its untrimmed twin – HLA, TR, OBV, Counter.**
`a`: the finished candles of the untrimmed twin; the trimmed indicator holds `a.drop d₀`.  Both
receive `new`.  If the trim of this append (result `r`) leaves ONE already finished candle – the
predecessor of the first new candle – (`KeepOK`), the trimmed indicator ends with exactly
the untrimmed twin's candles minus the popped ones: identical readings on every retained candle,
and the same exception if a reading raises.  Covers `_find_calc_index` on the popped list, the
skip test, the index shift of every read and of the write. -/
theorem readings_unchanged_by_trimming_append_free (ind : Ind F) (hl : IsLeaf ind) (hk : OnePredFree ind.kind)
    (life : Int) (a new r : List (Candle F)) (d₀ : Nat) (actA actB : Int) (hd₀ : d₀ ≤ a.length)
    (hfin : ∀ c ∈ a, hasKey ind.name c = true) (hnew : ∀ c ∈ new, Plain c) (hne : new ≠ [])
    (htrim : trimCandles (some life) (a.drop d₀ ++ new) = .ok r)
    (hkeep : KeepOK a (a.length + new.length - r.length)) :
    candlesOf (IndState.append ({ tree := ind, mgr := { cfg := cfgLife life, candles := a.drop d₀ }, active := actB } : IndState F) new)
      = (candlesOf (IndState.append ({ tree := ind, mgr := { cfg := {}, candles := a }, active := actA } : IndState F)
          new)).map (·.drop (a.length + new.length - r.length)) :=
  append_trimmed ind hl (shiftOK_free ind hk) life a new r d₀ actA actB hd₀ hfin hnew hne htrim hkeep trivial

/-- the same for **EMA**, once seeded (the last finished candle of the twin holds a non-`None` EMA) -/
theorem readings_unchanged_by_trimming_append_ema (ind : Ind F) (hl : IsLeaf ind) (p : Int) (input : String)
    (sm : Num F) (hk : ind.kind = .ema p input sm) (hname : IsKey ind.name)
    (life : Int) (a new r : List (Candle F)) (d₀ : Nat) (actA actB : Int) (hd₀ : d₀ ≤ a.length)
    (hfin : ∀ c ∈ a, hasKey ind.name c = true) (hnew : ∀ c ∈ new, Plain c) (hne : new ≠ [])
    (htrim : trimCandles (some life) (a.drop d₀ ++ new) = .ok r)
    (hkeep : KeepOK a (a.length + new.length - r.length))
    (hseed : (Ctx.lastReading ind.name a).isNone = false) :
    candlesOf (IndState.append ({ tree := ind, mgr := { cfg := cfgLife life, candles := a.drop d₀ }, active := actB } : IndState F) new)
      = (candlesOf (IndState.append ({ tree := ind, mgr := { cfg := {}, candles := a }, active := actA } : IndState F)
          new)).map (·.drop (a.length + new.length - r.length)) :=
  append_trimmed ind hl (emaShiftOK ind p input sm hk hname) life a new r d₀ actA actB hd₀ hfin hnew hne htrim hkeep
    (seeded_at_end a new ind.name hne hseed)

/-- the same for **RMA** (Wilder), once seeded -/
theorem readings_unchanged_by_trimming_append_rma (ind : Ind F) (hl : IsLeaf ind) (p : Int) (input : String)
    (hk : ind.kind = .rma p input) (hname : IsKey ind.name)
    (life : Int) (a new r : List (Candle F)) (d₀ : Nat) (actA actB : Int) (hd₀ : d₀ ≤ a.length)
    (hfin : ∀ c ∈ a, hasKey ind.name c = true) (hnew : ∀ c ∈ new, Plain c) (hne : new ≠ [])
    (htrim : trimCandles (some life) (a.drop d₀ ++ new) = .ok r)
    (hkeep : KeepOK a (a.length + new.length - r.length))
    (hseed : (Ctx.lastReading ind.name a).isNone = false) :
    candlesOf (IndState.append ({ tree := ind, mgr := { cfg := cfgLife life, candles := a.drop d₀ }, active := actB } : IndState F) new)
      = (candlesOf (IndState.append ({ tree := ind, mgr := { cfg := {}, candles := a }, active := actA } : IndState F)
          new)).map (·.drop (a.length + new.length - r.length)) :=
  append_trimmed ind hl (rmaShiftOK ind p input hk hname) life a new r d₀ actA actB hd₀ hfin hnew hne htrim hkeep
    (seeded_at_end a new ind.name hne hseed)

/-- one retained finished candle satisfies `KeepOK` -/
theorem keep_one (a new r : List (Candle F)) (h : new.length + 1 ≤ r.length)
    (hr : r.length ≤ a.length + new.length) : KeepOK a (a.length + new.length - r.length) :=
  keepOK_of_one a new r h hr

/-! #### the second clause over a whole schedule -/

/-- finished candles that must survive each trim, per leaf kind, for every state (`none`: kind not
covered by this statement).  `1` is the one predecessor of a purely recursive kind (since the repair
of `_find_calc_index` – its backward scan inspects index 0 – the resume logic needs no more);
`period`-sized entries are the start-up windows / explicit look-backs. -/
def lookBack : Kind F → Option Nat
  | .hla | .tr | .obv | .counter .. => some 1
  | .ema p _ _ | .rma p _ => some (max 1 (p - 1).toNat)
  | .wma p _ | .vwma p => some (max 1 (p - 1).toNat)
  | .sma p _ | .roc p _ => some (max 1 p.toNat)
  | _ => none

/-- **C15, second clause, full strength for leaf indicators** (proved for HLA, TR, OBV, Counter:
`C15b_partial`; for EMA / RMA seeded at construction: `readings_unchanged_by_trimming_schedule_ema/_rma`).
The hypothesis is on the raw lifespan manager only (`RetainsFrom L`, HexProofs/Manager2/TwinSched.lean):
nothing is popped at construction, every trim succeeds, and at every non-empty append either
nothing has been popped so far or at least `L` candles from before the append are retained.  Then
the lifespan-trimmed indicator ends with the candles of its untrimmed twin minus the popped ones:
same readings on every retained candle, same exception if a reading raises.
Missing: (1) unseeded EMA / RMA and SMA, ROC, WMA, VWMA at the loop level (the single-reading
shift lemmas of SMA, EMA, ROC are above; the loop needs their reachable-state invariants);
(2) HL, Donchian, Aroon, Amorph (`lookBack = none`); (3) every composite indicator (sub-indicators,
managed helpers) and Hexital; (4) the combination with a timeframe (first clause: `schedule_tf`). -/
def C15b_FULL : Prop :=
  ∀ (k : Kind F) (name : String) (round : Nat) (L : Nat), Covered name k → lookBack k = some L →
    ∀ (life : Int) (init : List (Candle F)) (chunks : List (List (Candle F))),
      (∀ c ∈ init ++ chunks.flatten, Plain c) → trimCandles (some life) init = .ok init →
      RetainsFrom L life init init.length chunks →
      ∃ d, candlesOf (runIndicator (mkTop k name round) (cfgLife life) init chunks)
        = (candlesOf (runIndicator (mkTop k name round) {} init chunks)).map (·.drop d)

/-- **Every append schedule – HLA, TR, OBV, Counter** (the instances of `C15b_FULL` with look-back
1: ONE predecessor retained at every append that pops).  Construction, `calculate()` and any sequence of appends: the trimmed indicator's candles are
the untrimmed twin's candles minus the popped ones. -/
theorem C15b_partial (k : Kind F) (name : String) (round : Nat) (hc : Covered name k) (hk : OnePredFree k)
    (life : Int) (init : List (Candle F)) (chunks : List (List (Candle F)))
    (hp : ∀ c ∈ init ++ chunks.flatten, Plain c) (hinit : trimCandles (some life) init = .ok init)
    (hret : RetainsFrom 1 life init init.length chunks) :
    ∃ d, candlesOf (runIndicator (mkTop k name round) (cfgLife life) init chunks)
      = (candlesOf (runIndicator (mkTop k name round) {} init chunks)).map (·.drop d) := by
  obtain ⟨K⟩ := hc.contract round
  exact twin_schedule_free (mkTop k name round) (hc.isLeaf round) K (by rw [mkTop_kind]; exact hk)
    life init chunks hp hinit hret

theorem lookBack_free (k : Kind F) (hk : OnePredFree k) : lookBack k = some 1 := by
  cases hk <;> rfl

theorem lookBack_eq (k : Kind F) : lookBack k = lookBackW k := by cases k <;> rfl

/-- **`C15b_FULL` holds**: the second clause for HLA, TR, OBV, Counter (one predecessor), SMA, ROC (`period`
predecessors), WMA, VWMA and EMA / RMA WITHOUT any seededness assumption (`period − 1` predecessors: the
seed window), over every construction prefix and append schedule.  (HexProofs/Manager2/TwinWindow.lean:
the schedule induction of TwinSched generalised from one retained predecessor to `RetainsFrom L`.) -/
theorem C15b_FULL_holds : C15b_FULL (F := F) := by
  intro k name round L hc hL life init chunks hp hinit hret
  exact C15b_full_leaf k name round L hc (by rw [← lookBack_eq]; exact hL) life init chunks hp hinit hret

/-- **C15, second clause, EVERY leaf class** (HighestLowest, Donchian, Aroon and `Amorph` over the 20 analysis
functions included): with `W = Hex.window k` the footprint of one reading (HexProofs/Footprint/Kinds.lean – a reading
at index `i` only touches candles `i − W … i`, with no state condition), every append schedule that at each
popping append retains `max 1 W` finished candles leaves the trimmed indicator with the candles of its untrimmed
twin minus the popped ones: same readings on every retained candle, same exception if a reading raises. -/
theorem C15b_leaf (k : Kind F) (name : String) (round : Nat) (hc : Covered name k)
    (W : Nat) (hw : Hex.window k = some W)
    (life : Int) (init : List (Candle F)) (chunks : List (List (Candle F)))
    (hp : ∀ c ∈ init ++ chunks.flatten, Plain c)
    (hinit : trimCandles (some life) init = .ok init)
    (hret : RetainsFrom (max 1 W) life init init.length chunks) :
    ∃ d, candlesOf (runIndicator (mkTop k name round) (cfgLife life) init chunks)
        = (candlesOf (runIndicator (mkTop k name round) {} init chunks)).map (·.drop d) :=
  twin_schedule_window k name round hc W hw life init chunks hp hinit hret

/-- every covered leaf kind has such a window -/
theorem C15b_leaf_total (k : Kind F) (name : String) (hc : Covered name k) : ∃ W, Hex.window k = some W :=
  hc.window_some

/-- **The second clause for every shipped class** – composite indicators included (their helper series must be
retained as well: the look-back of a tree is the maximum over its nodes, and the resume logic of every helper
must find its predecessor).  PROVED below (`C15b_trees_FULL_holds`, with the explicit look-back
`Hex.treeLook` in `C15b_trees_look`).  The combination with a collapsing timeframe, with or without gap filling, is PROVED as well (`C15b_trees_tf`,
`C15b_trees_tf_fill` at the end of this file: retention counted in CLOSED buckets).  Still open for the second clause:
members of a Hexital, Heikin-Ashi managers – C15b oracle (untrimmed twin, tightest admissible window) and the tie only. -/
def C15b_trees_FULL : Prop :=
  ∀ (k : Kind F) (name : String) (round : Nat), CoveredTreeX name k →
    ∃ L : Nat, ∀ (life : Int) (init : List (Candle F)) (chunks : List (List (Candle F))),
      (∀ c ∈ init ++ chunks.flatten, Plain c) → trimCandles (some life) init = .ok init →
      RetainsFrom L life init init.length chunks →
      ∀ a b, candlesOf (runIndicator (mkTop k name round) (cfgLife life) init chunks) = .ok a →
        candlesOf (runIndicator (mkTop k name round) {} init chunks) = .ok b →
        ∃ d, a = b.drop d

/-- **`C15b_trees_FULL` holds**: for every one of the 27 shipped classes (`CoveredTreeX`: leaf kinds, VWAP / STDEV /
RSI, ATR / KC / BBANDS / STDEVTHRES / Supertrend, MACD / HMA / STOCH / TSI / ADX) and EVERY append schedule on which
each popping append retains the tree's look-back, the lifespan-trimmed indicator ends with the candles of its
untrimmed twin minus the popped ones – top readings, helper series and `_data` series alike. -/
theorem C15b_trees_FULL_holds : C15b_trees_FULL (F := F) := Hex.C15b_trees

/-- … with the look-back made explicit: `treeLook k name round = max 1 (max over ALL nodes of the tree of the node's
own window)`; e.g. ATR `max (p-1) 1`, RSI `max p 1`, MACD `max (max (fast-1) (slow-1)) (max (signal-1) 1)`. -/
theorem C15b_trees_look (k : Kind F) (name : String) (round : Nat) (hc : CoveredTreeX name k)
    (life : Int) (init : List (Candle F)) (chunks : List (List (Candle F)))
    (hp : ∀ c ∈ init ++ chunks.flatten, Plain c) (hinit : trimCandles (some life) init = .ok init)
    (hret : RetainsFrom (treeLook k name round) life init init.length chunks) (a b : List (Candle F))
    (ha : candlesOf (runIndicator (mkTop k name round) (cfgLife life) init chunks) = .ok a)
    (hb : candlesOf (runIndicator (mkTop k name round) {} init chunks) = .ok b) : ∃ d, a = b.drop d :=
  Hex.C15b_trees_look k name round hc life init chunks hp hinit hret a b ha hb

/-- **Every append schedule – EMA**, when the recurrence is already seeded after construction (the
last candle of the constructed indicator holds a non-`None` EMA); ONE retained predecessor then
suffices at every append. -/
theorem readings_unchanged_by_trimming_schedule_ema (p : Int) (input : String) (sm : Num F) (name : String)
    (round : Nat) (hc : Covered name (.ema p input sm)) (hname : IsKey name)
    (life : Int) (init : List (Candle F)) (chunks : List (List (Candle F)))
    (hp : ∀ c ∈ init ++ chunks.flatten, Plain c) (hinit : trimCandles (some life) init = .ok init)
    (hseed : ∀ a, rowMajor (mkTop (.ema p input sm) name round) init = .ok a → SeededEnd name a)
    (hret : RetainsFrom 1 life init init.length chunks) :
    ∃ d, candlesOf (runIndicator (mkTop (.ema p input sm) name round) (cfgLife life) init chunks)
      = (candlesOf (runIndicator (mkTop (.ema p input sm) name round) {} init chunks)).map (·.drop d) := by
  obtain ⟨K⟩ := hc.contract round
  exact twin_schedule_ema _ (hc.isLeaf round) K p input sm (mkTop_kind _ _ _)
    (by rw [mkTop_name]; exact hname) life init chunks hp hinit
    (by intro a ha; rw [mkTop_name]; exact hseed a ha) hret

/-- **Every append schedule – RMA** (Wilder), seeded after construction -/
theorem readings_unchanged_by_trimming_schedule_rma (p : Int) (input : String) (name : String)
    (round : Nat) (hc : Covered (F := F) name (.rma p input)) (hname : IsKey name)
    (life : Int) (init : List (Candle F)) (chunks : List (List (Candle F)))
    (hp : ∀ c ∈ init ++ chunks.flatten, Plain c) (hinit : trimCandles (some life) init = .ok init)
    (hseed : ∀ a, rowMajor (mkTop (.rma p input) name round) init = .ok a → SeededEnd name a)
    (hret : RetainsFrom 1 life init init.length chunks) :
    ∃ d, candlesOf (runIndicator (mkTop (.rma p input) name round) (cfgLife life) init chunks)
      = (candlesOf (runIndicator (mkTop (.rma p input) name round) {} init chunks)).map (·.drop d) := by
  obtain ⟨K⟩ := hc.contract round
  exact twin_schedule_rma _ (hc.isLeaf round) K p input (mkTop_kind _ _ _)
    (by rw [mkTop_name]; exact hname) life init chunks hp hinit
    (by intro a ha; rw [mkTop_name]; exact hseed a ha) hret

/-! #### non-vacuity of the one-append theorems -/

def obvDemo : Ind Int := mkTop .obv "OBV" 4

/-- three finished candles (60, 120, 180) of the untrimmed twin, one new candle (300) -/
def demoA : List (Candle Int) :=
  [ { o := .int 1, h := .int 3, l := .int 1, c := .int 2, v := .int 10, ts := some 60, inds := [("OBV", .int 10)] },
    { o := .int 2, h := .int 5, l := .int 2, c := .int 4, v := .int 20, ts := some 120, inds := [("OBV", .int 30)] },
    { o := .int 4, h := .int 4, l := .int 0, c := .int 1, v := .int 5, ts := some 180, inds := [("OBV", .int 25)] } ]
def demoNew : List (Candle Int) :=
  [ { o := .int 1, h := .int 2, l := .int 1, c := .int 2, v := .int 7, ts := some 300 } ]

example : IsLeaf obvDemo := isLeaf_mkTop _ _ _ rfl rfl
example : OnePredFree obvDemo.kind := .obv
example : ∀ c ∈ demoA, hasKey obvDemo.name c = true := by decide
example : ∀ c ∈ demoNew, Plain c := by decide
/-- lifespan 120 s: the append of the candle stamped 300 pops the candles stamped 60 and 120 –
exactly ONE finished candle (180) is retained -/
example : trimCandles (some 120) (demoA.drop 0 ++ demoNew) = .ok ((demoA ++ demoNew).drop 2) := rfl
example : KeepOK demoA (demoA.length + demoNew.length - ((demoA ++ demoNew).drop 2).length) :=
  keep_one demoA demoNew _ (by decide) (by decide)

/-- all hypotheses of the one-append theorem hold together on the demo -/
example :
    candlesOf (IndState.append ({ tree := obvDemo, mgr := { cfg := cfgLife 120, candles := demoA.drop 0 }, active := 2 } : IndState Int) demoNew)
      = (candlesOf (IndState.append ({ tree := obvDemo, mgr := { cfg := {}, candles := demoA }, active := 2 } : IndState Int)
          demoNew)).map (·.drop (demoA.length + demoNew.length - ((demoA ++ demoNew).drop 2).length)) :=
  readings_unchanged_by_trimming_append_free obvDemo (isLeaf_mkTop _ _ _ rfl rfl) .obv 120 demoA demoNew _ 0 2 2
    (by decide) (by decide) (by decide) (by decide) rfl (keep_one demoA demoNew _ (by decide) (by decide))

/-- raw candles for the schedule theorem: construct with three (nothing popped), append the candle
stamped 300 (lifespan 120 s pops 60 and 120: ONE predecessor is retained), then an empty chunk -/
def demoRaw : List (Candle Int) :=
  [ { o := .int 1, h := .int 3, l := .int 1, c := .int 2, v := .int 10, ts := some 60 },
    { o := .int 2, h := .int 5, l := .int 2, c := .int 4, v := .int 20, ts := some 120 },
    { o := .int 4, h := .int 4, l := .int 0, c := .int 1, v := .int 5, ts := some 180 } ]

example : ∀ c ∈ demoRaw ++ [demoNew, []].flatten, Plain c := by decide
example : trimCandles (some 120) demoRaw = .ok demoRaw := rfl
example : RetainsFrom 1 120 demoRaw demoRaw.length [demoNew, []] :=
  Or.inr ⟨by decide, (demoRaw ++ demoNew).drop 2, rfl, Or.inr (by decide), Or.inl ⟨rfl, trivial⟩⟩
example : Covered (F := Int) "OBV" .obv := .obv

/-- the schedule theorem applied to the demo -/
example : ∃ d, candlesOf (runIndicator (mkTop (F := Int) .obv "OBV" 4) (cfgLife 120) demoRaw [demoNew, []])
    = (candlesOf (runIndicator (mkTop (F := Int) .obv "OBV" 4) {} demoRaw [demoNew, []])).map (·.drop d) :=
  C15b_partial .obv "OBV" 4 .obv .obv 120 demoRaw [demoNew, []] (by decide) rfl
    (Or.inr ⟨by decide, (demoRaw ++ demoNew).drop 2, rfl, Or.inr (by decide), Or.inl ⟨rfl, trivial⟩⟩)

/-- **C15, second clause, on a collapsing timeframe – every shipped class** (`CoveredTreeX`), every timeframe
`tf > 0`, every lifespan, every construction prefix and append schedule of raw reading-free candles: if the trim
pops nothing at construction and at every non-empty append either nothing has been popped so far or
`treeLook k name round` CLOSED buckets – buckets from before the append that the append does not re-open – are
retained (`Hex.RetainsBuckets`, a condition on the resampled stream only), then whenever the run with
`{timeframe, candles_lifespan}` and its untrimmed twin `{timeframe}` both return, the trimmed indicator holds the
twin's candles minus the popped leading buckets (readings, helper series, `_data`; the forming bucket included).
(HexProofs/Manager2/TwinTreesTf*.lean) -/
theorem C15b_trees_tf (k : Kind F) (name : String) (round : Nat) (hc : CoveredTreeX name k)
    (tf : Int) (htf : 0 < tf) (life : Int) (init : List (Candle F)) (chunks : List (List (Candle F)))
    (hraw : RawStream (init ++ chunks.flatten)) (hp : ∀ c ∈ init ++ chunks.flatten, Plain c)
    (hinit : trimCandles (some life) (resample tf init) = .ok (resample tf init))
    (hret : RetainsBuckets (treeLook k name round) tf life init 0 chunks) (a b : List (Candle F))
    (ha : candlesOf (runIndicator (mkTop k name round) { tf := some tf, lifespan := some life } init chunks) = .ok a)
    (hb : candlesOf (runIndicator (mkTop k name round) { tf := some tf } init chunks) = .ok b) :
    ∃ d, a = b.drop d :=
  Hex.C15b_trees_tf k name round hc tf htf life init chunks ⟨hraw.stamped, hraw.plain, hraw.sorted, hp⟩ hinit hret
    a b ha hb

/-- … and with `timeframe_fill = True` (tasks `collapse → fill → trim`), over the filled bucket list `fillSpec tf` -/
theorem C15b_trees_tf_fill (k : Kind F) (name : String) (round : Nat) (hc : CoveredTreeX name k)
    (tf : Int) (htf : 0 < tf) (life : Int) (init : List (Candle F)) (chunks : List (List (Candle F)))
    (hraw : RawStream (init ++ chunks.flatten)) (hp : ∀ c ∈ init ++ chunks.flatten, Plain c)
    (hinit : trimCandles (some life) (fillSpec tf init) = .ok (fillSpec tf init))
    (hret : RetainsFilled (treeLook k name round) tf life init 0 chunks) (a b : List (Candle F))
    (ha : candlesOf (runIndicator (mkTop k name round) { tf := some tf, fill := true, lifespan := some life }
            init chunks) = .ok a)
    (hb : candlesOf (runIndicator (mkTop k name round) { tf := some tf, fill := true } init chunks) = .ok b) :
    ∃ d, a = b.drop d :=
  Hex.C15b_trees_tf_fill k name round hc tf htf life init chunks ⟨hraw.stamped, hraw.plain, hraw.sorted, hp⟩ hinit
    hret a b ha hb

/-- the retention hypothesis counts CLOSED buckets for a reason: counting every bucket held before the append is
refuted by ROC 2 over `Int` (and on the library) -/
theorem C15b_trees_tf_naive_false :
    ¬ (∀ (k : Kind Int) (name : String) (round : Nat), CoveredTreeX name k → ∀ (tf : Int), 0 < tf →
        ∀ (life : Int) (init : List (Candle Int)) (chunks : List (List (Candle Int))),
        RawTf (init ++ chunks.flatten) → trimCandles (some life) (resample tf init) = .ok (resample tf init) →
        RetainsBucketsNaive (treeLook k name round) tf life init 0 chunks → ∀ a b,
        candlesOf (runIndicator (mkTop k name round) (cfgTfLife tf life) init chunks) = .ok a →
        candlesOf (runIndicator (mkTop k name round) (cfgTf tf) init chunks) = .ok b → ∃ d, a = b.drop d) :=
  Hex.C15b_trees_tf_naive_false

/-- non-vacuity: ATR 3 on one-minute candles collapsed to 120 s, lifespan 360 s, three buckets popped over five
non-empty appends (one merge-only, two merge-and-open) – hypotheses hold, both runs return, trimmed = twin minus 3 -/
example (a b : List (Candle Int)) (ha : runTtf (.atr 3) "ATR_3" = .ok a) (hb : runUtf (.atr 3) "ATR_3" = .ok b) :
    ∃ d, a = b.drop d :=
  C15b_trees_tf (.atr 3) "ATR_3" 4 atrDemoOK 120 (by decide) 360 tfInit tfChunks
    ⟨tfDemo_raw.stamped, tfDemo_raw.cleanNone, tfDemo_raw.sorted⟩ tfDemo_raw.plain tfDemo_init
    (by rw [atrDemo_look]; exact tfDemo_retains) a b ha hb
set_option synthInstance.maxSize 2000 in
example : (runTtf (.atr 3) "ATR_3").toOption.map (·.map view)
    = (runUtf (.atr 3) "ATR_3").toOption.map (fun b => (b.drop 3).map view) := by decide +kernel
example : ((runTtf (.atr 3) "ATR_3").toOption.map (·.map view)).isSome = true := by decide +kernel

#print axioms C15b_trees_tf
#print axioms C15b_trees_tf_fill

/-! ### second clause for MEMBERS OF A HEXITAL (HexProofs/Writes/MembersC15.lean) -/

/-- **C15, second clause, inside a Hexital – member without timeframe of a Hexital without timeframe** (all 27 classes).
`HA`: the Hexital constructed with `candles_lifespan = life`, `calculate()`d and fed the chunks; `HB`: the same
Hexital (same members – any kinds, any timeframes –, same candles) without lifespan.  Under the hypothesis of
`C15b_trees_look` the member's manager in `HA` shows the view of its manager in `HB` minus `d` leading candles
(OHLCV, stamps, top readings, helper and `_data` series), and every column read through `reading_as_list` is the
untrimmed column minus `d`. -/
theorem C15b_member_look {N : List String} {members : List (Member F)} {mem : Member F}
    (hm : MemberHyps N members mem) (k : Kind F) (name : String) (round : Nat) (hc : CoveredTreeX name k)
    (htree : mem.tree = mkTop k name round) (hnone : mem.tfName = none)
    (life : Int) (init : List (Candle F)) (chunks : List (List (Candle F)))
    (hp : ∀ c ∈ init ++ chunks.flatten, Plain c) (hinit : trimCandles (some life) init = .ok init)
    (hret : RetainsFrom (treeLook k name round) life init init.length chunks) (HA HB : Hexital F)
    (hA : runHexSched (cfgLife life) none init members chunks = .ok HA)
    (hB : runHexSched {} none init members chunks = .ok HB) :
    ∃ d mA mB, HA.memberManager mem.tree.name = some mA ∧ HB.memberManager mem.tree.name = some mB ∧
      mA.cfg = cfgLife life ∧ mB.cfg = {} ∧
      SameView mem.tree.allNames mA.candles (mB.candles.drop d) ∧
      ∀ nm, (splitDot nm).headD "" = mem.tree.name → readOK N nm = true →
        ∃ col, HB.readingAsList nm = .ok col ∧ HA.readingAsList nm = .ok (col.drop d) :=
  member_C15b_look hm k name round hc htree hnone life init chunks hp hinit hret HA HB hA hB

/-- **… members on a collapsing timeframe** – the member's own, or the Hexital's (`Member.effTf`); ANY Hexital-level
timeframe `htfx`.  Hypotheses of `C15b_trees_tf` for the member's effective timeframe `tf`. -/
theorem C15b_member_tf {N : List String} {members : List (Member F)} {mem : Member F}
    (hm : MemberHyps N members mem) (k : Kind F) (name : String) (round : Nat) (hc : CoveredTreeX name k)
    (htree : mem.tree = mkTop k name round) (htfx : Option Int) (tfn : Option String) (tf : Int) (htf : 0 < tf)
    (heff : mem.effTf htfx = some tf) (life : Int) (init : List (Candle F)) (chunks : List (List (Candle F)))
    (hraw : RawStream (init ++ chunks.flatten)) (hp : ∀ c ∈ init ++ chunks.flatten, Plain c)
    (hinit : trimCandles (some life) (resample tf init) = .ok (resample tf init))
    (hret : RetainsBuckets (treeLook k name round) tf life init 0 chunks) (HA HB : Hexital F)
    (hA : runHexSched { tf := htfx, lifespan := some life } tfn init members chunks = .ok HA)
    (hB : runHexSched { tf := htfx } tfn init members chunks = .ok HB) :
    ∃ d mA mB, HA.memberManager mem.tree.name = some mA ∧ HB.memberManager mem.tree.name = some mB ∧
      mA.cfg = { tf := some tf, lifespan := some life } ∧ mB.cfg = { tf := some tf } ∧
      SameView mem.tree.allNames mA.candles (mB.candles.drop d) ∧
      ∀ nm, (splitDot nm).headD "" = mem.tree.name → readOK N nm = true →
        ∃ col, HB.readingAsList nm = .ok col ∧ HA.readingAsList nm = .ok (col.drop d) :=
  member_C15b_tf hm k name round hc htree htfx tfn tf htf heff life init chunks
    ⟨hraw.stamped, hraw.plain, hraw.sorted, hp⟩ hinit hret HA HB hA hB

/-- **… and with `timeframe_fill = True`** (hypotheses of `C15b_trees_tf_fill`) -/
theorem C15b_member_tf_fill {N : List String} {members : List (Member F)} {mem : Member F}
    (hm : MemberHyps N members mem) (k : Kind F) (name : String) (round : Nat) (hc : CoveredTreeX name k)
    (htree : mem.tree = mkTop k name round) (htfx : Option Int) (tfn : Option String) (tf : Int) (htf : 0 < tf)
    (heff : mem.effTf htfx = some tf) (life : Int) (init : List (Candle F)) (chunks : List (List (Candle F)))
    (hraw : RawStream (init ++ chunks.flatten)) (hp : ∀ c ∈ init ++ chunks.flatten, Plain c)
    (hinit : trimCandles (some life) (fillSpec tf init) = .ok (fillSpec tf init))
    (hret : RetainsFilled (treeLook k name round) tf life init 0 chunks) (HA HB : Hexital F)
    (hA : runHexSched { tf := htfx, fill := true, lifespan := some life } tfn init members chunks = .ok HA)
    (hB : runHexSched { tf := htfx, fill := true } tfn init members chunks = .ok HB) :
    ∃ d mA mB, HA.memberManager mem.tree.name = some mA ∧ HB.memberManager mem.tree.name = some mB ∧
      mA.cfg = { tf := some tf, fill := true, lifespan := some life } ∧ mB.cfg = { tf := some tf, fill := true } ∧
      SameView mem.tree.allNames mA.candles (mB.candles.drop d) ∧
      ∀ nm, (splitDot nm).headD "" = mem.tree.name → readOK N nm = true →
        ∃ col, HB.readingAsList nm = .ok col ∧ HA.readingAsList nm = .ok (col.drop d) :=
  member_C15b_tf_fill hm k name round hc htree htfx tfn tf htf heff life init chunks
    ⟨hraw.stamped, hraw.plain, hraw.sorted, hp⟩ hinit hret HA HB hA hB


/-- **First clause inside a Hexital** (`schedule_tf` for member managers): for a Hexital with `candles_lifespan = life`
and any Hexital-level timeframe, the manager of a member whose effective timeframe is `tf` retains – after
construction, `calculate()` and any appends – exactly the `tf`-buckets of the raw stream received that are not older
than the newest bucket stamp minus the lifespan (OHLCV / stamps; the reading dicts hold the members' readings). -/
theorem window_member_tf {N : List String} {members : List (Member F)} {mem : Member F}
    (hm : MemberHyps N members mem) (htfx : Option Int) (tfn : Option String) (tf : Int) (htf : 0 < tf)
    (heff : mem.effTf htfx = some tf) (life : Int) (hlife : 0 ≤ life)
    (init : List (Candle F)) (chunks : List (List (Candle F))) (h : RawStream (init ++ chunks.flatten))
    (H : Hexital F) (hrun : runHexSched { tf := htfx, lifespan := some life } tfn init members chunks = .ok H) :
    ∃ n' m, H.memberManager mem.tree.name = some m ∧
      m.candles.map Candle.core
        = ((resample tf (init ++ chunks.flatten)).filter (inWindow n' life)).map Candle.core ∧
      (init ++ chunks.flatten = [] ∨ newest (resample tf (init ++ chunks.flatten)) = some n') := by
  obtain ⟨n', h1, h2⟩ := schedule_tf tf htf life hlife init chunks h
  obtain ⟨m, bm, e1, e2, _, e4⟩ := member_manager_bare_sched hm _ tfn init chunks H hrun
  have hc : mem.effCfg { tf := htfx, lifespan := some life } = cfgTfLife tf life := by
    rw [Member.effCfg_eq]; simp only [heff]; rfl
  rw [hc] at e2
  have : runSchedule (cfgTfLife tf life) init chunks = .ok bm := e2
  rw [h1] at this
  cases this
  exact ⟨n', m, e1, e4, h2⟩

/-- non-vacuity: `ATR_3` on `T2` in a Hexital with `SMA_2` (default manager), `EMA_2_T3` (`T3`), `RSI_2` (`T2`) -/
example := @MembersC15Ex.applied_tf
example := @MembersC15Ex.applied_look
example := @MembersC15Ex.applied_fill

#print axioms window_member_tf
#print axioms C15b_member_look
#print axioms C15b_member_tf
#print axioms C15b_member_tf_fill

/-- **C15, second clause, on a Heikin-Ashi manager – every shipped class** (`CoveredTreeX`), every lifespan, every
construction prefix and append schedule of reading-free, not yet converted candles: under EXACTLY the hypothesis of
`C15b_trees_look` (nothing popped at construction, `treeLook` candles from before each popping append retained –
on the raw stamps), whenever the run with `{candlestick_type = HA, candles_lifespan}` and its untrimmed twin
`{candlestick_type = HA}` both return, the trimmed indicator holds the twin's candles minus the popped ones: same
Heikin-Ashi OHLC (a converted candle is tagged and never converted again, so it keeps the values computed when its
predecessor was still there), saved raw values, readings, helper and `_data` series.
(HexProofs/Manager2/TwinTreesHA.lean: `TwinMgr.ha`) -/
theorem C15b_trees_ha (k : Kind F) (name : String) (round : Nat) (hc : CoveredTreeX name k)
    (life : Int) (init : List (Candle F)) (chunks : List (List (Candle F)))
    (hp : ∀ c ∈ init ++ chunks.flatten, Plain c) (htag : ∀ c ∈ init ++ chunks.flatten, c.tag = false)
    (hinit : trimCandles (some life) init = .ok init)
    (hret : RetainsFrom (treeLook k name round) life init init.length chunks) (a b : List (Candle F))
    (ha : candlesOf (runIndicator (mkTop k name round) { ha := true, lifespan := some life } init chunks) = .ok a)
    (hb : candlesOf (runIndicator (mkTop k name round) { ha := true } init chunks) = .ok b) : ∃ d, a = b.drop d :=
  Hex.C15b_trees_ha k name round hc life init chunks (fun c hc' => ⟨hp c hc', htag c hc'⟩) hinit hret a b ha hb

/-- **… on a collapsing timeframe with Heikin-Ashi conversion**: under EXACTLY the hypothesis of `C15b_trees_tf`
(`RetainsBuckets`: `treeLook` CLOSED buckets of the unconverted resampled stream retained at every popping append).
The bucket an append re-opens is converted again, with the last closed bucket as predecessor – retained because
`treeLook ≥ 1`; no additional bucket is needed.  (`TwinMgr.tfHA`) -/
theorem C15b_trees_tf_ha (k : Kind F) (name : String) (round : Nat) (hc : CoveredTreeX name k)
    (tf : Int) (htf : 0 < tf) (life : Int) (init : List (Candle F)) (chunks : List (List (Candle F)))
    (hraw : RawStream (init ++ chunks.flatten)) (hp : ∀ c ∈ init ++ chunks.flatten, Plain c)
    (htag : ∀ c ∈ init ++ chunks.flatten, c.tag = false)
    (hinit : trimCandles (some life) (resample tf init) = .ok (resample tf init))
    (hret : RetainsBuckets (treeLook k name round) tf life init 0 chunks) (a b : List (Candle F))
    (ha : candlesOf (runIndicator (mkTop k name round) { tf := some tf, ha := true, lifespan := some life }
            init chunks) = .ok a)
    (hb : candlesOf (runIndicator (mkTop k name round) { tf := some tf, ha := true } init chunks) = .ok b) :
    ∃ d, a = b.drop d :=
  Hex.C15b_trees_tf_ha k name round hc tf htf life init chunks
    ⟨⟨hraw.stamped, hraw.plain, hraw.sorted, hp⟩, htag⟩ hinit hret a b ha hb

/-- counting the still-forming bucket as retained history stays insufficient with conversion (ROC 2 over `Int`,
replayed on the library: same HA values, `None` instead of `140.9091` on the re-opened bucket) -/
theorem C15b_trees_tf_ha_naive_false :
    ¬ (∀ (k : Kind Int) (name : String) (round : Nat), CoveredTreeX name k → ∀ (tf : Int), 0 < tf →
        ∀ (life : Int) (init : List (Candle Int)) (chunks : List (List (Candle Int))),
        RawTfHA (init ++ chunks.flatten) → trimCandles (some life) (resample tf init) = .ok (resample tf init) →
        RetainsBucketsNaive (treeLook k name round) tf life init 0 chunks → ∀ a b,
        candlesOf (runIndicator (mkTop k name round) (cfgTfHALife tf life) init chunks) = .ok a →
        candlesOf (runIndicator (mkTop k name round) (cfgTfHA tf) init chunks) = .ok b → ∃ d, a = b.drop d) :=
  Hex.C15b_trees_tf_ha_naive_false

/-- non-vacuity: ATR 3 over Heikin-Ashi candles, schedules of `C15b_trees_look` / `C15b_trees_tf` -/
example (a b : List (Candle Int)) (ha : runTha (.atr 3) "ATR_3" = .ok a) (hb : runUha (.atr 3) "ATR_3" = .ok b) :
    ∃ d, a = b.drop d :=
  C15b_trees_ha (.atr 3) "ATR_3" 4 atrDemoOK 240 ttInit [tt420, [], tt480] (by decide) (by decide) rfl
    (by rw [atrDemo_look]; exact ttDemo_retains2) a b ha hb
example (a b : List (Candle Int)) (ha : runTtfha (.atr 3) "ATR_3" = .ok a)
    (hb : runUtfha (.atr 3) "ATR_3" = .ok b) : ∃ d, a = b.drop d :=
  C15b_trees_tf_ha (.atr 3) "ATR_3" 4 atrDemoOK 120 (by decide) 360 tfInit tfChunks
    ⟨tfDemo_raw.stamped, tfDemo_raw.cleanNone, tfDemo_raw.sorted⟩ tfDemo_raw.plain (by decide) tfDemo_init
    (by rw [atrDemo_look]; exact tfDemo_retains) a b ha hb
set_option synthInstance.maxSize 4000 in
example : (runTtfha (.atr 3) "ATR_3").toOption.map (·.map (fun c => (viewHA c, view c)))
    = (runUtfha (.atr 3) "ATR_3").toOption.map (fun b => (b.drop 3).map (fun c => (viewHA c, view c))) := by
  decide +kernel

/-- **C15, second clause, on a collapsing timeframe with gap filling AND Heikin-Ashi conversion – every shipped class**:
`{timeframe, timeframe_fill, candlestick = HA, candles_lifespan}` next to `{timeframe, timeframe_fill, candlestick = HA}`
under EXACTLY the hypothesis of `C15b_trees_tf_fill` (`RetainsFilled`: `treeLook` CLOSED candles – buckets and fill
candles of the unconverted filled stream – retained at every popping append).  (`TwinMgr.fillHA`,
HexProofs/Manager2/TwinTreesFillHA.lean) -/
theorem C15b_trees_tf_fill_ha (k : Kind F) (name : String) (round : Nat) (hc : CoveredTreeX name k)
    (tf : Int) (htf : 0 < tf) (life : Int) (init : List (Candle F)) (chunks : List (List (Candle F)))
    (hraw : RawStream (init ++ chunks.flatten)) (hp : ∀ c ∈ init ++ chunks.flatten, Plain c)
    (htag : ∀ c ∈ init ++ chunks.flatten, c.tag = false)
    (hinit : trimCandles (some life) (fillSpec tf init) = .ok (fillSpec tf init))
    (hret : RetainsFilled (treeLook k name round) tf life init 0 chunks) (a b : List (Candle F))
    (ha : candlesOf (runIndicator (mkTop k name round)
            { tf := some tf, fill := true, ha := true, lifespan := some life } init chunks) = .ok a)
    (hb : candlesOf (runIndicator (mkTop k name round) { tf := some tf, fill := true, ha := true } init chunks)
            = .ok b) : ∃ d, a = b.drop d :=
  Hex.C15b_trees_tf_fill_ha k name round hc tf htf life init chunks
    ⟨⟨hraw.stamped, hraw.plain, hraw.sorted, hp⟩, htag⟩ hinit hret a b ha hb

/-- **C15, second clause, inside a Heikin-Ashi Hexital – member without timeframe of a Hexital without timeframe** -/
theorem C15b_member_ha {N : List String} {members : List (Member F)} {mem : Member F}
    (hm : MemberHyps N members mem) (k : Kind F) (name : String) (round : Nat) (hc : CoveredTreeX name k)
    (htree : mem.tree = mkTop k name round) (hnone : mem.tfName = none)
    (life : Int) (init : List (Candle F)) (chunks : List (List (Candle F)))
    (hp : ∀ c ∈ init ++ chunks.flatten, Plain c) (htag : ∀ c ∈ init ++ chunks.flatten, c.tag = false)
    (hinit : trimCandles (some life) init = .ok init)
    (hret : RetainsFrom (treeLook k name round) life init init.length chunks) (HA HB : Hexital F)
    (hA : runHexSched { ha := true, lifespan := some life } none init members chunks = .ok HA)
    (hB : runHexSched { ha := true } none init members chunks = .ok HB) :
    ∃ d mA mB, HA.memberManager mem.tree.name = some mA ∧ HB.memberManager mem.tree.name = some mB ∧
      mA.cfg = { ha := true, lifespan := some life } ∧ mB.cfg = { ha := true } ∧
      SameView mem.tree.allNames mA.candles (mB.candles.drop d) ∧
      ∀ nm, (splitDot nm).headD "" = mem.tree.name → readOK N nm = true →
        ∃ col, HB.readingAsList nm = .ok col ∧ HA.readingAsList nm = .ok (col.drop d) :=
  member_C15b_ha hm k name round hc htree hnone life init chunks (fun c hc' => ⟨hp c hc', htag c hc'⟩) hinit hret
    HA HB hA hB

/-- **… members on a collapsing timeframe of a Heikin-Ashi Hexital** (hypotheses of `C15b_trees_tf_ha`) -/
theorem C15b_member_tf_ha {N : List String} {members : List (Member F)} {mem : Member F}
    (hm : MemberHyps N members mem) (k : Kind F) (name : String) (round : Nat) (hc : CoveredTreeX name k)
    (htree : mem.tree = mkTop k name round) (htfx : Option Int) (tfn : Option String) (tf : Int) (htf : 0 < tf)
    (heff : mem.effTf htfx = some tf) (life : Int) (init : List (Candle F)) (chunks : List (List (Candle F)))
    (hraw : RawStream (init ++ chunks.flatten)) (hp : ∀ c ∈ init ++ chunks.flatten, Plain c)
    (htag : ∀ c ∈ init ++ chunks.flatten, c.tag = false)
    (hinit : trimCandles (some life) (resample tf init) = .ok (resample tf init))
    (hret : RetainsBuckets (treeLook k name round) tf life init 0 chunks) (HA HB : Hexital F)
    (hA : runHexSched { tf := htfx, ha := true, lifespan := some life } tfn init members chunks = .ok HA)
    (hB : runHexSched { tf := htfx, ha := true } tfn init members chunks = .ok HB) :
    ∃ d mA mB, HA.memberManager mem.tree.name = some mA ∧ HB.memberManager mem.tree.name = some mB ∧
      mA.cfg = { tf := some tf, ha := true, lifespan := some life } ∧ mB.cfg = { tf := some tf, ha := true } ∧
      SameView mem.tree.allNames mA.candles (mB.candles.drop d) ∧
      ∀ nm, (splitDot nm).headD "" = mem.tree.name → readOK N nm = true →
        ∃ col, HB.readingAsList nm = .ok col ∧ HA.readingAsList nm = .ok (col.drop d) :=
  member_C15b_tf_ha hm k name round hc htree htfx tfn tf htf heff life init chunks
    ⟨⟨hraw.stamped, hraw.plain, hraw.sorted, hp⟩, htag⟩ hinit hret HA HB hA hB

/-- **… and with `timeframe_fill = True`** (hypotheses of `C15b_trees_tf_fill_ha`) -/
theorem C15b_member_tf_fill_ha {N : List String} {members : List (Member F)} {mem : Member F}
    (hm : MemberHyps N members mem) (k : Kind F) (name : String) (round : Nat) (hc : CoveredTreeX name k)
    (htree : mem.tree = mkTop k name round) (htfx : Option Int) (tfn : Option String) (tf : Int) (htf : 0 < tf)
    (heff : mem.effTf htfx = some tf) (life : Int) (init : List (Candle F)) (chunks : List (List (Candle F)))
    (hraw : RawStream (init ++ chunks.flatten)) (hp : ∀ c ∈ init ++ chunks.flatten, Plain c)
    (htag : ∀ c ∈ init ++ chunks.flatten, c.tag = false)
    (hinit : trimCandles (some life) (fillSpec tf init) = .ok (fillSpec tf init))
    (hret : RetainsFilled (treeLook k name round) tf life init 0 chunks) (HA HB : Hexital F)
    (hA : runHexSched { tf := htfx, fill := true, ha := true, lifespan := some life } tfn init members chunks = .ok HA)
    (hB : runHexSched { tf := htfx, fill := true, ha := true } tfn init members chunks = .ok HB) :
    ∃ d mA mB, HA.memberManager mem.tree.name = some mA ∧ HB.memberManager mem.tree.name = some mB ∧
      mA.cfg = { tf := some tf, fill := true, ha := true, lifespan := some life } ∧
      mB.cfg = { tf := some tf, fill := true, ha := true } ∧
      SameView mem.tree.allNames mA.candles (mB.candles.drop d) ∧
      ∀ nm, (splitDot nm).headD "" = mem.tree.name → readOK N nm = true →
        ∃ col, HB.readingAsList nm = .ok col ∧ HA.readingAsList nm = .ok (col.drop d) :=
  member_C15b_tf_fill_ha hm k name round hc htree htfx tfn tf htf heff life init chunks
    ⟨⟨hraw.stamped, hraw.plain, hraw.sorted, hp⟩, htag⟩ hinit hret HA HB hA hB

/-- non-vacuity -/
example (a b : List (Candle Int)) (ha : runTfillha (.atr 3) "ATR_3" = .ok a)
    (hb : runUfillha (.atr 3) "ATR_3" = .ok b) : ∃ d, a = b.drop d :=
  C15b_trees_tf_fill_ha (.atr 3) "ATR_3" 4 atrDemoOK 120 (by decide) 600 tfInit tfChunksGap
    ⟨tfGap_raw.stamped, tfGap_raw.cleanNone, tfGap_raw.sorted⟩ tfGap_raw.plain (by decide) tfGap_init
    (by rw [atrDemo_look]; exact tfGap_retains) a b ha hb
example := @MembersC15HAEx.applied_tf_ha
example := @MembersC15HAEx.applied_ha
example := @MembersC15HAEx.applied_fill_ha

end Hex.C15

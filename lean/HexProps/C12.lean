import HexProofs.Manager.Fill
import HexProofs.Writes.MembersC12
import HexProps.C03
import HexProofs.Framework.Fill
import HexProofs.Manager2.FillReadingsSpec
import HexProofs.Lib.IntInst
/-
C12 – Gap filling yields a contiguous series of flat, zero-volume candles.
Proved for every float carrier `F`, at full strength: batch and every append schedule – also for raw input candles that
already carry indicator readings (`schedule_readings`), with the exact rule which candle keeps which entries (`entries`,
`single_candle_bucket_keeps`: a bucket made of ONE raw candle keeps its entries, on the grid or not;
`merged_and_inserted_carry_none`: a merged bucket and an inserted candle carry none).
-/
namespace Hex.C12
open Hex Hex.C03
variable {F : Type} [PyF F]

def cfgOf (tf : Int) : MgrCfg := { tf := some tf, fill := true }

theorem bucketed_resample (tf : Int) (htf : 0 < tf) (xs : List (Candle F)) (h : RawStream xs) :
    Bucketed tf (resample tf xs) := by
  have hb := resampleR_bucketed tf htf xs (h.cleanOk tf) (labelsMono_of_sorted tf htf xs h.sorted)
  exact ⟨fun c hc => hb.stamped c (List.mem_reverse.1 hc), hb.incr_reverse tf _⟩

/-- **Batch.**  With filling on, construction over a well-formed stream terminates (the
`while True` loop of `fill_missing_candles` always exits), never raises, and the result
(i) is contiguous – consecutive candles exactly one timeframe apart from the first bucket to
the last, and (ii) is the unfilled resampling with flat zero-volume candles inserted, each
carrying the close of the candle before it. -/
theorem batch (tf : Int) (htf : 0 < tf) (xs : List (Candle F)) (h : RawStream xs) :
    ∃ zs, Manager.init (cfgOf tf) xs = .ok { cfg := cfgOf tf, candles := zs } ∧
      Contiguous tf zs ∧ FilledFrom (resample tf xs) zs ∧
      zs.head? = (resample tf xs).head? ∧ zs.getLast? = (resample tf xs).getLast? := by
  obtain ⟨zs, hz, hc, hf, hh, hl⟩ := fillMissing_ok tf htf (resample tf xs) (bucketed_resample tf htf xs h)
  refine ⟨zs, ?_, hc, hf, hh, hl⟩
  have hcol := collapse_eq_resample tf htf xs
    (by intro c hc; exact h.stamped c (List.mem_of_mem_head? hc)) (h.cleanOk tf)
    (labelsMono_of_sorted tf htf xs h.sorted)
  -- collapse with fill = collapse without fill followed by the fill pass
  have : collapseCandles (some tf) true xs = .ok zs := by
    unfold collapseCandles at hcol ⊢
    cases xs with
    | nil =>
      simp [resample, resampleR, fillMissing] at hz
      simp [hz]
    | cons init rest =>
      cases hts : init.ts with
      | none => exact absurd hts (h.stamped init (by simp))
      | some t0 =>
        simp only [hts] at hcol ⊢
        cases hloop : collapseLoop tf _ rest with
        | error e => rw [hloop] at hcol; simp [bind, Except.bind] at hcol
        | ok st =>
          rw [hloop] at hcol
          simp only [bind, Except.bind, Bool.false_eq_true, if_false] at hcol
          simp only [bind, Except.bind, if_true]
          have : st.out.reverse = resample tf (init :: rest) := by
            injection hcol
          rw [this, hz]
  unfold Manager.init tasks cfgOf trimCandles
  simp only [this, bind, Except.bind, Bool.false_and, Bool.false_eq_true, if_false]
  rfl

/-- **Real buckets are untouched**: filling only inserts, so the unfilled buckets are a
sublist of the filled series, in order. -/
theorem real_buckets_kept (ys zs : List (Candle F)) (h : FilledFrom ys zs) : ys.Sublist zs := by
  induction h with
  | nil => exact List.Sublist.slnil
  | single a => exact List.Sublist.refl _
  | keep a b ys zs _ ih => exact List.Sublist.cons₂ a ih
  | fill a f ys zs _ _ ih =>
    exact List.Sublist.cons₂ a (List.Sublist.trans (List.sublist_cons_self f ys) ih)

/-- **Every inserted candle** is flat at the previous candle's close with volume 0 (this is the
meaning of the `fill` constructor of `FilledFrom`, restated for readability). -/
theorem inserted_are_flat (close : Num F) (c : Candle F) (h : IsFillOf close c) :
    c.o = close ∧ c.h = close ∧ c.l = close ∧ c.c = close ∧ c.v = .int 0 :=
  ⟨h.1, h.2.1, h.2.2.1, h.2.2.2.1, h.2.2.2.2.1⟩

/-- a well-formed raw stream whose candles carry no readings (what a manager is fed) -/
abbrev RawPlain (xs : List (Candle F)) : Prop := RawTf xs

theorem cfgOf_eq (tf : Int) : cfgOf tf = cfgFill tf := rfl

/-- **Every append schedule.**  Constructing with any prefix (possibly empty) and appending the
rest in chunks of any sizes ends with exactly the filled resampling of the whole stream – the
same candles as one construction over the whole stream. -/
theorem schedule (tf : Int) (htf : 0 < tf) (init : List (Candle F)) (chunks : List (List (Candle F)))
    (h : RawPlain (init ++ chunks.flatten)) :
    runSchedule (cfgOf tf) init chunks
        = .ok { cfg := cfgOf tf, candles := fillSpec tf (init ++ chunks.flatten) } ∧
    Manager.init (cfgOf tf) (init ++ chunks.flatten)
        = .ok { cfg := cfgOf tf, candles := fillSpec tf (init ++ chunks.flatten) } := by
  have hinit : RawTf init := h.append_left
  obtain ⟨Z, hZ⟩ := filledOf tf htf init hinit
  obtain ⟨W, hW⟩ := filledOf tf htf (init ++ chunks.flatten) h
  constructor
  · unfold runSchedule Manager.init
    rw [cfgOf_eq, tasks_fill_raw tf htf init Z hinit hZ]
    simp only [bind, Except.bind]
    exact manager_fill_schedule tf htf chunks init Z hZ h
  · unfold Manager.init
    rw [cfgOf_eq, tasks_fill_raw tf htf _ W h hW, hW.spec_eq]
    rfl

/-- the filled series of the schedule theorem is contiguous and only adds flat fill candles -/
theorem schedule_result_shape (tf : Int) (htf : 0 < tf) (xs : List (Candle F)) (h : RawPlain xs) :
    Contiguous tf (fillSpec tf xs) ∧ Bucketed tf (fillSpec tf xs) := by
  obtain ⟨Z, hZ⟩ := filledOf tf htf xs h
  rw [hZ.spec_eq]
  exact ⟨hZ.contig, hZ.bucketed⟩

/-! non-vacuity: a gap of two buckets is filled with two flat candles -/
example : (match fillMissing (F := Int) 60
    [ { o := .int 1, h := .int 3, l := .int 1, c := .int 2, v := .int 10, ts := some 120 },
      { o := .int 4, h := .int 4, l := .int 0, c := .int 1, v := .int 5, ts := some 300 } ] with
    | .ok zs => zs.map (fun c => c.ts)
    | .error _ => [])
    = [some 120, some 180, some 240, some 300] := by decide

omit [PyF F] in
/-- a C03 `RawStream` (stamped, unconverted, sorted; ANY readings on the candles) is a `RawR` -/
theorem rawR_of {xs : List (Candle F)} (h : RawStream xs) : RawR xs := ⟨h.stamped, h.plain, h.sorted⟩

/-- **Batch and every append schedule, input candles carrying arbitrary readings.** -/
theorem schedule_readings (tf : Int) (htf : 0 < tf) (init : List (Candle F)) (chunks : List (List (Candle F)))
    (h : RawStream (init ++ chunks.flatten)) :
    runSchedule (cfgOf tf) init chunks
        = .ok { cfg := cfgOf tf, candles := fillSpec tf (init ++ chunks.flatten) } ∧
    Manager.init (cfgOf tf) (init ++ chunks.flatten)
        = .ok { cfg := cfgOf tf, candles := fillSpec tf (init ++ chunks.flatten) } ∧
    fillMissing tf (resample tf (init ++ chunks.flatten)) = .ok (fillSpec tf (init ++ chunks.flatten)) ∧
    Contiguous tf (fillSpec tf (init ++ chunks.flatten)) ∧
    Bucketed tf (fillSpec tf (init ++ chunks.flatten)) ∧
    FilledFrom (resample tf (init ++ chunks.flatten)) (fillSpec tf (init ++ chunks.flatten)) ∧
    (fillSpec tf (init ++ chunks.flatten)).head? = (resample tf (init ++ chunks.flatten)).head? ∧
    (fillSpec tf (init ++ chunks.flatten)).getLast? = (resample tf (init ++ chunks.flatten)).getLast? :=
  fill_schedule_readings tf htf init chunks (rawR_of h)

/-- **Which candle keeps which readings**: by its stamp `L` – no raw candle in bucket `L`: an
inserted fill candle, none; exactly one raw candle `c` (on the grid or not): `c` re-stamped, all
its entries kept; two or more: the merge fold, none (`EntryRule`). -/
theorem entries (tf : Int) (htf : 0 < tf) (xs : List (Candle F)) (h : RawStream xs)
    (z : Candle F) (hz : z ∈ fillSpec tf xs) :
    ∃ L, z.ts = some L ∧ L % tf = 0 ∧ EntryRule L z (bucketGroup tf xs L) :=
  fillSpec_entries tf htf xs (rawR_of h) z hz

theorem single_candle_bucket_keeps (tf : Int) (htf : 0 < tf) (xs : List (Candle F)) (h : RawStream xs)
    (z : Candle F) (hz : z ∈ fillSpec tf xs) (L : Int) (hL : z.ts = some L) (c : Candle F)
    (hg : bucketGroup tf xs L = [c]) :
    z = { c with ts := some L } ∧ z.inds = c.inds ∧ z.subs = c.subs :=
  fillSpec_single_keeps tf htf xs (rawR_of h) z hz L hL c hg

theorem merged_and_inserted_carry_none (tf : Int) (htf : 0 < tf) (xs : List (Candle F)) (h : RawStream xs)
    (z : Candle F) (hz : z ∈ fillSpec tf xs) (L : Int) (hL : z.ts = some L)
    (hg : (bucketGroup tf xs L).length ≠ 1) : z.inds = [] ∧ z.subs = [] :=
  fillSpec_other_none tf htf xs (rawR_of h) z hz L hL hg

/-- non-vacuity: a two-bucket gap, three input candles carry `"X" ↦ 5` -/
example : RawStream readingsDemo ∧ ¬ (∀ c ∈ readingsDemo, Plain c) :=
  ⟨⟨by decide, by decide, by decide⟩, by decide⟩

example : (runSchedule (cfgOf 60) [readingsDemo[0]]
      [[readingsDemo[1], readingsDemo[2]], [], [readingsDemo[3]], [readingsDemo[4]]]).toOption.map
      (fun m => m.candles.map showC)
    = some [ ⟨some 120, 30, [], []⟩, ⟨some 180, 0, [], []⟩, ⟨some 240, 0, [], []⟩,
             ⟨some 300, 5, [("X", some 5)], [("Y", some 7)]⟩, ⟨some 360, 3, [("X", some 5)], []⟩,
             ⟨some 420, 1, [], []⟩ ] := by decide +kernel

/-! ### member managers of a gap-filling Hexital (HexProofs/Writes/MembersC12.lean) -/

/-- **C12 inside a Hexital**: for a gap-filling Hexital (any Hexital-level timeframe) every member's manager – on the
member's own timeframe or the Hexital's – holds the filled resampling of the raw stream received, after any program of
façade operations; that list is contiguous, aligned, strictly increasing and only adds flat fill candles. -/
theorem member_schedule_readings {N : List String} {members : List (Member F)} {mem : Member F}
    (hm : MemberHyps N members mem) (htfx : Option Int) (tfn : Option String) (tf : Int) (htf : 0 < tf)
    (heff : mem.effTf htfx = some tf) (init : List (Candle F)) (ops : List (TwinOp F)) (H : Hexital F)
    (hops : ∀ op, op ∈ ops → op.OK N mem.tree.name)
    (h : RawStream (init ++ (appendedBy ops).flatten))
    (hrun : runHexital { tf := htfx, fill := true } tfn init members ops = .ok H) :
    ∃ m, H.memberManager mem.tree.name = some m ∧ m.cfg = cfgOf tf ∧
      m.candles.map Candle.core = (fillSpec tf (init ++ (appendedBy ops).flatten)).map Candle.core ∧
      fillMissing tf (resample tf (init ++ (appendedBy ops).flatten))
        = .ok (fillSpec tf (init ++ (appendedBy ops).flatten)) ∧
      Contiguous tf (fillSpec tf (init ++ (appendedBy ops).flatten)) ∧
      Bucketed tf (fillSpec tf (init ++ (appendedBy ops).flatten)) ∧
      FilledFrom (resample tf (init ++ (appendedBy ops).flatten)) (fillSpec tf (init ++ (appendedBy ops).flatten)) :=
  member_fill hm htfx tfn tf htf heff init ops H hops (rawR_of h) hrun

example := @MembersC12Ex.appliedF

#print axioms member_schedule_readings

end Hex.C12

import HexProofs.Writes.PropsLib
import HexProofs.Writes.PresenceLateTfEx
import HexProofs.Writes.PresenceLate
/-
C13 – Indicators sharing candles do not interfere with one another (every float carrier `F`).

Proved here, from the writes-only theorem of the engine (`HexProofs/Writes/Engine.lean`):
  (a) `purge` removes every entry stored under the names of the purged tree and nothing else;
  (b) `purge(b)`, `calculate(b)`, `calculate_index(b, i)`, `recalculate(b)`, `remove_indicator(b)` leave every
      reading stored under a name of another member `a` (disjoint name sets) exactly as it was – on every
      candle of every manager – and `reading_as_list` of `a` returns the same column.
  (c) `presence`: for a member `a` handed to the constructor (with or without its own timeframe), the readings
      of `a` are the same whatever other members are registered next to it, in whatever order, under any program of
      `calculate / calculate_index / purge / recalculate / append` – provided `a`'s tree neither writes under nor
      can read a name of the other members (distinct names, no input dependency).  Proof: both Hexitals are in
      step with the same standalone twin (`member_twin`, built on the read-set locality of all 28 kinds) – which,
      since the constructor builds member managers from the candles as given (`source_candles`), is the PLAIN
      standalone indicator with `a`'s own timeframe over the construction candles (`twinInit_of_key`).
      The programs may also add further members and remove other members.
  (d) `presence_late`: the same when `a` itself is added LATER by `add_indicator` (any number of times, at different
      points of the two programs, which may chunk the stream differently): for a member without its own timeframe,
      every class (`presence_late_covered`, `CoveredTreeX`), under any Hexital-level timeframe / gap filling.
      Proof: an invariant says the default manager's candles are – up to the other members' entries – resumable over
      the stream for `a`'s row-major spec whether or not `a` is registered; the closing `calculate()` then gives the
      batch result, which depends on the stream alone (C01).
  (e) `presence_late_tf_covered` / `presence_late_ha_covered` (end of this file): (d) for a late-added member WITH its own
      timeframe (Hexital cfg `{}`, Heikin-Ashi, fill flag) and under Heikin-Ashi without own timeframe, on well-formed streams.
Both general formulations I wrote down are refuted – `presence_FULL_v1_false` (it did not tie the operations aimed at `a`
itself, which the property does not quantify over) and `presence_FULL_false` (no well-formedness condition on the candles) –
mis-statements of mine, not defects; what is left open: a late-added member with its own timeframe on a Hexital that has a
timeframe or lifespan of its own (there the result legitimately depends on when it was added).
-/
namespace Hex.C13
open Hex
variable {F : Type} [PyF F]

/-! ### (a) what `purge` does to the candles -/

omit [PyF F] in
/-- `Indicator.purge()` removes every reading entry stored under a name of its tree, top-level
and helper, on every candle … -/
theorem purge_removes (s : IndState F) (c : Candle F) (hc : c ∈ s.purge.mgr.candles)
    (k : String) (hk : k ∈ s.tree.allNames) : dlookup k c.inds = none ∧ dlookup k c.subs = none :=
  purgeNames_removes s.tree.allNames s.mgr.candles c hc k hk

omit [PyF F] in
/-- … and changes nothing else: same number of candles, same OHLCV / timestamp / tag / saved clean
values, and every entry stored under any other key is as it was. -/
theorem purge_only (s : IndState F) : AgreeOff s.tree.allNames s.mgr.candles s.purge.mgr.candles :=
  purgeNames_agree s.tree.allNames s.mgr.candles

/-! ### (b) operations aimed at another member
`Pair h a b ta tb`: both registered, name sets of the two trees disjoint; `Untouched a ta tb h h'`: every
reading entry stored under a name of `a`'s tree is the same on every candle of every manager, `a` is still
registered with the same tree, and `reading_as_list` returns the same columns (HexProofs/Writes/PropsLib.lean). -/

/-- **`Hexital.purge(b)` does not touch the readings of `a`.** -/
theorem purge_other (h h' : Hexital F) (a b : String) (ta tb : HxInd F) (p : Pair h a b ta tb)
    (hop : h.purge (some b) = .ok h') : Untouched a ta tb h h' :=
  untouched_of_agree p (Hexital.purge_agree h h' b tb p.hb hop)

/-- **`Hexital.calculate(b)` does not touch the readings of `a`.** -/
theorem calculate_other (h h' : Hexital F) (a b : String) (ta tb : HxInd F) (p : Pair h a b ta tb)
    (hop : h.calculate (some b) = .ok h') : Untouched a ta tb h h' :=
  untouched_of_agree p (Hexital.calculate_agree h h' b tb p.hb hop)

/-- **`Hexital.calculate_index(b, i)` does not touch the readings of `a`.** -/
theorem calculateIndex_other (h h' : Hexital F) (a b : String) (ta tb : HxInd F) (index : Int)
    (p : Pair h a b ta tb) (hop : h.calculateIndex (some b) index = .ok h') : Untouched a ta tb h h' :=
  untouched_of_agree p (Hexital.calculateIndex_agree h h' b tb index p.hb hop)

/-- **`Hexital.recalculate(b)` does not touch the readings of `a`.** -/
theorem recalculate_other (h h' : Hexital F) (a b : String) (ta tb : HxInd F) (p : Pair h a b ta tb)
    (hop : h.recalculate (some b) = .ok h') : Untouched a ta tb h h' :=
  untouched_of_agree p (Hexital.recalculate_agree h h' b tb p.hb hop)

/-- **`Hexital.remove_indicator(b)` does not touch the readings of `a`** (`b` registered under the
name of its tree, as `_validate_indicators` does). -/
theorem removeIndicator_other (h h' : Hexital F) (a b : String) (ta tb : HxInd F) (p : Pair h a b ta tb)
    (hkey : tb.tree.name = b) (hop : h.removeIndicator (some b) = .ok h') : Untouched a ta tb h h' :=
  removeIndicator_untouched h h' a b ta tb p hkey hop

/-- any sequence of `purge / calculate / recalculate / calculate_index` aimed at `b` -/
inductive OpOnB
  | purge | calculate | recalculate | calculateIndex (i : Int)

def OpOnB.run (b : String) (h : Hexital F) : OpOnB → PyM (Hexital F)
  | .purge => h.purge (some b)
  | .calculate => h.calculate (some b)
  | .recalculate => h.recalculate (some b)
  | .calculateIndex i => h.calculateIndex (some b) i

/-- **All sequences of maintenance operations aimed at `b`** leave everything that is not stored
under one of `b`'s names – in particular every reading of `a` – unchanged. -/
theorem program_other (ops : List OpOnB) :
    ∀ (h h' : Hexital F) (a b : String) (ta tb : HxInd F), Pair h a b ta tb →
      ops.foldlM (fun h op => op.run b h) h = .ok h' → Untouched a ta tb h h' := by
  intro h h' a b ta tb p hop
  refine untouched_of_agree p
    (Writes.foldlM_hxAgree (fun h (op : OpOnB) => op.run b h) tb.tree b (fun h1 h2 op tb1 hb1 ht1 e => ?_) ops h h' tb p.hb rfl hop)
  rw [← ht1]
  cases op with
  | purge => exact Hexital.purge_agree h1 h2 b tb1 hb1 e
  | calculate => exact Hexital.calculate_agree h1 h2 b tb1 hb1 e
  | recalculate => exact Hexital.recalculate_agree h1 h2 b tb1 hb1 e
  | calculateIndex i => exact Hexital.calculateIndex_agree h1 h2 b tb1 i hb1 e

/-! ### (c) presence / absence / order of other members -/

/-- **The readings of `a` do not depend on which other members are registered, on the order, or on
what is done to the others.**  Two Hexitals built from the same candles with member lists `ms₁`, `ms₂`
that both contain `a` (on the default manager or on the manager of its own timeframe – `hs₁`, `hs₂`:
members sharing `a`'s timeframe name share its timeframe) and driven with programs `ops₁`, `ops₂` that act
alike on `a` (`hsame`: the standalone twin of `a` ends in the same state – e.g. the same program, or
programs that differ by `add_indicator` / `remove_indicator` / `purge` / `recalculate` of OTHER members)
return, for every reading name of `a`, the same column; and store, under every name of `a`'s tree, the
same readings on the same collapsed candles.  `N₁`, `N₂` bound the names of all the other members that
ever appear (constructor and `add_indicator`). -/
theorem presence (cfg : MgrCfg) (tf : Option String) (init : List (Candle F)) (ms₁ ms₂ : List (Member F))
    (a : Member F) (N₁ N₂ : List String) (ops₁ ops₂ : List (TwinOp F)) (H₁ H₂ : Hexital F)
    (h₁ : a ∈ Hexital.dedupe ms₁) (h₂ : a ∈ Hexital.dedupe ms₂)
    (hs₁ : ∀ m, m ∈ Hexital.dedupe ms₁ → m.tfName = a.tfName → a.tfName.getD defaultKey ≠ defaultKey →
      m.tfSecs = a.tfSecs)
    (hs₂ : ∀ m, m ∈ Hexital.dedupe ms₂ → m.tfName = a.tfName → a.tfName.getD defaultKey ≠ defaultKey →
      m.tfSecs = a.tfSecs)
    (ho₁ : ∀ k, k ∈ othersNames a.tree.name (Hexital.dedupe ms₁) → k ∈ N₁)
    (ho₂ : ∀ k, k ∈ othersNames a.tree.name (Hexital.dedupe ms₂) → k ∈ N₂)
    (hok₁ : TreeOK N₁ a.tree) (hok₂ : TreeOK N₂ a.tree)
    (hops₁ : ∀ op, op ∈ ops₁ → op.OK N₁ a.tree.name) (hops₂ : ∀ op, op ∈ ops₂ → op.OK N₂ a.tree.name)
    (hsame : runTwin a cfg tf init ops₁ = runTwin a cfg tf init ops₂)
    (hr₁ : runHexital cfg tf init ms₁ ops₁ = .ok H₁) (hr₂ : runHexital cfg tf init ms₂ ops₂ = .ok H₂) :
    (∀ name, (splitDot name).headD "" = a.tree.name → readOK N₁ name = true → readOK N₂ name = true →
        H₁.readingAsList name = H₂.readingAsList name) ∧
    (∃ hi₁ m₁ hi₂ m₂, dlookup a.tree.name H₁.indicators = some hi₁ ∧ dlookup hi₁.mgrKey H₁.managers = some m₁ ∧
        dlookup a.tree.name H₂.indicators = some hi₂ ∧ dlookup hi₂.mgrKey H₂.managers = some m₂ ∧
        m₁.candles.map Candle.core = m₂.candles.map Candle.core ∧
        ∀ k, k ∈ a.tree.allNames → storedUnder k m₁.candles = storedUnder k m₂.candles) := by
  obtain ⟨t₁, e₁, ht₁, inv₁⟩ := member_twin cfg tf init ms₁ a ops₁ H₁ h₁ hs₁
    (fun m hm hn k hk => ho₁ k (othersNames_spec _ _ m hm hn k hk)) hok₁ hops₁ hr₁
  obtain ⟨t₂, e₂, ht₂, inv₂⟩ := member_twin cfg tf init ms₂ a ops₂ H₂ h₂ hs₂
    (fun m hm hn k hk => ho₂ k (othersNames_spec _ _ m hm hn k hk)) hok₂ hops₂ hr₂
  have : t₁ = t₂ := by
    have e := hsame
    rw [e₁, e₂] at e; cases e; rfl
  subst this
  refine ⟨fun name hp r₁ r₂ => (inv₁.column name hp r₁).trans (inv₂.column name hp r₂).symm, ?_⟩
  obtain ⟨hi₁, m₁, a1, _, a3, _, a5, a6⟩ := inv₁.readings (ht₁ ▸ hok₁)
  obtain ⟨hi₂, m₂, b1, _, b3, _, b5, b6⟩ := inv₂.readings (ht₁ ▸ hok₂)
  exact ⟨hi₁, m₁, hi₂, m₂, a1, a3, b1, b3, a5.trans b5.symm,
    fun k hk => (a6 k (ht₁ ▸ hk)).trans (b6 k (ht₁ ▸ hk)).symm⟩

/-- First formulation of the general statement – FALSE (`presence_FULL_v1_false`): it leaves the operations
aimed at `a` ITSELF unconstrained and unrelated between the two programs (a `calculate_index(a, 3)` in one world only
leaves an out-of-order value that `calculate()` then keeps), lets the constructor lists hold a different tree under
`a`'s name, and allows a lifespan (a late-added member is seeded on the already trimmed candles, so WHEN it is added
matters – that is C15's subject, not interference by another member). -/
def presence_FULL_v1 : Prop :=
  ∀ {F : Type} [PyF F] (cfg : MgrCfg) (tf : Option String) (init : List (Candle F)) (ms₁ ms₂ : List (Member F))
    (a : Member F) (N₁ N₂ : List String) (ops₁ ops₂ : List (TwinOp F)) (H₁ H₂ : Hexital F),
    (∀ m, m ∈ Hexital.dedupe ms₁ → m.tree.name ≠ a.tree.name → ∀ k, k ∈ m.tree.allNames → k ∈ N₁) →
    (∀ m, m ∈ Hexital.dedupe ms₂ → m.tree.name ≠ a.tree.name → ∀ k, k ∈ m.tree.allNames → k ∈ N₂) →
    TreeOK N₁ a.tree → TreeOK N₂ a.tree →
    -- added members: `a` itself or members writing under `N`; `a` is never removed
    (∀ op, op ∈ ops₁ → match op with
      | .add ms => ∀ m, m ∈ Hexital.dedupe ms → m = a ∨ (m.tree.name ≠ a.tree.name ∧ ∀ k, k ∈ m.tree.allNames → k ∈ N₁)
      | .remove (some b) => b ≠ a.tree.name
      | _ => True) →
    (∀ op, op ∈ ops₂ → match op with
      | .add ms => ∀ m, m ∈ Hexital.dedupe ms → m = a ∨ (m.tree.name ≠ a.tree.name ∧ ∀ k, k ∈ m.tree.allNames → k ∈ N₂)
      | .remove (some b) => b ≠ a.tree.name
      | _ => True) →
    -- the same candles are fed, in the same chunks
    ops₁.filterMap (fun op => match op with | .append new => some new | _ => none)
      = ops₂.filterMap (fun op => match op with | .append new => some new | _ => none) →
    runHexital cfg tf init ms₁ (ops₁ ++ [.calculate none]) = .ok H₁ →
    runHexital cfg tf init ms₂ (ops₂ ++ [.calculate none]) = .ok H₂ →
    (∃ hi, dlookup a.tree.name H₁.indicators = some hi ∧ hi.tree = a.tree) →
    (∃ hi, dlookup a.tree.name H₂.indicators = some hi ∧ hi.tree = a.tree) →
    ∀ name, (splitDot name).headD "" = a.tree.name → readOK N₁ name = true → readOK N₂ name = true →
      H₁.readingAsList name = H₂.readingAsList name

/-- the first formulation is false: one Hexital, the single member `EMA_2` in both worlds, world 1 calls
`calculate_index("EMA_2", 3)` before the closing `calculate()` (replayed on the library as well) -/
theorem presence_FULL_v1_false : ¬ presence_FULL_v1 := Hex.presence_FULL_counterexample

/-- … and a lifespan makes a late-added member depend on WHEN it was added (model witness over `Int`; the library
agrees) – the reason the corrected statement excludes it -/
example := @Hex.late_add_lifespan_differs

/-- **(d) `a` added later – PROVED for a member without its own timeframe.**  `a` may be handed to the constructor
or added by `add_indicator` any number of times at any point; the other members may come and go; `calculate`,
`purge`, `recalculate`, `append`, `remove(None)` may be aimed at anything, `calculate_index` at any other member
(`TwinOp.LateOK`); the two programs need only feed the same candles overall (different chunking allowed); the
Hexital-level configuration is any `MgrSpec` (base, timeframe, timeframe + fill).  Then the columns of `a` and
what is stored under its names agree. -/
theorem presence_late (M : MgrSpec F) (tf₁ tf₂ : Option String) (init : List (Candle F)) (ms₁ ms₂ : List (Member F))
    (a : Member F) (N₁ N₂ : List String) (ops₁ ops₂ : List (TwinOp F)) (H₁ H₂ : Hexital F) (T : TreeSpec a.tree)
    (hatf : a.tfName = none)
    (hms₁ : ∀ m, m ∈ Hexital.dedupe ms₁ → m = a ∨ (m.tree.name ≠ a.tree.name ∧ ∀ k, k ∈ m.tree.allNames → k ∈ N₁))
    (hms₂ : ∀ m, m ∈ Hexital.dedupe ms₂ → m = a ∨ (m.tree.name ≠ a.tree.name ∧ ∀ k, k ∈ m.tree.allNames → k ∈ N₂))
    (hok₁ : TreeOK N₁ a.tree) (hok₂ : TreeOK N₂ a.tree)
    (hops₁ : ∀ op, op ∈ ops₁ → op.LateOK N₁ a) (hops₂ : ∀ op, op ∈ ops₂ → op.LateOK N₂ a)
    (hsame : (TwinOp.chunks ops₁).flatten = (TwinOp.chunks ops₂).flatten)
    (hs : M.Ok (init ++ (TwinOp.chunks ops₁).flatten))
    (hr₁ : runHexital M.cfg tf₁ init ms₁ (ops₁ ++ [.calculate none]) = .ok H₁)
    (hr₂ : runHexital M.cfg tf₂ init ms₂ (ops₂ ++ [.calculate none]) = .ok H₂)
    (hreg₁ : ∃ hi, dlookup a.tree.name H₁.indicators = some hi)
    (hreg₂ : ∃ hi, dlookup a.tree.name H₂.indicators = some hi) :
    (∀ name, (splitDot name).headD "" = a.tree.name → readOK N₁ name = true → readOK N₂ name = true →
        H₁.readingAsList name = H₂.readingAsList name) ∧
    (∃ hi₁ m₁ hi₂ m₂, dlookup a.tree.name H₁.indicators = some hi₁ ∧ dlookup hi₁.mgrKey H₁.managers = some m₁ ∧
        dlookup a.tree.name H₂.indicators = some hi₂ ∧ dlookup hi₂.mgrKey H₂.managers = some m₂ ∧
        hi₁.tree = a.tree ∧ hi₂.tree = a.tree ∧
        m₁.candles.map Candle.core = m₂.candles.map Candle.core ∧
        ∀ k, k ∈ a.tree.allNames → storedUnder k m₁.candles = storedUnder k m₂.candles) :=
  Hex.presence_late M tf₁ tf₂ init ms₁ ms₂ a N₁ N₂ ops₁ ops₂ H₁ H₂ T hatf hms₁ hms₂ hok₁ hok₂ hops₁ hops₂ hsame hs
    hr₁ hr₂ hreg₁ hreg₂

/-- … for EVERY shipped class (`CoveredTreeX`), under any Hexital-level timeframe, gap filling on or off -/
theorem presence_late_covered (tfs : Option Int) (htfs : ∀ t, tfs = some t → 0 < t) (fill : Bool)
    (tf₁ tf₂ : Option String) (init : List (Candle F)) (ms₁ ms₂ : List (Member F))
    (a : Member F) (k : Kind F) (name : String) (round : Nat) (hk : CoveredTreeX name k)
    (ha : a.tree = mkTop k name round) (hatf : a.tfName = none)
    (N₁ N₂ : List String) (ops₁ ops₂ : List (TwinOp F)) (H₁ H₂ : Hexital F)
    (hms₁ : ∀ m, m ∈ Hexital.dedupe ms₁ → m = a ∨ (m.tree.name ≠ a.tree.name ∧ ∀ k, k ∈ m.tree.allNames → k ∈ N₁))
    (hms₂ : ∀ m, m ∈ Hexital.dedupe ms₂ → m = a ∨ (m.tree.name ≠ a.tree.name ∧ ∀ k, k ∈ m.tree.allNames → k ∈ N₂))
    (hok₁ : TreeOK N₁ a.tree) (hok₂ : TreeOK N₂ a.tree)
    (hops₁ : ∀ op, op ∈ ops₁ → op.LateOK N₁ a) (hops₂ : ∀ op, op ∈ ops₂ → op.LateOK N₂ a)
    (hsame : (TwinOp.chunks ops₁).flatten = (TwinOp.chunks ops₂).flatten)
    (hraw : RawTf (init ++ (TwinOp.chunks ops₁).flatten))
    (hr₁ : runHexital { tf := tfs, fill := fill && tfs.isSome } tf₁ init ms₁ (ops₁ ++ [.calculate none]) = .ok H₁)
    (hr₂ : runHexital { tf := tfs, fill := fill && tfs.isSome } tf₂ init ms₂ (ops₂ ++ [.calculate none]) = .ok H₂)
    (hreg₁ : ∃ hi, dlookup a.tree.name H₁.indicators = some hi)
    (hreg₂ : ∃ hi, dlookup a.tree.name H₂.indicators = some hi) :
    ∀ nm, (splitDot nm).headD "" = a.tree.name → readOK N₁ nm = true → readOK N₂ nm = true →
      H₁.readingAsList nm = H₂.readingAsList nm :=
  Hex.presence_late_covered tfs htfs fill tf₁ tf₂ init ms₁ ms₂ a k name round hk ha hatf N₁ N₂ ops₁ ops₂ H₁ H₂
    hms₁ hms₂ hok₁ hok₂ hops₁ hops₂ hsame hraw hr₁ hr₂ hreg₁ hreg₂

/-- **General statement – REFUTED as written** (`presence_FULL_false`, end of this file): it puts no condition on the CANDLES, and a
collapsing manager loses an unstamped first candle on construction and on every append, so WHEN `a` was added shows (witness:
three unstamped candles, `SMA_2_T2` in the constructor vs. added after one append – replayed on the library: `[None, 14.0]` vs
`[None, 12.5, 14.0]`); a dependence on degenerate input, not interference by another member.  On WELL-FORMED streams (stamped,
sorted, pristine: `RawTfHA`) the pieces are proved: `presence_late_covered` (no own timeframe; any Hexital timeframe / fill),
`presence_late_ha_covered` (the same under Heikin-Ashi), `presence_late_tf_covered` (a WITH its own timeframe, added at any point,
Hexital cfg `{}` / `{ha}` / with the fill flag) – two-manager invariant `TfInv`, `LateLink` ("handing the default manager's candles
over gives the stream back").  Original doc: `presence_late` for ANY member – with its own timeframe as well – and
under Heikin-Ashi, i.e. what (c) and (d) leave open: a member WITH a timeframe (or under a Heikin-Ashi Hexital)
that is added late.  Excluded on purpose, because there the readings depend on WHEN `a` was added and not on the
other members: a lifespan (`late_add_lifespan_differs`), and a Hexital-level timeframe together with a different
member timeframe (a manager created late is built from the already collapsed default candles: collapsing twice
re-associates the volume sum, which is not exact for doubles).  What a proof needs: a two-manager invariant (the
manager under `a`'s key, once it exists, is resumable over its own spec of the stream; until then the default
manager holds the stream up to what `reset` wipes) and "creation commutes with feeding" (immediate for the plain
configuration from `MgrSpec.init`; under Heikin-Ashi it needs the effect of `recover_clean_values`). -/
def presence_FULL : Prop :=
  ∀ {F : Type} [PyF F] (cfg : MgrCfg) (tf₁ tf₂ : Option String) (init : List (Candle F)) (ms₁ ms₂ : List (Member F))
    (a : Member F) (N₁ N₂ : List String) (ops₁ ops₂ : List (TwinOp F)) (H₁ H₂ : Hexital F),
    cfg.lifespan = none → (a.tfName ≠ none → cfg.tf = none) →
    (∀ m, m ∈ Hexital.dedupe ms₁ → m = a ∨ (m.tree.name ≠ a.tree.name ∧ ∀ k, k ∈ m.tree.allNames → k ∈ N₁)) →
    (∀ m, m ∈ Hexital.dedupe ms₂ → m = a ∨ (m.tree.name ≠ a.tree.name ∧ ∀ k, k ∈ m.tree.allNames → k ∈ N₂)) →
    TreeOK N₁ a.tree → TreeOK N₂ a.tree →
    (∀ op, op ∈ ops₁ → op.LateOK N₁ a) → (∀ op, op ∈ ops₂ → op.LateOK N₂ a) →
    -- members sharing `a`'s timeframe name carry the same number of seconds
    (∀ op, op ∈ ops₁ ++ ops₂ → match op with
      | .add ms => ∀ m, m ∈ ms → m.tfName = a.tfName → m.tfSecs = a.tfSecs
      | _ => True) →
    (∀ m, m ∈ ms₁ ++ ms₂ → m.tfName = a.tfName → m.tfSecs = a.tfSecs) →
    (TwinOp.chunks ops₁).flatten = (TwinOp.chunks ops₂).flatten →
    runHexital cfg tf₁ init ms₁ (ops₁ ++ [.calculate none]) = .ok H₁ →
    runHexital cfg tf₂ init ms₂ (ops₂ ++ [.calculate none]) = .ok H₂ →
    (∃ hi, dlookup a.tree.name H₁.indicators = some hi) →
    (∃ hi, dlookup a.tree.name H₂.indicators = some hi) →
    ∀ name, (splitDot name).headD "" = a.tree.name → readOK N₁ name = true → readOK N₂ name = true →
      H₁.readingAsList name = H₂.readingAsList name

/-! ### non-vacuity: a concrete Hexital (toy carrier `Int`) on which every hypothesis above holds -/

section Examples

def exCandle (c : Int) : Candle Int :=
  { o := .int c, h := .int (c + 2), l := .int (c - 1), c := .int (c + 1), v := .int 10 }

def exCandles : List (Candle Int) := [exCandle 10, exCandle 12, exCandle 11, exCandle 15, exCandle 14, exCandle 13]

def exA : Member Int := { tree := mkTop (.sma 2 "close") "SMA_2" 4, tfName := none, tfSecs := none }
/-- a composite member: RSI with its managed `RSI_2_data` helper series -/
def exB : Member Int := { tree := mkTop (.rsi 2 "close") "RSI_2" 4, tfName := none, tfSecs := none }

/-- both registered on the default manager and calculated -/
def exHex : PyM (Hexital Int) := do
  let h ← Hexital.init {} none exCandles [exA, exB]
  h.calculate none

/-- the hypotheses of `purge_other`, `calculate_other`, `calculateIndex_other`, `recalculate_other`,
`removeIndicator_other` and `program_other` hold together on the example (and the name sets are
`[SMA_2]` and `[RSI_2, RSI_2_data]`) -/
example : (match exHex with
    | .ok h =>
      pairB h "SMA_2" "RSI_2" &&
      isOk (h.purge (some "RSI_2")) && isOk (h.calculate (some "RSI_2")) &&
      isOk (h.calculateIndex (some "RSI_2") 3) && isOk (h.recalculate (some "RSI_2")) &&
      isOk (h.removeIndicator (some "RSI_2")) &&
      isOk ([OpOnB.purge, .calculateIndex 4, .recalculate, .calculate].foldlM (fun h op => op.run "RSI_2" h) h) &&
      (dlookup "RSI_2" h.indicators).any (fun tb => tb.tree.name == "RSI_2" && tb.tree.allNames == ["RSI_2", "RSI_2_data"])
    | .error _ => false) = true := by decide +kernel

/-- … and the statement is not about empty columns: before the purge both members have readings on
the last candle, after `purge("RSI_2")` only `SMA_2` has -/
example : (match exHex with
    | .ok h =>
      (match h.readingAsList "SMA_2", h.readingAsList "RSI_2", h.purge (some "RSI_2") with
       | .ok la, .ok lb, .ok h' =>
         (match h'.readingAsList "SMA_2", h'.readingAsList "RSI_2" with
          | .ok la', .ok lb' =>
            la.map Val.isNone == [true, false, false, false, false, false] &&
            lb.map Val.isNone == [true, true, false, false, false, false] &&
            la'.map Val.isNone == la.map Val.isNone && lb'.all Val.isNone
          | _, _ => false)
       | _, _, _ => false)
    | .error _ => false) = true := by decide +kernel

/-- hypotheses of `presence`: `SMA_2` alone, before and after the composite `RSI_2`; the program
also aims operations at the other member -/
def exOps : List (TwinOp Int) :=
  [.calculate none, .append [exCandle 16, exCandle 12], .purge (some "RSI_2"), .calculateIndex none 3,
   .recalculate (some "SMA_2"), .append [exCandle 18], .calculate (some "RSI_2")]

/-- `N₁ = N₂ =` the names of `RSI_2`; three worlds: `SMA_2` alone (the other member is added later by
`add_indicator`), `SMA_2` before and after `RSI_2`; the programs act alike on the twin -/
example :
    (exA ∈ Hexital.dedupe [exA] ∧ exA ∈ Hexital.dedupe [exA, exB] ∧ exA ∈ Hexital.dedupe [exB, exA]) ∧
    ((othersNames "SMA_2" (Hexital.dedupe [exA])).all exB.tree.allNames.contains = true ∧
     (othersNames "SMA_2" (Hexital.dedupe [exA, exB])).all exB.tree.allNames.contains = true ∧
     (othersNames "SMA_2" (Hexital.dedupe [exB, exA])).all exB.tree.allNames.contains = true ∧
     treeOKb exB.tree.allNames exA.tree = true ∧
     (TwinOp.add [exB] :: exOps).all (TwinOp.okb exB.tree.allNames "SMA_2") = true ∧
     readOK exB.tree.allNames "SMA_2" = true ∧
     isOk (runHexital {} none exCandles [exA] (TwinOp.add [exB] :: exOps)) = true ∧
     isOk (runHexital {} none exCandles [exA, exB] exOps) = true ∧
     isOk (runHexital {} none exCandles [exB, exA] exOps) = true) ∧
    runTwin exA {} none exCandles (TwinOp.add [exB] :: exOps) = runTwin exA {} none exCandles exOps := by
  refine ⟨⟨?_, ?_, ?_⟩, ?_, ?_⟩
  · simp [Hexital.dedupe, dset]
  · simp [Hexital.dedupe, exA, exB, mkTop, Ind.name, dset]
  · simp [Hexital.dedupe, exA, exB, mkTop, Ind.name, dset]
  · decide +kernel
  · simp [runTwin, TwinOp.runInd]

/-- the same with timeframes: `SMA_2_T2` and `RSI_2_T2` share the manager of timeframe `T2` (120 s), `SMA_2`
sits on the default manager; stamped candles one minute apart -/
def exStamped (k : Nat) : Candle Int := { exCandle (10 + (k : Int) % 5) with ts := some (60 * (k : Int)) }
def exStream : List (Candle Int) := (List.range 8).map exStamped
def exAT : Member Int := { tree := mkTop (.sma 2 "close") "SMA_2_T2" 4, tfName := some "T2", tfSecs := some 120 }
def exBT : Member Int := { tree := mkTop (.rsi 2 "close") "RSI_2_T2" 4, tfName := some "T2", tfSecs := some 120 }
def exOpsT : List (TwinOp Int) :=
  [.calculate none, .append [exStamped 8, exStamped 9], .purge (some "RSI_2_T2"), .append [exStamped 10],
   .recalculate (some "SMA_2_T2")]

example :
    (exAT ∈ Hexital.dedupe [exAT] ∧ exAT ∈ Hexital.dedupe [exBT, exA, exAT]) ∧
    ((Hexital.dedupe [exBT, exA, exAT]).all (fun m => m.tfName != exAT.tfName || m.tfSecs == exAT.tfSecs) = true ∧
     (othersNames "SMA_2_T2" (Hexital.dedupe [exBT, exA, exAT])).all
        (exBT.tree.allNames ++ exA.tree.allNames).contains = true ∧
     treeOKb (exBT.tree.allNames ++ exA.tree.allNames) exAT.tree = true ∧
     isOk (runHexital {} none exStream [exAT] exOpsT) = true ∧
     isOk (runHexital {} none exStream [exBT, exA, exAT] exOpsT) = true ∧
     (match runTwin exAT {} none exStream exOpsT with
      | .ok twin => (twin.asList none).map Val.isNone
      | .error _ => []) = [true, false, false, false, false, false]) := by
  refine ⟨⟨?_, ?_⟩, ?_⟩
  · simp [Hexital.dedupe, dset]
  · simp [Hexital.dedupe, exA, exAT, exBT, mkTop, Ind.name, dset]
  · decide +kernel

end Examples

/-- **`presence_FULL` is FALSE as stated** (it does not ask the candles to be stamped): plain Hexital, no other member at
all, the single member `SMA_2_T2` (timeframe `T2`), four candles without timestamps – handed to the constructor in
world 1, added by `add_indicator` after the append in world 2 (a collapsing manager loses an unstamped first candle
on construction and on every append).  Replayed on the library: `[None, 14.0]` against `[None, 12.5, 14.0]`. -/
theorem presence_FULL_false : ¬ presence_FULL := Hex.presence_full_false

/-- **(e) `a` WITH its own timeframe added later – PROVED** for any pair of manager specs linked by `LateLink`
(Hexital-level spec `M` without timeframe, member spec `M'` = `M` with `a`'s timeframe; handing the default manager's
candles over gives the stream back). -/
theorem presence_late_tf (M M' : MgrSpec F) (secs : Option Int) (Ok : List (Candle F) → Prop)
    (L : LateLink M M' secs Ok) (tf₁ tf₂ : Option String) (init : List (Candle F)) (ms₁ ms₂ : List (Member F))
    (a : Member F) (N₁ N₂ : List String) (ops₁ ops₂ : List (TwinOp F)) (H₁ H₂ : Hexital F) (T : TreeSpec a.tree)
    (key : String) (hatf : a.tfName = some key) (hsecs : a.tfSecs = secs) (hkey : key ≠ defaultKey)
    (htf₁ : tf₁ ≠ some key) (htf₂ : tf₂ ≠ some key)
    (hms₁ : ∀ m, m ∈ Hexital.dedupe ms₁ → m = a ∨ (m.tree.name ≠ a.tree.name ∧ ∀ k, k ∈ m.tree.allNames → k ∈ N₁))
    (hms₂ : ∀ m, m ∈ Hexital.dedupe ms₂ → m = a ∨ (m.tree.name ≠ a.tree.name ∧ ∀ k, k ∈ m.tree.allNames → k ∈ N₂))
    (hok₁ : TreeOK N₁ a.tree) (hok₂ : TreeOK N₂ a.tree)
    (hops₁ : ∀ op, op ∈ ops₁ → op.LateOK N₁ a) (hops₂ : ∀ op, op ∈ ops₂ → op.LateOK N₂ a)
    (hshOps : ∀ op, op ∈ ops₁ ++ ops₂ → op.ShareOK a)
    (hshMs : ∀ m, m ∈ ms₁ ++ ms₂ → m.tfName = a.tfName → m.tfSecs = a.tfSecs)
    (hsame : (TwinOp.chunks ops₁).flatten = (TwinOp.chunks ops₂).flatten)
    (hs : Ok (init ++ (TwinOp.chunks ops₁).flatten))
    (hr₁ : runHexital M.cfg tf₁ init ms₁ (ops₁ ++ [.calculate none]) = .ok H₁)
    (hr₂ : runHexital M.cfg tf₂ init ms₂ (ops₂ ++ [.calculate none]) = .ok H₂)
    (hreg₁ : ∃ hi, dlookup a.tree.name H₁.indicators = some hi)
    (hreg₂ : ∃ hi, dlookup a.tree.name H₂.indicators = some hi) :
    (∀ name, (splitDot name).headD "" = a.tree.name → readOK N₁ name = true → readOK N₂ name = true →
        H₁.readingAsList name = H₂.readingAsList name) ∧
    (∃ hi₁ m₁ hi₂ m₂, dlookup a.tree.name H₁.indicators = some hi₁ ∧ dlookup hi₁.mgrKey H₁.managers = some m₁ ∧
        dlookup a.tree.name H₂.indicators = some hi₂ ∧ dlookup hi₂.mgrKey H₂.managers = some m₂ ∧
        hi₁.tree = a.tree ∧ hi₂.tree = a.tree ∧
        m₁.candles.map Candle.core = m₂.candles.map Candle.core ∧
        ∀ k, k ∈ a.tree.allNames → storedUnder k m₁.candles = storedUnder k m₂.candles) :=
  Hex.presence_late_tf M M' secs Ok L tf₁ tf₂ init ms₁ ms₂ a N₁ N₂ ops₁ ops₂ H₁ H₂ T key hatf hsecs hkey htf₁ htf₂
    hms₁ hms₂ hok₁ hok₂ hops₁ hops₂ hshOps hshMs hsame hs hr₁ hr₂ hreg₁ hreg₂

/-- … for EVERY shipped class, Hexital configuration `{ fill, ha }` – plain or Heikin-Ashi, no Hexital-level
timeframe, no lifespan –, member `a` with its own timeframe of `t` seconds, pristine stamped candles (`RawTfHA`) -/
theorem presence_late_tf_covered (ha fill : Bool) (t : Int) (ht : 0 < t)
    (tf₁ tf₂ : Option String) (init : List (Candle F)) (ms₁ ms₂ : List (Member F))
    (a : Member F) (k : Kind F) (name : String) (round : Nat) (hk : CoveredTreeX name k)
    (hatree : a.tree = mkTop k name round) (key : String) (hatf : a.tfName = some key) (hsecs : a.tfSecs = some t)
    (hkey : key ≠ defaultKey) (htf₁ : tf₁ ≠ some key) (htf₂ : tf₂ ≠ some key)
    (N₁ N₂ : List String) (ops₁ ops₂ : List (TwinOp F)) (H₁ H₂ : Hexital F)
    (hms₁ : ∀ m, m ∈ Hexital.dedupe ms₁ → m = a ∨ (m.tree.name ≠ a.tree.name ∧ ∀ k, k ∈ m.tree.allNames → k ∈ N₁))
    (hms₂ : ∀ m, m ∈ Hexital.dedupe ms₂ → m = a ∨ (m.tree.name ≠ a.tree.name ∧ ∀ k, k ∈ m.tree.allNames → k ∈ N₂))
    (hok₁ : TreeOK N₁ a.tree) (hok₂ : TreeOK N₂ a.tree)
    (hops₁ : ∀ op, op ∈ ops₁ → op.LateOK N₁ a) (hops₂ : ∀ op, op ∈ ops₂ → op.LateOK N₂ a)
    (hshOps : ∀ op, op ∈ ops₁ ++ ops₂ → op.ShareOK a)
    (hshMs : ∀ m, m ∈ ms₁ ++ ms₂ → m.tfName = a.tfName → m.tfSecs = a.tfSecs)
    (hsame : (TwinOp.chunks ops₁).flatten = (TwinOp.chunks ops₂).flatten)
    (hraw : RawTfHA (init ++ (TwinOp.chunks ops₁).flatten))
    (hr₁ : runHexital { fill := fill, ha := ha } tf₁ init ms₁ (ops₁ ++ [.calculate none]) = .ok H₁)
    (hr₂ : runHexital { fill := fill, ha := ha } tf₂ init ms₂ (ops₂ ++ [.calculate none]) = .ok H₂)
    (hreg₁ : ∃ hi, dlookup a.tree.name H₁.indicators = some hi)
    (hreg₂ : ∃ hi, dlookup a.tree.name H₂.indicators = some hi) :
    ∀ nm, (splitDot nm).headD "" = a.tree.name → readOK N₁ nm = true → readOK N₂ nm = true →
      H₁.readingAsList nm = H₂.readingAsList nm :=
  (Hex.presence_late_tf_covered ha fill t ht tf₁ tf₂ init ms₁ ms₂ a k name round hk hatree key hatf hsecs hkey htf₁ htf₂
    N₁ N₂ ops₁ ops₂ H₁ H₂ hms₁ hms₂ hok₁ hok₂ hops₁ hops₂ hshOps hshMs hsame hraw hr₁ hr₂ hreg₁ hreg₂).1

/-- the plain Hexital (`cfg = {}`), the case named in the doc comment of `presence_FULL` -/
theorem presence_late_tf_plain (t : Int) (ht : 0 < t)
    (tf₁ tf₂ : Option String) (init : List (Candle F)) (ms₁ ms₂ : List (Member F))
    (a : Member F) (k : Kind F) (name : String) (round : Nat) (hk : CoveredTreeX name k)
    (hatree : a.tree = mkTop k name round) (key : String) (hatf : a.tfName = some key) (hsecs : a.tfSecs = some t)
    (hkey : key ≠ defaultKey) (htf₁ : tf₁ ≠ some key) (htf₂ : tf₂ ≠ some key)
    (N₁ N₂ : List String) (ops₁ ops₂ : List (TwinOp F)) (H₁ H₂ : Hexital F)
    (hms₁ : ∀ m, m ∈ Hexital.dedupe ms₁ → m = a ∨ (m.tree.name ≠ a.tree.name ∧ ∀ k, k ∈ m.tree.allNames → k ∈ N₁))
    (hms₂ : ∀ m, m ∈ Hexital.dedupe ms₂ → m = a ∨ (m.tree.name ≠ a.tree.name ∧ ∀ k, k ∈ m.tree.allNames → k ∈ N₂))
    (hok₁ : TreeOK N₁ a.tree) (hok₂ : TreeOK N₂ a.tree)
    (hops₁ : ∀ op, op ∈ ops₁ → op.LateOK N₁ a) (hops₂ : ∀ op, op ∈ ops₂ → op.LateOK N₂ a)
    (hshOps : ∀ op, op ∈ ops₁ ++ ops₂ → op.ShareOK a)
    (hshMs : ∀ m, m ∈ ms₁ ++ ms₂ → m.tfName = a.tfName → m.tfSecs = a.tfSecs)
    (hsame : (TwinOp.chunks ops₁).flatten = (TwinOp.chunks ops₂).flatten)
    (hraw : RawTfHA (init ++ (TwinOp.chunks ops₁).flatten))
    (hr₁ : runHexital {} tf₁ init ms₁ (ops₁ ++ [.calculate none]) = .ok H₁)
    (hr₂ : runHexital {} tf₂ init ms₂ (ops₂ ++ [.calculate none]) = .ok H₂)
    (hreg₁ : ∃ hi, dlookup a.tree.name H₁.indicators = some hi)
    (hreg₂ : ∃ hi, dlookup a.tree.name H₂.indicators = some hi) :
    ∀ nm, (splitDot nm).headD "" = a.tree.name → readOK N₁ nm = true → readOK N₂ nm = true →
      H₁.readingAsList nm = H₂.readingAsList nm :=
  presence_late_tf_covered false false t ht tf₁ tf₂ init ms₁ ms₂ a k name round hk hatree key hatf hsecs hkey htf₁ htf₂
    N₁ N₂ ops₁ ops₂ H₁ H₂ hms₁ hms₂ hok₁ hok₂ hops₁ hops₂ hshOps hshMs hsame hraw hr₁ hr₂ hreg₁ hreg₂

/-- **Heikin-Ashi Hexitals, `a` WITHOUT own timeframe – PROVED** (an instance of `presence_late`: the Heikin-Ashi
managers have incremental specs): any Hexital-level timeframe or none, gap filling on or off, every shipped class -/
theorem presence_late_ha_covered (tfs : Option Int) (htfs : ∀ t, tfs = some t → 0 < t) (fill : Bool)
    (tf₁ tf₂ : Option String) (init : List (Candle F)) (ms₁ ms₂ : List (Member F))
    (a : Member F) (k : Kind F) (name : String) (round : Nat) (hk : CoveredTreeX name k)
    (hatree : a.tree = mkTop k name round) (hatf : a.tfName = none)
    (N₁ N₂ : List String) (ops₁ ops₂ : List (TwinOp F)) (H₁ H₂ : Hexital F)
    (hms₁ : ∀ m, m ∈ Hexital.dedupe ms₁ → m = a ∨ (m.tree.name ≠ a.tree.name ∧ ∀ k, k ∈ m.tree.allNames → k ∈ N₁))
    (hms₂ : ∀ m, m ∈ Hexital.dedupe ms₂ → m = a ∨ (m.tree.name ≠ a.tree.name ∧ ∀ k, k ∈ m.tree.allNames → k ∈ N₂))
    (hok₁ : TreeOK N₁ a.tree) (hok₂ : TreeOK N₂ a.tree)
    (hops₁ : ∀ op, op ∈ ops₁ → op.LateOK N₁ a) (hops₂ : ∀ op, op ∈ ops₂ → op.LateOK N₂ a)
    (hsame : (TwinOp.chunks ops₁).flatten = (TwinOp.chunks ops₂).flatten)
    (hraw : RawTfHA (init ++ (TwinOp.chunks ops₁).flatten))
    (hr₁ : runHexital { tf := tfs, fill := fill, ha := true } tf₁ init ms₁ (ops₁ ++ [.calculate none]) = .ok H₁)
    (hr₂ : runHexital { tf := tfs, fill := fill, ha := true } tf₂ init ms₂ (ops₂ ++ [.calculate none]) = .ok H₂)
    (hreg₁ : ∃ hi, dlookup a.tree.name H₁.indicators = some hi)
    (hreg₂ : ∃ hi, dlookup a.tree.name H₂.indicators = some hi) :
    ∀ nm, (splitDot nm).headD "" = a.tree.name → readOK N₁ nm = true → readOK N₂ nm = true →
      H₁.readingAsList nm = H₂.readingAsList nm :=
  (Hex.presence_late_ha_covered tfs htfs fill tf₁ tf₂ init ms₁ ms₂ a k name round hk hatree hatf N₁ N₂ ops₁ ops₂ H₁ H₂
    hms₁ hms₂ hok₁ hok₂ hops₁ hops₂ hsame hraw hr₁ hr₂ hreg₁ hreg₂).1

/-- non-vacuity (toy carrier `Int`): `SMA_2_T2` (120 s) present from the start in world 1, added after two appends in
world 2 – where `RSI_2_T2`, sharing the timeframe, creates the `T2` manager first and is removed again –, plain and
Heikin-Ashi; and `RSI_2` without timeframe on Heikin-Ashi Hexitals -/
example := @Hex.tf_example
example := @Hex.ha_example

end Hex.C13

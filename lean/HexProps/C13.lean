import HexProofs.Writes.Twin
import HexProofs.Lib.IntInst
/-
C13 – Indicators sharing candles do not interfere with one another (every float carrier `F`).

Proved here, from the writes-only theorem of the engine (`HexProofs/Writes/Engine.lean`):
  (a) `purge` removes every entry stored under the names of the purged tree and nothing else;
  (b) `purge(b)`, `calculate(b)`, `calculate_index(b, i)`, `recalculate(b)`, `remove_indicator(b)` leave every
      reading stored under a name of another member `a` (disjoint name sets) exactly as it was – on every
      candle of every manager – and `reading_as_list` of `a` returns the same column.
  (c) `presence`: for a member `a` without its own timeframe, the readings of `a` are the same whatever other
      members are registered next to it, in whatever order, under any program of
      `calculate / calculate_index / purge / recalculate / append` – provided `a`'s tree neither writes under nor
      can read a name of the other members (distinct names, no input dependency).  Proof: both Hexitals are in
      step with the same standalone twin (`member_twin`, built on the read-set locality of all 28 kinds).
      The programs may also add further members and remove other members.
Stated, not proved (`presence_FULL`): the same for a member WITH its own timeframe.
-/
namespace Hex.C13
open Hex
variable {F : Type} [PyF F]

/-! ### (a) what `purge` does to the candles -/

omit [PyF F] in
/-- `Indicator.purge()` removes every reading entry stored under a name of its tree, top-level
and helper, on every candle … -/
theorem purge_removes (s : IndState F) (c : Candle F) (hc : c ∈ s.purge.mgr.candles)
    (k : String) (hk : k ∈ s.tree.allNames) : dlookup k c.inds = none ∧ dlookup k c.subs = none :=
  purgeNames_removes s.tree.allNames s.mgr.candles c hc k hk

omit [PyF F] in
/-- … and changes nothing else: same number of candles, same OHLCV / timestamp / tag / saved clean
values, and every entry stored under any other key is as it was. -/
theorem purge_only (s : IndState F) : AgreeOff s.tree.allNames s.mgr.candles s.purge.mgr.candles :=
  purgeNames_agree s.tree.allNames s.mgr.candles

/-! ### (b) operations aimed at another member -/

/-- two members of a Hexital, registered under the names of their trees, whose trees write under
disjoint sets of names (own name, sub-indicators, managed helpers – at every depth) -/
structure Pair (h : Hexital F) (a b : String) (ta tb : HxInd F) : Prop where
  ha : dlookup a h.indicators = some ta
  hb : dlookup b h.indicators = some tb
  disjoint : ∀ k, k ∈ ta.tree.allNames → k ∉ tb.tree.allNames

/-- what "the readings of `a` are unchanged" means: (i) every reading entry stored under a name of
`a`'s tree is the same on every candle of every manager, in both dicts; (ii) `a` is still registered
with the same tree on the same manager; (iii) `reading_as_list(name)` returns the same column for
every `name` that is not one of `b`'s keys (`name` itself and its part before the dot) -/
structure Untouched (a : String) (ta tb : HxInd F) (h h' : Hexital F) : Prop where
  stored : StoredSame ta.tree.allNames h.managers h'.managers
  registered : ∃ ta', dlookup a h'.indicators = some ta' ∧ ta'.tree = ta.tree ∧ ta'.mgrKey = ta.mgrKey
  asList : ∀ name, name ∉ tb.tree.allNames → (splitDot name).headD "" ∉ tb.tree.allNames →
    (splitDot name).headD "" ≠ tb.tree.name → h'.readingAsList name = h.readingAsList name

theorem untouched_of_agree {h h' : Hexital F} {a b : String} {ta tb : HxInd F} (p : Pair h a b ta tb)
    (hh : HxAgreeOff tb.tree.allNames h h') : Untouched a ta tb h h' :=
  ⟨hh.mgrs.storedSame p.disjoint, hh.lookup a ta p.ha,
   fun name hk hp _ => Hexital.readingAsList_agree hh name hk hp⟩

/-- **`Hexital.purge(b)` does not touch the readings of `a`.** -/
theorem purge_other (h h' : Hexital F) (a b : String) (ta tb : HxInd F) (p : Pair h a b ta tb)
    (hop : h.purge (some b) = .ok h') : Untouched a ta tb h h' :=
  untouched_of_agree p (Hexital.purge_agree h h' b tb p.hb hop)

/-- **`Hexital.calculate(b)` does not touch the readings of `a`.** -/
theorem calculate_other (h h' : Hexital F) (a b : String) (ta tb : HxInd F) (p : Pair h a b ta tb)
    (hop : h.calculate (some b) = .ok h') : Untouched a ta tb h h' :=
  untouched_of_agree p (Hexital.calculate_agree h h' b tb p.hb hop)

/-- **`Hexital.calculate_index(b, i)` does not touch the readings of `a`.** -/
theorem calculateIndex_other (h h' : Hexital F) (a b : String) (ta tb : HxInd F) (index : Int)
    (p : Pair h a b ta tb) (hop : h.calculateIndex (some b) index = .ok h') : Untouched a ta tb h h' :=
  untouched_of_agree p (Hexital.calculateIndex_agree h h' b tb index p.hb hop)

/-- **`Hexital.recalculate(b)` does not touch the readings of `a`.** -/
theorem recalculate_other (h h' : Hexital F) (a b : String) (ta tb : HxInd F) (p : Pair h a b ta tb)
    (hop : h.recalculate (some b) = .ok h') : Untouched a ta tb h h' :=
  untouched_of_agree p (Hexital.recalculate_agree h h' b tb p.hb hop)

/-- **`Hexital.remove_indicator(b)` does not touch the readings of `a`** (`b` registered under the
name of its tree, as `_validate_indicators` does). -/
theorem removeIndicator_other (h h' : Hexital F) (a b : String) (ta tb : HxInd F) (p : Pair h a b ta tb)
    (hkey : tb.tree.name = b) (hop : h.removeIndicator (some b) = .ok h') : Untouched a ta tb h h' := by
  obtain ⟨h1, e1, rfl⟩ := Hexital.removeIndicator_eq h h' b hop
  have u := purge_other h h1 a b ta tb p e1
  have hab : b ≠ a := by
    intro e; subst e
    have := p.ha; rw [p.hb] at this; cases this
    exact p.disjoint _ (Ind.name_mem_names _) (Ind.name_mem_names _)
  refine ⟨u.stored, ?_, fun name hk hp hne => ?_⟩
  · obtain ⟨ta', hl, ht, hm⟩ := u.registered
    exact ⟨ta', by simp [dlookup_derase, hab, hl], ht, hm⟩
  · rw [← u.asList name hk hp hne]
    unfold Hexital.readingAsList
    have : b ≠ (splitDot name).headD "" := fun e => hne (e.symm.trans hkey.symm)
    simp only [dlookup_derase, this, if_false]
    rfl

/-- any sequence of `purge / calculate / recalculate / calculate_index` aimed at `b` -/
inductive OpOnB
  | purge | calculate | recalculate | calculateIndex (i : Int)

def OpOnB.run (b : String) (h : Hexital F) : OpOnB → PyM (Hexital F)
  | .purge => h.purge (some b)
  | .calculate => h.calculate (some b)
  | .recalculate => h.recalculate (some b)
  | .calculateIndex i => h.calculateIndex (some b) i

/-- **All sequences of maintenance operations aimed at `b`** leave everything that is not stored
under one of `b`'s names – in particular every reading of `a` – unchanged. -/
theorem program_other (ops : List OpOnB) :
    ∀ (h h' : Hexital F) (a b : String) (ta tb : HxInd F), Pair h a b ta tb →
      ops.foldlM (fun h op => op.run b h) h = .ok h' → Untouched a ta tb h h' := by
  intro h h' a b ta tb p hop
  refine untouched_of_agree p
    (foldlM_hxAgree (fun h (op : OpOnB) => op.run b h) tb.tree b (fun h1 h2 op tb1 hb1 ht1 e => ?_) ops h h' tb p.hb rfl hop)
  rw [← ht1]
  cases op with
  | purge => exact Hexital.purge_agree h1 h2 b tb1 hb1 e
  | calculate => exact Hexital.calculate_agree h1 h2 b tb1 hb1 e
  | recalculate => exact Hexital.recalculate_agree h1 h2 b tb1 hb1 e
  | calculateIndex i => exact Hexital.calculateIndex_agree h1 h2 b tb1 i hb1 e

/-! ### (c) presence / absence / order of other members -/

/-- the names written by every member of `ms` other than the one named `nm` -/
def othersNames (nm : String) (ms : List (Member F)) : List String :=
  ms.flatMap fun m => if m.tree.name = nm then [] else m.tree.allNames

omit [PyF F] in
theorem othersNames_spec (nm : String) (ms : List (Member F)) (m : Member F) (hm : m ∈ ms)
    (hn : m.tree.name ≠ nm) : ∀ k, k ∈ m.tree.allNames → k ∈ othersNames nm ms :=
  fun k hk => List.mem_flatMap.2 ⟨m, hm, by simp [hn, hk]⟩

/-- **The readings of `a` do not depend on which other members are registered, on the order, or on
what is done to the others.**  Two Hexitals built from the same candles with member lists `ms₁`, `ms₂`
that both contain `a` (without a timeframe of its own) and driven with programs `ops₁`, `ops₂` that act
alike on `a` (`hsame`: the standalone twin of `a` ends in the same state – e.g. the same program, or
programs that differ by `add_indicator` / `remove_indicator` / `purge` / `recalculate` of OTHER members)
return, for every reading name of `a`, the same column; and store, under every name of `a`'s tree, the
same readings on the same collapsed candles.  `N₁`, `N₂` bound the names of all the other members that
ever appear (constructor and `add_indicator`). -/
theorem presence (cfg : MgrCfg) (tf : Option String) (init : List (Candle F)) (ms₁ ms₂ : List (Member F))
    (a : Member F) (N₁ N₂ : List String) (ops₁ ops₂ : List (TwinOp F)) (H₁ H₂ : Hexital F)
    (h₁ : a ∈ Hexital.dedupe ms₁) (h₂ : a ∈ Hexital.dedupe ms₂) (hatf : a.tfName = none)
    (ho₁ : ∀ k, k ∈ othersNames a.tree.name (Hexital.dedupe ms₁) → k ∈ N₁)
    (ho₂ : ∀ k, k ∈ othersNames a.tree.name (Hexital.dedupe ms₂) → k ∈ N₂)
    (hok₁ : TreeOK N₁ a.tree) (hok₂ : TreeOK N₂ a.tree)
    (hops₁ : ∀ op, op ∈ ops₁ → op.OK N₁ a.tree.name) (hops₂ : ∀ op, op ∈ ops₂ → op.OK N₂ a.tree.name)
    (hsame : runTwin a.tree cfg init ops₁ = runTwin a.tree cfg init ops₂)
    (hr₁ : runHexital cfg tf init ms₁ ops₁ = .ok H₁) (hr₂ : runHexital cfg tf init ms₂ ops₂ = .ok H₂) :
    (∀ name, (splitDot name).headD "" = a.tree.name → readOK N₁ name = true → readOK N₂ name = true →
        H₁.readingAsList name = H₂.readingAsList name) ∧
    (∃ hi₁ m₁ hi₂ m₂, dlookup a.tree.name H₁.indicators = some hi₁ ∧ dlookup hi₁.mgrKey H₁.managers = some m₁ ∧
        dlookup a.tree.name H₂.indicators = some hi₂ ∧ dlookup hi₂.mgrKey H₂.managers = some m₂ ∧
        m₁.candles.map Candle.core = m₂.candles.map Candle.core ∧
        ∀ k, k ∈ a.tree.allNames → storedUnder k m₁.candles = storedUnder k m₂.candles) := by
  obtain ⟨t₁, e₁, ht₁, inv₁⟩ := member_twin cfg tf init ms₁ a ops₁ H₁ h₁ hatf
    (fun m hm hn k hk => ho₁ k (othersNames_spec _ _ m hm hn k hk)) hok₁ hops₁ hr₁
  obtain ⟨t₂, e₂, ht₂, inv₂⟩ := member_twin cfg tf init ms₂ a ops₂ H₂ h₂ hatf
    (fun m hm hn k hk => ho₂ k (othersNames_spec _ _ m hm hn k hk)) hok₂ hops₂ hr₂
  have : t₁ = t₂ := by
    have e := hsame
    unfold runTwin at e
    rw [e₁, e₂] at e; cases e; rfl
  subst this
  refine ⟨fun name hp r₁ r₂ => (inv₁.column name hp r₁).trans (inv₂.column name hp r₂).symm, ?_⟩
  obtain ⟨hi₁, m₁, a1, _, a3, _, a5, a6⟩ := inv₁.readings (ht₁ ▸ hok₁)
  obtain ⟨hi₂, m₂, b1, _, b3, _, b5, b6⟩ := inv₂.readings (ht₁ ▸ hok₂)
  exact ⟨hi₁, m₁, hi₂, m₂, a1, a3, b1, b3, a5.trans b5.symm,
    fun k hk => (a6 k (ht₁ ▸ hk)).trans (b6 k (ht₁ ▸ hk)).symm⟩

/-- **General statement (not proved).**  As `presence`, but (i) without the restriction that `a` has no
timeframe of its own – a member with a timeframe lives on a manager that is created, when the member is
attached, from the default manager's candles: the proof needs that this creation commutes with dropping
the other members' readings (expected to hold: a fresh Hexital carries no readings; after `add_indicator` on a
calculated Hexital the new manager is built from reset candles) – which `member_twin` does not cover
(its twin is a standalone indicator over the default manager's configuration). -/
def presence_FULL : Prop :=
  ∀ {F : Type} [PyF F] (cfg : MgrCfg) (tf : Option String) (init : List (Candle F)) (ms₁ ms₂ : List (Member F))
    (a : Member F) (N₁ N₂ : List String) (ops₁ ops₂ : List (TwinOp F)) (H₁ H₂ : Hexital F),
    a ∈ Hexital.dedupe ms₁ → a ∈ Hexital.dedupe ms₂ →
    (∀ k, k ∈ othersNames a.tree.name (Hexital.dedupe ms₁) → k ∈ N₁) →
    (∀ k, k ∈ othersNames a.tree.name (Hexital.dedupe ms₂) → k ∈ N₂) →
    TreeOK N₁ a.tree → TreeOK N₂ a.tree →
    (∀ op, op ∈ ops₁ → op.OK N₁ a.tree.name) → (∀ op, op ∈ ops₂ → op.OK N₂ a.tree.name) →
    ops₁.filter (fun op => match op with | .add _ => false | .remove (some _) => false | _ => true)
      = ops₂.filter (fun op => match op with | .add _ => false | .remove (some _) => false | _ => true) →
    runHexital cfg tf init ms₁ ops₁ = .ok H₁ → runHexital cfg tf init ms₂ ops₂ = .ok H₂ →
    ∀ name, (splitDot name).headD "" = a.tree.name → readOK N₁ name = true → readOK N₂ name = true →
      H₁.readingAsList name = H₂.readingAsList name

/-! ### non-vacuity: a concrete Hexital (toy carrier `Int`) on which every hypothesis above holds -/

section Examples

def exCandle (c : Int) : Candle Int :=
  { o := .int c, h := .int (c + 2), l := .int (c - 1), c := .int (c + 1), v := .int 10 }

def exCandles : List (Candle Int) := [exCandle 10, exCandle 12, exCandle 11, exCandle 15, exCandle 14, exCandle 13]

def exA : Member Int := { tree := mkTop (.sma 2 "close") "SMA_2" 4, tfName := none, tfSecs := none }
/-- a composite member: RSI with its managed `RSI_2_data` helper series -/
def exB : Member Int := { tree := mkTop (.rsi 2 "close") "RSI_2" 4, tfName := none, tfSecs := none }

/-- both registered on the default manager and calculated -/
def exHex : PyM (Hexital Int) := do
  let h ← Hexital.init {} none exCandles [exA, exB]
  h.calculate none

def isOk {α : Type} : PyM α → Bool
  | .ok _ => true
  | .error _ => false

/-- decidable form of `Pair` -/
def pairB (h : Hexital Int) (a b : String) : Bool :=
  match dlookup a h.indicators, dlookup b h.indicators with
  | some ta, some tb => ta.tree.allNames.all fun k => !tb.tree.allNames.contains k
  | _, _ => false

theorem pair_of_pairB (h : Hexital Int) (a b : String) (hp : pairB h a b = true) :
    ∃ ta tb, Pair h a b ta tb := by
  unfold pairB at hp
  split at hp
  · rename_i ta tb ha hb
    refine ⟨ta, tb, ha, hb, fun k hk => ?_⟩
    have := (List.all_eq_true.1 hp) k hk
    simpa using this
  · cases hp

/-- the hypotheses of `purge_other`, `calculate_other`, `calculateIndex_other`, `recalculate_other`,
`removeIndicator_other` and `program_other` hold together on the example (and the name sets are
`[SMA_2]` and `[RSI_2, RSI_2_data]`) -/
example : (match exHex with
    | .ok h =>
      pairB h "SMA_2" "RSI_2" &&
      isOk (h.purge (some "RSI_2")) && isOk (h.calculate (some "RSI_2")) &&
      isOk (h.calculateIndex (some "RSI_2") 3) && isOk (h.recalculate (some "RSI_2")) &&
      isOk (h.removeIndicator (some "RSI_2")) &&
      isOk ([OpOnB.purge, .calculateIndex 4, .recalculate, .calculate].foldlM (fun h op => op.run "RSI_2" h) h) &&
      (dlookup "RSI_2" h.indicators).any (fun tb => tb.tree.name == "RSI_2" && tb.tree.allNames == ["RSI_2", "RSI_2_data"])
    | .error _ => false) = true := by decide +kernel

/-- … and the statement is not about empty columns: before the purge both members have readings on
the last candle, after `purge("RSI_2")` only `SMA_2` has -/
example : (match exHex with
    | .ok h =>
      (match h.readingAsList "SMA_2", h.readingAsList "RSI_2", h.purge (some "RSI_2") with
       | .ok la, .ok lb, .ok h' =>
         (match h'.readingAsList "SMA_2", h'.readingAsList "RSI_2" with
          | .ok la', .ok lb' =>
            la.map Val.isNone == [true, false, false, false, false, false] &&
            lb.map Val.isNone == [true, true, false, false, false, false] &&
            la'.map Val.isNone == la.map Val.isNone && lb'.all Val.isNone
          | _, _ => false)
       | _, _, _ => false)
    | .error _ => false) = true := by decide +kernel

/-- hypotheses of `presence`: `SMA_2` alone, before and after the composite `RSI_2`; the program
also aims operations at the other member -/
def exOps : List (TwinOp Int) :=
  [.calculate none, .append [exCandle 16, exCandle 12], .purge (some "RSI_2"), .calculateIndex none 3,
   .recalculate (some "SMA_2"), .append [exCandle 18], .calculate (some "RSI_2")]

/-- `N₁ = N₂ =` the names of `RSI_2`; three worlds: `SMA_2` alone (the other member is added later by
`add_indicator`), `SMA_2` before and after `RSI_2`; the programs act alike on the twin -/
example :
    (exA ∈ Hexital.dedupe [exA] ∧ exA ∈ Hexital.dedupe [exA, exB] ∧ exA ∈ Hexital.dedupe [exB, exA]) ∧
    ((othersNames "SMA_2" (Hexital.dedupe [exA])).all exB.tree.allNames.contains = true ∧
     (othersNames "SMA_2" (Hexital.dedupe [exA, exB])).all exB.tree.allNames.contains = true ∧
     (othersNames "SMA_2" (Hexital.dedupe [exB, exA])).all exB.tree.allNames.contains = true ∧
     treeOKb exB.tree.allNames exA.tree = true ∧
     (TwinOp.add [exB] :: exOps).all (TwinOp.okb exB.tree.allNames "SMA_2") = true ∧
     readOK exB.tree.allNames "SMA_2" = true ∧
     isOk (runHexital {} none exCandles [exA] (TwinOp.add [exB] :: exOps)) = true ∧
     isOk (runHexital {} none exCandles [exA, exB] exOps) = true ∧
     isOk (runHexital {} none exCandles [exB, exA] exOps) = true) ∧
    runTwin exA.tree {} exCandles (TwinOp.add [exB] :: exOps) = runTwin exA.tree {} exCandles exOps := by
  refine ⟨⟨?_, ?_, ?_⟩, ?_, ?_⟩
  · simp [Hexital.dedupe, dset]
  · simp [Hexital.dedupe, exA, exB, mkTop, Ind.name, dset]
  · simp [Hexital.dedupe, exA, exB, mkTop, Ind.name, dset]
  · decide +kernel
  · simp [runTwin, TwinOp.runInd]

end Examples

end Hex.C13

import HexProofs.Framework.Program
import HexProofs.Framework.Gen.ProgramLifeTf2
import HexProofs.Framework.Gen.ProgramLifeTf
import HexProofs.Framework.Gen.ProgramMore
import HexProofs.Framework.Gen.ProgramLife
import HexProofs.Writes.MembersC14
import HexProofs.Framework.Gen.AllX
import HexProofs.Framework.Gen.IndexTrees
import HexProofs.Framework.Gen.ProgramTf
import HexProps.C01
/-
C14 – Maintenance operations are idempotent and converge to the batch state.

Proved, for every float carrier `F`, for LEAF indicators under their `Contract` on the base
timeframe, on every state the framework can be in (`Resumable`: a finished row-major prefix
followed by raw candles):
  * `calculate()` again changes nothing;
  * `recalculate()` reproduces exactly the readings it replaced;
  * `purge()` gives back exactly the raw stream (removes what the indicator wrote, nothing else);
    and, for ANY tree, `purge()` removes every entry under every name of the tree and touches
    nothing else (from HexProofs/Writes);
  * `calculate_index(i)` on an index that holds a reading – addressed by its positive or by its
    negative index – reproduces it (the candles do not change);
  * after ANY program over {append, calculate, purge, recalculate, calculate_index(±i) on computed
    indices} that runs, a final `calculate()` gives exactly the batch result over the raw stream
    seen so far, and raises exactly when the batch run raises (`program_converges_leaf`).
For TREES (all 27 shipped classes, `CoveredTreeX`): the same five statements (`calculate_idempotent_trees`,
`recalculate_reproduces_trees`, `purge_restores_raw_trees`, `calculate_index_reproduces_trees` at EVERY index
`-len ≤ i < len`, index 0 included, and `C14_trees_all`: programs with `calculate_index(±i)` anywhere converge to
the batch state).  `C14_trees` is the older form that allowed `calculate_index` only for kinds without
sub-indicators.
ON A COLLAPSING TIMEFRAME, with or without gap filling (every `MgrSpec`; `…_tf` / `C14_trees_mgr`): the same – programs
converge to the batch run with that configuration, `calculate()` idempotent, `purge()` restores the collapsed (filled)
stream without readings, `recalculate()` and `calculate_index(i)` reproduce (also right after an append that merged into the
forming bucket) – for all 27 classes, given a well-formed raw stream (`RawTf`).
Not covered here: the Hexital façade operations `add_indicator` / `remove_indicator`, Heikin-Ashi / lifespan managers, an
explicit `end_index` range; the full statement is `C14_FULL`.
-/
namespace Hex.C14
open Hex Hex.C01
variable {F : Type} [PyF F]

/-- **`calculate()` again changes nothing.** -/
theorem calculate_idempotent_leaf (s s₁ : IndState F) (hl : IsLeaf s.tree) (K : Contract s.tree)
    (hres : Resumable s.tree s.mgr.candles) (h : s.calculate = .ok s₁) :
    candlesOf s₁.calculate = .ok s₁.mgr.candles := by
  obtain ⟨out, hc, ht, _, hcs⟩ := IndState.calculate_ok s s₁ hl h
  have hfin : Finished s.tree out := leafCalc_finishes s.tree K _ out hres hc
  rw [IndState.candlesOf_calculate s₁ (by rw [ht]; exact hl), ht, hcs]
  exact leafCalc_idempotent s.tree K out hfin

/-- **`recalculate()` reproduces** the readings it replaced (finished state). -/
theorem recalculate_reproduces_leaf (s : IndState F) (hl : IsLeaf s.tree) (K : Contract s.tree)
    (hfin : Finished s.tree s.mgr.candles) :
    candlesOf s.recalculate = .ok s.mgr.candles := by
  obtain ⟨raw, hp, hr⟩ := hfin
  rw [IndState.candlesOf_recalculate s hl]
  have hpurge := purge_resumable s.tree hl raw [] s.mgr.candles hp (by simp) hr
  simp only [List.append_nil] at hpurge
  rw [hpurge]
  have := leafCalc_refines s.tree K [] raw [] rfl (by simp) hp
  simpa [hr] using this

/-- on any resumable state `recalculate()` and `calculate()` end with the same candles (or raise
the same exception) -/
theorem recalculate_eq_calculate_leaf (s : IndState F) (hl : IsLeaf s.tree) (K : Contract s.tree)
    (hres : Resumable s.tree s.mgr.candles) :
    candlesOf s.recalculate = candlesOf s.calculate := by
  obtain ⟨raw₁, raw₂, done, hp₁, hp₂, hr, hcs⟩ := hres
  rw [IndState.candlesOf_recalculate s hl, IndState.candlesOf_calculate s hl, hcs,
      purge_resumable s.tree hl raw₁ raw₂ done hp₁ hp₂ hr,
      leafCalc_refines s.tree K raw₁ raw₂ done hr hp₁ hp₂]
  have := leafCalc_refines s.tree K [] (raw₁ ++ raw₂) [] rfl (by simp)
    (fun c hc => by rcases List.mem_append.1 hc with h | h; exact hp₁ c h; exact hp₂ c h)
  simpa using this

/-- **`purge()` of a leaf removes exactly what it wrote**: the raw stream comes back. -/
theorem purge_restores_raw_leaf (s : IndState F) (hl : IsLeaf s.tree)
    (raw₁ raw₂ done : List (Candle F)) (hp₁ : RawInput raw₁) (hp₂ : RawInput raw₂)
    (hr : rowMajor s.tree raw₁ = .ok done) (hcs : s.mgr.candles = done ++ raw₂) :
    s.purge.mgr.candles = raw₁ ++ raw₂ := by
  unfold IndState.purge
  simp only [hcs]
  exact purge_resumable s.tree hl raw₁ raw₂ done hp₁ hp₂ hr

/-- **`purge()` of any tree** (helpers at any depth included) leaves no entry under any of the
tree's names on any candle … -/
theorem purge_removes_all (s : IndState F) (c : Candle F) (hc : c ∈ s.purge.mgr.candles)
    (k : String) (hk : k ∈ s.tree.allNames) : dlookup k c.inds = none ∧ dlookup k c.subs = none :=
  purgeNames_removes s.tree.allNames s.mgr.candles c hc k hk

/-- … and changes nothing else: same length, same OHLCV / timestamp / tag / clean values, and
the same entries under every other name. -/
theorem purge_nothing_else (s : IndState F) :
    AgreeOff s.tree.allNames s.mgr.candles s.purge.mgr.candles :=
  purgeNames_agree s.tree.allNames s.mgr.candles

/-- **`calculate_index(j)` on a computed index reproduces it**, positive index. -/
theorem calculate_index_reproduces_leaf (s : IndState F) (hl : IsLeaf s.tree) (K : Contract s.tree)
    (raw₁ raw₂ done : List (Candle F)) (hp₁ : RawInput raw₁)
    (hr : rowMajor s.tree raw₁ = .ok done) (hcs : s.mgr.candles = done ++ raw₂)
    (j : Nat) (hj : j < done.length) :
    candlesOf (s.calculateIndex (j : Int) none) = .ok s.mgr.candles := by
  rw [IndState.calculateIndex_leaf s hl]
  have hn : ¬ ((j : Int) < 0) := by omega
  simp only [hn, if_false, hcs, stepLeaf_computed s.tree K raw₁ raw₂ done hp₁ hr j hj]
  rfl

/-- … and addressed by the equivalent negative index `j - len`. -/
theorem calculate_index_negative_reproduces_leaf (s : IndState F) (hl : IsLeaf s.tree)
    (K : Contract s.tree) (raw₁ raw₂ done : List (Candle F)) (hp₁ : RawInput raw₁)
    (hr : rowMajor s.tree raw₁ = .ok done) (hcs : s.mgr.candles = done ++ raw₂)
    (j : Nat) (hj : j < done.length) :
    candlesOf (s.calculateIndex ((j : Int) - (s.mgr.candles.length : Int)) none) = .ok s.mgr.candles := by
  rw [IndState.calculateIndex_leaf s hl]
  have hlen : j < s.mgr.candles.length := by rw [hcs, List.length_append]; omega
  have hn : (j : Int) - (s.mgr.candles.length : Int) < 0 := by omega
  have hst : (j : Int) - (s.mgr.candles.length : Int) + (s.mgr.candles.length : Int) = (j : Int) := by omega
  simp only [hn, if_true, hst]
  simp only [hcs, stepLeaf_computed s.tree K raw₁ raw₂ done hp₁ hr j hj]
  rfl

/-- **Convergence to the batch state.**  Start from a freshly constructed indicator over raw
candles; run any program over the operation alphabet (every `append` chunk raw, every
`calculate_index` aimed – by positive or negative index – at a candle that holds a reading, no
operation raising).  Then a final `calculate()` ends with exactly the candles of one batch
`calculate()` over all candles received, and raises iff that batch run raises. -/
theorem program_converges_leaf (ind : Ind F) (hl : IsLeaf ind) (K : Contract ind)
    (init : List (Candle F)) (hinit : RawInput init) (ops : List (Op F)) (s : IndState F)
    (hruns : Runs ({ tree := ind, mgr := { cfg := {}, candles := init } } : IndState F) ops s) :
    candlesOf s.calculate = candlesOf (runBatch ind {} (init ++ (ops.map Op.added).flatten)) := by
  rw [program_converges ind hl K init hinit ops s hruns]
  have hres := (progInv_runs ind hl K ops init _ s
    ⟨rfl, rfl, ⟨[], init, [], by simp, by simp, hinit, rfl, by simp⟩⟩ hruns).res
  unfold runBatch
  rw [runIndicator_refines ind hl K _ [] (by simpa using hres.plain)]
  simp

/-- **C14, partial: all covered kinds** (`Covered`: every shipped leaf class, the Amorph wrapper of
the pattern / movement functions included) as standalone indicators on the base timeframe: programs converge to the batch state. -/
theorem C14_partial (k : Kind F) (name : String) (round : Nat) (hk : Covered name k)
    (init : List (Candle F)) (hinit : RawInput init) (ops : List (Op F)) (s : IndState F)
    (hruns : Runs ({ tree := mkTop k name round, mgr := { cfg := {}, candles := init } } : IndState F) ops s) :
    candlesOf s.calculate
      = candlesOf (runBatch (mkTop k name round) {} (init ++ (ops.map Op.added).flatten)) := by
  obtain ⟨K⟩ := hk.contract round
  exact program_converges_leaf _ (hk.isLeaf round) K init hinit ops s hruns

/-! ### composite trees -/

/-- **C14, partial: all covered TREES** – programs converge to the batch state.  After any program
over {append, calculate, purge, recalculate, calculate_index(±i) on a candle that holds a reading}
(`calculate_index` only for kinds without sub-indicators, `indexStepKind`) that runs, a final `calculate()` returns iff the batch run over all candles received returns,
with the same candles (own readings and helper series). -/
theorem C14_trees (k : Kind F) (name : String) (round : Nat) (hk : CoveredTreeX name k)
    (init : List (Candle F)) (hinit : RawInput init) (ops : List (Op F))
    (hal : ∀ op ∈ ops, op.allowed (indexStepKindX k) = true) (s : IndState F)
    (hruns : Runs ({ tree := mkTop k name round, mgr := { cfg := {}, candles := init } } : IndState F) ops s)
    (out : List (Candle F)) :
    candlesOf s.calculate = .ok out ↔
      candlesOf (runBatch (mkTop k name round) {} (init ++ (ops.map Op.added).flatten)) = .ok out := by
  obtain ⟨T, hfull⟩ := hk.spec round
  have hplain : RawInput (init ++ (ops.map Op.added).flatten) :=
    (gprogInv_runs T (indexStepKindX k) hfull ops init _ s hal
      ⟨rfl, rfl, Gen.resumableAt_plain T.S init hinit⟩ hruns).res.plain
  rw [T.program_converges (indexStepKindX k) hfull init hinit ops hal s hruns out]
  exact (T.batch_iff (MgrSpec.base F) _ hplain out).symm

/-- **`calculate()` again changes nothing, trees**: after a `calculate()` that returned on a fresh
or resumed state, another one returns the same candles. -/
theorem calculate_idempotent_trees (k : Kind F) (name : String) (round : Nat) (hk : CoveredTreeX name k)
    (init : List (Candle F)) (hinit : RawInput init) (ops : List (Op F))
    (hal : ∀ op ∈ ops, op.allowed (indexStepKindX k) = true) (s s₁ : IndState F)
    (hruns : Runs ({ tree := mkTop k name round, mgr := { cfg := {}, candles := init } } : IndState F) ops s)
    (h : s.calculate = .ok s₁) : candlesOf s₁.calculate = .ok s₁.mgr.candles := by
  obtain ⟨T, hfull⟩ := hk.spec round
  exact T.obj_idempotent _ s s₁
    (gprogInv_runs T (indexStepKindX k) hfull ops init _ s hal
      ⟨rfl, rfl, Gen.resumableAt_plain T.S init hinit⟩ hruns) h

/-- **`purge()` gives back the raw stream, trees**: it removes the node's readings and its helper
series and nothing else. -/
theorem purge_restores_raw_trees (k : Kind F) (name : String) (round : Nat) (hk : CoveredTreeX name k)
    (init : List (Candle F)) (hinit : RawInput init) (ops : List (Op F))
    (hal : ∀ op ∈ ops, op.allowed (indexStepKindX k) = true) (s : IndState F)
    (hruns : Runs ({ tree := mkTop k name round, mgr := { cfg := {}, candles := init } } : IndState F) ops s) :
    s.purge.mgr.candles = init ++ (ops.map Op.added).flatten := by
  obtain ⟨T, hfull⟩ := hk.spec round
  have hinv := gprogInv_runs T (indexStepKindX k) hfull ops init _ s hal
      ⟨rfl, rfl, Gen.resumableAt_plain T.S init hinit⟩ hruns
  unfold IndState.purge
  simp only [hinv.tree]
  exact T.purge_resumableAt _ _ hinv.res

/-- **`recalculate()` reproduces, trees**: right after a `calculate()` that returned. -/
theorem recalculate_reproduces_trees (k : Kind F) (name : String) (round : Nat) (hk : CoveredTreeX name k)
    (init : List (Candle F)) (hinit : RawInput init) (ops : List (Op F))
    (hal : ∀ op ∈ ops, op.allowed (indexStepKindX k) = true) (s s₁ : IndState F)
    (hruns : Runs ({ tree := mkTop k name round, mgr := { cfg := {}, candles := init } } : IndState F) ops s)
    (h : s.calculate = .ok s₁) : candlesOf s₁.recalculate = .ok s₁.mgr.candles := by
  obtain ⟨T, hfull⟩ := hk.spec round
  have hinv := gprogInv_runs T (indexStepKindX k) hfull ops init _ s hal
      ⟨rfl, rfl, Gen.resumableAt_plain T.S init hinit⟩ hruns
  have h1 := gprogInv_calculate T _ s s₁ hinv h
  obtain ⟨_, _, he⟩ := IndState.calculate_ok_engine s s₁ h
  rw [hinv.tree] at he
  exact T.obj_recalculate _ s₁ h1 ((T.engine_resumableAt _ _ _ hinv.res).1 he)

/-- **`calculate_index(i)` reproduces the batch state – every shipped class, every index.**  On the finished state
of a batch run, `calculate_index(i)` for any `-len ≤ i < len` (index 0 included: there the helpers of a composite run
their full `calculate()`, which finds nothing to do) leaves every candle – own readings, helper series, `_data`
series – exactly as it was. -/
theorem calculate_index_reproduces_trees (k : Kind F) (name : String) (round : Nat) (hk : CoveredTreeX name k)
    (raw done : List (Candle F)) (hp : RawInput raw) (h : candlesOf (runBatch (mkTop k name round) {} raw) = .ok done)
    (i : Int) (hlo : -(done.length : Int) ≤ i) (hhi : i < done.length) (act : Int) :
    candlesOf (IndState.calculateIndex ⟨mkTop k name round, ⟨{}, done⟩, act⟩ i none) = .ok done :=
  calculateIndex_reproduces hk round raw done hp h i hlo hhi act

/-- **C14 for all covered TREES with `calculate_index` anywhere**: `C14_trees` without its restriction on
`calculate_index` – after ANY program over {append, calculate, purge, recalculate, calculate_index(±i) on a candle
that holds a reading} that runs, a final `calculate()` returns iff the batch run over all candles received returns,
with the same candles. -/
theorem C14_trees_all (k : Kind F) (name : String) (round : Nat) (hk : CoveredTreeX name k)
    (init : List (Candle F)) (hinit : RawInput init) (ops : List (Op F)) (s : IndState F)
    (hruns : Runs ({ tree := mkTop k name round, mgr := { cfg := {}, candles := init } } : IndState F) ops s)
    (out : List (Candle F)) :
    candlesOf s.calculate = .ok out ↔
      candlesOf (runBatch (mkTop k name round) {} (init ++ (ops.map Op.added).flatten)) = .ok out :=
  program_converges_all hk round init hinit ops s hruns out

/-- `calculate()` again changes nothing – every class, after ANY program (with `calculate_index` anywhere) -/
theorem calculate_idempotent_trees_all (k : Kind F) (name : String) (round : Nat) (hk : CoveredTreeX name k)
    (init : List (Candle F)) (hinit : RawInput init) (ops : List (Op F)) (s s₁ : IndState F)
    (hruns : Runs ({ tree := mkTop k name round, mgr := { cfg := {}, candles := init } } : IndState F) ops s)
    (h : s.calculate = .ok s₁) : candlesOf s₁.calculate = .ok s₁.mgr.candles := by
  obtain ⟨T, hT⟩ := program_invariant_all hk round
  exact T.obj_idempotent _ s s₁ (hT init hinit ops s hruns) h

/-- `purge()` gives back the raw stream – every class, after ANY program -/
theorem purge_restores_raw_trees_all (k : Kind F) (name : String) (round : Nat) (hk : CoveredTreeX name k)
    (init : List (Candle F)) (hinit : RawInput init) (ops : List (Op F)) (s : IndState F)
    (hruns : Runs ({ tree := mkTop k name round, mgr := { cfg := {}, candles := init } } : IndState F) ops s) :
    s.purge.mgr.candles = init ++ (ops.map Op.added).flatten := by
  obtain ⟨T, hT⟩ := program_invariant_all hk round
  have hinv := hT init hinit ops s hruns
  unfold IndState.purge
  simp only [hinv.tree]
  exact T.purge_resumableAt _ _ hinv.res

/-- `recalculate()` reproduces – every class, right after a `calculate()` that returned, after ANY program -/
theorem recalculate_reproduces_trees_all (k : Kind F) (name : String) (round : Nat) (hk : CoveredTreeX name k)
    (init : List (Candle F)) (hinit : RawInput init) (ops : List (Op F)) (s s₁ : IndState F)
    (hruns : Runs ({ tree := mkTop k name round, mgr := { cfg := {}, candles := init } } : IndState F) ops s)
    (h : s.calculate = .ok s₁) : candlesOf s₁.recalculate = .ok s₁.mgr.candles := by
  obtain ⟨T, hT⟩ := program_invariant_all hk round
  have hinv := hT init hinit ops s hruns
  have h1 := gprogInv_calculate T _ s s₁ hinv h
  obtain ⟨_, _, he⟩ := IndState.calculate_ok_engine s s₁ h
  rw [hinv.tree] at he
  exact T.obj_recalculate _ s₁ h1 ((T.engine_resumableAt _ _ _ hinv.res).1 he)

/-! ### collapsing timeframes (and gap filling): every `MgrSpec` -/

/-- **C14 on any manager** (`M : MgrSpec F`: base timeframe, collapsing timeframe, timeframe + fill), all 27 classes:
construct over raw candles `init` with cfg `M.cfg`, run any program over {append, calculate, purge, recalculate,
calculate_index(±i) on a candle that holds a reading}; if the raw stream received is well-formed for `M` (`RawTf` on a
timeframe), a final `calculate()` returns iff the batch run with the same cfg over everything received returns, with
the same candles. -/
theorem C14_trees_mgr (k : Kind F) (name : String) (round : Nat) (hk : CoveredTreeX name k) (M : MgrSpec F)
    (init : List (Candle F)) (ops : List (Op F)) (hok : M.Ok (init ++ (ops.map Op.added).flatten))
    (s₀ s : IndState F) (h₀ : IndState.init (mkTop k name round) M.cfg init = .ok s₀) (hruns : Runs s₀ ops s)
    (out : List (Candle F)) :
    candlesOf s.calculate = .ok out ↔
      candlesOf (runBatch (mkTop k name round) M.cfg (init ++ (ops.map Op.added).flatten)) = .ok out :=
  program_converges_tf hk round M init ops hok s₀ s h₀ hruns out

/-- **C14 for all covered trees, any timeframe, gap filling off or on** (configuration as in `C01_trees`) -/
theorem C14_trees_tf (tf : Option Int) (htf : ∀ t, tf = some t → 0 < t) (fill : Bool) (k : Kind F) (name : String)
    (round : Nat) (hk : CoveredTreeX name k) (init : List (Candle F)) (ops : List (Op F))
    (hraw : RawTf (init ++ (ops.map Op.added).flatten)) (s₀ s : IndState F)
    (h₀ : IndState.init (mkTop k name round) { tf := tf, fill := fill && tf.isSome } init = .ok s₀)
    (hruns : Runs s₀ ops s) (out : List (Candle F)) :
    candlesOf s.calculate = .ok out ↔
      candlesOf (runBatch (mkTop k name round) { tf := tf, fill := fill && tf.isSome }
        (init ++ (ops.map Op.added).flatten)) = .ok out :=
  program_converges_cfg hk round tf htf fill init ops hraw s₀ s h₀ hruns out

/-- the program invariant on any manager: after any program the candles are the finished row-major run over the
collapsed stream `M.spec (init ++ appended)`, or that collapsed stream itself -/
theorem program_invariant_trees_tf (k : Kind F) (name : String) (round : Nat) (hk : CoveredTreeX name k) :
    ∃ T : TreeSpec (mkTop k name round), T.IndexOK ∧
      ∀ (M : MgrSpec F) (init : List (Candle F)) (ops : List (Op F)) (s₀ s : IndState F),
        M.Ok (init ++ (ops.map Op.added).flatten) →
        IndState.init (mkTop k name round) M.cfg init = .ok s₀ → Runs s₀ ops s →
        GProgInvMX T M (init ++ (ops.map Op.added).flatten) s :=
  program_invariant_tf hk round

/-- `calculate()` again changes nothing – any timeframe -/
theorem calculate_idempotent_trees_tf (tf : Option Int) (htf : ∀ t, tf = some t → 0 < t) (fill : Bool) (k : Kind F)
    (name : String) (round : Nat) (hk : CoveredTreeX name k) (init : List (Candle F)) (ops : List (Op F))
    (hraw : RawTf (init ++ (ops.map Op.added).flatten)) (s₀ s s₁ : IndState F)
    (h₀ : IndState.init (mkTop k name round) { tf := tf, fill := fill && tf.isSome } init = .ok s₀)
    (hruns : Runs s₀ ops s) (h : s.calculate = .ok s₁) : candlesOf s₁.calculate = .ok s₁.mgr.candles :=
  calculate_idempotent_cfg hk round tf htf fill init ops hraw s₀ s s₁ h₀ hruns h

/-- `purge()` gives back the collapsed stream without readings (`resample tf stream`, `fillSpec tf stream` with fill,
the raw stream on the base timeframe) -/
theorem purge_restores_spec_trees_tf (tf : Option Int) (htf : ∀ t, tf = some t → 0 < t) (fill : Bool) (k : Kind F)
    (name : String) (round : Nat) (hk : CoveredTreeX name k) (init : List (Candle F)) (ops : List (Op F))
    (hraw : RawTf (init ++ (ops.map Op.added).flatten)) (s₀ s : IndState F)
    (h₀ : IndState.init (mkTop k name round) { tf := tf, fill := fill && tf.isSome } init = .ok s₀)
    (hruns : Runs s₀ ops s) :
    s.purge.mgr.candles = (mgrSpecOf F tf htf fill).spec (init ++ (ops.map Op.added).flatten) :=
  purge_restores_spec_cfg hk round tf htf fill init ops hraw s₀ s h₀ hruns

/-- `recalculate()` reproduces – any timeframe -/
theorem recalculate_reproduces_trees_tf (tf : Option Int) (htf : ∀ t, tf = some t → 0 < t) (fill : Bool) (k : Kind F)
    (name : String) (round : Nat) (hk : CoveredTreeX name k) (init : List (Candle F)) (ops : List (Op F))
    (hraw : RawTf (init ++ (ops.map Op.added).flatten)) (s₀ s s₁ : IndState F)
    (h₀ : IndState.init (mkTop k name round) { tf := tf, fill := fill && tf.isSome } init = .ok s₀)
    (hruns : Runs s₀ ops s) (h : s.calculate = .ok s₁) : candlesOf s₁.recalculate = .ok s₁.mgr.candles :=
  recalculate_reproduces_cfg hk round tf htf fill init ops hraw s₀ s s₁ h₀ hruns h

/-- `calculate_index(i)` reproduces the batch state at every index of the collapsed list – any timeframe -/
theorem calculate_index_reproduces_trees_tf (tf : Option Int) (htf : ∀ t, tf = some t → 0 < t) (fill : Bool)
    (k : Kind F) (name : String) (round : Nat) (hk : CoveredTreeX name k) (raw done : List (Candle F))
    (hraw : RawTf raw)
    (h : candlesOf (runBatch (mkTop k name round) { tf := tf, fill := fill && tf.isSome } raw) = .ok done)
    (i : Int) (hlo : -(done.length : Int) ≤ i) (hhi : i < done.length) (act : Int) :
    candlesOf (IndState.calculateIndex ⟨mkTop k name round, ⟨{ tf := tf, fill := fill && tf.isSome }, done⟩, act⟩ i none)
      = .ok done :=
  calculateIndex_reproduces_cfg hk round tf htf fill raw done hraw h i hlo hhi act

/-- … and right after an `append` inside a program (the still-forming bucket included: `i = -1`) -/
theorem calculate_index_after_append_trees_tf (k : Kind F) (name : String) (round : Nat) (hk : CoveredTreeX name k)
    (M : MgrSpec F) (init : List (Candle F)) (ops : List (Op F)) (ch : List (Candle F))
    (hok : M.Ok (init ++ (ops.map Op.added).flatten ++ ch)) (s₀ s' s : IndState F)
    (h₀ : IndState.init (mkTop k name round) M.cfg init = .ok s₀) (hruns : Runs s₀ ops s')
    (happ : s'.append ch = .ok s) (i : Int) (hlo : -(s.mgr.candles.length : Int) ≤ i)
    (hhi : i < s.mgr.candles.length) : candlesOf (s.calculateIndex i none) = .ok s.mgr.candles :=
  calculateIndex_after_append_tf hk round M init ops ch hok s₀ s' s h₀ hruns happ i hlo hhi

/-- non-vacuity on a 120-second timeframe over one-minute candles, and with fill and a gap -/
example : ∃ s₀ s, IndState.init TfDemo.kc { tf := some 120 } (TfDemo.min10.take 1) = .ok s₀ ∧ Runs s₀ TfDemo.prog s :=
  TfDemo.prog_runs
example : ∃ s₀ s, IndState.init TfDemo.kc { tf := some 120, fill := true } (TfDemo.gap6.take 1) = .ok s₀ ∧
    Runs s₀ TfDemo.progGap s := TfDemo.progGap_runs

/-- **C14 at full strength**: every shipped kind (composites included) inside a `Hexital`, the
whole operation alphabet including `add_indicator` / `remove_indicator`, every timeframe.
The standalone-object part on the base timeframe is PROVED for all 27 classes: `C14_trees_all` (programs),
`calculate_index_reproduces_trees`, `calculate_idempotent_trees`, `purge_restores_raw_trees`,
`recalculate_reproduces_trees` (the defects that once made it false for trees with helpers –
`calculate_index(-1)` handing the negative index to helper series, `purge` leaving second-level helper entries –
are repaired in the library, see known_findings `fixed`).  As a `Prop` the statement below additionally claims
that the final `calculate()` RETURNS, which is C09's subject (exact ordered field: `C09.X_never_raises`).
Collapsing timeframes / gap filling: `C14_trees_mgr`, `C14_trees_tf` and the `…_trees_tf` theorems.
Heikin-Ashi managers: `C14_trees_ha`, `C14_trees_haCfg`, `calculate_index_reproduces_trees_haCfg`; façade programs: `C14_member*`; lifespan: `C14_trees_lifespan`.
Missing: lifespan combined with a timeframe, the observed member itself removed / re-added, an explicit `end_index`. -/
def C14_FULL (F : Type) [PyF F] : Prop :=
  ∀ (k : Kind F) (name : String) (round : Nat) (init : List (Candle F)) (ops : List (Op F))
    (s : IndState F),
    (∀ p ∈ periods k, 1 ≤ p) → IsKey name → RawInput init →
    Runs ({ tree := mkTop k name round, mgr := { cfg := {}, candles := init } } : IndState F) ops s →
    ∃ out, candlesOf s.calculate = .ok out ∧
      candlesOf (runBatch (mkTop k name round) {} (init ++ (ops.map Op.added).flatten)) = .ok out

/-! ### non-vacuity: a finished SMA state -/

def demoState : IndState Int := { tree := demoSMA, mgr := { cfg := {}, candles := demo } }

/-- a raw state is resumable; after `calculate()` it is finished with non-`None` readings -/
example : Resumable demoState.tree demoState.mgr.candles :=
  resumable_of_plain _ _ (by decide)
example : smaColumn (candlesOf demoState.calculate) = some [none, some 3, some 3, some 4] := by decide

/-- a program that runs on the demo: append, recompute the newest index by its negative index,
purge, append again, recalculate, recompute index 1 -/
def demoProgram : List (Op Int) :=
  [.append (demo.take 2), .calcIndex (-1), .purge, .append (demo.drop 2 |>.take 1), .recalculate,
   .calcIndex 1, .append (demo.drop 3)]

example : ∃ s, Runs ({ tree := demoSMA, mgr := { cfg := {}, candles := [] } } : IndState Int) demoProgram s := by
  have h : (runChecked ({ tree := demoSMA, mgr := { cfg := {}, candles := [] } } : IndState Int) demoProgram).isSome = true := by
    decide +kernel
  cases hr : runChecked ({ tree := demoSMA, mgr := { cfg := {}, candles := [] } } : IndState Int) demoProgram with
  | none => rw [hr] at h; cases h
  | some s => exact ⟨s, runs_of_runChecked _ _ _ hr⟩

/-- a composite tree: the same program runs on RSI (two keys per candle) -/
example : ∃ s, Runs ({ tree := mkTop (.rsi 2 "close") "RSI_2" 4, mgr := { cfg := {}, candles := [] } } : IndState Int)
    demoProgram s := by
  have h : (runChecked ({ tree := mkTop (.rsi 2 "close") "RSI_2" 4, mgr := { cfg := {}, candles := [] } } : IndState Int)
      demoProgram).isSome = true := by decide +kernel
  cases hr : runChecked ({ tree := mkTop (.rsi 2 "close") "RSI_2" 4, mgr := { cfg := {}, candles := [] } } : IndState Int)
      demoProgram with
  | none => rw [hr] at h; cases h
  | some s => exact ⟨s, runs_of_runChecked _ _ _ hr⟩

/-! ### inside a Hexital (HexProofs/Writes/MembersC14.lean) -/

/-- **C14 inside a Hexital** – all 27 classes, every `MgrSpec` (base timeframe, collapsing timeframe, timeframe + fill),
the whole façade alphabet (`append`, `calculate(name?)`, `purge(name?)`, `recalculate(name?)`,
`calculate_index(name?, ±i)`, `add_indicator` / `remove_indicator` of other members): after any admissible program
(`HexRuns`) a final `Hexital.calculate()` leaves the member's manager with the view of ONE batch `calculate()` of the
standalone indicator over everything received – which returns. -/
theorem C14_member {N : List String} {members : List (Member F)} {mem : Member F} (hm : MemberHyps N members mem)
    (k : Kind F) (name : String) (round : Nat) (hk : CoveredTreeX name k) (htree : mem.tree = mkTop k name round)
    (cfg : MgrCfg) (tfn : Option String) (M : MgrSpec F) (hM : mem.effCfg cfg = M.cfg)
    (init : List (Candle F)) (ops : List (TwinOp F)) (hops : ∀ op, op ∈ ops → op.OK N mem.tree.name)
    (hok : M.Ok (init ++ (appendedBy ops).flatten))
    (H0 H H' : Hexital F) (h0 : Hexital.init cfg tfn init members = .ok H0)
    (hruns : HexRuns mem.tree.name H0 ops H) (hfin : H.calculate none = .ok H') :
    ∃ out m', candlesOf (runBatch mem.tree M.cfg (init ++ (appendedBy ops).flatten)) = .ok out ∧
      H'.memberManager mem.tree.name = some m' ∧ SameView mem.tree.allNames m'.candles out :=
  member_program_converges hm k name round hk htree cfg tfn M hM init ops hops hok H0 H H' h0 hruns hfin

/-- … against the batch Hexital (same members over everything received, constructed and calculated once) -/
theorem C14_member_hexital {N : List String} {members : List (Member F)} {mem : Member F}
    (hm : MemberHyps N members mem)
    (k : Kind F) (name : String) (round : Nat) (hk : CoveredTreeX name k) (htree : mem.tree = mkTop k name round)
    (cfg : MgrCfg) (tfn : Option String) (M : MgrSpec F) (hM : mem.effCfg cfg = M.cfg)
    (init : List (Candle F)) (ops : List (TwinOp F)) (hops : ∀ op, op ∈ ops → op.OK N mem.tree.name)
    (hok : M.Ok (init ++ (appendedBy ops).flatten))
    (H0 H H' HB : Hexital F) (h0 : Hexital.init cfg tfn init members = .ok H0)
    (hruns : HexRuns mem.tree.name H0 ops H) (hfin : H.calculate none = .ok H')
    (hbatch : runHexSched cfg tfn (init ++ (appendedBy ops).flatten) members [] = .ok HB) :
    ∃ m' mB, H'.memberManager mem.tree.name = some m' ∧ HB.memberManager mem.tree.name = some mB ∧
      SameView mem.tree.allNames m'.candles mB.candles :=
  member_program_converges_hexital hm k name round hk htree cfg tfn M hM init ops hops hok H0 H H' HB h0 hruns hfin
    hbatch

/-- … the configuration spelled out (Hexital `{timeframe, timeframe_fill}`; the member on its own or the Hexital's
timeframe; raw stream `RawTf`) -/
theorem C14_member_tf {N : List String} {members : List (Member F)} {mem : Member F}
    (hm : MemberHyps N members mem)
    (k : Kind F) (name : String) (round : Nat) (hk : CoveredTreeX name k) (htree : mem.tree = mkTop k name round)
    (htfx : Option Int) (fill : Bool) (tfn : Option String)
    (htf : ∀ t, mem.effTf htfx = some t → 0 < t) (hfill : fill = true → (mem.effTf htfx).isSome = true)
    (init : List (Candle F)) (ops : List (TwinOp F)) (hops : ∀ op, op ∈ ops → op.OK N mem.tree.name)
    (hraw : RawTf (init ++ (appendedBy ops).flatten))
    (H0 H H' : Hexital F) (h0 : Hexital.init { tf := htfx, fill := fill } tfn init members = .ok H0)
    (hruns : HexRuns mem.tree.name H0 ops H) (hfin : H.calculate none = .ok H') :
    ∃ out m', candlesOf (runBatch mem.tree { tf := mem.effTf htfx, fill := fill }
        (init ++ (appendedBy ops).flatten)) = .ok out ∧
      H'.memberManager mem.tree.name = some m' ∧ SameView mem.tree.allNames m'.candles out :=
  member_program_converges_cfg hm k name round hk htree htfx fill tfn htf hfill init ops hops hraw H0 H H' h0 hruns
    hfin

/-- non-vacuity: `SMA_2_T2` among four members on three managers, a 14-step program with every operation -/
example := @MembersC14Ex.applied

#print axioms C14_member
#print axioms C14_member_hexital
#print axioms C14_member_tf

/-! ### Heikin-Ashi managers (HexProofs/Framework/Gen/ProgramMore.lean) -/

/-- **C14 on a Heikin-Ashi manager** `{ ha := true }` (raw stream reading-free and unconverted) -/
theorem C14_trees_ha (k : Kind F) (name : String) (round : Nat) (hk : CoveredTreeX name k) (init : List (Candle F))
    (ops : List (Op F)) (hraw : RawHAPlain (init ++ (ops.map Op.added).flatten)) (s₀ s : IndState F)
    (h₀ : IndState.init (mkTop k name round) { ha := true } init = .ok s₀) (hruns : Runs s₀ ops s)
    (out : List (Candle F)) :
    candlesOf s.calculate = .ok out ↔
      candlesOf (runBatch (mkTop k name round) { ha := true } (init ++ (ops.map Op.added).flatten)) = .ok out :=
  Hex.C14_trees_ha hk round init ops hraw s₀ s h₀ hruns out

/-- **C14 on any Heikin-Ashi manager**: any timeframe or none, gap filling off or on (raw stream `RawTfHA`) -/
theorem C14_trees_haCfg (tf : Option Int) (htf : ∀ t, tf = some t → 0 < t) (fill : Bool) (k : Kind F) (name : String)
    (round : Nat) (hk : CoveredTreeX name k) (init : List (Candle F)) (ops : List (Op F))
    (hraw : RawTfHA (init ++ (ops.map Op.added).flatten)) (s₀ s : IndState F)
    (h₀ : IndState.init (mkTop k name round) { tf := tf, fill := fill && tf.isSome, ha := true } init = .ok s₀)
    (hruns : Runs s₀ ops s) (out : List (Candle F)) :
    candlesOf s.calculate = .ok out ↔
      candlesOf (runBatch (mkTop k name round) { tf := tf, fill := fill && tf.isSome, ha := true }
        (init ++ (ops.map Op.added).flatten)) = .ok out :=
  program_converges_haCfg hk round tf htf fill init ops hraw s₀ s h₀ hruns out

theorem calculate_idempotent_trees_haCfg (tf : Option Int) (htf : ∀ t, tf = some t → 0 < t) (fill : Bool) (k : Kind F)
    (name : String) (round : Nat) (hk : CoveredTreeX name k) (init : List (Candle F)) (ops : List (Op F))
    (hraw : RawTfHA (init ++ (ops.map Op.added).flatten)) (s₀ s s₁ : IndState F)
    (h₀ : IndState.init (mkTop k name round) { tf := tf, fill := fill && tf.isSome, ha := true } init = .ok s₀)
    (hruns : Runs s₀ ops s) (h : s.calculate = .ok s₁) : candlesOf s₁.calculate = .ok s₁.mgr.candles :=
  calculate_idempotent_haCfg hk round tf htf fill init ops hraw s₀ s s₁ h₀ hruns h

/-- `purge()` gives back the CONVERTED collapsed (filled) stream without readings -/
theorem purge_restores_spec_trees_haCfg (tf : Option Int) (htf : ∀ t, tf = some t → 0 < t) (fill : Bool) (k : Kind F)
    (name : String) (round : Nat) (hk : CoveredTreeX name k) (init : List (Candle F)) (ops : List (Op F))
    (hraw : RawTfHA (init ++ (ops.map Op.added).flatten)) (s₀ s : IndState F)
    (h₀ : IndState.init (mkTop k name round) { tf := tf, fill := fill && tf.isSome, ha := true } init = .ok s₀)
    (hruns : Runs s₀ ops s) :
    s.purge.mgr.candles = haSpec ((mgrSpecOf F tf htf fill).spec (init ++ (ops.map Op.added).flatten)) :=
  purge_restores_spec_haCfg hk round tf htf fill init ops hraw s₀ s h₀ hruns

theorem recalculate_reproduces_trees_haCfg (tf : Option Int) (htf : ∀ t, tf = some t → 0 < t) (fill : Bool) (k : Kind F)
    (name : String) (round : Nat) (hk : CoveredTreeX name k) (init : List (Candle F)) (ops : List (Op F))
    (hraw : RawTfHA (init ++ (ops.map Op.added).flatten)) (s₀ s s₁ : IndState F)
    (h₀ : IndState.init (mkTop k name round) { tf := tf, fill := fill && tf.isSome, ha := true } init = .ok s₀)
    (hruns : Runs s₀ ops s) (h : s.calculate = .ok s₁) : candlesOf s₁.recalculate = .ok s₁.mgr.candles :=
  recalculate_reproduces_haCfg hk round tf htf fill init ops hraw s₀ s s₁ h₀ hruns h

theorem calculate_index_after_program_trees_haCfg (tf : Option Int) (htf : ∀ t, tf = some t → 0 < t) (fill : Bool)
    (k : Kind F) (name : String) (round : Nat) (hk : CoveredTreeX name k) (init : List (Candle F)) (ops : List (Op F))
    (hraw : RawTfHA (init ++ (ops.map Op.added).flatten)) (s₀ s s₁ : IndState F)
    (h₀ : IndState.init (mkTop k name round) { tf := tf, fill := fill && tf.isSome, ha := true } init = .ok s₀)
    (hruns : Runs s₀ ops s) (h : s.calculate = .ok s₁) (i : Int) (hlo : -(s₁.mgr.candles.length : Int) ≤ i)
    (hhi : i < s₁.mgr.candles.length) : candlesOf (s₁.calculateIndex i none) = .ok s₁.mgr.candles :=
  calculateIndex_after_program_haCfg hk round tf htf fill init ops hraw s₀ s s₁ h₀ hruns h i hlo hhi

/-- non-vacuity: KC on `{ tf := some 120, ha := true }` over one-minute candles, a 13-step program -/
example := @HADemo.prog_runs_tfHA

/-! ### lifespan managers (HexProofs/Framework/Gen/ProgramLife.lean) -/

/-- **C14 on a lifespan manager: programs converge to the batch state over the VIRTUAL stream** `σ.V` (what was held at
the last `purge()` / `recalculate()` / construction plus everything appended since), minus the `σ.d` popped candles;
an equation in `PyM`.  `lifeSem` computes `σ` from the raw candles and checks the retention of the look-back. -/
theorem C14_trees_lifespan (k : Kind F) (name : String) (round : Nat) (hk : CoveredTreeX name k) (life : Int)
    (init : List (Candle F)) (ops : List (Op F)) (hp : RawInput init) (s₀ s : IndState F)
    (h₀ : IndState.init (mkTop k name round) { lifespan := some life } init = .ok s₀) (hruns : Runs s₀ ops s)
    (σ : LState F) (hsem : lifeSem life (treeLook k name round) init ops = some σ) :
    candlesOf s.calculate = (candlesOf (runBatch (mkTop k name round) {} σ.V)).map (·.drop σ.d) :=
  program_converges_lifespan hk round life init ops hp s₀ s h₀ hruns σ hsem

/-- (i) programs without `purge` / `recalculate` (C15b for programs): the virtual stream is what the construction kept
plus everything appended -/
theorem C14_trees_lifespan_nopurge (k : Kind F) (name : String) (round : Nat) (hk : CoveredTreeX name k) (life : Int)
    (init V₀ : List (Candle F)) (ops : List (Op F)) (hp : RawInput init)
    (hV : trimCandles (some life) init = .ok V₀) (hno : ∀ op ∈ ops, op.keepsReadings = true) (s₀ s : IndState F)
    (h₀ : IndState.init (mkTop k name round) { lifespan := some life } init = .ok s₀)
    (hruns : Runs s₀ (.calculate :: ops) s)
    (σ : LState F) (hsem : lifeSem life (treeLook k name round) init (.calculate :: ops) = some σ) :
    candlesOf s.calculate
      = (candlesOf (runBatch (mkTop k name round) {} (V₀ ++ (ops.map Op.added).flatten))).map (·.drop σ.d) :=
  program_converges_lifespan_nopurge hk round life init V₀ ops hp hV hno s₀ s h₀ hruns σ hsem

/-- (ii) `purge()` gives the raw candles currently held: a reading-free suffix of everything received -/
theorem purge_gives_held_lifespan (k : Kind F) (name : String) (round : Nat) (hk : CoveredTreeX name k) (life : Int)
    (init : List (Candle F)) (ops : List (Op F)) (hp : RawInput init) (s₀ s : IndState F)
    (h₀ : IndState.init (mkTop k name round) { lifespan := some life } init = .ok s₀) (hruns : Runs s₀ ops s)
    (σ : LState F) (hsem : lifeSem life (treeLook k name round) init ops = some σ) :
    s.purge.mgr.candles = σ.V.drop σ.d ∧ RawInput s.purge.mgr.candles ∧
      s.purge.mgr.candles <:+ init ++ (ops.map Op.added).flatten ∧
      trimCandles (some life) s.purge.mgr.candles = .ok s.purge.mgr.candles :=
  purge_gives_held hk round life init ops hp s₀ s h₀ hruns σ hsem

/-- (ii) `recalculate()` is the batch run over the candles currently held -/
theorem recalculate_eq_batch_held_lifespan (k : Kind F) (name : String) (round : Nat) (hk : CoveredTreeX name k)
    (life : Int) (init : List (Candle F)) (ops : List (Op F)) (hp : RawInput init) (s₀ s : IndState F)
    (h₀ : IndState.init (mkTop k name round) { lifespan := some life } init = .ok s₀) (hruns : Runs s₀ ops s)
    (σ : LState F) (hsem : lifeSem life (treeLook k name round) init ops = some σ) :
    candlesOf s.recalculate = candlesOf (runBatch (mkTop k name round) {} s.purge.mgr.candles) ∧
    candlesOf s.recalculate = candlesOf (runBatch (mkTop k name round) { lifespan := some life } s.purge.mgr.candles) :=
  recalculate_eq_batch_held hk round life init ops hp s₀ s h₀ hruns σ hsem

/-- (iii) on a stamped, sorted stream `recalculate()` is the batch run with the SAME configuration over everything
received -/
theorem recalculate_eq_batch_lifespan (k : Kind F) (name : String) (round : Nat) (hk : CoveredTreeX name k)
    (life : Int) (init : List (Candle F)) (ops : List (Op F))
    (hraw : RawTf (init ++ (ops.map Op.added).flatten)) (s₀ s : IndState F)
    (h₀ : IndState.init (mkTop k name round) { lifespan := some life } init = .ok s₀) (hruns : Runs s₀ ops s)
    (σ : LState F) (hsem : lifeSem life (treeLook k name round) init ops = some σ) :
    trimCandles (some life) (init ++ (ops.map Op.added).flatten) = .ok s.purge.mgr.candles ∧
    candlesOf s.recalculate
      = candlesOf (runBatch (mkTop k name round) { lifespan := some life } (init ++ (ops.map Op.added).flatten)) :=
  recalculate_eq_batch_sameCfg hk round life init ops hraw s₀ s h₀ hruns σ hsem

theorem calculate_idempotent_trees_lifespan (k : Kind F) (name : String) (round : Nat) (hk : CoveredTreeX name k)
    (life : Int) (init : List (Candle F)) (ops : List (Op F)) (hp : RawInput init) (s₀ s s₁ : IndState F)
    (h₀ : IndState.init (mkTop k name round) { lifespan := some life } init = .ok s₀) (hruns : Runs s₀ ops s)
    (σ : LState F) (hsem : lifeSem life (treeLook k name round) init ops = some σ)
    (h : s.calculate = .ok s₁) : candlesOf s₁.calculate = .ok s₁.mgr.candles :=
  calculate_idempotent_lifespan hk round life init ops hp s₀ s s₁ h₀ hruns σ hsem h

theorem calculate_index_reproduces_trees_lifespan (k : Kind F) (name : String) (round : Nat) (hk : CoveredTreeX name k)
    (life : Int) (init : List (Candle F)) (ops : List (Op F)) (hp : RawInput init) (s₀ s s₁ : IndState F)
    (h₀ : IndState.init (mkTop k name round) { lifespan := some life } init = .ok s₀) (hruns : Runs s₀ ops s)
    (σ : LState F) (hsem : lifeSem life (treeLook k name round) init ops = some σ)
    (h : s.calculate = .ok s₁) (i : Int) (hlo : -(s₁.mgr.candles.length : Int) ≤ i) (hhi : i < s₁.mgr.candles.length)
    (hL : σ.d = 0 ∨ (treeLook k name round : Int) ≤ (if i < 0 then i + (s₁.mgr.candles.length : Int) else i)) :
    candlesOf (s₁.calculateIndex i none) = .ok s₁.mgr.candles :=
  calculateIndex_lifespan hk round life init ops hp s₀ s s₁ h₀ hruns σ hsem h i hlo hhi hL

/-- what is FALSE on a lifespan manager (SMA 2, lifespan 30 s; replayed on the library): the final state is not the
tail of the batch run over everything received; `recalculate()` after `calculate()` does not reproduce; without a
`recalculate()` the final state is not the batch run with the same configuration -/
example := @LifeWitness.final_ne_tail
example := @LifeWitness.recalculate_not_reproduces
example := @LifeWitness.append_ne_batch_sameCfg
/-- non-vacuity: a 12-step program that pops before and after a `recalculate()` -/
example := @LifeWitness.progL_runs
example := @LifeWitness.progL_sem


/-! ### Heikin-Ashi managers, continued: `calculate_index` on the finished batch state -/

open Hex Hex.C01
variable {F : Type} [PyF F]

/-- `calculate_index(i)` reproduces the batch state at every index of the converted (collapsed, filled) list – any
Heikin-Ashi manager (the analogue of `calculate_index_reproduces_trees_tf`) -/
theorem calculate_index_reproduces_trees_haCfg (tf : Option Int) (htf : ∀ t, tf = some t → 0 < t) (fill : Bool)
    (k : Kind F) (name : String) (round : Nat) (hk : CoveredTreeX name k) (raw done : List (Candle F))
    (hraw : RawTfHA raw)
    (h : candlesOf (runBatch (mkTop k name round) { tf := tf, fill := fill && tf.isSome, ha := true } raw) = .ok done)
    (i : Int) (hlo : -(done.length : Int) ≤ i) (hhi : i < done.length) (act : Int) :
    candlesOf (IndState.calculateIndex
      ⟨mkTop k name round, ⟨{ tf := tf, fill := fill && tf.isSome, ha := true }, done⟩, act⟩ i none) = .ok done :=
  calculateIndex_reproduces_haCfg hk round tf htf fill raw done hraw h i hlo hhi act

#print axioms calculate_index_reproduces_trees_haCfg


open Hex Hex.C01
variable {F : Type} [PyF F]

/-! ### lifespan combined with a timeframe (HexProofs/Framework/Gen/ProgramLifeTf.lean) -/

/-- a program never changes the tree or the manager configuration (any configuration) -/
theorem program_keeps_tree_cfg (s₀ s : IndState F) (ops : List (Op F)) (h : Runs s₀ ops s) :
    s.tree = s₀.tree ∧ s.mgr.cfg = s₀.mgr.cfg := runs_frame s₀ s ops h

/-- **C14 for `recalculate()` on a timeframe (+ fill) + lifespan manager, all 27 classes**: after ANY program that runs,
`recalculate()` EQUALS the batch run (default configuration) over the candles currently held, stripped -/
theorem recalculate_eq_batch_held_lifespan_tf (k : Kind F) (name : String) (round : Nat) (hk : CoveredTreeX name k)
    (tf : Int) (fill : Bool) (life : Int) (init : List (Candle F)) (ops : List (Op F)) (s₀ s : IndState F)
    (h₀ : IndState.init (mkTop k name round) { tf := some tf, fill := fill, lifespan := some life } init = .ok s₀)
    (hruns : Runs s₀ ops s) :
    candlesOf s.recalculate = candlesOf (runBatch (mkTop k name round) {} s.purge.mgr.candles) :=
  recalculate_eq_batch_held_lifeTf hk round tf fill life init ops s₀ s h₀ hruns

/-- … on ANY tree and ANY manager configuration -/
theorem recalculate_eq_batch_held_anycfg (ind : Ind F) (cfg : MgrCfg) (init : List (Candle F)) (ops : List (Op F))
    (s₀ s : IndState F) (h₀ : IndState.init ind cfg init = .ok s₀) (hruns : Runs s₀ ops s) :
    candlesOf s.recalculate = candlesOf (runBatch ind {} s.purge.mgr.candles) :=
  (Hex.recalculate_eq_batch_held_anycfg ind cfg init ops s₀ s h₀ hruns).2.2.1

/-- … as the row-major spec of the bare candles held, when those are reading-free (PARTIAL: hypothesis `hpl`) -/
theorem recalculate_eq_rowMajor_held_lifespan_tf_partial (k : Kind F) (name : String) (round : Nat)
    (hk : CoveredTreeX name k) (tf : Int) (fill : Bool) (life : Int) (init : List (Candle F)) (ops : List (Op F))
    (s₀ s : IndState F)
    (h₀ : IndState.init (mkTop k name round) { tf := some tf, fill := fill, lifespan := some life } init = .ok s₀)
    (hruns : Runs s₀ ops s) (hpl : ∀ c ∈ s.purge.mgr.candles, Plain c) :
    ∃ T : TreeSpec (mkTop k name round), ∀ out,
      candlesOf s.recalculate = .ok out ↔ Gen.rowMajor T.S s.purge.mgr.candles = .ok out :=
  recalculate_eq_rowMajor_held_lifeTf_partial hk round tf fill life init ops s₀ s h₀ hruns hpl

/-- what is FALSE: without a `recalculate()` the final `calculate()` is not the batch run over the candles held -/
example := @LifeTfDemo.final_ne_batch_held
example := @LifeTfDemo.progT_runs
example := @LifeTfDemo.progT_runs_fill


open Hex Hex.C01
variable {F : Type} [PyF F]

/-! ### lifespan combined with a timeframe: programs (HexProofs/Framework/Gen/ProgramLifeTf2.lean) -/

/-- **C14 on a timeframe + lifespan manager, all 27 classes**: after any program over {append, calculate,
calculate_index, purge, recalculate} whose abstract semantics is `some σ` the final `calculate()` EQUALS the batch run
over the virtual collapsed stream `(resample tf σ.s).drop σ.e`, minus the `σ.d - σ.e` popped buckets; `purge()` gives the
buckets held `(resample tf σ.s).drop σ.d` -/
theorem C14_trees_lifespan_tf (k : Kind F) (name : String) (round : Nat) (hk : CoveredTreeX name k)
    (tf : Int) (htf : 0 < tf) (life : Int) (init : List (Candle F)) (ops : List (Op F))
    (hraw : RawTf (init ++ (ops.map Op.added).flatten)) (s₀ s : IndState F)
    (h₀ : IndState.init (mkTop k name round) { tf := some tf, lifespan := some life } init = .ok s₀)
    (hruns : Runs s₀ ops s) (σ : TState F)
    (hsem : tfSem (TwinMgr.tf F tf htf) life (treeLook k name round) init ops = some σ) :
    σ.s = init ++ (ops.map Op.added).flatten ∧ σ.e ≤ σ.d ∧
    s.purge.mgr.candles = (resample tf σ.s).drop σ.d ∧
    candlesOf s.calculate
      = (candlesOf (runBatch (mkTop k name round) {} ((resample tf σ.s).drop σ.e))).map (·.drop (σ.d - σ.e)) :=
  program_converges_lifespan_tf hk round tf htf life init ops hraw s₀ s h₀ hruns σ hsem

/-- … with `timeframe_fill = True` -/
theorem C14_trees_lifespan_tf_fill (k : Kind F) (name : String) (round : Nat) (hk : CoveredTreeX name k)
    (tf : Int) (htf : 0 < tf) (life : Int) (init : List (Candle F)) (ops : List (Op F))
    (hraw : RawTf (init ++ (ops.map Op.added).flatten)) (s₀ s : IndState F)
    (h₀ : IndState.init (mkTop k name round) { tf := some tf, fill := true, lifespan := some life } init = .ok s₀)
    (hruns : Runs s₀ ops s) (σ : TState F)
    (hsem : tfSem (TwinMgr.fill F tf htf) life (treeLook k name round) init ops = some σ) :
    σ.s = init ++ (ops.map Op.added).flatten ∧ σ.e ≤ σ.d ∧
    s.purge.mgr.candles = (fillSpec tf σ.s).drop σ.d ∧
    candlesOf s.calculate
      = (candlesOf (runBatch (mkTop k name round) {} ((fillSpec tf σ.s).drop σ.e))).map (·.drop (σ.d - σ.e)) :=
  program_converges_lifespan_tf_fill hk round tf htf life init ops hraw s₀ s h₀ hruns σ hsem

example := @LifeTf2Demo.progT_sem
example := @LifeTf2Demo.progT_sem_fill
example := @LifeTf2Demo.progA_sem
example := @LifeTf2Demo.progA_runs

end Hex.C14

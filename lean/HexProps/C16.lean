import HexProofs.Analysis.Dispatch
import HexProofs.Analysis.UtilsProps
import HexProofs.Analysis.AmorphContract
import HexProofs.Lib.IntInst
/-
C16 – Pattern and movement functions are causal and index-consistent (every float carrier `F`).

The model mirrors `hexital/analysis/{movement,patterns,utils}.py` after the index repairs (windows
clamped at candle 0, missing readings skipped in `cross`, the pattern index normalised, `lookback`
anchored at the index).  All twenty functions are covered, directly and through the `Amorph`
dispatch `runAnalysis`; the direct `Mov.*` / `Pat.*` forms are the definitional unfoldings of
`runAnalysis` on the corresponding `Analysis` constructor.

Wrapped form: `wrapped` (one `_calculate_reading` call) and `wrapped_live_eq_batch` (the whole column,
any append schedule = one batch calculate, through the leaf `Contract` of HexProofs/Framework).

(c) Totality: in the model NO input can make any of the twenty functions raise – neither missing /
`None` / bool / dict-valued readings nor invalid indices – so nothing has to be excluded: the
comparisons are only reached behind `isinstance(.., (float, int))`, every divisor is a non-zero
literal or the length of a non-empty window, and every list access is behind `absindex`.
-/
namespace Hex.C16
open Hex Hex.Ana
variable {F : Type} [PyF F]

/-- what C16 demands of a function of `(candles, index)` -/
structure Consistent (f : List (Candle F) → Int → PyM (Val F)) : Prop where
  /-- (a) the answer at `i` is the answer at `i` on the list truncated after candle `i` … -/
  trunc : ∀ cs i, 0 ≤ i → i < cs.length → f cs i = f (upto cs i) i
  /-- … and the answer at the default (latest, `-1`) position of the truncated list -/
  latest : ∀ cs i, 0 ≤ i → i < cs.length → f cs i = f (upto cs i) (-1)
  /-- (b) the equivalent negative index gives the same answer -/
  neg : ∀ cs i, 0 ≤ i → i < cs.length → f cs (i - cs.length) = f cs i
  /-- (c) never raises: any readings (missing, `None`, bool, number, dict), any index -/
  total : ∀ cs idx, ∃ v, f cs idx = .ok v

/-- **C16.**  Every shipped movement and pattern function, with every length / look-back
argument, wrapped by `Amorph` (`runAnalysis`) – hence also called directly – is causal,
index-consistent and total. -/
theorem causal (a : Analysis) : Consistent (F := F) (runAnalysis a) where
  trunc := fun cs i h0 hi => ((runAnalysis_causal a).trunc cs i h0 hi).symm
  latest := fun cs i h0 hi => ((runAnalysis_causal a).latest cs i h0 hi).symm
  neg := (runAnalysis_causal a).neg
  total := runAnalysis_total a

/-- the covered constructors of `Analysis`: all of them -/
def covered (_ : Analysis) : Bool := true

/-- the full statement (kept for the manifest; `causal` proves it) -/
def causal_FULL : Prop := ∀ (F : Type) [PyF F] (a : Analysis), Consistent (F := F) (runAnalysis a)

theorem causal_full : causal_FULL := fun _ _ a => causal a

/-- **No look-ahead.**  Two lists that agree up to candle `i` give the same answer at `i`:
a result for candle `i` never depends on later candles. -/
theorem no_lookahead (a : Analysis) (cs cs' : List (Candle F)) (i : Int) (h0 : 0 ≤ i)
    (hi : i < cs.length) (hi' : i < cs'.length) (hpre : upto cs i = upto cs' i) :
    runAnalysis a cs i = runAnalysis a cs' i := by
  rw [(causal a).trunc cs i h0 hi, (causal a).trunc cs' i h0 hi', hpre]

/-- **Index normalisation.**  The answer depends on the index only through the position
`absindex` assigns to it. -/
theorem index_normalised (a : Analysis) (cs : List (Candle F)) (idx i : Int)
    (h : absIndex idx cs.length = some i) : runAnalysis a cs idx = runAnalysis a cs i :=
  (runAnalysis_causal a).norm cs idx i h

/-- The default index (`index=None`) of the pattern functions on the truncated list. -/
theorem patterns_default (lb : Option Int) (cs : List (Candle F)) (i : Int) (h0 : 0 ≤ i) (hi : i < cs.length) :
    Pat.doji (upto cs i) lb none = Pat.doji cs lb (some i) ∧
    Pat.dojistar (upto cs i) lb none = Pat.dojistar cs lb (some i) ∧
    Pat.hammer (upto cs i) lb none = Pat.hammer cs lb (some i) ∧
    Pat.invHammer (upto cs i) lb none = Pat.invHammer cs lb (some i) :=
  ⟨pattern_latest_none dojiAt_causal lb cs i h0 hi, pattern_latest_none dojistarAt_causal lb cs i h0 hi,
   pattern_latest_none hammerAt_causal lb cs i h0 hi, pattern_latest_none invHammerAt_causal lb cs i h0 hi⟩

/-- The pattern functions never raise for any look-back and any index argument, default included. -/
theorem patterns_total (lb index : Option Int) (cs : List (Candle F)) :
    (∃ v, Pat.doji cs lb index = .ok v) ∧ (∃ v, Pat.dojistar cs lb index = .ok v) ∧
    (∃ v, Pat.hammer cs lb index = .ok v) ∧ (∃ v, Pat.invHammer cs lb index = .ok v) :=
  ⟨pattern_total dojiAt_total cs lb index, pattern_total dojistarAt_total cs lb index,
   pattern_total hammerAt_total cs lb index, pattern_total invHammerAt_total cs lb index⟩

/-- **Wrapped as an indicator.**  `Amorph._calculate_reading` at active index `i` returns the
wrapped function's value, leaves the candles untouched, never raises, and computes the same reading
from the candles up to `i` alone (the context truncated after the active candle) – the per-index
locality from which "live column = batch column" follows in the framework. -/
theorem wrapped (ops : Ops F) (ind : Ind F) (a : Analysis) (hk : ind.kind = .amorph a) (x : Ctx F)
    (h0 : 0 ≤ x.i) (hi : x.i < x.cs.length) :
    ∃ v, calcKind ops ind x = .ok (v, x.cs) ∧ calcKind ops ind x.trunc = .ok (v, x.trunc.cs) ∧
      runAnalysis a (upto x.cs x.i) (-1) = .ok v := by
  obtain ⟨v, hv⟩ := (causal a).total x.cs x.i
  refine ⟨v, ?_, ?_, ?_⟩
  · rw [calcKind_amorph ops ind a hk, hv]; rfl
  · rw [calcKind_amorph ops ind a hk]
    show (do let v ← runAnalysis a (upto x.cs x.i) x.i; return (v, upto x.cs x.i)) = _
    rw [← (causal a).trunc x.cs x.i h0 hi, hv]; rfl
  · rw [← (causal a).latest x.cs x.i h0 hi, hv]

/-- **Wrapped as an indicator: the same column live and in batch.**  For every wrapped function
`a` (any length / look-back), `Amorph(a)` as a top-level indicator on the base timeframe: any
construction prefix `init` and any split of the rest of a raw stream into `append` chunks end with
exactly the candles – prices and both reading dicts, or the same exception – of one batch
`calculate()` over the whole stream.  Side condition: the readings `a` names must not see the
indicator's own entry (`Indep`: true of every candle field and of every other indicator's key;
vacuous for positive / negative and the four patterns). -/
theorem wrapped_live_eq_batch (a : Analysis) (name : String) (round : Nat)
    (hind : ∀ nm ∈ names a, Indep F name nm)
    (init : List (Candle F)) (chunks : List (List (Candle F)))
    (hp : ∀ c ∈ init ++ chunks.flatten, Plain c) :
    candlesOf (runIndicator (mkTop (.amorph a) name round) {} init chunks)
      = candlesOf (runIndicator (mkTop (.amorph a) name round) {} (init ++ chunks.flatten) []) :=
  amorph_schedule a name round hind init chunks hp

/-- the wrapped function sees the candles only through the prices and the columns it names -/
theorem wrapped_key_local (a : Analysis) (cs cs' : List (Candle F)) (hs : cs.map strip = cs'.map strip)
    (hc : ∀ nm ∈ names a, col nm cs = col nm cs') (i : Int) (h0 : 0 ≤ i) (hi : i < cs.length) :
    runAnalysis a cs i = runAnalysis a cs' i := runAnalysis_congr a cs cs' hs hc i h0 hi

/-! ### the direct forms are instances (definitional unfolding of `runAnalysis`) -/

example (cs : List (Candle F)) (ind : String) (n i : Int) (h0 : 0 ≤ i) (hi : i < cs.length) :
    Mov.rising cs ind n i = Mov.rising (upto cs i) ind n (-1) := (causal (.rising ind n)).latest cs i h0 hi
example (cs : List (Candle F)) (x y : String) (n i : Int) (h0 : 0 ≤ i) (hi : i < cs.length) :
    Mov.crossover cs x y n (i - cs.length) = Mov.crossover cs x y n i := (causal (.crossover x y n)).neg cs i h0 hi
example (cs : List (Candle F)) (ind : String) (n i : Int) (h0 : 0 ≤ i) (hi : i < cs.length) :
    Mov.highestbar cs ind n i = Mov.highestbar (upto cs i) ind n i := (causal (.highestbar ind n)).trunc cs i h0 hi
example (cs : List (Candle F)) (lb : Option Int) (i : Int) (h0 : 0 ≤ i) (hi : i < cs.length) :
    Pat.hammer cs lb (some i) = Pat.hammer (upto cs i) lb (some (-1)) := (causal (.hammer lb)).latest cs i h0 hi

/-! ### non-vacuity: a concrete list on which the functions are not constant -/

def mk (o h l c : Int) : Candle Int := { o := .int o, h := .int h, l := .int l, c := .int c, v := .int 1 }

/-- ten flat candles, a long rising candle, a doji that gaps up, then one more candle -/
def demo : List (Candle Int) :=
  List.replicate 10 (mk 10 11 9 10) ++ [mk 10 21 9 20, mk 25 26 24 25, mk 25 27 20 21]

def isTrue : PyM (Val Int) → Bool
  | .ok (.s (.bool b)) => b
  | _ => false
def isFalse : PyM (Val Int) → Bool
  | .ok (.s (.bool b)) => !b
  | _ => false

example : (0 : Int) ≤ 11 ∧ (11 : Int) < demo.length := by decide
-- a doji star at candle 11, seen at index 11, at the negative alias -2, and as the latest candle of
-- the truncated list; not at candle 12; with look-back 2 it is seen from candle 12
example : isTrue (runAnalysis (.dojistar none) demo 11) = true := by decide
example : isTrue (runAnalysis (.dojistar none) demo (-2)) = true := by decide
example : isTrue (runAnalysis (.dojistar none) (upto demo 11) (-1)) = true := by decide
example : isTrue (Pat.dojistar (upto demo 11) none none) = true := by decide
example : isFalse (runAnalysis (.dojistar none) demo 12) = true := by decide
example : isTrue (runAnalysis (.dojistar (some 2)) demo 12) = true := by decide
example : isTrue (runAnalysis .positive demo 10) = true ∧ isTrue (runAnalysis .negative demo 12) = true := by decide
-- movement functions on named readings: the close rises into candle 10 and into candle 11, falls into candle 12;
-- the same at the negative alias and at the latest position of the truncated list
example : isTrue (runAnalysis (.rising "close" 3) demo 11) = true := by decide
example : isTrue (runAnalysis (.rising "close" 3) demo (-2)) = true := by decide
example : isTrue (runAnalysis (.rising "close" 3) (upto demo 11) (-1)) = true := by decide
example : isFalse (runAnalysis (.rising "close" 3) demo 12) = true := by decide
example : isTrue (runAnalysis (.cross "close" "open" 1) demo 10) = true := by decide
example : isTrue (runAnalysis (.cross "close" "open" 1) (upto demo 10) (-1)) = true := by decide
example : isFalse (runAnalysis (.crossover "close" "open" 1) demo 10) = true := by decide   -- strict: close = open at candle 9
example : isTrue (runAnalysis (.cross "close" "open" 3) demo 12) = true := by decide

-- the side conditions of `wrapped_live_eq_batch` are satisfiable: a raw stream, names that are candle fields
example : ∀ c ∈ demo, Plain c := by decide
example : ∀ nm ∈ names (.rising "close" 3), Indep Int "RISING" nm := by
  intro nm h
  simp only [names, List.mem_singleton] at h
  subst h
  exact indep_attr "RISING" "close" noDot_close (by decide)
example : ∀ nm ∈ names (.hammer (some 3)), Indep Int "HAMMER" nm := by
  intro nm h; simp [names] at h


open Hex Hex.Ana Hex.AUtils
variable {F : Type} [PyF F]

/-- utils.py, all 17 indexed helpers: `index=None` is `index=len(candles)-1` (also on `[]`: `-1`) -/
theorem utils_default (f : AUtils.Fn) (cs : List (Candle F)) (len : Option Int) (pct : Option (Num F)) :
    f.call cs len none pct = f.call cs len (some ((cs.length : Int) - 1)) pct := AUtils.call_default f cs len pct
/-- … on the empty list: `0 / length` (ZeroDivisionError for length 0) resp. IndexError -/
theorem utils_default_nil (f : AUtils.Fn) (len : Option Int) (pct : Option (Num F)) :
    f.call ([] : List (Candle F)) len none pct
      = if f.isAvg then (AUtils.emptyAvg (f.len len) >>= fun a => pure (f.post pct a)) else .error .indexError :=
  AUtils.call_default_nil f len pct
/-- causality of every helper: the answer at `i` is the default answer on `candles[:i+1]` -/
theorem utils_causal (f : AUtils.Fn) (cs : List (Candle F)) (len : Option Int) (pct : Option (Num F)) (i : Nat)
    (hi : i < cs.length) :
    f.call cs len (some (i : Int)) pct = f.call (cs.take (i + 1)) len none pct := AUtils.call_causal_nat f cs len pct i hi
theorem utils_no_lookahead (f : AUtils.Fn) (cs cs' : List (Candle F)) (len : Option Int) (pct : Option (Num F)) (i : Nat)
    (hi : i < cs.length) (hi' : i < cs'.length) (hpre : cs.take (i + 1) = cs'.take (i + 1)) :
    f.call cs len (some (i : Int)) pct = f.call cs' len (some (i : Int)) pct :=
  AUtils.call_no_lookahead f cs cs' len pct i hi hi' hpre
/-- the window averages do NOT normalise a negative index: empty window, `0 / length`, for every `i < 0` -/
theorem utils_negative_index (f : AUtils.Fn) (h : f.isAvg = true) (cs : List (Candle F)) (len : Option Int)
    (pct : Option (Num F)) (i : Int) (hi : i < 0) :
    f.call cs len (some i) pct = (AUtils.emptyAvg (f.len len) >>= fun a => pure (f.post pct a)) :=
  AUtils.call_neg f h cs len pct i hi
/-- `candle_shadow_long / _verylong` wrap instead -/
theorem utils_negative_index_wrap (f : AUtils.Fn) (h : f.isAvg = false) (cs : List (Candle F)) (len : Option Int)
    (pct : Option (Num F)) (j : Int) (h0 : 0 ≤ j) (hj : j < cs.length) :
    f.call cs len (some (j - cs.length)) pct = f.call cs len (some j) pct := AUtils.call_idx_wrap f h cs len pct j h0 hj
theorem utils_index_out (f : AUtils.Fn) (h : f.isAvg = false) (cs : List (Candle F)) (len : Option Int)
    (pct : Option (Num F)) (i : Int) (hi : i < -(cs.length : Int) ∨ (cs.length : Int) ≤ i) :
    f.call cs len (some i) pct = .error .indexError := AUtils.call_idx_out f h cs len pct i hi
/-- concrete witness (`Int` carrier, replayed on the library): `realbody_avg(cs, 2, -1) = 0.0 ≠ 4.0 = realbody_avg(cs, 2, 3)` -/
theorem utils_minus_one_ne_last :
    AUtils.realbodyAvg AUtils.demo 2 (some (-1)) ≠ AUtils.realbodyAvg AUtils.demo 2 (some ((AUtils.demo.length : Int) - 1)) :=
  AUtils.realbodyAvg_minus_one_ne_last
/-- the divisor is `length`, also over a clamped window -/
theorem utils_divisor (f : AUtils.Fn) (h : f.isAvg = true) (cs : List (Candle F)) (len : Option Int) (pct : Option (Num F))
    (i : Int) (h0 : 0 ≤ i) (hi : i < cs.length) :
    f.call cs len (some i) pct
      = ((pySum ((AUtils.window cs (f.len len) i).map f.field)).truediv (.int (f.len len))
          >>= fun a => pure (f.post pct a)) := AUtils.call_window f h cs len pct i h0 hi
theorem utils_divisor_exact {K : Type} [Field K] [LinearOrder K] [IsStrictOrderedRing K] [LawfulPyF K]
    (g : Candle K → Num K) (cs : List (Candle K)) (length i : Int)
    (h0 : 0 ≤ i) (hi : i < cs.length) (hl : length ≠ 0) :
    Pat.avgOf g cs length i
      = .ok (.flt ((((AUtils.window cs length i).map fun c => (g c).toF).sum) / (length : K))) :=
  AUtils.avgOf_exact g cs length i h0 hi hl

end Hex.C16

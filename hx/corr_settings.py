"""Correspondence component "settings": the configuration-dict path of a Hexital member
(Indicator.settings / Amorph.settings -> Hexital._build_indicator -> dataclass __post_init__) against the
Lean model (lean/HexModel/Core/Settings.lean, operation `settings` of the driver).

One protocol line  `settings <tokens of an "ind" line, without candles> [switches]`  answers
  S <settings of the object built from the user's dict>      | S err:<kind>
  B ok <settings of the object rebuilt from those settings>  | B err:<kind>
  H ok <settings of that dict as the member of a Hexital>    | H err:<kind>
  N <name of the object> <name of the rebuilt object | ->
  R eq|ne|-     (is the rebuilt object's public state the original's?)
  T ok          (model side: IndCfg.toInd / mgrCfg agree with Parse.parseInd / parseMgrCfg on the same tokens;
                 code side: the object built from the dict equals the one built by specs.build_indicator)
switches: key= (another "indicator"/"analysis" string), callable=1 / amorphkey=1 (the analysis function object,
under "analysis" resp. with "indicator": "Amorph"), nokey=1, xkw= (one more keyword), htf= hfill= hha= hlife= (the Hexital)."""
from datetime import timedelta

from . import corr, gen, specs, wire


# --------------------------------------------------------------------------------------
# canonical printing


def enc_sval(v) -> str:
    from hexital.core.candlestick_type import CandlestickType

    if v is None:
        return "n"
    if isinstance(v, bool):
        return "b:1" if v else "b:0"
    if isinstance(v, int):
        return f"i:{v}"
    if isinstance(v, float):
        return f"f:{wire.fbits(v)}"
    if isinstance(v, str):
        return f"s:{v}"
    if isinstance(v, timedelta):
        if v.microseconds:
            raise ValueError("sub-second lifespan outside the modelled domain")
        return f"td:{v // timedelta(seconds=1)}"
    if isinstance(v, CandlestickType):
        return f"o:{v.minimal_name}"
    if isinstance(v, dict):
        return "{" + ";".join(f"{k}={enc_sval(v[k])}" for k in sorted(v)) + "}"
    if callable(v):
        return f"fn:{v.__name__}"
    raise TypeError(f"not a settings value: {v!r}")


def enc_settings(d) -> str:
    return ";".join(f"{k}={enc_sval(d[k])}" for k in sorted(d))


def _kind(e: BaseException) -> str:
    return wire.enc_err(e).split(" ", 1)[1]


def _state(obj) -> str:
    """the public state of an indicator object (every public field, None included) + what an Amorph wraps"""
    st = {"class": type(obj).__name__, "name": obj.name}
    for k, v in vars(obj).items():
        if k in ("candles", "sub_indicators", "managed_indicators") or k.startswith("_"):
            continue
        st[k] = v
    if hasattr(obj, "_analysis_method"):
        st["_fn"] = obj._analysis_method.__name__
        st["_kwargs"] = [[k, enc_sval(v)] for k, v in obj._analysis_kwargs.items()]  # ordered
        st["_kwargs"] = ",".join("=".join(kv) for kv in st["_kwargs"])
    return enc_settings(st)


# --------------------------------------------------------------------------------------
# the user's dict (mirror of HexModel/Core/SettingsWire.lean: userDict)


def _fns():
    from hexital.analysis import MOVEMENT_MAP, PATTERN_MAP, movement

    return {**MOVEMENT_MAP, **PATTERN_MAP, "above": movement.above, "below": movement.below}


def user_dict(ps):
    spec = specs.params_to_spec(ps)
    nokey = ps.get("nokey") == "1"
    d = specs.as_config_dict(spec)
    if spec["kind"] == "AMORPH":
        fn = d.pop("analysis")
        if nokey:
            head = {}
        elif ps.get("callable") == "1" or ps.get("amorphkey") == "1":
            head = ({"indicator": "Amorph"} if ps.get("amorphkey") == "1" else {}) | {"analysis": _fns()[fn]}
        else:
            head = {"analysis": ps["key"] if ps.get("key") is not None else fn}
    else:
        key = d.pop("indicator")
        head = {} if nokey else {"indicator": ps["key"] if ps.get("key") is not None else key}
    d = {**head, **d}
    if ps.get("cs") is not None and "candlestick_type" in d:   # `cs=`: another candlestick type name than "HA" (in its place)
        d["candlestick_type"] = ps["cs"]
    if ps.get("xkw") is not None:
        assert ps["xkw"] not in d
        d[ps["xkw"]] = 1
    return spec, d


def impl_settings(ps):
    """the handler of the `settings` operation against the real library"""
    from hexital.core.hexital import Hexital

    spec, d = user_dict(ps)
    hx = Hexital("x", [])
    try:
        obj = hx._build_indicator(d)
    except Exception as e:  # noqa
        return [f"S err:{_kind(e)}"]
    st = obj.settings
    out = ["S " + enc_settings(st)]
    rb = None
    try:
        rb = hx._build_indicator(st)
        out.append("B ok " + enc_settings(rb.settings))
    except Exception as e:  # noqa
        out.append(f"B err:{_kind(e)}")
    try:
        kw = {}
        if ps.get("htf") is not None:
            kw["timeframe"] = ps["htf"]
        kw["timeframe_fill"] = ps.get("hfill") == "1"
        if ps.get("hha") == "1":
            kw["candlestick_type"] = "HA"
        if ps.get("hlife") is not None:
            kw["candles_lifespan"] = timedelta(seconds=int(ps["hlife"]))
        h2 = Hexital("x", [], [st], **kw)
        (member,) = h2._indicators.values()
        out.append("H ok " + enc_settings(member.settings))
    except Exception as e:  # noqa
        out.append(f"H err:{_kind(e)}")
    out.append(f"N {obj.name} {rb.name if rb is not None else '-'}")
    out.append("R -" if rb is None else ("R eq" if _state(rb) == _state(obj) else "R ne"))
    plain = all(ps.get(k) is None for k in ("key", "xkw", "amorphkey")) and spec.get("fn") not in ("above", "below")
    t = "T ok"
    if plain:
        try:
            direct = specs.build_indicator(spec, [])
        except Exception as e:  # noqa  (the dict path built an object from keywords the constructor rejects)
            t = f"T bad:object-path raises {_kind(e)} | " + _state(obj)
        else:
            if _state(direct) != _state(obj):
                t = "T bad:object-path " + _state(direct) + " | " + _state(obj)
    out.append(t)
    return out


# --------------------------------------------------------------------------------------
# generator

MAP_KEYS = {"COUNTER": ["Counter", "COUNT"], "AROON": ["aroon", "AROON"], "DONCHIAN": ["donchian", "DONCHIAN"],
            "SUPERTREND": ["Supertrend"], "STDEV": ["STDEV"], "STDEVTHRES": ["STDEVTHRES"]}
OTHER_KEYS = ["SMA", "EMA", "TR", "MACD", "KC", "Counter", "HLA", "TSI", "ADX", "VWAP", "Supertrend"]
BAD_KEYS = ["Nope", "ema", "StandardDeviation", "HighestLowest", "SUPERTREND", "COUNTER", ""]
BAD_ANA_KEYS = ["Rising", "nope", "", "EMA", "above"]
XKW = ["bogus", "_name", "sub_indicators", "managed_indicators", "_candles", "args", "analysis", "Period", "lookback", "length"]
KC_DEFAULT_MULSTR = "2.0"


def gen_settings_line(rng):
    amorph = rng.random() < 0.22
    if amorph:
        spec = specs.gen_amorph_spec(rng, fns=list(specs.ANALYSIS))
        spec["round"] = rng.choice([4, 4, 0, 2, 6, -1])
    else:
        spec = specs.gen_spec(rng)
        if rng.random() < 0.2:
            spec["round"] = rng.choice([0, -1, 12])
        if spec["kind"] == "COUNTER" and rng.random() < 0.15:
            spec["cv"] = rng.choice([1.5, 0.0, -2])
        if spec["kind"] in ("KC", "SUPERTREND", "STDEVTHRES") and rng.random() < 0.2:
            spec["multiplier"] = rng.choice([2, 3, 1])        # an int where a float is annotated
        if spec["kind"] == "TSI" and rng.random() < 0.3:
            spec["period"] = rng.choice([1, 2, 7, 8, 25, 0])  # Kind.baseName floors p/2: periods >= 0 only
        if spec["kind"] == "MACD" and rng.random() < 0.2:
            spec["slow"] = spec["fast"]
    # absent keywords take the dataclass defaults
    for k in [k for k in spec if k not in ("kind", "fn", "round")]:
        if rng.random() < (0.25 if not (spec["kind"] == "COUNTER" and k == "input") else 0.05):
            del spec[k]
    if rng.random() < 0.3:
        spec["suffix"] = rng.choice(["x", "B2", "alt", "", "a.b"])
    if rng.random() < 0.2:
        spec["name"] = rng.choice(["Mine", "my.ind", "Z_9", ""])
    k = rng.random()
    if k < 0.4:
        tf = gen.gen_timeframe(rng)
        spec["tf"] = tf.lower() if rng.random() < 0.4 else tf
    elif k < 0.5:
        spec["tf"] = rng.choice(["x5", "5T", "T", "tx", "", "M1", "d", "h0", "S-3"])
    spec["fill"] = rng.random() < 0.4
    spec["ha"] = rng.random() < 0.25
    if rng.random() < 0.3:
        spec["life"] = rng.choice([0, 0, 60, 90, 3600, 86400 * 3, -5])
    toks = specs.spec_params(spec)
    if isinstance(spec.get("multiplier"), int):     # Parse.parseKind reads numbers in wire form only
        toks = toks.replace(f" multiplier={spec['multiplier']} ", f" multiplier=i:{spec['multiplier']} ")
    if spec["kind"] == "KC" and "multiplier" not in spec:
        toks += f" mulstr={KC_DEFAULT_MULSTR}"
    extra = []
    meta = {"kind": spec["kind"] + (":" + spec["fn"] if amorph else ""), "switch": "none"}
    r = rng.random()
    if amorph:
        if r < 0.15:
            extra.append("callable=1")
            meta["switch"] = "callable"
        elif r < 0.25:
            extra.append("amorphkey=1")
            meta["switch"] = "amorphkey"
        elif r < 0.35:
            # another function only with the same keyword arguments (the model's Analysis fixes the signature)
            same = [f for f in specs.ANALYSIS if specs.ANALYSIS[f] == specs.ANALYSIS[spec["fn"]]] + ["inverted_hammer"] * (spec["fn"] == "inv_hammer")
            extra.append("key=" + rng.choice(same + BAD_ANA_KEYS))
            meta["switch"] = "key"
    else:
        if r < 0.08:
            extra.append("key=" + rng.choice(MAP_KEYS.get(spec["kind"], [spec["kind"]])))
            meta["switch"] = "alias"
        elif r < 0.14:
            extra.append("key=" + rng.choice(OTHER_KEYS))
            meta["switch"] = "otherclass"
        elif r < 0.2:
            extra.append("key=" + rng.choice(BAD_KEYS))
            meta["switch"] = "badkey"
    if "key=KC" in extra and "mulstr=" not in toks:
        extra.append(f"mulstr={KC_DEFAULT_MULSTR}")
    r = rng.random()
    if r < 0.1:
        x = rng.choice(XKW)
        if amorph and x == "length" and "length" not in specs.ANALYSIS[spec["fn"]]:
            x = "lookback"
        if not (amorph and x in ("args", "analysis")):
            extra.append("xkw=" + x)
            meta["switch"] += "+xkw"
    elif r < 0.14:
        extra.append("nokey=1")
        meta["switch"] += "+nokey"
    if rng.random() < 0.3:
        tf = gen.gen_timeframe(rng)
        extra.append("htf=" + (tf.lower() if rng.random() < 0.3 else tf))
    if rng.random() < 0.3:
        extra.append("hfill=1")
    if rng.random() < 0.25:
        extra.append("hha=1")
    if spec["ha"] and rng.random() < 0.3:
        # a candlestick type by a name CANDLESTICK_MAP may not have (InvalidCandlestickType)
        extra.append("cs=" + rng.choice(["XX", "ha", "Heikin-Ashi", "HA", "NA"]))
    if rng.random() < 0.25:
        extra.append(f"hlife={rng.choice([0, 60, 7200])}")
    return " ".join(["settings", toks] + extra), meta


@corr.component("settings")
def gen_settings(rng, size):
    lines = []
    meta = {}
    for _ in range(max(3, size // 2)):
        line, meta = gen_settings_line(rng)
        lines.append(line)
    return lines, meta

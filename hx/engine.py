"""The per-property check: proof leg (lake build + axiom audit), tie leg (correspondence over the
property's scope), oracle leg (model-independent search on the real code), known findings,
verdict, evidence.  See DESIGN.md §6."""
import hashlib
import json
import os
import re
import subprocess
import sys
import time

ROOT = os.path.dirname(os.path.dirname(os.path.abspath(__file__)))
LEAN = os.path.join(ROOT, "lean")
SCRATCH = os.path.join(ROOT, ".scratch")
# development aid (tools/par_seeded.py): evidence and replays of a run against a scratch copy of the repository go elsewhere
OUT = os.environ.get("HX_OUT") or ROOT
# scale of every sampled leg (tie scenarios, oracle cases); the per-property numbers in scopes.py / props/*.py are the unit
BUDGET = int(os.environ.get("HX_BUDGET", "3"))
ALLOWED_AXIOMS = {"propext", "Classical.choice", "Quot.sound"}
FORBIDDEN = re.compile(r"\bsorry\b|\badmit\b|^\s*axiom\s|native_decide|bv_decide|implemented_by|\bunsafe\s|maxHeartbeats\s+0")

TRUSTED_BASE = [
    "Lean 4.33.0 kernel; axioms limited to propext, Classical.choice, Quot.sound (audited by #print axioms each run)",
    "statements in lean/HexProps/*.lean and specs in lean/HexModel/Spec/*",
    "hand-written model lean/HexModel/* tied to /repo by sampled, bit-exact differential testing (hx/corr.py); unsampled behaviour is not covered",
    "Lean Float primitives and libm agreeing with CPython (re-tested by the 'arith' component)",
    "Python object identity/aliasing, deepcopy, dict order, datetime arithmetic (as integer seconds) are modelled, not verified",
]


def sh(cmd, cwd=None, timeout=None):
    p = subprocess.run(cmd, cwd=cwd, shell=isinstance(cmd, str), capture_output=True, text=True, timeout=timeout)
    return p.returncode, p.stdout + p.stderr


def strip_comments(src):
    src = re.sub(r"/-.*?-/", "", src, flags=re.S)
    return "\n".join(l.split("--")[0] for l in src.split("\n"))


def lean_files_of(module):
    """transitive local imports of a module (HexModel/HexProofs/HexProps only)"""
    seen, todo = set(), [module]
    while todo:
        m = todo.pop()
        if m in seen:
            continue
        path = os.path.join(LEAN, *m.split(".")) + ".lean"
        if not os.path.exists(path):
            continue
        seen.add(m)
        for l in open(path):
            mm = re.match(r"\s*import\s+(Hex(?:Model|Proofs|Props)[\w.]*)", l)
            if mm:
                todo.append(mm.group(1))
    return sorted(seen)


def theorems_in(module):
    path = os.path.join(LEAN, *module.split(".")) + ".lean"
    src = strip_comments(open(path).read())
    ns = []
    out = []
    for l in src.split("\n"):
        m = re.match(r"\s*namespace\s+(\S+)", l)
        if m:
            ns.append(m.group(1))
            continue
        m = re.match(r"\s*end\s+(\S+)", l)
        if m and ns and ns[-1].split(".")[-1] == m.group(1).split(".")[-1]:
            ns.pop()
            continue
        m = re.match(r"\s*(?:@\[[^\]]*\]\s*)?theorem\s+([^\s:({\[]+)", l)
        if m:
            out.append(".".join(ns + [m.group(1)]))
    return out


def proof_leg(prop_module):
    """build the property module + driver; audit axioms of every theorem in it"""
    t0 = time.time()
    res = {"module": prop_module, "ok": False, "obligations": 0, "discharged": 0, "theorems": [], "problems": []}
    rc, out = sh(["lake", "build", prop_module, "hexdriver"], cwd=LEAN, timeout=3000)
    res["build_s"] = round(time.time() - t0, 1)
    if rc != 0:
        errs = [l for l in out.split("\n") if "error" in l][:8]
        res["problems"].append({"kind": "build-failed", "detail": errs})
        # still try to learn which theorems exist
        try:
            res["obligations"] = len(theorems_in(prop_module))
        except Exception:
            pass
        return res
    thms = theorems_in(prop_module)
    res["obligations"] = len(thms)
    # hygiene grep over the import closure
    for m in lean_files_of(prop_module):
        path = os.path.join(LEAN, *m.split(".")) + ".lean"
        for i, l in enumerate(strip_comments(open(path).read()).split("\n")):
            if FORBIDDEN.search(l):
                res["problems"].append({"kind": "forbidden-construct", "detail": f"{m}:{i + 1}: {l.strip()[:80]}"})
    os.makedirs(SCRATCH, exist_ok=True)
    audit = os.path.join(SCRATCH, f"audit_{prop_module.replace('.', '_')}_{os.getpid()}.lean")
    with open(audit, "w") as f:
        f.write(f"import {prop_module}\n")
        for t in thms:
            f.write(f"#print axioms {t}\n")
    rc, out = sh(["lake", "env", "lean", audit], cwd=LEAN, timeout=900)
    os.unlink(audit)
    found = {}
    for m in re.finditer(r"'(\S+)' depends on axioms: \[([^\]]*)\]", out):
        found[m.group(1)] = {a.strip() for a in m.group(2).split(",") if a.strip()}
    for m in re.finditer(r"'(\S+)' does not depend on any axioms", out):
        found[m.group(1)] = set()
    for t in thms:
        if t not in found:
            res["problems"].append({"kind": "theorem-missing", "detail": t})
            continue
        bad = found[t] - ALLOWED_AXIOMS
        if bad:
            res["problems"].append({"kind": "axioms", "detail": f"{t}: {sorted(bad)}"})
            continue
        res["discharged"] += 1
        res["theorems"].append({"name": t, "axioms": sorted(found[t])})
    res["ok"] = not res["problems"] and res["discharged"] == res["obligations"] and res["obligations"] > 0
    res["audit_s"] = round(time.time() - t0 - res["build_s"], 1)
    return res


def leanchecker_leg(modules):
    rc, out = sh(["lake", "env", "leanchecker"] + modules, cwd=LEAN, timeout=3000)
    return {"ok": rc == 0, "detail": out[-400:]}


def load_known():
    p = os.path.join(ROOT, "known_findings.json")
    if not os.path.exists(p):
        return []
    return json.load(open(p))


def write_replay(pid, payload):
    os.makedirs(os.path.join(OUT, "replays"), exist_ok=True)
    h = hashlib.sha1(json.dumps(payload, sort_keys=True, default=str).encode()).hexdigest()[:10]
    path = os.path.join(OUT, "replays", f"{pid}-{h}.json")
    with open(path, "w") as f:
        json.dump(payload, f, indent=1, default=str)
    return path


def run_check(prop, tier, seed):
    """prop: module object from hx.props with ID, LEAN_MODULE, SCOPE, oracle(ctx), replay(payload)"""
    from . import corr

    t0 = time.time()
    pid = prop.ID
    thorough = tier == "thorough"
    os.environ["HX_TIER"] = tier
    out_lines = []
    # ---- proof leg
    legs = {}
    pl = proof_leg(prop.LEAN_MODULE)
    legs["proof"] = round(time.time() - t0, 1)
    if thorough and pl["ok"]:
        lc = leanchecker_leg(lean_files_of(prop.LEAN_MODULE))
        pl["leanchecker"] = lc
        if not lc["ok"]:
            pl["ok"] = False
            pl["problems"].append({"kind": "leanchecker", "detail": lc["detail"]})
    # ---- change-directed budget: which indicator kinds / core files differ from the recorded baseline (never an alarm by itself)
    from . import changed
    from .oracles import common as ocm

    try:
        focus_kinds, core_changed, changed_units = changed.focus()
    except Exception:
        focus_kinds, core_changed, changed_units = set(), False, {}
    ocm.FOCUS = set(focus_kinds)
    # ---- tie leg
    tie = []
    tie_ok = True
    seeds = [seed] if not thorough else [seed, seed * 7919 + 1, seed * 104729 + 2]
    from . import scopes

    for entry in (prop.SCOPE or scopes.SCOPES.get(pid, [])):
        comp, n_quick, size = entry[:3]
        opts = entry[3] if len(entry) > 3 else {}
        if opts.get("thorough_only") and not thorough:
            continue
        for sd in seeds:
            n = n_quick * (4 if thorough else 1) * BUDGET
            sz = size * (3 if thorough else 1)
            t1 = time.time()
            try:
                r = corr.run_component(comp, sd, n, sz, tz=opts.get("tz"))
            except Exception as e:  # machinery failure, not a verdict
                print(f"INTERNAL: correspondence {comp} failed: {e!r}", file=sys.stderr)
                raise
            legs[f"tie:{comp}"] = round(legs.get(f"tie:{comp}", 0) + time.time() - t1, 1)
            r["seed"] = sd
            r["size"] = sz
            tie.append(r)
            if r["disagreements"]:
                tie_ok = False
    # extra correspondence scenarios for the changed indicator kinds, when the property's scope contains indicator components
    scope_entries = (prop.SCOPE or scopes.SCOPES.get(pid, []))
    if focus_kinds and any(str(e[0]).startswith("ind") for e in scope_entries):
        from . import specs as _specs

        for k in sorted(x for x in focus_kinds if x in _specs.KINDS):
            try:
                r = corr.run_component(f"ind:{k}", seed, 150 * BUDGET, 50)
            except Exception:
                continue
            r["seed"], r["size"] = seed, 50
            tie.append(r)
            if r["disagreements"]:
                tie_ok = False
    # ---- oracle leg (always; concentrated when something broke)
    ctx = {
        "seed": seed,
        "tier": tier,
        "boost": BUDGET * (1 if (pl["ok"] and tie_ok) else 2) * (2 if (core_changed and pl["ok"] and tie_ok) else 1),
        "broken": [r["component"] for r in tie if r["disagreements"]],
    }
    t1 = time.time()
    orc = prop.oracle(ctx)
    legs["oracle"] = round(time.time() - t1, 1)
    if os.environ.get("HX_TIMING"):
        print("TIMING", json.dumps(legs), file=sys.stderr)
    # ---- known findings
    known = [k for k in load_known() if k["property"] == pid]
    open_known = [k for k in known if k.get("status") == "open"]
    new_viol = []
    known_hits = {}
    # corpus of minimised past violations (witnesses of fixed defects): replayed first, every run
    corpus_path = os.path.join(ROOT, "corpus", f"{pid}.json")
    corpus_n = 0
    if os.path.exists(corpus_path):
        for item in json.load(open(corpus_path)):
            corpus_n += 1
            try:
                rr = prop.replay(item["witness"])
            except Exception as e:  # noqa
                rr = {"fails": True, "detail": "replay raised " + repr(e)}
            if rr.get("fails"):
                orc["violations"].insert(0, {**item["witness"], "clause": item.get("clause"), "signature": item["signature"],
                                             "observed": rr.get("detail"), "expected": "the recorded witness of a repaired defect passes",
                                             "from_corpus": True})
    orc["evaluations"] += corpus_n
    for v in orc["violations"]:
        match = next((k for k in open_known if v.get("signature") in k.get("signatures", [k.get("signature")])), None)
        if match:
            known_hits.setdefault(match["key"], match)
        else:
            new_viol.append(v)
    for k in open_known:
        if k["key"] in known_hits:
            continue
        if "witness" not in k:
            continue
        try:
            still = prop.replay(k["witness"])
        except Exception as e:  # noqa
            still = {"fails": True, "detail": repr(e)}
        if still.get("fails"):
            known_hits[k["key"]] = k
    for k in known_hits.values():
        out_lines.append(f"KNOWN-FINDING: property={pid} {k['what']}")
    # a tie disagreement explained entirely by known findings is not a new break
    unexplained_tie = []
    for r in tie:
        for d in r["disagreements"]:
            sig = getattr(prop, "tie_signature", lambda comp, d: None)(r["component"], d)
            if sig and any(sig in k.get("signatures", [k.get("signature")]) for k in open_known):
                continue
            unexplained_tie.append((r, d))
    tie_ok = not unexplained_tie
    # ---- verdict
    status = 0
    if new_viol:
        v = new_viol[0]
        v = {("case_kind" if k == "kind" else k): x for k, x in v.items()}
        path = write_replay(pid, {**v, "property": pid, "kind": "counterexample",
                                  "how_to_run": f"./check {pid} --replay <this file>"})
        out_lines.append(f"VIOLATION property={pid} replay={path}")
        status = 1
    elif not pl["ok"] or not tie_ok:
        what = []
        if not pl["ok"]:
            what.append({"proof": pl["problems"], "module": prop.LEAN_MODULE})
        if not tie_ok:
            r, d = unexplained_tie[0]
            lines, meta = corr.regen_case(r["base_component"], r["seed"], d["case"], r["size"])
            what.append({"correspondence": r["component"], "seed": r["seed"], "case": d["case"], "meta": d["meta"],
                         "first_difference": d["diff"], "ops": lines})
        path = write_replay(pid, {"property": pid, "kind": "unproved",
                                  "no_longer_checks": what,
                                  "note": "proof obligation or model/code correspondence broke; the model-independent search found no failing input",
                                  "search": {"evaluations": orc["evaluations"]}})
        out_lines.append(f"VIOLATION property={pid} replay={path} no-failing-input-found")
        status = 1
    # ---- evidence
    tie_cases = sum(r["cases"] for r in tie)
    dist = {}
    for r in tie:
        for k, v in r["distribution"].items():
            dist[f"{r['component']}:{k}"] = dist.get(f"{r['component']}:{k}", 0) + v
    ev = {
        "property_id": pid,
        "tier": tier,
        "seed": seed,
        "level": "proof",
        "coverage": {
            "obligations": pl["obligations"],
            "discharged": pl["discharged"],
            "checker_cmd": f"cd lean && lake build {prop.LEAN_MODULE} && lake env lean <#print axioms of every theorem in {prop.LEAN_MODULE}>"
            + (" && lake env leanchecker <closure>" if thorough else ""),
            "trusted_base": TRUSTED_BASE + list(getattr(prop, "TRUSTED_EXTRA", [])),
            "theorems": pl["theorems"],
            "proof_problems": pl["problems"],
            "programs": tie_cases,
            "disagreements_checked": sum(len(r["disagreements"]) for r in tie),
            "evaluations": tie_cases + orc["evaluations"],
            "distinct_nontrivial": sum(r["distinct_nontrivial"] for r in tie) + orc["distinct_nontrivial"],
            "rule": "correspondence scenarios are distinct by hash of their operation list and non-trivial when they contain at least one append and produce candle output; oracle cases per "
            + prop.ORACLE_RULE,
            "samples": orc.get("samples", [])[:3]
            + [{"correspondence_component": r["component"], "first_operations": r["sample"]} for r in tie[:2] if r.get("sample")],
            "correspondence": [
                {"component": r["component"], "seed": r["seed"], "cases": r["cases"], "max_size": r["size"],
                 "disagreements": len(r["disagreements"])} for r in tie
            ],
            "oracle": {k: orc[k] for k in ("evaluations", "distinct_nontrivial") if k in orc},
            "distribution": {**dist, **{f"oracle:{k}": v for k, v in orc.get("distribution", {}).items()}},
            "changed_since_baseline": {k: v[:6] for k, v in list(changed_units.items())[:12]},
            "leg_wall_s": legs,
            "known_findings_reported": sorted(known_hits),
            "corpus_witnesses_replayed": corpus_n,
            "partial": getattr(prop, "PARTIAL", ""),
        },
        "assumptions": list(getattr(prop, "ASSUMPTIONS", [])),
        "wall_s": round(time.time() - t0, 2),
        "violations": len(new_viol) + (1 if status == 1 and not new_viol else 0),
    }
    os.makedirs(os.path.join(OUT, "evidence"), exist_ok=True)
    with open(os.path.join(OUT, "evidence", f"{pid}.json"), "w") as f:
        json.dump(ev, f, indent=1, default=str)
    for l in out_lines:
        print(l)
    print(f"{pid} tier={tier} seed={seed} proof={pl['discharged']}/{pl['obligations']} tie_cases={tie_cases} "
          f"tie_disagreements={sum(len(r['disagreements']) for r in tie)} oracle_evals={orc['evaluations']} "
          f"oracle_violations={len(orc['violations'])} wall={ev['wall_s']}s -> exit {status}")
    return status

"""Runs a protocol operation list through the compiled Lean model driver."""
import os
import subprocess

HERE = os.path.dirname(os.path.abspath(__file__))
DRIVER = os.path.join(HERE, "..", "lean", ".lake", "build", "bin", "hexdriver")


def run_model(lines):
    p = subprocess.run([DRIVER], input="\n".join(lines) + "\n", capture_output=True, text=True)
    if p.returncode != 0:
        raise RuntimeError(f"model driver failed rc={p.returncode}: {p.stderr[:500]}")
    return p.stdout.split("\n")[:-1]

"""Generators.  Every random choice derives from one random.Random(seed) handed in by the caller,
so a scenario replays exactly from (seed, case index)."""
import random

TF_UNITS = {"S": 1, "T": 60, "H": 3600, "D": 86400}
TF_MULTS = [1, 2, 3, 5, 7, 10, 15, 30, 45]

PRICE_STYLES = ["walk", "walk", "walk", "ints", "flat", "rising", "falling", "zerovol", "zerovol", "allzerovol", "repeat", "big", "small", "jumpy", "gappy",
                "shock", "grid", "onedge", "fine", "quiet", "fracvol"]
TS_STYLES = ["regular", "regular", "dups", "gaps", "biggaps", "mixed", "mixed", "phase"]


# price styles that stress a particular indicator (crossed channel bands, exact ties, oscillators pinned to 0/100, values finer
# than the rounding, untraded stretches); used with some probability by the per-indicator generators of the tie and the oracles
KIND_STYLES = {
    "SUPERTREND": ["shock", "stcross", "jumpy", "stcross"], "KC": ["shock", "flat"], "ATR": ["shock", "grid"], "TR": ["grid", "gappy"],
    "STOCH": ["onedge", "onedge", "grid", "flat"], "RSI": ["onedge", "rising", "falling", "flat"], "AROON": ["grid", "onedge", "falling", "rising"],
    "ADX": ["grid", "grid", "shock", "onedge"], "DONCHIAN": ["fine", "grid"], "HIGHESTLOWEST": ["fine", "grid"], "HL": ["fine", "grid"],
    "VWAP": ["zerovol", "grid", "allzerovol"], "OBV": ["grid", "repeat", "zerovol"], "VWMA": ["zerovol", "allzerovol", "grid"],
    "TSI": ["flat", "repeat", "onedge", "grid"], "MACD": ["flat", "fine", "repeat"], "ROC": ["grid", "small"], "EMA": ["fine", "flat"],
    "SMA": ["fine", "flat"], "RMA": ["fine", "flat"], "WMA": ["fine"], "HMA": ["fine", "flat"], "STANDARDDEVIATION": ["flat", "repeat", "fine"],
    "STDEV": ["flat", "repeat", "fine"], "BBANDS": ["flat", "repeat", "fine"], "STANDARDDEVIATIONTHRESHOLD": ["repeat", "grid"],
    "STDEVTHRES": ["repeat", "grid"], "COUNTER": ["grid", "repeat", "rising", "falling", "allzerovol", "flat"],
}


def style_for(rng, kind, prob=0.3):
    """a stressing price style for this indicator kind with probability `prob`, else None (= any style)"""
    styles = KIND_STYLES.get(str(kind).upper())
    if styles and rng.random() < prob:
        return rng.choice(styles)
    return None


def rng_for(seed, *path):
    return random.Random(f"{seed}/" + "/".join(str(p) for p in path))


def gen_timeframe(rng, allow_none=False):
    if allow_none and rng.random() < 0.3:
        return None
    u = rng.choice("STHD") if rng.random() < 0.8 else rng.choice("TT")
    m = rng.choice(TF_MULTS)
    return f"{u}{m}"


def tf_seconds(tf):
    return TF_UNITS[tf[0].upper()] * int(tf[1:])


def gen_prices(rng, n, style=None):
    """list of (o, h, l, c, v) with low <= open,close <= high, prices > 0, volume >= 0"""
    style = style or rng.choice(PRICE_STYLES)
    out = []
    if style == "ints":
        p = rng.randint(20, 500)
        for _ in range(n):
            o = p
            c = max(1, p + rng.randint(-5, 5))
            h = max(o, c) + rng.randint(0, 3)
            l = max(1, min(o, c) - rng.randint(0, 3))
            l = min(l, o, c)
            out.append((o, h, l, c, rng.randint(0, 1000)))
            p = c
        return out, style
    if style == "grid":
        # coarse tick grid: many exact ties (equal highs/lows, symmetric outside bars, close on the high/low, repeated volumes)
        tick = rng.choice([0.25, 0.5, 1, 0.125])
        p = tick * rng.randint(80, 400)
        for _ in range(n):
            o = p
            c = max(tick, p + tick * rng.choice([-2, -1, -1, 0, 0, 0, 1, 1, 2]))
            h = max(o, c) + tick * rng.choice([0, 0, 1, 1, 2])
            l = max(tick, min(o, c) - tick * rng.choice([0, 0, 1, 1, 2]))
            l = min(l, o, c)
            out.append((o, h, l, c, rng.choice([0, 100, 100, 200, 300])))
            p = c
        return out, style
    if style == "shock":
        # trending regimes with occasional very wide candles that close near their open (stored channel bands can cross)
        p = round(100.0 * rng.uniform(0.5, 2.0), 2)
        drift = rng.choice([-0.012, 0.0, 0.012])
        for i in range(n):
            if rng.random() < 0.08:
                drift = rng.choice([-0.012, -0.012, 0.0, 0.012])
            o = p
            kick = rng.uniform(-0.05, 0.05) if (out and out[-1][1] - out[-1][2] > 0.03 * p) else 0.0   # rebound / follow-through after a wide candle
            c = round(max(p * (1 + drift + kick + rng.gauss(0, 0.004)), 0.05), 2)
            wide = rng.random() < 0.12
            side = rng.choice(["up", "up", "down", "down", "both"]) if wide else ""
            up = rng.uniform(0.03, 0.35) if side in ("up", "both") else abs(rng.gauss(0, 0.003))
            dn = rng.uniform(0.03, 0.35) if side in ("down", "both") else abs(rng.gauss(0, 0.003))
            h = max(round(max(o, c) * (1 + up), 2), o, c)
            l = min(max(round(min(o, c) * (1 - dn), 2), 0.01), o, c)
            out.append((o, h, l, c, rng.randint(0, 2000)))
            p = c
        return out, style
    if style == "stcross":
        # a calm trend (the active channel band ratchets up to the price), then a very wide candle that closes where it opened (the
        # fresh opposite band lands beyond the kept active band: the stored bands have crossed), then a close between the two
        p = round(100.0 * rng.uniform(0.5, 2.0), 2)
        up = rng.choice([True, False])
        k, wait, after = 0, rng.randint(5, 16), False
        for i in range(n):
            o = p
            if after:
                c = round(o * (rng.uniform(0.9, 0.97) if up else rng.uniform(1.03, 1.1)), 2)
                h, l = max(o, c), min(o, c)
                after, k, wait = False, 0, rng.randint(5, 16)
                if rng.random() < 0.3:
                    up = not up
            elif k >= wait:
                c = round(o * (1 + rng.uniform(-0.002, 0.002)), 2)
                h = round(max(o, c) * (1.001 if up else rng.uniform(1.25, 1.6)), 2)
                l = round(min(o, c) * (rng.uniform(0.55, 0.8) if up else 0.999), 2)
                after = True
            else:
                c = round(o * (1 + (0.004 if up else -0.004) + rng.gauss(0, 0.001)), 2)
                h, l = round(max(o, c) * 1.001, 2), round(min(o, c) * 0.999, 2)
                k += 1
            h, l = max(h, o, c), min(l, o, c)
            out.append((o, h, l, c, rng.randint(0, 2000)))
            p = c
        return out, style
    if style == "star":
        # a quiet market in which, now and then, a long-bodied candle is followed by a doji that gaps away in its direction, a small body
        # gaps down under a long upper shadow (inverted hammer) or sits on the previous low over a long lower shadow (hammer)
        p = round(100.0 * rng.uniform(0.5, 2.0), 2)
        pending = None
        for i in range(n):
            k = rng.random() if (out and pending is None) else 1.0
            if k < 0.24:
                po, ph, pl, pc, _ = out[-1]
                body = rng.choice([0.01, 0.02, 0.03])
                if k < 0.12:
                    c = round(max(min(po, pc) * (1 - rng.uniform(0.004, 0.01)), 0.05), 2)
                    o = round(max(c - body, 0.02), 2)
                    h, l = round(c + rng.uniform(0.5, 1.5), 2), o
                else:
                    o = round(max(pl + rng.uniform(-0.1, 0.1), 0.05), 2)
                    c = round(o + body, 2)
                    h, l = c, round(max(o - rng.uniform(0.5, 1.5), 0.01), 2)
            elif pending is not None:
                d, po, pc = pending
                gap = rng.uniform(0.005, 0.02)
                o = round(max(po, pc) * (1 + gap), 2) if d > 0 else round(min(po, pc) * (1 - gap), 2)
                c = round(o + rng.choice([0, 0, 0.01, -0.01]), 2)
                h, l = round(max(o, c) + rng.uniform(0.2, 1.0), 2), round(max(min(o, c) - rng.uniform(0.2, 1.0), 0.01), 2)
                pending = None
            else:
                o = p
                long_ = i >= 3 and rng.random() < 0.25
                d = rng.choice([-1, 1])
                c = round(o * (1 + d * rng.uniform(0.03, 0.06)), 2) if long_ else round(o * (1 + rng.gauss(0, 0.004)), 2)
                h, l = round(max(o, c) * (1 + abs(rng.gauss(0, 0.003))), 2), round(min(o, c) * (1 - abs(rng.gauss(0, 0.003))), 2)
                if long_:
                    pending = (d, o, c)
            h, l = max(h, o, c), min(l, o, c)
            out.append((o, h, l, c, rng.randint(0, 2000)))
            p = c
        return out, style
    if style == "quiet":
        # untraded moments: flat zero-volume candles (o=h=l=c) scattered through a market that opens away from the previous close
        p = round(100.0 * rng.uniform(0.5, 2.0), 2)
        for i in range(n):
            if rng.random() < 0.35:
                out.append((p, p, p, p, 0))
                continue
            o = round(max(p * (1 + rng.choice([-0.02, -0.005, 0.0, 0.005, 0.02])), 0.05), 2)
            c = round(max(o * (1 + rng.gauss(0, 0.01)), 0.05), 2)
            h = max(round(max(o, c) * (1 + abs(rng.gauss(0, 0.004))), 2), o, c)
            l = min(max(round(min(o, c) * (1 - abs(rng.gauss(0, 0.004))), 2), 0.01), o, c)
            out.append((o, h, l, c, rng.randint(0, 2000)))
            p = c
        return out, style
    if style == "onedge":
        # runs of candles closing exactly on their low (sell-off) or high (rally): oscillators sit exactly on 0 / 100
        p = round(100.0 * rng.uniform(0.5, 2.0), 2)
        mode = rng.choice(["low", "high"])
        for i in range(n):
            if rng.random() < 0.1:
                mode = rng.choice(["low", "high", "mid"])
            o = p
            step = round(abs(rng.gauss(0, 0.6)) + 0.01, 2)
            if mode == "low":
                c = round(max(o - step, 0.05), 2)
                l, h = c, round(o + abs(rng.gauss(0, 0.2)), 2)
            elif mode == "high":
                c = round(o + step, 2)
                h, l = c, round(max(o - abs(rng.gauss(0, 0.2)), 0.02), 2)
            else:
                c = round(max(o + rng.gauss(0, 0.5), 0.05), 2)
                h, l = round(max(o, c) + 0.1, 2), round(max(min(o, c) - 0.1, 0.01), 2)
            h, l = max(h, o, c), min(l, o, c)
            out.append((o, h, l, c, rng.randint(0, 2000)))
            p = c
        return out, style
    scale = {"big": 1e5, "small": 0.05}.get(style, 100.0)
    dec = 4 if style == "small" else 6 if style == "fine" else 2   # fine: more decimals than any round_value in use
    p = round(scale * rng.uniform(0.5, 2.0), dec)
    prev = None
    for i in range(n):
        if style == "flat":
            o = h = l = c = p
            v = rng.randint(0, 500)
        elif style == "repeat" and prev is not None and rng.random() < 0.6:
            o, h, l, c, v = prev
        else:
            if style == "rising":
                d = abs(rng.gauss(0, 0.01)) + 0.001
            elif style == "falling":
                d = -abs(rng.gauss(0, 0.01)) - 0.001
                if p * (1 + d) < scale * 0.01:
                    d = 0.0
            elif style == "jumpy":
                d = rng.choice([-0.2, -0.05, 0, 0.05, 0.3]) * rng.random()
            else:
                d = rng.gauss(0, 0.01)
            o = p
            c = round(max(p * (1 + d), scale * 0.001), dec)
            if style in ("rising",) and c <= o:
                c = round(o + 10 ** -dec, dec)
            if style in ("falling",) and c >= o and o > 2 * 10 ** -dec:
                c = round(o - 10 ** -dec, dec)
            h = round(max(o, c) * (1 + abs(rng.gauss(0, 0.004))), dec)
            l = round(min(o, c) * (1 - abs(rng.gauss(0, 0.004))), dec)
            h = max(h, o, c)
            l = min(l, o, c)
            if l <= 0:
                l = min(o, c)
            v = 0 if (style == "allzerovol" or (style == "zerovol" and rng.random() < 0.8)) else rng.randint(0, 2000)
            if style == "gappy" and rng.random() < 0.3:  # open away from the previous close
                o = round(max(o * (1 + rng.choice([-0.03, 0.03, 0.01])), scale * 0.001), dec)
                h, l = max(h, o), min(l, o)
            if rng.random() < 0.05:
                v = float(v) + rng.choice([0.0, 0.5, 0.25])
            if style == "fracvol":
                # decimal volumes (0.1, 0.37, 12.005 ...): sums of them are not associative in doubles, so anything that adds
                # volumes in another order than the raw stream (collapsing twice, re-merging) shows in the last bit
                v = round(rng.random() * rng.choice([1, 1, 10, 1000]), rng.choice([1, 1, 2, 3]))
        prev = (o, h, l, c, v)
        out.append(prev)
        p = c
    return out, style


def gen_timestamps(rng, n, style=None, step=None, base=None):
    """non-decreasing naive timestamps in seconds"""
    style = style or rng.choice(TS_STYLES)
    step = step or rng.choice([1, 1, 5, 60, 60, 60, 300, 3600, 86400])
    if base is None:
        base = 1_600_000_000 + rng.randint(0, 400_000_000)
        if rng.random() < 0.4:
            base -= base % rng.choice([60, 300, 3600, 86400])  # on a boundary
        if rng.random() < 0.1:
            base = rng.randint(-10_000_000, 10_000_000)  # around / before the epoch
    t = base
    out = []
    for i in range(n):
        out.append(t)
        r = rng.random()
        if style == "regular":
            t += step
        elif style == "dups":
            t += 0 if r < 0.25 else step
        elif style == "gaps":
            t += step * (rng.randint(2, 6) if r < 0.15 else 1)
        elif style == "biggaps":
            t += step * (rng.randint(5, 200) if r < 0.1 else 1)
        elif style == "phase":  # dense first, then sparse: a lifespan window shrinks in candle count
            t += step if i < n // 2 else step * 8
        else:
            if r < 0.1:
                t += 0
            elif r < 0.2:
                t += step * rng.randint(2, 40)
            elif r < 0.3:
                t += rng.randint(1, max(1, 3 * step))
            else:
                t += step
    return out, style


def gen_stream(rng, n, price_style=None, ts_style=None, step=None, with_ts=True):
    prices, ps = gen_prices(rng, n, price_style)
    if with_ts:
        tss, tstyle = gen_timestamps(rng, n, ts_style, step)
    else:
        tss, tstyle = [None] * n, "none"
    return [(t,) + p for t, p in zip(tss, prices)], {"price": ps, "ts": tstyle}


def gen_schedule(rng, n, shape=None):
    """composition of n into an initial block (possibly 0) and append chunks (each >= 1)"""
    shape = shape or rng.choice(["batch", "empty1", "one1", "singles", "few", "random", "random"])
    if n == 0:
        return (0, []), shape
    if shape == "batch":
        return (n, []), shape
    if shape == "empty1":
        return (0, [1] * n), shape
    if shape == "one1":
        return (1, [1] * (n - 1)), shape
    if shape == "singles":
        k = rng.randint(0, n)
        return (k, [1] * (n - k)), shape
    init = rng.randint(0, n) if shape == "random" else rng.randint(0, max(0, n // 2))
    rest = n - init
    chunks = []
    while rest > 0:
        k = rng.randint(1, max(1, rest if shape == "few" else min(rest, 5)))
        chunks.append(k)
        rest -= k
    return (init, chunks), shape


def split_by(stream, sched):
    init, chunks = sched
    out = [stream[:init]]
    i = init
    for k in chunks:
        out.append(stream[i : i + k])
        i += k
    return out

import argparse
import importlib
import json
import os
import sys


def main():
    ap = argparse.ArgumentParser()
    ap.add_argument("prop")
    ap.add_argument("--tier", default=os.environ.get("VERIF_TIER", "quick"))
    ap.add_argument("--replay")
    ap.add_argument("--seed", type=int, default=int(os.environ.get("VERIF_SEED", "1")))
    a = ap.parse_args()
    prop = importlib.import_module(f"hx.props.{a.prop.lower()}")
    if a.replay:
        payload = json.load(open(a.replay))
        if payload.get("kind") != "counterexample":
            print(f"replay {a.replay}: no concrete input recorded (kind={payload.get('kind')}); names what no longer checks:")
            print(json.dumps(payload.get("no_longer_checks"), indent=1)[:2000])
            sys.exit(1)
        r = prop.replay(payload)
        print(json.dumps(r, indent=1, default=str)[:3000])
        if r.get("fails"):
            print(f"VIOLATION property={prop.ID} replay={a.replay}")
            sys.exit(1)
        print("replay: the recorded input no longer fails")
        sys.exit(0)
    from hx import engine

    try:
        rc = engine.run_check(prop, a.tier, a.seed)
    except Exception:
        import traceback

        traceback.print_exc()
        sys.exit(2)
    sys.exit(rc)


if __name__ == "__main__":
    main()

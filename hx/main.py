import argparse
import importlib
import json
import os
import sys


def main():
    ap = argparse.ArgumentParser()
    ap.add_argument("prop")
    ap.add_argument("--tier", default=os.environ.get("VERIF_TIER", "quick"))
    ap.add_argument("--replay")
    ap.add_argument("--seed", type=int, default=int(os.environ.get("VERIF_SEED", "1")))
    a = ap.parse_args()
    prop = importlib.import_module(f"hx.props.{a.prop.lower()}")
    if a.replay:
        payload = json.load(open(a.replay))
        if payload.get("kind") != "counterexample":
            # no failing input was found: the replay names the theorem / correspondence that no longer checks.
            # Re-run what can be re-run: the recorded operation list through the real code and the model.
            from hx import corr, impl, model

            still = False
            for item in payload.get("no_longer_checks", []):
                if "ops" in item:
                    a_out = corr._cut(impl.ImplRunner().run(item["ops"]))
                    b_out = corr._cut(model.run_model(item["ops"]))
                    differs = a_out != b_out
                    print(f"correspondence {item.get('correspondence')}: model and code {'STILL DIFFER' if differs else 'agree now'} on the recorded operations")
                    still = still or differs
                if "proof" in item:
                    from hx import engine

                    pl = engine.proof_leg(item.get("module") or prop.LEAN_MODULE)
                    print(f"proof leg of {pl['module']}: {pl['discharged']}/{pl['obligations']} discharged; problems: {pl['problems'][:3]}")
                    still = still or not pl["ok"]
            if still:
                print(f"VIOLATION property={prop.ID} replay={a.replay} no-failing-input-found")
                sys.exit(1)
            print("replay: what was recorded checks again")
            sys.exit(0)
        r = prop.replay(payload)
        print(json.dumps(r, indent=1, default=str)[:3000])
        if r.get("fails"):
            print(f"VIOLATION property={prop.ID} replay={a.replay}")
            sys.exit(1)
        print("replay: the recorded input no longer fails")
        sys.exit(0)
    from hx import engine

    try:
        rc = engine.run_check(prop, a.tier, a.seed)
    except Exception:
        import traceback

        traceback.print_exc()
        sys.exit(2)
    sys.exit(rc)


if __name__ == "__main__":
    main()

"""Runs a protocol operation list against the REAL hexital package (from /repo's working tree)
and produces the same canonical output lines the Lean driver prints."""
import math
import signal
from datetime import timedelta

from hexital.core.candle import Candle
from hexital.core.candle_manager import CandleManager
from hexital.candlesticks.heikinashi import HeikinAshi

from . import specs, wire


class Diverged(BaseException):
    """a library call did not return within the watchdog budget (e.g. a non-terminating gap-fill loop).  Not an
    `Exception`: the harness wraps library calls in `except Exception` (an exception is a result there), and the
    watchdog has to pierce those."""


def _alarm(signum, frame):
    raise Diverged("no result within the watchdog budget")


import multiprocessing as _mp

DIVERGED = _mp.Value("i", 0)  # divergences seen so far, shared with the forked worker processes


def guarded(fn, seconds=3.0):
    """run fn() under a watchdog on the process's own CPU time (SIGPROF: a busy machine does not eat the budget, a loop that never
    ends still burns it); a non-terminating loop is reported as Diverged.  Nest-safe: an enclosing
    watchdog keeps its deadline (the inner one never outlives it and re-arms it on the way out).  Once this process
    (or a sibling worker) has seen divergences the budget of later calls shrinks (a divergence is already a violation; what follows only
    has to finish): 1 → at most 5 s, 3 → at most 1 s."""
    import time

    seen = DIVERGED.value
    if seen >= 3:
        seconds = min(seconds, 1.0)
    elif seen >= 1:
        seconds = min(seconds, 5.0)
    try:
        old = signal.signal(signal.SIGPROF, _alarm)
    except ValueError:  # not in the main thread: run unguarded
        return fn()
    outer, _ = signal.getitimer(signal.ITIMER_PROF)
    t0 = time.process_time()
    signal.setitimer(signal.ITIMER_PROF, min(seconds, outer) if outer else seconds)
    try:
        return fn()
    except Diverged:
        with DIVERGED.get_lock():
            DIVERGED.value += 1
        raise
    finally:
        signal.setitimer(signal.ITIMER_PROF, 0)
        signal.signal(signal.SIGPROF, old)
        if outer:
            signal.setitimer(signal.ITIMER_PROF, max(0.001, outer - (time.process_time() - t0)))


def split_params(toks):
    ps = {}
    i = 0
    while i < len(toks) and "=" in toks[i]:
        k, v = toks[i].split("=", 1)
        ps[k] = None if v == "-" else v
        i += 1
    return ps, toks[i:]


def parse_candle_tuples(n, toks):
    out = []
    for j in range(n):
        t = toks[6 * j : 6 * j + 6]
        ts = None if t[0] == "-" else int(t[0])
        out.append((ts,) + tuple(wire.dec_num(x) for x in t[1:]))
    return out


def mk_candle(t):
    ts, o, h, l, c, v = t
    return Candle(open=o, high=h, low=l, close=c, volume=v, timestamp=wire.secs_to_ts(ts))


def mk_candles(n, toks):
    return [mk_candle(t) for t in parse_candle_tuples(n, toks)]


def iso_string(secs, style):
    """the timestamp as an ISO-8601 string: `iso=T` datetime.isoformat() ("1970-01-01T00:00:00"), `iso=S` str(datetime)
    (a space instead of the "T"), `iso=B` the basic date with an explicit zero fraction ("19700101T00:00:00.000000")"""
    ts = wire.secs_to_ts(secs)
    if style == "S":
        return str(ts)
    if style == "B":
        return ts.strftime("%Y%m%dT%H:%M:%S.000000")
    return ts.isoformat()


def as_timeframe(ps, tf):
    """`tfenum=1`: the timeframe is handed over as the `TimeFrame` member with that value (when there is one)"""
    if ps.get("tfenum") == "1" and tf is not None:
        from hexital.utils.timeframe import TimeFrame

        if tf in [m.value for m in TimeFrame]:
            return TimeFrame(tf)
    return tf


def csv_candle(tok):
    """a fresh Candle (no readings) from one token `ts,o,h,l,c,v`"""
    return mk_candle(parse_candle_tuples(1, tok.split(","))[0])


def candles_eq(candles, ps):
    """`candles[i] == candles[j]` / `== Candle(...)` / `== <not a Candle>`"""
    i = int(ps["i"])
    if ps.get("j") is not None:
        return "true" if candles[i] == candles[int(ps["j"])] else "false"
    if ps.get("c") is not None:
        return "true" if candles[i] == csv_candle(ps["c"]) else "false"
    if ps.get("other") is not None:
        return "true" if candles[i] == 7 else "false"
    return "bad-acc"


def encode_input(ps, tuples):
    """the caller-side encoding of candles for append(): enc=candle|dict|list|tlist|isodict|isocandle (timestamps as
    ISO-8601 strings, in dicts resp. handed to the Candle constructor), single=1 for one bare item;
    enc=badobj|badlist: something append() does not accept"""
    enc = ps.get("enc") or "candle"
    if enc == "badobj":
        return 2.5
    if enc == "badlist":
        return ["x"] + [t[4] for t in tuples]
    if enc == "candle":
        data = [mk_candle(t) for t in tuples]
    elif enc == "isocandle":
        data = [Candle(open=t[1], high=t[2], low=t[3], close=t[4], volume=t[5],
                       timestamp=None if t[0] is None else iso_string(t[0], ps.get("iso"))) for t in tuples]
    elif enc == "isodict":
        data = []
        for t in tuples:
            d = dict(open=t[1], high=t[2], low=t[3], close=t[4], volume=t[5])
            if t[0] is not None:
                d["timestamp"] = iso_string(t[0], ps.get("iso"))
            data.append(d)
    elif enc == "dict":
        data = []
        for t in tuples:
            d = dict(open=t[1], high=t[2], low=t[3], close=t[4], volume=t[5])
            if t[0] is not None:
                d["timestamp"] = wire.secs_to_ts(t[0])
            data.append(d)
    elif enc == "list":
        data = [[t[1], t[2], t[3], t[4], t[5]] + ([wire.secs_to_ts(t[0])] if t[0] is not None else []) for t in tuples]
    else:  # tlist: timestamp first
        data = [([wire.secs_to_ts(t[0])] if t[0] is not None else []) + [t[1], t[2], t[3], t[4], t[5]] for t in tuples]
    if ps.get("single") == "1" and len(data) == 1:
        return data[0]
    return data


def mgr_kwargs(ps):
    kw = {}
    kw["timeframe"] = as_timeframe(ps, ps.get("tf"))
    kw["timeframe_fill"] = ps.get("fill") == "1"
    kw["candlestick_type"] = HeikinAshi() if ps.get("ha") == "1" else None
    life = ps.get("life")
    kw["candles_lifespan"] = None if life is None else timedelta(seconds=int(life))
    return kw


def arith(toks):
    op = toks[0]
    if op == "round":
        return str(wire.fbits(round(wire.bits_to_float(int(toks[2])), int(toks[1]))))
    nums = [wire.dec_num(t) for t in toks[1:] if t[:2] in ("i:", "f:")]
    try:
        if op == "sum":
            return wire.enc_num(sum(x for x in nums))
        if op == "pow":
            return wire.enc_num(wire.bits_to_float(int(toks[1])) ** int(toks[2]))
        if op == "sqrt":
            return str(wire.fbits(math.sqrt(wire.bits_to_float(int(toks[1])))))
        if op == "div":
            return wire.enc_num(nums[0] / nums[1])
        if op == "add":
            return wire.enc_num(nums[0] + nums[1])
        if op == "sub":
            return wire.enc_num(nums[0] - nums[1])
        if op == "mul":
            return wire.enc_num(nums[0] * nums[1])
        if op == "lt":
            return "true" if nums[0] < nums[1] else "false"
        if op == "eq":
            return "true" if nums[0] == nums[1] else "false"
        if op == "max":
            return wire.enc_num(max(*nums) if len(nums) > 1 else nums[0])
        if op == "min":
            return wire.enc_num(min(*nums) if len(nums) > 1 else nums[0])
    except Exception as e:  # noqa
        return wire.enc_err(e)
    return "bad"


class ImplRunner:
    def __init__(self):
        self.reset()

    def reset(self):
        self.mgr = None
        self.ind = None
        self.hex = None
        self.pending = []
        self.dead = False

    def _hex_op(self, fn):
        h = self.hex
        if h is None:
            return ["bad-op"]

        def f():
            self.hex = None
            fn(h)
            self.hex = h

        return self._try(f)

    def _member(self, ps):
        spec = specs.params_to_spec(ps)
        form = ps.get("form") or "obj"
        mspec = {k: v for k, v in spec.items() if k not in ("fill", "ha", "life")}
        ha = bool(spec.get("ha"))   # a member-level candlestick type (inside a Hexital the manager it is attached to decides)
        if mspec.get("tf"):
            mspec["tf"] = as_timeframe(ps, mspec["tf"])
        if form == "dict":
            d = specs.as_config_dict(mspec, with_manager=False)
            if mspec.get("tf"):
                d["timeframe"] = mspec["tf"]
            if ha:
                d["candlestick_type"] = "HA"
            return d
        kw = {}
        ind = specs.build_indicator({**mspec, "tf": None}, [], with_manager=False) if not (mspec.get("tf") or ha) else None
        if ind is None:
            from hexital import indicators as _i  # noqa

            full = dict(mspec)
            ind = specs.build_indicator({**full, "fill": False, "ha": ha, "life": None}, [], with_manager=True)
        if form == "settings":
            return ind.settings
        if form == "used":      # the object has run once on its own (empty) candles: `_initialise` has created its helper indicators
            ind.calculate()
        return ind

    def _ind_op(self, fn):
        ind = self.ind
        if ind is None:
            return ["bad-op"]

        def f():
            self.ind = None
            fn(ind)
            self.ind = ind

        return self._try(f)

    def _acc(self, what, ps, ind=None):
        ind = self.ind if ind is None else ind
        name = ps.get("name")
        idx = None if ps.get("idx") is None else int(ps["idx"])
        try:
            if what == "name":
                return ind.name
            if what == "active":
                return str(ind._active_index)
            if what == "has_reading":
                return "true" if ind.has_reading else "false"
            if what == "reading":
                return wire.enc_val(ind.reading(name, idx))
            if what == "prev_reading":
                return wire.enc_val(ind.prev_reading(name))
            if what == "as_list":
                return " ".join(wire.enc_val(v) for v in ind.as_list(name))
            if what == "reading_count":
                return str(ind.reading_count(name))
            if what == "reading_period":
                return "true" if ind.reading_period(int(ps.get("period") or 1), name, idx) else "false"
            if what == "candles_sum":
                return wire.enc_val(ind.candles_sum(int(ps.get("length") or 1), name, idx))
            if what == "read_candle":
                if ps.get("c") is not None:
                    return wire.enc_val(ind.read_candle(csv_candle(ps["c"]), name))
                return wire.enc_val(ind.read_candle(ind.candles[-1 if idx is None else idx], name))
            if what == "reading_period_fn":
                from hexital.utils.candles import reading_period

                return "true" if reading_period(ind.candles, int(ps.get("period") or 1), name if name else ind.name, idx) else "false"
            if what == "find":
                return "true" if ind.candle_manager.find_indicator(name if name else ind.name) else "false"
            if what == "ceq":
                return candles_eq(ind.candles, ps)
        except Exception as e:  # noqa
            return "a" + wire.enc_err(e)
        return "bad-acc"

    def run(self, lines):
        out = []
        for line in lines:
            out.extend(self.step(line))
        return out

    def _try(self, fn):
        try:
            guarded(fn)
            return ["ok"]
        except Diverged:
            self.dead = True  # the objects were interrupted in the middle of a mutation: nothing after this line of the case is meaningful
            return ["err diverges"]
        except Exception as e:  # noqa
            return [wire.enc_err(e)]

    def step(self, line):
        toks = line.split()
        if not toks:
            return []
        op, rest = toks[0], toks[1:]
        if op == "reset":
            self.reset()
            return ["reset"]
        if self.dead:
            return ["skipped-after-divergence"]
        if op == "arith":
            return [arith(rest)]
        if op == "mgr":
            ps, rest = split_params(rest)
            cs = mk_candles(int(ps["n"]), rest)

            def f():
                self.mgr = None
                self.mgr = CandleManager(cs, **mgr_kwargs(ps))

            return self._try(f)
        if op == "mapp":
            ps, rest = split_params(rest)
            if self.mgr is None:
                return ["bad-op"]
            cs = encode_input(ps, parse_candle_tuples(int(ps["n"]), rest))
            m = self.mgr

            def f():
                self.mgr = None
                m.append(cs)
                self.mgr = m

            return self._try(f)
        if op == "macc":
            if self.mgr is None:
                return ["nomgr"]
            ps, _ = split_params(rest[1:])
            m = self.mgr
            try:
                if rest[0] == "find":
                    return ["true" if m.find_indicator(ps["name"]) else "false"]
                if rest[0] == "eq":
                    other = 7 if ps.get("other") is not None else CandleManager([], **mgr_kwargs(ps))
                    return ["true" if m == other else "false"]
                if rest[0] == "ceq":
                    return [candles_eq(m.candles, ps)]
            except Exception as e:  # noqa
                return ["a" + wire.enc_err(e)]
            return ["bad-acc"]
        if op == "util":
            from hexital.utils import indexing

            ps, _ = split_params(rest[1:])
            idx = None if ps.get("idx") in (None, "None") else int(ps["idx"])
            ln = int(ps.get("len") or 0)
            oi = lambda v: "n" if v is None else str(v)  # noqa
            if rest[0] == "validate_index":
                return [oi(indexing.validate_index(idx, ln, int(ps.get("default") or -1)))]
            if rest[0] == "absindex":
                return [oi(indexing.absindex(idx, ln))]
            if rest[0] == "valid_index":
                return ["true" if indexing.valid_index(idx, ln) else "false"]
            return ["bad-acc"]
        if op == "mtag":
            if self.mgr is None:
                return ["bad-op"]
            ps, _ = split_params(rest)
            m = self.mgr

            def f():
                self.mgr = None
                m.candles[int(ps.get("i") or -1)].tag = "Heikin-Ashi"
                self.mgr = m

            return self._try(f)
        if op == "mtasks":
            if self.mgr is None:
                return ["bad-op"]
            m = self.mgr

            def f():
                self.mgr = None
                m._tasks()
                self.mgr = m

            return self._try(f)
        if op == "ind":
            ps, rest = split_params(rest)
            cs = mk_candles(int(ps["n"]), rest)
            spec = specs.params_to_spec(ps)
            spec["tf"] = as_timeframe(ps, spec.get("tf"))
            box = {}

            def f():
                self.ind = None
                box["i"] = specs.build_indicator(spec, cs)
                self.ind = box["i"]

            r = self._try(f)
            return [f"ok name={self.ind.name}"] if r == ["ok"] else r
        if op == "iapp":
            ps, rest = split_params(rest)
            cs = encode_input(ps, parse_candle_tuples(int(ps["n"]), rest))
            return self._ind_op(lambda i: i.append(cs))
        if op == "icalc":
            return self._ind_op(lambda i: i.calculate())
        if op == "icidx":
            ps, rest = split_params(rest)
            s_ = int(ps["s"])
            e_ = None if ps.get("e") is None else int(ps["e"])
            return self._ind_op(lambda i: i.calculate_index(s_, e_))
        if op == "ipurge":
            return self._ind_op(lambda i: i.purge())
        if op == "ipurgename":
            ps, _ = split_params(rest)
            return self._ind_op(lambda i: i.candle_manager.purge(ps["name"]))
        if op == "irecalc":
            return self._ind_op(lambda i: i.recalculate())
        if op == "isnap":
            if self.ind is None:
                return ["noind"]
            return wire.snap_lines(self.ind.candles)
        if op == "iacc":
            if self.ind is None:
                return ["noind"]
            ps, _ = split_params(rest[1:])
            return [self._acc(rest[0], ps)]
        if op == "iset":
            if self.ind is None:
                return ["bad-op"]
            ps, _ = split_params(rest)
            v = ps["val"]
            if v.startswith("{"):
                val = {}
                for kv in filter(None, v[1:-1].split(";")):
                    k, x = kv.split("=", 1)
                    val[k] = wire.dec_num(x)
            else:
                val = wire.dec_num(v)
            try:
                c = self.ind.candles[int(ps["idx"])]
            except IndexError as e:
                return [wire.enc_err(e)]
            (c.sub_indicators if ps.get("sub") == "1" else c.indicators)[ps["name"]] = val
            return ["ok"]
        if op == "ana":
            if self.ind is None:
                return ["bad-op"]
            ps, _ = split_params(rest)
            from hexital.analysis import MOVEMENT_MAP, PATTERN_MAP, movement

            fns = {**MOVEMENT_MAP, **PATTERN_MAP, "above": movement.above, "below": movement.below}
            spec = {"fn": ps["fn"]}
            for k in specs.ANALYSIS.get(ps["fn"], ["a", "b"]):
                if ps.get(k) is not None:
                    spec[k] = int(ps[k]) if k in ("length", "lookback") else ps[k]
            kw = {specs.ANALYSIS_KW[k]: v for k, v in spec.items() if k != "fn"}
            if ps["fn"] in ("above", "below"):
                kw = {"indicator": spec.get("a", "close"), "indicator_two": spec.get("b", "open")}
            if ps.get("idx") is not None:
                kw["index"] = int(ps["idx"])
            try:
                if ps.get("one") is not None:    # ONE candle instead of the list (positive / negative accept that)
                    one = self.ind.candles[int(ps["one"])]
                    return [wire.enc_val(guarded(lambda: fns[ps["fn"]](one, **kw)))]
                return [wire.enc_val(guarded(lambda: fns[ps["fn"]](self.ind.candles, **kw)))]
            except Exception as e:  # noqa
                return ["a" + wire.enc_err(e)]
        if op == "autil":
            if self.ind is None:
                return ["bad-op"]
            ps, _ = split_params(rest)
            from hexital.analysis import utils as autils

            fn = getattr(autils, ps["fn"])
            cs = self.ind.candles
            try:
                if ps.get("two") is not None:     # the two-candle predicates: fn(candles[i], candles[j])
                    return ["true" if guarded(lambda: fn(cs[int(ps["idx"])], cs[int(ps["two"])])) else "false"]
                kw = {}
                if ps.get("length") is not None:
                    kw["length"] = int(ps["length"])
                if ps.get("idx") is not None:
                    kw["index"] = int(ps["idx"])
                if ps.get("pct") is not None:
                    kw["percentage"] = wire.dec_num(ps["pct"])
                return [wire.enc_num(guarded(lambda: fn(cs, **kw)))]
            except Exception as e:  # noqa
                return ["a" + wire.enc_err(e)]
        if op == "hmember":
            ps, _ = split_params(rest)
            if ps.get("form") == "bad":      # neither an Indicator nor a dict
                self.pending.append(3.5)
                return ["ok name=-"]
            try:
                m = self._member(ps)
            except Exception as e:  # noqa
                return [wire.enc_err(e)]
            self.pending.append(m)
            spec = specs.params_to_spec(ps)
            probe = specs.build_indicator({**spec, "fill": False, "ha": False, "life": None}, [], with_manager=True)
            return [f"ok name={probe.name}"]
        if op == "hnew":
            from hexital.core.hexital import Hexital

            ps, rest = split_params(rest)
            cs = mk_candles(int(ps["n"]), rest)
            kw = mgr_kwargs(ps)
            members, self.pending = self.pending, []

            def f():
                self.hex = None
                self.hex = Hexital("H", cs, members, **kw)

            return self._try(f)
        if op == "hadd":
            members, self.pending = self.pending, []
            return self._hex_op(lambda h: h.add_indicator(members))
        if op == "happ":
            ps, rest = split_params(rest)
            data = encode_input(ps, parse_candle_tuples(int(ps["n"]), rest))
            return self._hex_op(lambda h: h.append(data))
        if op in ("hcalc", "hpurge", "hrecalc", "hcidx", "hrem"):
            ps, _ = split_params(rest)
            nm = ps.get("name")
            if op == "hcalc":
                return self._hex_op(lambda h: h.calculate(nm))
            if op == "hpurge":
                return self._hex_op(lambda h: h.purge(nm))
            if op == "hrecalc":
                return self._hex_op(lambda h: h.recalculate(nm))
            if op == "hcidx":
                return self._hex_op(lambda h: h.calculate_index(nm, int(ps.get("idx") or -1)))
            return self._hex_op(lambda h: h.remove_indicator(nm))
        if op == "hsnap":
            if self.hex is None:
                return ["nohex"]
            out = []
            for k, m in self.hex._candles.items():
                out.append(f"mgr {k} {len(m.candles)}")
                out.extend(wire.show_candle(c) for c in m.candles)
            return out
        if op == "hacc":
            if self.hex is None:
                return ["nohex"]
            ps, _ = split_params(rest[1:])
            nm = ps.get("name") or ""
            h = self.hex
            try:
                if rest[0] == "reading":
                    if ps.get("idx") == "None":
                        return [wire.enc_val(h.reading(nm, None))]
                    return [wire.enc_val(h.reading(nm, int(ps.get("idx") or -1)))]
                if rest[0] == "indicator":
                    return [self._acc(ps.get("what") or "name", ps, ind=h.indicator(ps.get("member") or ""))]
                if rest[0] == "indicator_settings":
                    from . import corr_settings

                    return [" | ".join(corr_settings.enc_settings(d) for d in h.indicator_settings)]
                if rest[0] == "prev_reading":
                    return [wire.enc_val(h.prev_reading(nm))]
                if rest[0] == "has_reading":
                    return ["true" if h.has_reading(nm) else "false"]
                if rest[0] == "as_list":
                    return [" ".join(wire.enc_val(v) for v in h.reading_as_list(nm))]
                if rest[0] == "names":
                    return [" ".join(h.indicators)]
                if rest[0] == "timeframes":
                    return [" ".join(sorted(h.timeframes))]
                if rest[0] == "getcandles":
                    return [" ".join(f"{k}:{len(v)}" for k, v in h.get_candles().items())]
                if rest[0] == "candles":
                    return wire.snap_lines(h.candles(ps.get("tf") or ""))
            except Exception as e:  # noqa
                return ["a" + wire.enc_err(e)]
            return ["bad-acc"]
        if op == "settings":
            from . import corr_settings

            return corr_settings.impl_settings(split_params(rest)[0])
        if op == "msnap":
            if self.mgr is None:
                return ["nomgr"]
            return wire.snap_lines(self.mgr.candles)
        return ["bad-op"]

"""Indicator specifications: one plain dict describes an indicator; it can be rendered as protocol
tokens (for both runners) and built as a real hexital object."""
from datetime import timedelta

from . import wire

# kind -> (class name in hexital.indicators, [(spec key, python kwarg)])
KINDS = {
    "SMA": ("SMA", [("period", "period"), ("input", "input_value")]),
    "EMA": ("EMA", [("period", "period"), ("input", "input_value"), ("smoothing", "smoothing")]),
    "RMA": ("RMA", [("period", "period"), ("input", "input_value")]),
    "WMA": ("WMA", [("period", "period"), ("input", "input_value")]),
    "VWMA": ("VWMA", [("period", "period")]),
    "HMA": ("HMA", [("period", "period"), ("input", "input_value")]),
    "TR": ("TR", []),
    "ATR": ("ATR", [("period", "period")]),
    "STDEV": ("StandardDeviation", [("period", "period"), ("input", "input_value")]),
    "BBANDS": ("BBANDS", [("period", "period"), ("input", "input_value")]),
    "KC": ("KC", [("period", "period"), ("input", "input_value"), ("multiplier", "multiplier")]),
    "DONCHIAN": ("Donchian", [("period", "period")]),
    "HL": ("HighestLowest", [("period", "period")]),
    "HLA": ("HighLowAverage", []),
    "SUPERTREND": ("Supertrend", [("period", "period"), ("input", "input_value"), ("multiplier", "multiplier")]),
    "STDEVTHRES": ("StandardDeviationThreshold", [("period", "period"), ("input", "input_value"), ("multiplier", "multiplier")]),
    "COUNTER": ("Counter", [("input", "input_value"), ("cv", "count_value")]),
    "RSI": ("RSI", [("period", "period"), ("input", "input_value")]),
    "MACD": ("MACD", [("fast", "fast_period"), ("slow", "slow_period"), ("signal", "signal_period"), ("input", "input_value")]),
    "ROC": ("ROC", [("period", "period"), ("input", "input_value")]),
    "STOCH": ("STOCH", [("period", "period"), ("slow", "slow_period"), ("smoothk", "smoothing_k"), ("input", "input_value")]),
    "TSI": ("TSI", [("period", "period"), ("smooth", "smooth_period"), ("input", "input_value")]),
    "AROON": ("AROON", [("period", "period")]),
    "ADX": ("ADX", [("period", "period"), ("signal", "period_signal")]),
    "OBV": ("OBV", []),
    "VWAP": ("VWAP", [("period", "period")]),
}
SIMPLE_KINDS = ["SMA", "EMA", "RMA", "WMA", "VWMA", "TR", "HLA", "OBV", "ROC", "COUNTER", "DONCHIAN", "HL", "AROON"]
COMPOSITE_KINDS = ["HMA", "ATR", "STDEV", "BBANDS", "KC", "SUPERTREND", "STDEVTHRES", "RSI", "MACD", "STOCH", "TSI", "ADX", "VWAP"]
ALL_KINDS = SIMPLE_KINDS + COMPOSITE_KINDS

# analysis function -> argument names (besides candles/index)
ANALYSIS = {
    "positive": [], "negative": [], "above": ["a", "b"], "below": ["a", "b"],
    "value_range": ["ind", "length"], "rising": ["ind", "length"], "falling": ["ind", "length"],
    "mean_rising": ["ind", "length"], "mean_falling": ["ind", "length"],
    "highest": ["ind", "length"], "lowest": ["ind", "length"],
    "highestbar": ["ind", "length"], "lowestbar": ["ind", "length"],
    "cross": ["a", "b", "length"], "crossover": ["a", "b", "length"], "crossunder": ["a", "b", "length"],
    "doji": ["lookback"], "dojistar": ["lookback"], "hammer": ["lookback"], "inv_hammer": ["lookback"],
}
ANALYSIS_KW = {"ind": "indicator", "a": "indicator_one", "b": "indicator_two", "length": "length", "lookback": "lookback"}
PRICE_INPUTS = ["close", "open", "high", "low", "volume", "realbody", "high_low", "shadow_upper", "shadow_lower"]


def _tok(v):
    if v is None:
        return "-"
    if isinstance(v, bool):
        return "b:1" if v else "b:0"
    if isinstance(v, float):
        return wire.enc_num(v)
    return str(v)


def spec_params(spec) -> str:
    """protocol tokens of a spec (without candles)"""
    toks = [f"kind={spec['kind']}"]
    if spec["kind"] == "AMORPH":
        toks.append(f"fn={spec['fn']}")
        for k in ANALYSIS[spec["fn"]]:
            if k in spec:
                toks.append(f"{k}={_tok(spec[k])}")
        toks.append(f"lengiven={1 if 'length' in spec else 0}")
    else:
        for k, _ in KINDS[spec["kind"]][1]:
            if k in spec:
                v = spec[k]
                if k == "cv":
                    toks.append("cv=" + wire.enc_scalar(v))
                else:
                    toks.append(f"{k}={_tok(v)}")
        if "multiplier" in spec:
            toks.append(f"mulstr={spec['multiplier']}")
    toks.append(f"round={spec.get('round', 4)}")
    toks.append(f"name={_tok(spec.get('name'))}")
    toks.append(f"suffix={_tok(spec.get('suffix'))}")
    toks.append(f"tf={_tok(spec.get('tf'))}")
    toks.append(f"fill={1 if spec.get('fill') else 0}")
    toks.append(f"ha={1 if spec.get('ha') else 0}")
    toks.append(f"life={_tok(spec.get('life'))}")
    return " ".join(toks)


def params_to_spec(ps) -> dict:
    """inverse of spec_params on the parsed key=value dict (values are strings or None)"""
    spec = {"kind": ps["kind"]}

    def conv(v):
        if v is None:
            return None
        if v[:2] in ("i:", "f:", "b:"):
            return wire.dec_num(v)
        try:
            return int(v)
        except ValueError:
            return v

    if ps["kind"] == "AMORPH":
        spec["fn"] = ps["fn"]
        for k in ANALYSIS[ps["fn"]]:
            if k in ps and not (k == "length" and ps.get("lengiven") == "0"):
                spec[k] = conv(ps[k])
    else:
        for k, _ in KINDS[ps["kind"]][1]:
            if k in ps:
                spec[k] = wire.dec_num(ps[k]) if k == "cv" else conv(ps[k])
    spec["round"] = int(ps.get("round") or 4)
    for k in ("name", "suffix", "tf"):
        spec[k] = ps.get(k)
    spec["fill"] = ps.get("fill") == "1"
    spec["ha"] = ps.get("ha") == "1"
    spec["life"] = None if ps.get("life") is None else int(ps["life"])
    return spec


def indicator_kwargs(spec, with_manager=True):
    kw = {}
    if spec["kind"] != "AMORPH":
        for k, py in KINDS[spec["kind"]][1]:
            if k in spec and spec[k] is not None:
                kw[py] = spec[k]
    kw["round_value"] = spec.get("round", 4)
    if spec.get("name") is not None:
        kw["fullname_override"] = spec["name"]
    if spec.get("suffix") is not None:
        kw["name_suffix"] = spec["suffix"]
    if with_manager:
        if spec.get("tf") is not None:
            kw["timeframe"] = spec["tf"]
        kw["timeframe_fill"] = bool(spec.get("fill"))
        if spec.get("ha"):
            kw["candlestick_type"] = "HA"
        if spec.get("life") is not None:
            kw["candles_lifespan"] = timedelta(seconds=spec["life"])
    return kw


def analysis_kwargs(spec):
    return {ANALYSIS_KW[k]: spec[k] for k in ANALYSIS[spec["fn"]] if k in spec and spec[k] is not None}


def build_indicator(spec, candles, with_manager=True):
    """the real hexital object for a spec"""
    from hexital import indicators
    from hexital.analysis import MOVEMENT_MAP, PATTERN_MAP

    kw = indicator_kwargs(spec, with_manager)
    if spec["kind"] == "AMORPH":
        fn = (MOVEMENT_MAP | PATTERN_MAP)[spec["fn"]]
        return indicators.Amorph(analysis=fn, candles=candles, **analysis_kwargs(spec), **kw)
    cls = getattr(indicators, KINDS[spec["kind"]][0])
    return cls(candles=candles, **kw)


def as_config_dict(spec, with_manager=True):
    """the dict form accepted by Hexital(indicators=[{...}])"""
    kw = indicator_kwargs(spec, with_manager)
    if spec["kind"] == "AMORPH":
        return {"analysis": spec["fn"], "args": analysis_kwargs(spec), **kw}
    from hexital.indicators import INDICATOR_MAP
    from hexital import indicators

    cls = getattr(indicators, KINDS[spec["kind"]][0])
    key = next(k for k, v in INDICATOR_MAP.items() if v is cls)
    return {"indicator": key, **kw}


def gen_spec(rng, kinds=None, allow_mgr=True, max_period=25, inputs=None):
    kind = rng.choice(kinds or ALL_KINDS)
    spec = {"kind": kind}
    keys = [k for k, _ in KINDS[kind][1]]
    per = lambda lo=2: rng.choice([2, 3, 3, 4, 5, 5, 7, 9, 10, 14]) if rng.random() < 0.8 else rng.randint(lo, max_period)  # noqa
    if "period" in keys:
        spec["period"] = per()
    if "input" in keys:
        spec["input"] = rng.choice(inputs or (PRICE_INPUTS if rng.random() < 0.4 else ["close"]))
    if "smoothing" in keys:
        spec["smoothing"] = rng.choice([2.0, 2.0, 2.0, 1.0, 3.0, 1.5, 4.0, 5.0])   # (4, 5 with period 2, 3: a weight above 1 is still the documented recurrence)
    if "multiplier" in keys:
        spec["multiplier"] = rng.choice([2.0, 3.0, 1.5, 1.0, 2.5])
    if kind == "COUNTER":
        spec["input"] = rng.choice(["positive", "negative", "volume", "close"])
        spec["cv"] = rng.choice([True, True, False, 0, 1]) if spec["input"] in ("positive", "negative") else rng.choice([0, 100, True])
    if kind == "MACD":
        f, s = sorted(rng.sample(range(2, 16), 2))
        if rng.random() < 0.15:
            f, s = s, f
        spec.update(fast=f, slow=s, signal=rng.randint(2, 9))
    if kind == "STOCH":
        spec.update(slow=rng.randint(2, 5), smoothk=rng.randint(2, 5))
    if kind == "TSI" and rng.random() < 0.5:
        spec["smooth"] = rng.randint(2, 8)
    if kind == "ADX" and rng.random() < 0.5:
        spec["signal"] = rng.randint(2, 10)
    spec["round"] = rng.choice([4, 4, 4, 4, 2, 0, 6, 8, 1, 3])
    if rng.random() < 0.15:
        spec["suffix"] = rng.choice(["x", "B2", "alt"])
    if rng.random() < 0.1:
        spec["name"] = rng.choice(["Mine", "my.ind", "Z_9"])
    return spec


def gen_amorph_spec(rng, fns=None, inds=None):
    fn = rng.choice(fns or [f for f in ANALYSIS if f not in ("above", "below")])
    spec = {"kind": "AMORPH", "fn": fn, "round": 4}
    args = ANALYSIS[fn]
    inds = inds or ["close", "open", "high", "low", "volume"]
    if "ind" in args:
        spec["ind"] = rng.choice(inds)
    if "a" in args:
        spec["a"], spec["b"] = rng.sample(inds, 2) if len(inds) > 1 else (inds[0], inds[0])
    if "length" in args and rng.random() < 0.8:
        spec["length"] = rng.choice([1, 2, 3, 4, 5, 8, 12, 0, 30])
    if "lookback" in args and rng.random() < 0.5:
        spec["lookback"] = rng.choice([1, 2, 3, 5, 12])
    return spec

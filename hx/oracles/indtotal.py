"""C09 – calculation is total: on every well-formed stream (especially the degenerate ones) constructing,
calculating and appending never raises, every stored reading – the indicator's own and every helper series
kept in candle.sub_indicators – is None, a bool or a finite number, and an output field that has produced a
value produces one on every later candle.

A case is (indicator kind, degenerate family, parameters, append schedule); kind and family rotate with the
case index so the quick tier covers the whole cross product several times.

Scenario: {"prop": "C09", "kind", "kwargs", "tf", "fill", "family", "stream": [[ts,o,h,l,c,v]...], "init", "chunks"}
"""
import math

from .. import gen
from . import common as cm
from .inddefs import add_gaps, gen_period, mk_candles, prefix_cut, reduce_params

ALL_KINDS = ["SMA", "EMA", "RMA", "WMA", "VWMA", "HMA", "TR", "ATR", "StandardDeviation", "BBANDS", "KC", "Donchian",
             "HighestLowest", "HighLowAverage", "Supertrend", "StandardDeviationThreshold", "Counter", "RSI", "MACD", "ROC",
             "STOCH", "TSI", "AROON", "ADX", "OBV", "VWAP"]
FAMILIES = ["flat", "identical", "rising", "falling", "zerovol", "allzerovol", "walk-flat", "flat-walk", "one-jump", "fill", "fill-sparse", "repeat",
            "walk-longflat", "flat-gappy", "onedge", "grid", "shock"]
# output fields that are None by design while the other one is set (Supertrend reports the band on the side of the trend only)
EXCLUSIVE_FIELDS = {"Supertrend": {"long", "short"}}


def gen_family(rng, family, n):
    """-> (stream with timestamps, tf | None, fill)"""
    tf, fill = None, False
    if family in ("flat", "rising", "falling", "zerovol", "repeat", "onedge", "grid", "shock"):
        stream, _ = gen.gen_stream(rng, n, price_style=family, ts_style="regular", step=60)
    elif family == "flat-gappy":  # every candle flat (o=h=l=c) but the level jumps between candles: all range is gap
        stream, _ = gen.gen_stream(rng, n, price_style="flat", ts_style="regular", step=60)
        stream = add_gaps(rng, [list(r) for r in stream], prob=0.5)
    elif family == "identical":
        one, _ = gen.gen_prices(rng, 1, rng.choice(["walk", "ints", "flat"]))
        ts, _ = gen.gen_timestamps(rng, n, "regular", 60)
        stream = [(t,) + one[0] for t in ts]
    elif family == "allzerovol":
        stream, _ = gen.gen_stream(rng, n, price_style=rng.choice(["walk", "ints", "jumpy"]), ts_style="regular", step=60)
        stream = [r[:5] + (0,) for r in stream]
    elif family in ("walk-flat", "flat-walk", "one-jump", "walk-longflat", "walk-verylongflat"):
        k = rng.randint(0, n)
        if family in ("walk-longflat", "walk-verylongflat"):  # a short lively start, then a long quiet tail in which smoothed quantities decay to exactly 0
            k, family = min(n, rng.randint(2, 8)), "walk-flat"
        walk, _ = gen.gen_prices(rng, n, rng.choice(["walk", "ints", "jumpy", "small"]))
        ts, _ = gen.gen_timestamps(rng, n, "regular", 60)
        rows = []
        for i in range(n):
            if family == "walk-flat":
                if i < k:
                    rows.append(walk[i])
                else:
                    c = rows[-1][3] if rows else walk[0][3]
                    rows.append((c, c, c, c, rng.choice([0, 0, rng.randint(0, 500)])))
            elif family == "flat-walk":
                if i < k:
                    c = walk[0][0]
                    rows.append((c, c, c, c, rng.choice([0, rng.randint(0, 500)])))
                else:
                    rows.append(walk[i - k])
            else:  # flat at A, one candle moving to B, flat at B
                a, b = walk[0][0], walk[-1][3]
                if i == k:
                    rows.append((a, max(a, b), min(a, b), b, rng.randint(0, 500)))
                else:
                    lvl = a if i < k else b
                    rows.append((lvl, lvl, lvl, lvl, rng.randint(0, 500)))
        stream = [(t,) + r for t, r in zip(ts, rows)]
    else:  # gap filling: the manager inserts flat zero-volume candles
        tf = rng.choice(["S1", "S5", "T1", "T1", "T5", "H1"])
        tfs = gen.tf_seconds(tf)
        step = tfs if rng.random() < 0.6 else max(1, tfs // rng.choice([2, 3, 5]))
        fill = True
        if family == "fill-sparse":  # mostly fill candles
            prices, _ = gen.gen_prices(rng, n, rng.choice(["walk", "ints", "flat", "zerovol"]))
            t, ts = 1_700_000_000 - 1_700_000_000 % tfs + rng.randint(0, tfs), []
            for _ in range(n):
                ts.append(t)
                t += step * rng.choice([1, 1, 2, 4, 9, 15])
            stream = [(a,) + p for a, p in zip(ts, prices)]
        else:
            stream, _ = gen.gen_stream(rng, n, price_style=rng.choice(["walk", "ints", "zerovol", "repeat"]), ts_style="gaps", step=step)
    return [list(r) for r in stream], tf, fill


def gen_kwargs(rng, kind):
    p = rng.randint(2, 6) if rng.random() < 0.7 else gen_period(rng)
    kw = {}
    if rng.random() < 0.4:
        kw["round_value"] = rng.randint(0, 8)
    if kind in ("TR", "HighLowAverage", "OBV"):
        return kw, 2
    if kind == "Counter":
        kw.update(input_value="volume", count_value=0)
        return kw, 2
    if kind == "MACD":
        fast = rng.randint(2, 6)
        kw.update(fast_period=fast, slow_period=rng.randint(fast + 1, fast + 8), signal_period=rng.randint(2, 5))
        need = kw["slow_period"] + kw["signal_period"]
        if rng.random() < 0.15:  # reversed periods: MACD swaps them itself
            kw["fast_period"], kw["slow_period"] = kw["slow_period"], kw["fast_period"]
        return kw, need
    kw["period"] = p
    need = 2 * p + 2
    if kind == "STOCH":
        kw.update(slow_period=rng.randint(2, 4), smoothing_k=rng.randint(2, 4))
        need = p + 8
    if kind == "ADX" and rng.random() < 0.4:
        kw["period_signal"] = rng.randint(2, 6)
    if kind == "TSI" and rng.random() < 0.4:
        kw["smooth_period"] = rng.randint(2, 5)
    if kind in ("KC", "Supertrend", "StandardDeviationThreshold") and rng.random() < 0.5:
        kw["multiplier"] = rng.choice([1.0, 2.0, 3.0])
    return kw, need


def fix_sched(scn):
    s = dict(scn)
    n = len(s["stream"])
    init = min(s.get("init", n), n)
    rest, chunks = n - init, []
    for k in s.get("chunks", []):
        if rest <= 0:
            break
        k = min(k, rest)
        chunks.append(k)
        rest -= k
    if rest > 0:
        chunks.append(rest)
    s["init"], s["chunks"] = init, chunks
    return s


def build(scn):
    """run the schedule on the real indicator; returns (indicator | None, exception | None)"""
    with cm.aware(scn.get("tzoff")), cm.numpy_numbers(scn.get("numpy")):
        return _build(scn)


def _build(scn):
    from hexital import indicators as I

    stream = scn["stream"]
    kw = dict(scn["kwargs"])
    if scn.get("tf"):
        kw.update(timeframe=scn["tf"], timeframe_fill=bool(scn.get("fill")))
    if scn.get("ha"):
        from hexital.candlesticks.heikinashi import HeikinAshi

        kw["candlestick_type"] = HeikinAshi()
    ind = None
    try:
        init = scn.get("init", len(stream))
        ind = getattr(I, scn["kind"])(candles=mk_candles(stream[:init]), **kw)
        ind.calculate()
        i = init
        for k in scn.get("chunks", []):
            cs = mk_candles(stream[i : i + k])
            # a live feed hands over one bare Candle at a time, not a list
            ind.append(cs[0] if (len(cs) == 1 and scn.get("bare_single")) else cs)
            i += k
    except Exception as e:
        return ind, e
    return ind, None


def _bad_value(v):
    if v is None or isinstance(v, bool):
        return None
    if isinstance(v, (int, float)):
        return None if math.isfinite(v) else "nonfinite"
    if type(v).__module__ == "numpy":   # numpy inputs give numpy results: numpy.bool_ is a bool, numpy numbers are numbers
        import numpy as np

        if isinstance(v, np.bool_):
            return None
        if isinstance(v, np.number):
            return None if math.isfinite(float(v)) else "nonfinite"
    return "type"


def check(scn):
    """-> (violation core | None, info)"""
    kind = scn["kind"]
    ind, exc = build(scn)
    info = {"readings": 0, "candles": 0, "fills": 0}
    if exc is not None:
        return {"clause": f"raised:{type(exc).__name__}", "observed": repr(exc)[:160], "expected": "no exception",
                "signature": f"C09:{kind}:{type(exc).__name__}"}, info
    candles = ind.candles
    info["candles"] = len(candles)
    info["fills"] = sum(1 for c in candles if c.volume == 0 and c.open == c.high == c.low == c.close)
    # every stored value, helper series included
    for t, c in enumerate(candles):
        for where, store in (("indicators", c.indicators), ("sub_indicators", c.sub_indicators)):
            for name, val in store.items():
                items = val.items() if isinstance(val, dict) else [("", val)]
                for f, v in items:
                    b = _bad_value(v)
                    if b:
                        series = f"{name}.{f}" if f else name
                        top = where == "indicators" and name == ind.name
                        return {"clause": f"{b}:{series}", "index": t, "observed": repr(v), "expected": "None, bool or finite number",
                                "signature": f"C09:{kind}:{b}:{f if top else series}"}, info
    # no gaps after warm-up, per output field
    out = ind.as_list()
    fields = sorted({f for r in out if isinstance(r, dict) for f in r}) or [""]
    for f in fields:
        if f in EXCLUSIVE_FIELDS.get(kind, ()):
            continue
        col = [(r.get(f) if isinstance(r, dict) else None) if f else r for r in out]
        if f == "" and any(isinstance(r, dict) for r in out):
            continue
        first = next((t for t, v in enumerate(col) if v is not None), None)
        if first is None:
            continue
        info["readings"] += len(col) - first
        gap = next((t for t in range(first, len(col)) if col[t] is None), None)
        if gap is not None:
            return {"clause": f"gap:{f}" if f else "gap", "index": gap, "observed": f"None at index {gap} after a value at index {first}",
                    "expected": "a value on every candle once the field has started", "signature": f"C09:{kind}:gap" + (f":{f}" if f else "")}, info
    return None, info


_SHRUNK = set()


def minimise(scn, sig):
    def fails(s):
        v, _ = check(fix_sched(s))
        return v is not None and v["signature"] == sig

    small = fix_sched(cm.shrink_stream(prefix_cut(scn, fails), fails, max_tries=100))
    return reduce_params(small, fails, lambda c: fix_sched(cm.shrink_stream(c, fails, max_tries=40)))


def case(rng, idx, params):
    kind = cm.pick_kind(rng, ALL_KINDS, ALL_KINDS[idx % len(ALL_KINDS)])
    fams = params.get("families", FAMILIES)
    family = fams[(idx // len(ALL_KINDS)) % len(fams)]
    kw, need = gen_kwargs(rng, kind)
    size = params.get("size", 60)
    n = rng.randint(need, need + (30 if size <= 100 else size // 2)) if rng.random() < 0.85 else rng.randint(0, size)
    if family == "walk-longflat":
        n = need + rng.randint(25, 60)
    if family == "walk-verylongflat":
        # a quiet tail of more than a thousand candles on the smallest periods: a smoothed range that decays geometrically (x 1/2 per
        # candle) and is NOT snapped to 0 by the rounding of its helper reaches the subnormals, and 100 / it overflows
        kind = ["ADX", "ATR", "KC", "Supertrend", "RSI", "TSI", "RMA", "EMA", "MACD", "STOCH"][idx % 10]
        kw, need = gen_kwargs(rng, kind)
        for key in ("period", "fast_period", "period_signal", "smooth_period", "signal_period"):
            if key in kw:
                kw[key] = 2
        if "slow_period" in kw:
            kw["slow_period"] = 3
        kw.pop("round_value", None)
        n = 1100
    stream, tf, fill = gen_family(rng, family, n)
    (init, chunks), shape = gen.gen_schedule(rng, len(stream))
    if family == "walk-verylongflat":
        (init, chunks), shape = (len(stream), []), "batch"
    scn = {"prop": "C09", "kind": kind, "kwargs": kw, "tf": tf, "fill": fill, "family": family, "stream": stream, "init": init, "chunks": chunks,
           "bare_single": rng.random() < 0.5}
    if rng.random() < 0.1 and cm.have_numpy():
        scn["numpy"] = rng.choice([True, "mixed"])   # prices and volumes as numpy.float64 (all candles, or every other one)
    if rng.random() < 0.1 and stream and all(r[0] is not None for r in stream):
        scn["tzoff"] = rng.choice([0, 330, 345, 60, -300, 765])   # timezone-aware stamps (what ISO strings with an offset parse to)
    viol, info = check(scn)
    if viol:
        sig = viol["signature"]
        if sig not in _SHRUNK:
            _SHRUNK.add(sig)
            small = minimise(scn, sig)
            v2, _ = check(small)
            if v2 and v2["signature"] == sig:
                scn, viol = small, v2
        viol = {"scenario": scn, **viol}
    p = kw.get("period", kw.get("slow_period", 0))
    meta = {"kind": kind, "family": family, "schedule": shape, "period": "2-3" if p <= 3 else "4-6" if p <= 6 else "7+", "has_fill_candles": info["fills"] > 0 and fill}
    return {"nontrivial": info["candles"] >= 2 and (info["readings"] > 0 or viol is not None), "key": hash(str(scn)), "violation": viol, "meta": meta,
            "evals": max(1, info["candles"]),
            "sample": {"kind": kind, "kwargs": kw, "family": family, "tf": tf, "n": len(stream), "init": init, "chunks": chunks[:6],
                       "first_rows": stream[:2]} if idx < 2 else None}


def replay(witness):
    if witness.get("scenario", {}).get("check") == "c09.hexital-chain":
        bad = check_hexital_chain(witness["scenario"])
        return {"fails": bad is not None, "detail": bad}
    viol, _ = check(fix_sched(witness["scenario"]))
    want = witness.get("signature")
    return {"fails": viol is not None and (want is None or viol["signature"] == want), "detail": viol}


# ---------------------------------------------------------------- a chained pair inside a Hexital, in either registration order


def check_hexital_chain(scn):
    """a reader whose input_value names another member's reading, registered BEFORE or after its source: calculation order follows
    registration order, so a reader listed first sees no input yet on the newest candle - it must simply stay None there (and never
    raise), whatever arrives later"""
    from hexital import indicators as I
    from hexital.core.hexital import Hexital

    def member(kind, kw, as_dict):
        if as_dict:
            key = next(k for k, v in I.INDICATOR_MAP.items() if v is getattr(I, kind))
            return {"indicator": key, **kw}
        if scn.get("used"):
            # an object that already calculated on a few candles of its own (its helper indicators, at every depth, exist and are
            # attached to that first list) before the Hexital adopts it
            o = getattr(I, kind)(candles=mk_candles(scn["stream"][: scn["used"]]), **kw)
            o.calculate()
            return o
        return getattr(I, kind)(**kw)

    src = member(scn["src"][0], scn["src"][1], scn.get("dicts"))
    rdr = member(scn["rdr"][0], scn["rdr"][1], scn.get("dicts"))
    members = [rdr, src] if scn["reader_first"] else [src, rdr]
    stream = scn["stream"]
    try:
        hx = Hexital("chain", mk_candles(stream[: scn["init"]]), members)
        hx.calculate()
        for r in stream[scn["init"]:]:
            hx.append(mk_candles([r])[0])
    except Exception as e:
        return {"clause": f"raised:{type(e).__name__}", "observed": repr(e)[:160], "expected": "no exception", "reader_first": scn["reader_first"],
                "signature": f"C09:hexital-chain:{scn['rdr'][0]}:{type(e).__name__}"}
    for t, c in enumerate(hx.candles()):
        for store in (c.indicators, c.sub_indicators):
            for name, val in store.items():
                for f, v in (val.items() if isinstance(val, dict) else [("", val)]):
                    b = _bad_value(v)
                    if b:
                        return {"clause": f"{b}:{name}", "index": t, "observed": repr(v), "expected": "None, bool or finite number",
                                "signature": f"C09:hexital-chain:{scn['rdr'][0]}:{b}"}
    return None


def case_hexital_chain(rng, idx, params):
    sk = rng.choice(["EMA", "SMA", "WMA", "RMA", "RSI"])
    sp = rng.randint(2, 5)
    src_kw = {"period": sp}
    name = f"{sk}_{sp}"
    rk = rng.choice(["SMA", "EMA", "RMA", "WMA", "RSI", "StandardDeviation", "TSI", "BBANDS", "StandardDeviationThreshold", "HMA", "MACD", "STOCH", "KC"])
    rkw = {"input_value": name}
    if rk == "MACD":
        rkw.update(fast_period=2, slow_period=rng.randint(3, 5), signal_period=2)
    else:
        rkw["period"] = rng.randint(2, 5)
    n = rng.randint(6, 40)
    stream, meta = gen.gen_stream(rng, n, price_style=rng.choice(["walk", "flat", "rising", "repeat", "jumpy"]), ts_style="regular", step=60)
    scn = {"check": "c09.hexital-chain", "src": [sk, src_kw], "rdr": [rk, rkw], "reader_first": rng.random() < 0.6, "dicts": rng.random() < 0.4,
           "stream": stream, "init": rng.randint(0, n // 2)}
    if not scn["dicts"] and rng.random() < 0.35:
        scn["used"] = rng.randint(1, 5)
    bad = check_hexital_chain(scn)
    viol = {"scenario": scn, **bad} if bad else None
    meta.update({"kind": "hexital-chain:" + rk, "used": bool(scn.get("used")), "reader_first": scn["reader_first"]})
    return {"nontrivial": True, "key": hash(str(scn)), "violation": viol, "meta": meta, "evals": n, "sample": None}

"""C04 / C05 / C06 – the real indicators (batch calculate) against the independent references in
indref.py.

Scenario (JSON-serialisable, replayable):
  {"prop", "kind", "kwargs": {...constructor arguments...}, "mode", "stream": [[ts,o,h,l,c,v(,x)] ...], ...}
mode "field"          input_value is a price field (or the indicator takes the candles only)
     "prefilled"      the candles already carry a reading "X" (7th column, None before its start) and input_value="X"
     "chain-list"     a companion SMA(chain_period) is calculated first on the same candle list, input_value="SMA_k"
     "chain-hexital"  Hexital(candles, [SMA(chain_period), IND(input_value="SMA_k")]).calculate()
     "chain-supertrend" (Counter) Hexital(candles, [Supertrend(p), Counter(input_value="Supertrend_p.direction")])
In the chain modes the input series is read back from the candles after the run, so the reference does not
depend on the companion being right.

Rounding budgets (u = 0.5*10^-round_value for the visible reading, us = 0.5e-4 for helper indicator
series, FN = 1e-10 relative float noise; `V` arithmetic in indref propagates them):
  SMA   global: k*u after k readings (sliding update of a rounded value walks); step: |r[t]-r[t-1]-(x[t]-x[t-p])/p| <= 2u
  EMA   step: |r[t] - (a x[t] + (1-a) r[t-1])| <= u with the library's own r[t-1]; global drift <= u/a (geometric)
  RMA   as EMA with a = 1/p
  WMA   u;  VWMA u
  HMA   3 helper series: |2*WMAh - WMA| <= 3us, WMA of that + its own rounding <= 4us, visible + u
  TR    u;  HLA u;  Donchian/HighestLowest u (only the final rounding of a candle value)
  ATR   step: |r[t] - ((p-1) r[t-1] + TR[t])/p| <= u + us/p; global <= us + p*u (V recursion)
  STDEV u + float noise of a running variance (see indref.stdev)
  BBANDS  middle: SMA helper k*us + u; bands: that + 2*(us + noise) + u
  KC    band: EMA helper (<= us/a) + u; lower/upper: + mult * ATR budget ((p+1) us)
  Supertrend  step-wise against the library's previous (direction, trend): bands carry mult*ATR budget + us (HL2 helper) + u;
        comparisons closer than the budget admit both outcomes
  STDEVTHRES  flag must equal |dx| > mult*sigma unless the two sides are closer than mult*(us+noise)
  Counter, OBV, AROON: exact (u for float results); OBV step: 2u
  RSI   gains/losses are not stored rounded: u + float noise on a 0..100 scale
  MACD  line: EMA helper drifts us*(f+1)/2 + us*(s+1)/2 + u; signal: line budget + us*(g+1)/2 + u; histogram: sum + u
  ROC   u;  VWAP u
  STOCH stoch u; k: j*us (sliding SMA helper) + u; d: k budget + j*us + u
  TSI   num/den helper EMAs: us*(p+1)/2 then + us*(sp+1)/2 each; quotient bound (eN + |q| eD)/(|D|-eD)*100 + u; skipped when |D| <= 2 eD
  ADX   RMA helpers p*us, ATR (p+1)*us; DI quotient bound; DX bound capped at 100 (DX is in [0,100] by construction);
        ADX = RMA of DX: (1-a) e + a e_DX + us; + u
"""
import math

from .. import gen, wire
from . import common as cm
from . import indref as R
from .indref import FN, INF, UNDEF, Q, V

KINDS = {
    "C04": ["SMA", "EMA", "RMA", "WMA", "VWMA", "HMA"],
    "C05": ["TR", "ATR", "StandardDeviation", "BBANDS", "KC", "Donchian", "HighestLowest", "HighLowAverage",
            "Supertrend", "StandardDeviationThreshold", "Counter"],
    "C06": ["RSI", "MACD", "ROC", "STOCH", "TSI", "AROON", "ADX", "OBV", "VWAP"],
}
FIELDS = ["open", "high", "low", "close"]


# ------------------------------------------------------------------ driving the real code


def mk_candles(stream, xname="X"):
    from hexital.core.candle import Candle

    out = []
    for r in stream:
        r = cm.np_row(r)
        stamp = wire.secs_to_ts(r[0])
        if stamp is not None and cm.TZOFF is not None:   # aware stamps with a fixed offset (cm.aware)
            from datetime import timedelta, timezone

            stamp = stamp.replace(tzinfo=timezone(timedelta(minutes=cm.TZOFF)))
        c = Candle(open=r[1], high=r[2], low=r[3], close=r[4], volume=r[5], timestamp=stamp)
        if len(r) > 6 and r[6] is not None:
            c.indicators[xname] = r[6]
        out.append(c)
    return out


def read_candle(c, name):
    if name is None:
        return None
    if "." in name:
        main, sub = name.split(".")
        r = c.indicators.get(main, c.sub_indicators.get(main))
        return r.get(sub) if isinstance(r, dict) else r
    if name in ("open", "high", "low", "close", "volume"):
        return getattr(c, name)
    if name in c.indicators:
        return c.indicators[name]
    return c.sub_indicators.get(name)


def run_lib(scn):
    with cm.numpy_numbers(scn.get("numpy")):
        return _run_lib(scn)


def _run_lib(scn):
    from hexital import indicators as I
    from hexital.core.hexital import Hexital

    kind, kw, mode = scn["kind"], dict(scn["kwargs"]), scn.get("mode", "field")
    candles = mk_candles(scn["stream"])
    cls = getattr(I, kind)
    try:
        if mode == "chain-list":
            comp = I.SMA(candles=candles, period=scn["chain_period"])
            comp.calculate()
            ind = cls(candles=candles, **kw)
            ind.calculate()
        elif mode == "chain-hexital":
            ind = cls(**kw)
            Hexital("chain", candles, [I.SMA(period=scn["chain_period"]), ind]).calculate()
        elif mode == "chain-supertrend":
            ind = cls(**kw)
            Hexital("chain", candles, [I.Supertrend(period=scn["chain_period"]), ind]).calculate()
        elif scn.get("sibling"):
            # next to a sibling of the same class on the same candles (other input / period, own name suffix), fed live: the
            # definition of an indicator does not depend on what else is registered (helper series must be private)
            sb = scn["sibling"]
            ind = cls(**kw)
            sib = cls(**{**kw, **sb["kwargs"], "name_suffix": "sib"})
            n, init = len(candles), min(sb.get("init", 0), len(candles))
            members = [sib, ind] if sb.get("first", True) else [ind, sib]
            hx = Hexital("sib", candles[:init], members)
            hx.calculate()
            i = init
            for k in list(sb.get("chunks", [])) + [n]:
                if i >= n:
                    break
                hx.append(candles[i:i + max(1, k)])
                i += max(1, k)
        elif scn.get("live"):
            # built live: a (possibly empty) construction prefix, calculate(), then appends in chunks - optionally on a collapsing
            # timeframe; the definition is then over the independently resampled stream
            lv = scn["live"]
            n, init = len(candles), min(lv.get("init", 0), len(candles))
            extra = {"timeframe": lv["tf"]} if lv.get("tf") else {}
            ind = cls(candles=candles[:init], **extra, **kw)
            ind.calculate()
            i = init
            for k in list(lv.get("chunks", [])) + [n]:
                if i >= n:
                    break
                ind.append(candles[i:i + max(1, k)])
                i += max(1, k)
        elif scn.get("reparam"):
            # built and calculated with another period, then the public `period` is reassigned and the readings are recomputed
            # (the use Hexital.recalculate documents): the series is the definition with the period it has NOW
            ind = cls(candles=candles, **dict(kw, period=scn["reparam"]))
            ind.calculate()
            ind.period = kw["period"]
            ind.recalculate()
        else:
            ind = cls(candles=candles, **kw)
            ind.calculate()
        out = [cm.pyval(r) for r in ind.as_list()]
        x = [read_candle(c, kw.get("input_value")) for c in ind.candles] if kw.get("input_value") else None
    except Exception as e:
        return {"exc": type(e).__name__, "err": repr(e)[:160], "out": None, "x": None}
    return {"exc": None, "err": None, "out": out, "x": x}


# ------------------------------------------------------------------ generic comparison


def obs_field(out, field):
    if not field:
        return out
    return [r.get(field) if isinstance(r, dict) else None for r in out]


def check_series(obs, ref, scale, late_ok=0):
    """obs: library readings, ref: V | None | UNDEF per index.  Returns ((clause, index, observed, expected) | None, evaluated)"""
    n = len(ref)
    if len(obs) != n:
        return ("length", 0, len(obs), n), 0
    first_any = next((t for t in range(n) if ref[t] is not None), None)  # V or UNDEF
    first_def = next((t for t in range(n) if isinstance(ref[t], V)), None)
    seen, evaluated, bad_value = False, 0, None
    for t in range(n):
        o, r = obs[t], ref[t]
        if o is not None:
            if isinstance(o, bool) or not isinstance(o, (int, float)):
                return ("type", t, repr(o), "number"), evaluated
            if not math.isfinite(o):
                return ("non-finite", t, repr(o), "finite number"), evaluated
        if r is None:
            if o is not None:
                return ("warm-up", t, f"first reading at index {t}",
                        f"first reading at index {first_any}" if first_any is not None else "no reading (window never fills)"), evaluated
            continue
        if r is UNDEF:
            seen = seen or o is not None
            continue
        if o is None:
            if r.e == INF:  # at the helpers' precision the quotient may be 0/0: as unconstrained as UNDEF (C09 owns the gap)
                continue
            if not seen and t < first_def + late_ok:
                continue
            if not seen:
                return ("warm-up", t, "no reading", f"first reading at index {first_def}"), evaluated
            return ("missing", t, "None after the series had started", f"{r.v:.10g}"), evaluated
        seen = True
        if r.e == INF:
            continue
        evaluated += 1
        if bad_value is None and abs(o - r.v) > R.tol(r, scale):
            bad_value = ("value", t, o, f"{r.v:.12g} +/- {R.tol(r, scale):.3g}")
    return bad_value, evaluated


def _viol(scn, clause, index, observed, expected, field=""):
    cl = f"{field}.{clause}" if field else clause
    return {"clause": cl, "index": index, "observed": observed if isinstance(observed, (int, float, str, bool, type(None))) else repr(observed),
            "expected": expected if isinstance(expected, (int, float, str, bool, type(None))) else repr(expected),
            "signature": f"{scn['prop']}:{scn['kind']}:{cl}"}


# ------------------------------------------------------------------ per indicator


def _scale(stream, x=None):
    if x is not None:
        return max([abs(a) for a in x if R.is_num(a)] + [1e-12])
    return max((abs(r[2]) for r in stream), default=1.0)


def reference(scn, stream, x, q, out=None):
    """-> ({field: series}, scale, {field: late_ok}); field "" for scalar indicators"""
    kind, kw = scn["kind"], scn["kwargs"]
    p = kw.get("period")
    u = q.own
    S = _scale(stream)
    Sx = _scale(stream, x) if x is not None else S
    if kind == "SMA":
        return {"": R.sma(x, p, u)}, Sx, {}
    if kind == "EMA":
        return {"": R.ema(x, p, u, kw.get("smoothing", 2.0))}, Sx, {}
    if kind == "RMA":
        return {"": R.rma(x, p, u)}, Sx, {}
    if kind == "WMA":
        return {"": R.wma(x, p, u)}, Sx, {}
    if kind == "VWMA":
        return {"": R.vwma(stream, p, u)}, S, {}
    if kind == "HMA":
        return {"": R.hma(x, p, q)}, Sx, {}
    if kind == "TR":
        return {"": R.true_range(stream, u)}, S, {}
    if kind == "ATR":
        return {"": R.atr(stream, p, q.sub, u)}, S, {}
    if kind == "StandardDeviation":
        # the docstring does not say when the first value appears; the first full window (s+p-1) or one candle later are both accepted
        return {"": R.stdev(x, p, u)}, Sx, {"": 1}
    if kind == "BBANDS":
        return R.bbands(x, p, q), Sx, {"BBL": 1, "BBM": 1, "BBU": 1}
    if kind == "KC":
        return R.kc(stream, x, p, kw.get("multiplier", 2.0), q), max(S, Sx), {}
    if kind == "Donchian":
        return R.donchian(stream, p, u), S, {}
    if kind == "HighestLowest":
        return R.highest_lowest(stream, p, u), S, {}
    if kind == "HighLowAverage":
        return {"": R.hla(stream, u)}, S, {}
    if kind == "RSI":
        return {"": R.rsi(x, p, u)}, 100.0, {}
    if kind == "MACD":
        return R.macd(x, kw["fast_period"], kw["slow_period"], kw["signal_period"], q), Sx, {}
    if kind == "ROC":
        return {"": R.roc(x, p, u)}, 100.0, {}
    if kind == "STOCH":
        override = {}
        if out is not None:
            raw = R.stoch_raw(stream, x, p)
            for t, r in enumerate(raw):
                o = out[t].get("stoch") if isinstance(out[t], dict) else None
                if r is UNDEF and R.is_num(o) and math.isfinite(o):
                    override[t] = o
        return R.stoch(stream, x, p, kw.get("smoothing_k", 3), kw.get("slow_period", 3), q, override), 100.0, {}
    if kind == "TSI":
        sp = kw.get("smooth_period") or (p // 2 + (p % 2 > 0))
        return {"": R.tsi(x, p, sp, q)}, 100.0, {}
    if kind == "AROON":
        return R.aroon(stream, p, u), 100.0, {}
    if kind == "ADX":
        return R.adx(stream, p, kw.get("period_signal") or p, q), 100.0, {}
    if kind == "VWAP":
        return {"": R.vwap(stream, u)}, S, {}
    raise KeyError(kind)


def has_undef(fields):
    return any(a is UNDEF for s in fields.values() for a in s)


def step_checks(scn, stream, x, q, out, S):
    """recurrences checked against the library's own previous reading -> (clause, index, observed, expected) | None"""
    kind, kw = scn["kind"], scn["kwargs"]
    p, u = kw.get("period"), q.own
    if kind in ("EMA", "RMA"):
        a = kw.get("smoothing", 2.0) / (p + 1.0) if kind == "EMA" else 1.0 / p
        for t in range(1, len(out)):
            if R.is_num(out[t]) and R.is_num(out[t - 1]) and R.is_num(x[t]):
                exp = a * x[t] + (1 - a) * out[t - 1]
                if abs(out[t] - exp) > u + FN * max(S, abs(exp)):
                    return ("step", t, out[t], f"a*x[t] + (1-a)*r[t-1] = {exp:.12g} +/- {u:.3g}")
    if kind == "SMA":
        for t in range(p, len(out)):
            if R.is_num(out[t]) and R.is_num(out[t - 1]) and R.is_num(x[t]) and R.is_num(x[t - p]):
                exp = out[t - 1] + (x[t] - x[t - p]) / p
                if abs(out[t] - exp) > 2 * u + FN * max(S, abs(exp)):
                    return ("step", t, out[t], f"r[t-1] + (x[t]-x[t-p])/p = {exp:.12g} +/- {2 * u:.3g}")
    if kind == "ATR":
        tr = R.true_range(stream, q.sub)
        for t in range(2, len(out)):
            if R.is_num(out[t]) and R.is_num(out[t - 1]):
                exp = ((p - 1) * out[t - 1] + tr[t].v) / p
                if abs(out[t] - exp) > u + q.sub / p + FN * max(S, abs(exp)):
                    return ("step", t, out[t], f"((p-1)*r[t-1] + TR[t])/p = {exp:.12g}")
    return None


def bounds_check(scn, x, ref, out, S):
    """C04: every average lies between the smallest and largest input it averages (HMA may overshoot)"""
    kind, p = scn["kind"], scn["kwargs"].get("period")
    if kind not in ("SMA", "EMA", "RMA", "WMA", "VWMA"):
        return None
    if kind == "EMA" and scn["kwargs"].get("smoothing", 2.0) > p + 1:
        return None   # a weight above 1 is an extrapolation, not an average: the recurrence is still checked, the enclosure does not apply
    start = next((i for i, a in enumerate(x) if a is not None), None)
    for t, o in enumerate(out):
        if not R.is_num(o) or not isinstance(ref[t], V) or ref[t].e == INF:
            continue
        w = x[t - p + 1 : t + 1] if kind in ("SMA", "WMA", "VWMA") else x[start : t + 1]
        w = [a for a in w if R.is_num(a)]
        if not w:
            continue
        slack = R.tol(ref[t], S)
        if o < min(w) - slack or o > max(w) + slack:
            return ("bounds", t, o, f"within [{min(w)}, {max(w)}] +/- {slack:.3g}")
    return None


def position_check(scn, x, out):
    """same input values placed at another index give the same readings (C04)"""
    kind, kw = scn["kind"], dict(scn["kwargs"])
    off = scn.get("position_offset")
    if off is None or not scn["stream"] or scn.get("live") or scn.get("sibling"):   # position independence is examined on the batch-built scenarios
        return None
    if kind == "VWMA":  # no input_value: window function, so candles put in front must not matter once the window has left them
        p = kw["period"]
        pre = [list(r[:6]) for r in scn["stream"][:off]] or []
        pre = (pre * (off // max(1, len(pre)) + 1))[:off] if pre else []
        scn2 = {**scn, "mode": "field", "stream": pre + [list(r[:6]) for r in scn["stream"]]}
        res = run_lib(scn2)
        if res["exc"]:
            return None
        k = len(pre)
        for t in range(len(out)):
            if t >= p - 1 and not cm.close_enough(res["out"][t + k], out[t], rel=1e-9, absol=1e-12):
                return ("position", t, res["out"][t + k], out[t])
        return None
    start = next((i for i, a in enumerate(x) if a is not None), None)
    if start is None:
        return None
    vals = x[start:]
    if any(a is None for a in vals):
        return None
    base = [list(r[:6]) for r in scn["stream"]]
    rows = []
    for i in range(off + len(vals)):
        b = list(base[i % len(base)])
        rows.append(b + [vals[i - off] if i >= off else None])
    kw["input_value"] = "X"
    scn2 = {**scn, "kwargs": kw, "mode": "prefilled", "stream": rows}
    res = run_lib(scn2)
    if res["exc"]:
        return ("position", off, f"raised {res['err']} when the same inputs start at index {off}", f"the readings obtained when they start at index {start}")
    for j in range(len(vals)):
        a, b = res["out"][off + j], out[start + j]
        if not cm.close_enough(a, b, rel=1e-9, absol=1e-12):
            return ("position", j, f"{a!r} when the inputs start at index {off}", f"{b!r} as when they start at index {start} (offset {j} into the input)")
    return None


def check_supertrend(scn, stream, q, out):
    kw = scn["kwargs"]
    p, mult, u = kw["period"], kw.get("multiplier", 3.0), q.own
    lo, up = R.supertrend_bands(stream, p, mult, q)
    S = _scale(stream)
    evaluated, started = 0, False
    for t, r in enumerate(out):
        if not isinstance(r, dict):
            return ("type", t, repr(r), "dict"), evaluated
        tr_, d, lg, sh = r.get("trend"), r.get("direction"), r.get("long"), r.get("short")
        if lo[t] is None:
            if tr_ is not None or lg is not None or sh is not None:
                return ("trend.warm-up", t, f"reading at index {t}", f"first trend at index {p} (first ATR)"), evaluated
            continue
        if tr_ is None:
            return (("trend.missing" if started else "trend.warm-up"), t, "no trend", f"trend from index {p}: HL2 - mult*ATR = {lo[t].v:.10g}"), evaluated
        if d not in (1, -1) or isinstance(d, bool):
            return ("direction.value", t, repr(d), "+1 or -1"), evaluated
        if (lg if d == 1 else sh) != tr_ or (sh if d == 1 else lg) is not None:
            return ("long-short", t, repr(r), "long = trend when direction is +1, short = trend when -1, the other None"), evaluated
        evaluated += 1
        if not started:
            options = [(1, lo[t].v, lo[t].e + u)]
        else:
            prev = out[t - 1]
            pd, pt = prev["direction"], prev["trend"]
            c = stream[t][4]
            margin = u + FN * S
            if pd == 1:
                keep = [(1, max(lo[t].v, pt), lo[t].e + u)]
                if c >= up[t - 1].v - up[t - 1].e - margin:  # close above the idle band: restarting the active band is admissible
                    keep.append((1, lo[t].v, lo[t].e + u))
                flip = [(-1, up[t].v, up[t].e + u)]
                options = keep + flip if abs(c - pt) <= margin else (flip if c < pt else keep)
            else:
                keep = [(-1, min(up[t].v, pt), up[t].e + u)]
                if c <= lo[t - 1].v + lo[t - 1].e + margin:
                    keep.append((-1, up[t].v, up[t].e + u))
                flip = [(1, lo[t].v, lo[t].e + u)]
                options = keep + flip if abs(c - pt) <= margin else (flip if c > pt else keep)
        started = True
        if not any(d == od for od, _, _ in options):
            return ("direction.step", t, d, f"{options[0][0]} (previous direction {out[t - 1]['direction']}, previous band {out[t - 1]['trend']}, close {stream[t][4]})"), evaluated
        if not any(d == od and abs(tr_ - ov) <= oe + FN * S for od, ov, oe in options):
            return ("trend.step", t, tr_, " or ".join(f"{ov:.10g}+/-{oe:.3g}" for od, ov, oe in options if od == d)), evaluated
    return None, evaluated


def check_flags(scn, x, q, out):
    kw = scn["kwargs"]
    p = kw["period"]
    flags = R.stdev_threshold(x, p, kw.get("multiplier", 2.0), q)
    sd = R.stdev(x, p, q.sub)
    first_sigma = next((t for t, a in enumerate(sd) if a is not None), None)
    evaluated = 0
    for t, o in enumerate(out):
        if not isinstance(o, bool):
            return ("type", t, repr(o), "bool"), evaluated
        if flags[t] is None or (t == first_sigma and o is False):
            continue
        evaluated += 1
        if o != flags[t]:
            return ("flag", t, o, f"{flags[t]}: |x[t]-x[t-1]| = {abs(x[t] - x[t - 1]) if t and x[t - 1] is not None else None}, sigma = {sd[t].v if sd[t] else None}"), evaluated
    return None, evaluated


def check_counter(scn, x, out):
    ref = R.counter(x, scn["kwargs"].get("count_value", True))
    for t, o in enumerate(out):
        if isinstance(o, bool) or not isinstance(o, int) or o < 0:
            return ("type", t, repr(o), "non-negative int"), t
        if o != ref[t]:
            return ("run-length", t, o, ref[t]), t
    return None, len(out)


def check_obv(scn, stream, q, out):
    u = q.own
    steps = R.obv_steps(stream)
    Sv = max([abs(r[5]) for r in stream] + [1.0])
    tot = 0.0
    for t, o in enumerate(out):
        if not R.is_num(o) or not math.isfinite(o):
            return ("type", t, repr(o), "finite number from index 0"), t
        if t == 0:
            if min(abs(o - stream[0][5]), abs(o)) > u + FN * Sv:
                return ("first", 0, o, f"{stream[0][5]} (the first volume) or 0"), 0
            continue
        tot += abs(steps[t])
        if abs((o - out[t - 1]) - steps[t]) > 2 * u + FN * max(Sv, tot):
            tie = stream[t][4] == stream[t - 1][4]
            return ("tie-rule" if tie else "step", t, f"moved by {o - out[t - 1]!r}",
                    f"moved by {steps[t]!r} (close {stream[t - 1][4]} -> {stream[t][4]}, volume {stream[t][5]})"), t
    return None, len(out)


def check(scn):
    """-> (violation dict | None, info dict)"""
    kind, kw = scn["kind"], scn["kwargs"]
    stream = [tuple(r[:6]) for r in scn["stream"]]
    if (scn.get("live") or {}).get("tf"):
        stream = cm.ref_resample(stream, gen.tf_seconds(scn["live"]["tf"]))
    q = Q(kw.get("round_value", 4))
    res = run_lib(scn)
    info = {"evaluated": 0, "unchecked": False}
    if res["exc"]:
        # an exception where the definition itself is 0/0 is C09's business, not a formula mismatch
        try:
            x0 = [r[6] if len(r) > 6 else None for r in scn["stream"]] if scn.get("mode") == "prefilled" else \
                (R.col(stream, kw["input_value"]) if kw.get("input_value") in FIELDS + ["volume"] else None)
            if kind not in ("Supertrend", "StandardDeviationThreshold", "Counter", "OBV") and (x0 is not None or "input_value" not in kw):
                fields, _, _ = reference(scn, stream, x0, q)
                if has_undef(fields):
                    info["unchecked"] = True
                    return None, info
        except ZeroDivisionError:
            info["unchecked"] = True
            return None, info
        return _viol(scn, f"raised:{res['exc']}", None, res["err"], "readings per definition, no exception"), info
    out, x = res["out"], res["x"]
    if len(out) != len(stream):
        return _viol(scn, "length", None, len(out), len(stream)), info
    # --- indicators with their own checker
    special = None
    if kind == "Supertrend":
        special = check_supertrend(scn, stream, q, out)
    elif kind == "StandardDeviationThreshold":
        special = check_flags(scn, x, q, out)
    elif kind == "Counter":
        special = check_counter(scn, x, out)
    elif kind == "OBV":
        special = check_obv(scn, stream, q, out)
    if special is not None:
        bad, info["evaluated"] = special
        return (_viol(scn, *bad) if bad else None), info
    # --- reference series
    fields, S, late = reference(scn, stream, x, q, out)
    first_bad = None
    for f, ref in fields.items():
        if f == "" and any(isinstance(r, dict) for r in out):
            return _viol(scn, "type", None, "dict reading", "number"), info
        if f and any(r is not None and not isinstance(r, dict) for r in out):
            return _viol(scn, "type", None, "scalar reading", "dict"), info
        bad, ev = check_series(obs_field(out, f), ref, S, late.get(f, 0))
        info["evaluated"] += ev
        if bad and first_bad is None:
            first_bad = (f, bad)
    # recurrences against the library's own previous readings are the sharpest statement: report them first
    if kind in ("SMA", "EMA", "RMA", "ATR"):
        sb = step_checks(scn, stream, x, q, out, S)
        if sb:
            return _viol(scn, *sb), info
    if first_bad:
        f, bad = first_bad
        return _viol(scn, *bad, field=f), info
    if scn["prop"] == "C04":
        xs = R.col(stream, "close") if kind == "VWMA" else x
        bb = bounds_check(scn, xs, fields[""], out, S)
        if bb:
            return _viol(scn, *bb), info
        pb = position_check(scn, xs, out)
        if pb:
            return _viol(scn, *pb), info
    return None, info


# ------------------------------------------------------------------ generation


def add_gaps(rng, rows, prob=0.35):
    """gen.gen_prices opens every candle at the previous close, so high-low always contains the previous close and the
    gap terms of TR / DM never matter.  Real streams gap: scale candle i (its four prices) by a running factor that jumps
    now and then.  Rounding is monotone, so low <= open, close <= high survives."""
    if not rows:
        return rows
    ints = all(isinstance(r[k], int) for r in rows for k in (1, 2, 3, 4))
    dec = 0 if ints else (4 if max(r[2] for r in rows) < 1 else 2)
    f, out = 1.0, []
    for r in rows:
        if rng.random() < prob:
            f *= 1 + rng.choice([-1, 1]) * rng.uniform(0.002, 0.03)
        px = [max(1, int(round(v * f))) if ints else max(10.0 ** -dec, round(v * f, dec)) for v in r[1:5]]
        out.append([r[0]] + px + list(r[5:]))
    return out


def gen_period(rng, lo=2):
    r = rng.random()
    if r < 0.05:
        return 50
    if r < 0.30:
        return rng.randint(13, 25)
    return rng.randint(lo, 12)


def gen_xseries(rng, n):
    """an input series as another indicator would leave it on the candles: None before its start, then contiguous"""
    style = rng.choice(["price", "price", "osc", "oscf", "zero"] if rng.random() < 0.9 else ["zero"])
    r = rng.random()
    start = 0 if r < 0.3 else (1 if r < 0.5 else rng.randint(2, 12))
    start = min(start, max(0, n - 1))
    vals, p = [], round(rng.uniform(5, 200), 2)
    for _ in range(n - start):
        if style == "price":
            p = round(max(0.01, p * (1 + rng.gauss(0, 0.01))), 2)
            vals.append(p)
        elif style == "osc":
            vals.append(rng.randint(-3, 3))
        elif style == "oscf":
            vals.append(0.0 if rng.random() < 0.15 else round(rng.gauss(0, 1.5), 3))
        else:
            vals.append(0.0 if rng.random() < 0.5 else 0)
    return [None] * start + vals, style, start


def warm_need(kind, kw, start=0):
    p = kw.get("period", 2)
    return {
        "HMA": p + math.isqrt(p), "MACD": kw.get("slow_period", 0) + kw.get("signal_period", 0),
        "STOCH": p + kw.get("smoothing_k", 3) + kw.get("slow_period", 3), "TSI": p + (kw.get("smooth_period") or (p + 1) // 2) + 1,
        "ADX": p + (kw.get("period_signal") or p) + 1, "BBANDS": p + 2, "StandardDeviation": p + 2, "StandardDeviationThreshold": p + 2,
        "TR": 3, "OBV": 3, "VWAP": 3, "HighLowAverage": 2, "Counter": 4,
    }.get(kind, p + 2) + start


def gen_scn(rng, idx, prop, params):
    kinds = KINDS[prop]
    kind = cm.pick_kind(rng, kinds, kinds[idx % len(kinds)])
    size = params.get("size", 80)
    p = gen_period(rng)
    kw = {"round_value": rng.randint(0, 8)}
    mode, meta = "field", {}
    scn = {"prop": prop, "kind": kind}
    field = rng.choice(["close", "close", "close", "open", "high", "low"])
    if kind in ("SMA", "EMA", "RMA", "WMA", "HMA"):
        kw.update(period=p, input_value=field)
        if kind == "EMA" and rng.random() < 0.3:
            kw["smoothing"] = rng.choice([1.0, 1.5, 2.5, 3.0, 4.0, 5.0])   # with period 2 / 3 the weight exceeds 1: still the documented recurrence
        r = rng.random()
        mode = "field" if r < 0.35 else ("prefilled" if r < 0.7 else ("chain-list" if r < 0.85 else "chain-hexital"))
        if mode.startswith("chain"):
            k = rng.randint(2, 9)
            if kind == "SMA" and k == p:
                k += 1
            scn["chain_period"] = k
            kw["input_value"] = f"SMA_{k}"
        elif mode == "prefilled":
            kw["input_value"] = "X"
        scn["position_offset"] = rng.choice([0, 1, 2, 3, 5, 9])
    elif kind == "VWMA":
        kw.update(period=p)
        scn["position_offset"] = rng.choice([1, 2, 5, 9])
    elif kind in ("ATR", "Donchian", "HighestLowest", "AROON"):
        kw.update(period=p)
    elif kind in ("StandardDeviation", "BBANDS", "RSI", "ROC"):
        kw.update(period=p, input_value=field)
    elif kind == "KC":
        kw.update(period=p, input_value=field, multiplier=rng.choice([1.0, 1.5, 2.0, 2.5, 3.0]))
    elif kind == "Supertrend":
        kw.update(period=p, multiplier=rng.choice([1.0, 2.0, 3.0, 3.0, 4.5]))
        if rng.random() < 0.3:
            # Supertrend has an `input_value` argument that the definition does not use: the flip is decided by the CLOSE
            kw["input_value"] = rng.choice(["high", "low", "open"])
    elif kind == "StandardDeviationThreshold":
        kw.update(period=p, input_value=field, multiplier=rng.choice([0.5, 1.0, 2.0, 2.0, 3.0]))
    elif kind == "Counter":
        mode = rng.choice(["prefilled", "prefilled", "field", "chain-supertrend"])
        if mode == "field":
            kw.update(input_value="volume", count_value=0)
        elif mode == "chain-supertrend":
            k = rng.randint(2, 9)
            scn["chain_period"] = k
            kw.update(input_value=f"Supertrend_{k}.direction", count_value=rng.choice([1, -1]))
        else:
            kw.update(input_value="X", count_value=rng.choice([True, True, False, 1, 0, 2, -1]))
    elif kind == "MACD":
        fast = rng.randint(2, 12)
        slow = rng.randint(fast + 1, 26 if rng.random() < 0.8 else 50)
        kw.update(fast_period=fast, slow_period=slow, signal_period=rng.randint(2, 9), input_value=field)
    elif kind == "STOCH":
        kw.update(period=p, slow_period=rng.randint(2, 5), smoothing_k=rng.randint(2, 5), input_value=rng.choice(["close", "close", "close", "open"]))
    elif kind == "TSI":
        p = min(p, 25)
        kw.update(period=p, input_value=field)
        if rng.random() < 0.5:
            kw["smooth_period"] = rng.randint(2, 13)
    elif kind == "ADX":
        p = min(p, 25)
        kw.update(period=p)
        if rng.random() < 0.4:
            kw["period_signal"] = rng.randint(2, 20)
    elif kind == "VWAP":
        if rng.random() < 0.5:
            kw.update(period=p)
    need = warm_need(kind, kw)
    extra = 40 if size <= 100 else size // 2
    n = rng.randint(need + 1, need + extra) if rng.random() < 0.85 else rng.randint(0, size)
    if kind == "Counter" and mode == "field":
        stream, smeta = gen.gen_stream(rng, n, price_style="zerovol", with_ts=False)
    else:
        stream, smeta = gen.gen_stream(rng, n, price_style=gen.style_for(rng, kind), with_ts=False)
    rows = [list(r) for r in stream]
    meta["gaps"] = rng.random() < 0.5
    if meta["gaps"]:
        rows = add_gaps(rng, rows)
    if mode == "prefilled":
        if kind == "Counter":
            r = rng.random()
            start = 0 if r < 0.4 else rng.randint(1, 6)
            cv = kw["count_value"]
            pool = [True, False] if isinstance(cv, bool) else [0, 1, 2, -1]
            xs = [None] * min(start, n) + [rng.choice(pool + [cv]) for _ in range(max(0, n - start))]
            meta["xstyle"] = "bool" if isinstance(cv, bool) else "int"
        else:
            xs, xstyle, start = gen_xseries(rng, n)
            meta["xstyle"] = xstyle
            meta["late"] = start > 0
        rows = [r + [x] for r, x in zip(rows, xs)]
    meta["live"] = "batch"
    if mode == "field" and not meta["gaps"] and kind not in ("TR", "HighLowAverage", "OBV") and rng.random() < 0.12:
        (init, chunks), shape = gen.gen_schedule(rng, len(rows), shape=rng.choice(["empty1", "one1", "few", "random"]))
        other = {}
        if "input_value" in kw:
            other["input_value"] = rng.choice([f for f in ["open", "high", "low", "close"] if f != kw["input_value"]])
        elif "period" in kw:
            other["period"] = kw["period"] + rng.choice([1, 2])
        if other:
            scn["sibling"] = {"kwargs": other, "init": init, "chunks": chunks, "first": rng.random() < 0.6}
            meta["live"] = "sibling"
    if mode == "field" and not meta["gaps"] and "sibling" not in scn and rng.random() < 0.3:
        (init, chunks), shape = gen.gen_schedule(rng, len(rows), shape=rng.choice(["empty1", "one1", "few", "random", "random"]))
        scn["live"] = {"init": init, "chunks": chunks, "tf": None}
        meta["live"] = "appends"
        if rng.random() < 0.5 and rows:
            tf = rng.choice(["T1", "T5", "T5", "T15", "H1", "S30"])
            step = max(1, gen.tf_seconds(tf) // rng.choice([1, 2, 3, 5]))
            base = 1_700_000_000 - (1_700_000_000 % 86400) + rng.choice([0, 0, step, 7])
            for i, r in enumerate(rows):
                r[0] = base + i * step
            scn["live"]["tf"] = tf
            meta["live"] = "appends+tf"
    if meta["live"] == "batch" and mode == "field" and kind in ("SMA", "EMA", "RMA", "WMA", "VWMA", "ROC") and "period" in kw and rng.random() < 0.12:
        scn["reparam"] = rng.choice([q_ for q_ in (2, 3, 4, 7, 10, 14, 20) if q_ != kw["period"]])
        meta["live"] = "reparam"
    scn.update(kwargs=kw, mode=mode, stream=rows)
    if rng.random() < 0.08 and cm.have_numpy():
        scn["numpy"] = rng.choice([True, "mixed"])   # numpy.float64 prices and volumes (all candles, or every other one)
    meta.update(kind=kind, mode=mode, price=smeta["price"], period=("2-5" if p <= 5 else "6-12" if p <= 12 else "13-25" if p <= 25 else "50"),
                rv=kw["round_value"], numpy=bool(scn.get("numpy")))
    return scn, meta


# ------------------------------------------------------------------ case / shrink / replay

_SHRUNK = set()  # signatures already minimised by this worker (the first hit per signature is the one that gets reported)


def _same_failure(sig):
    def fails(s):
        v, _ = check(s)
        return v is not None and v["signature"] == sig

    return fails


PARAM_KEYS = ("period", "slow_period", "fast_period", "signal_period", "smoothing_k", "period_signal", "smooth_period")


def reduce_params(scn, fails, reshrink):
    """after the stream has been shrunk: try the smallest period-like parameters that keep the same failure"""
    small, kw = scn, scn["kwargs"]
    for key in PARAM_KEYS:
        if isinstance(kw.get(key), int):
            for v in range(2, kw[key]):
                cand = {**small, "kwargs": {**kw, key: v}}
                if cand["kind"] == "MACD" and cand["kwargs"]["fast_period"] >= cand["kwargs"]["slow_period"]:
                    continue
                try:
                    if fails(cand):
                        small = reshrink(cand)
                        kw = small["kwargs"]
                        break
                except Exception:
                    pass
    return small


def prefix_cut(scn, fails):
    """shortest failing prefix by bisection (a first failure at index t usually survives cutting everything after t);
    makes every later shrinking step cheap on long streams"""
    lo, hi = 0, len(scn["stream"])  # invariant: prefix of length hi fails
    while lo < hi:
        mid = (lo + hi) // 2
        try:
            bad = fails({**scn, "stream": scn["stream"][:mid]})
        except Exception:
            bad = False
        if bad:
            hi = mid
        else:
            lo = mid + 1
    return {**scn, "stream": scn["stream"][:hi]}


def minimise(scn, sig, tries=120):
    fails = _same_failure(sig)
    small = cm.shrink_stream(prefix_cut(scn, fails), fails, max_tries=tries)
    return reduce_params(small, fails, lambda c: cm.shrink_stream(c, fails, max_tries=40))


def make_case(prop):
    def case(rng, idx, params):
        scn, meta = gen_scn(rng, idx, prop, params)
        viol, info = check(scn)
        if viol:
            sig = viol["signature"]
            if sig not in _SHRUNK:
                _SHRUNK.add(sig)
                small = minimise(scn, sig)
                v2, _ = check(small)
                if v2 and v2["signature"] == sig:
                    scn, viol = small, v2
            viol = {"scenario": scn, **viol}
        meta["unchecked"] = info["unchecked"]
        return {"nontrivial": info["evaluated"] > 0, "key": hash(str(scn)), "violation": viol, "meta": meta, "evals": max(1, info["evaluated"]),
                "sample": {"kind": scn["kind"], "kwargs": scn["kwargs"], "mode": scn["mode"], "n": len(scn["stream"]),
                           "first_rows": scn["stream"][:2]} if idx < 2 else None}

    return case


def replay(witness):
    scn = witness["scenario"]
    viol, info = check(scn)
    want = witness.get("signature")
    fails = viol is not None and (want is None or viol["signature"] == want)
    return {"fails": fails, "detail": viol}

"""Shared machinery for the model-independent oracles that run on the REAL code."""
import multiprocessing as mp
import os
from datetime import timedelta

from .. import gen, wire

# change-directed budget (hx/changed.py): indicator kinds whose source differs from the recorded baseline.  Set by the engine
# before the oracle leg runs (worker processes are forked afterwards and inherit it); empty on an unchanged tree.
FOCUS = set()


def pick_kind(rng, kinds, default):
    """the rotating `default` kind, or - when some of `kinds` are in FOCUS - one of those for two thirds of the cases"""
    hot = [k for k in kinds if k in FOCUS or str(k).upper() in FOCUS]
    if hot and rng.random() < 0.67:
        return rng.choice(hot)
    return default



TZOFF = None   # minutes east of UTC; when set (`aware`), every candle built here carries an AWARE stamp with that fixed offset


class aware:
    """context manager: timestamps handed to the library are timezone-AWARE (same wall clock, fixed UTC offset).  The library
    aligns buckets to the wall clock of the stamps' own tzinfo, so everything must come out as for the naive stamps; what it returns
    is compared by wall clock (`candle_tuple` drops the tzinfo again)."""

    def __init__(self, minutes):
        self.minutes = minutes

    def __enter__(self):
        global TZOFF
        self.old, TZOFF = TZOFF, self.minutes
        return self

    def __exit__(self, *exc):
        global TZOFF
        TZOFF = self.old
        return False


NUMPY = False   # when set (`numpy_numbers`), prices and volumes are handed over as numpy.float64 (a float SUBCLASS: what rows of an
                # ndarray / DataFrame carry)


class numpy_numbers:
    def __init__(self, on):
        self.on = on if on in ("mixed",) else bool(on)

    def __enter__(self):
        global NUMPY
        _NP_TOGGLE[0] = 0
        self.old, NUMPY = NUMPY, self.on
        return self

    def __exit__(self, *exc):
        global NUMPY
        NUMPY = self.old
        return False


def have_numpy():
    try:
        import numpy  # noqa: F401

        return True
    except Exception:
        return False


_NP_TOGGLE = [0]


def np_row(t):
    if not NUMPY:
        return t
    import numpy as np

    if NUMPY == "mixed":   # every other candle: a plain-float history with a numpy live feed, interleaved
        _NP_TOGGLE[0] += 1
        if _NP_TOGGLE[0] % 2:
            return t

    return (t[0],) + tuple(np.float64(x) for x in t[1:6]) + tuple(t[6:])


def pyval(v):
    """numpy scalars that come back when numpy numbers went in, as the Python values they stand for (numpy.bool_ -> bool,
    numpy.float64 -> float, numpy integers -> int); everything else unchanged, dicts field by field"""
    if isinstance(v, dict):
        return {k: pyval(x) for k, x in v.items()}
    if type(v).__module__ == "numpy":
        import numpy as np

        if isinstance(v, np.bool_):
            return bool(v)
        if isinstance(v, np.floating):
            return float(v)
        if isinstance(v, np.integer):
            return int(v)
    return v


def mk_candle(t):
    from hexital.core.candle import Candle

    ts, o, h, l, c, v = np_row(t)[:6]
    stamp = wire.secs_to_ts(ts)
    if stamp is not None and TZOFF is not None:
        from datetime import timezone

        stamp = stamp.replace(tzinfo=timezone(timedelta(minutes=TZOFF)))
    return Candle(open=o, high=h, low=l, close=c, volume=v, timestamp=stamp)


def mk_candles(ts):
    return [mk_candle(t) for t in ts]


def candle_tuple(c):
    ts = c.timestamp
    if ts is not None and ts.tzinfo is not None:
        ts = ts.replace(tzinfo=None)   # wall clock
    return (wire.ts_to_secs(ts), c.open, c.high, c.low, c.close, c.volume)


def mgr_kwargs(tf=None, fill=False, ha=False, life=None):
    from hexital.candlesticks.heikinashi import HeikinAshi

    return dict(
        timeframe=tf,
        timeframe_fill=fill,
        candlestick_type=HeikinAshi() if ha else None,
        candles_lifespan=None if life is None else timedelta(seconds=life),
    )


# ---------------------------------------------------------------- independent references


def ref_label(t, tf):
    """end of the right-closed bucket (k*tf, (k+1)*tf] containing t"""
    return -((-t) // tf) * tf


def ref_resample(stream, tf):
    """stream of (ts,o,h,l,c,v) -> list of buckets, same tuple shape, labelled by bucket end"""
    out = []
    for ts, o, h, l, c, v in stream:
        lab = ref_label(ts, tf)
        if out and out[-1][0] == lab:
            b = out[-1]
            out[-1] = (lab, b[1], max(b[2], h), min(b[3], l), c, b[5] + v)
        else:
            out.append((lab, o, h, l, c, v))
    return out


def ref_fill(buckets, tf):
    out = []
    for b in buckets:
        if out:
            t = out[-1][0] + tf
            while t < b[0]:
                pc = out[-1][4]
                out.append((t, pc, pc, pc, pc, 0))
                t += tf
        out.append(b)
    return out


def ref_ha(raw):
    out = []
    for i, (ts, o, h, l, c, v) in enumerate(raw):
        hc = (o + h + l + c) / 4
        ho = (o + c) / 2 if i == 0 else (out[-1][1] + out[-1][4]) / 2
        out.append((ts, ho, max(h, ho, hc), min(l, ho, hc), hc, v))
    return out


def ref_trim(cands, life):
    if not cands:
        return cands
    newest = cands[-1][0]
    return [c for c in cands if c[0] >= newest - life]


def close_enough(a, b, rel=1e-9, absol=1e-12):
    if a is None or b is None:
        return a is b
    if isinstance(a, bool) or isinstance(b, bool):
        return a == b
    return a == b or abs(a - b) <= max(absol, rel * max(abs(a), abs(b)))


def tuples_equal(xs, ys, exact=True):
    if len(xs) != len(ys):
        return False
    for x, y in zip(xs, ys):
        if len(x) != len(y):
            return False
        for a, b in zip(x, y):
            if exact:
                if a != b:
                    return False
            elif not close_enough(a, b):
                return False
    return True


# ---------------------------------------------------------------- parallel case runner


_FNS = {}


def _run_chunk(args):
    fkey, seed, name, idxs, params = args
    fn = _FNS[fkey]
    if params.get("tz"):
        import time

        os.environ["TZ"] = params["tz"]
        time.tzset()
    out = []
    for i in idxs:
        rng = gen.rng_for(seed, "oracle", name, i)
        _t0 = __import__("time").time()
        try:
            from ..impl import Diverged, guarded

            r = guarded(lambda: fn(rng, i, params), seconds=params.get("case_timeout", 90.0 if os.environ.get("HX_TIER") == "thorough" else 30.0))
        except Diverged:
            r = {"nontrivial": True, "key": ("hang", i), "meta": {"hang": True},
                 "violation": {"scenario": {"regenerate": {"oracle": name, "seed": seed, "case": i, "params": {k: v for k, v in params.items() if isinstance(v, (int, str, float, bool))}}},
                               "clause": "does-not-terminate", "observed": "case still running after the per-case time limit",
                               "expected": "termination", "signature": f"{name}:does-not-terminate"}}
        except Exception as e:  # noqa
            # The oracle itself raised.  On the tree the checks were built against this never happens (every seed is
            # green), so the code under test has returned something the oracle's own bookkeeping cannot digest (a value
            # of an unexpected type, a structure of an unexpected shape): reported as a violation with the traceback,
            # and the case can be regenerated from (oracle, seed, case).  HX_STRICT=1 restores the old behaviour
            # (machinery failure, exit 2) for development.
            import traceback

            tb = traceback.format_exc()
            if os.environ.get("HX_STRICT"):
                r = {"internal_error": tb, "nontrivial": False, "key": ("err", i), "violation": None, "meta": {}}
            else:
                r = {"nontrivial": True, "key": ("crash", i), "meta": {"oracle_crash": type(e).__name__},
                     "violation": {"scenario": {"regenerate": {"oracle": name, "seed": seed, "case": i, "params": {k: v for k, v in params.items() if isinstance(v, (int, str, float, bool))}}},
                                   "clause": "oracle-could-not-evaluate", "observed": tb[-1500:],
                                   "expected": "values of the documented types and shapes", "signature": f"{name}:oracle-could-not-evaluate"}}
        r["case"] = i
        if os.environ.get("HX_SLOW") and __import__("time").time() - _t0 > float(os.environ["HX_SLOW"]):
            print(f"SLOW oracle={name} case={i} {__import__('time').time() - _t0:.1f}s meta={r.get('meta')}", file=__import__("sys").stderr)
        out.append(r)
    return out


def run_cases(fn, seed, name, n, params=None, workers=None):
    workers = workers or min(16, os.cpu_count() or 4)
    idxs = list(range(n))
    chunks = [idxs[k::workers] for k in range(workers) if idxs[k::workers]]
    fkey = f"{name}:{id(fn)}"
    _FNS[fkey] = fn  # inherited by the forked workers
    args = [(fkey, seed, name, ch, params or {}) for ch in chunks]
    if len(args) <= 1 and not (params or {}).get("tz"):
        res = [_run_chunk(a) for a in args]
    else:
        with mp.get_context("fork").Pool(len(args)) as pool:
            res = pool.map(_run_chunk, args)
    flat = sorted((r for rs in res for r in rs), key=lambda r: r["case"])
    internal = [r for r in flat if r.get("internal_error")]
    if internal:
        raise RuntimeError("oracle crashed: " + internal[0]["internal_error"])
    dist = {}
    for r in flat:
        for k, v in r.get("meta", {}).items():
            key = f"{k}={v}"
            dist[key] = dist.get(key, 0) + 1
    viols = [r["violation"] for r in flat if r.get("violation")]
    return {
        "evaluations": sum(r.get("evals", 1) for r in flat),
        "distinct_nontrivial": len({r["key"] for r in flat if r.get("nontrivial")}),
        "violations": viols,
        "samples": [r["sample"] for r in flat if r.get("sample")][:3],
        "distribution": dist,
    }


def merge_results(*rs):
    out = {"evaluations": 0, "distinct_nontrivial": 0, "violations": [], "samples": [], "distribution": {}}
    for r in rs:
        out["evaluations"] += r["evaluations"]
        out["distinct_nontrivial"] += r["distinct_nontrivial"]
        out["violations"] += r["violations"]
        out["samples"] += r["samples"]
        for k, v in r["distribution"].items():
            out["distribution"][k] = out["distribution"].get(k, 0) + v
    out["samples"] = out["samples"][:4]
    return out


SHRUNK = 0  # shrinks done by this (worker) process


def shrink_stream(scn, fails, key="stream", max_tries=200, budget_s=10.0, per_process=3):
    """greedy removal of candles from scn[key] (schedule collapses to batch+singles as needed).  Bounded: at most
    `budget_s` seconds, every probe under a 2 s watchdog (a probe that does not return is a rejected candidate), and
    only the first `per_process` violations of a worker process are shrunk at all – the rest are reported as found."""
    global SHRUNK
    import time

    from ..impl import Diverged, guarded

    best = dict(scn)
    if SHRUNK >= per_process:
        return best
    SHRUNK += 1
    t_end = time.monotonic() + budget_s
    tries = 0
    n = len(best[key])
    chunk = max(1, n // 2)
    while chunk >= 1 and tries < max_tries and time.monotonic() < t_end:
        i = 0
        progressed = False
        while i < len(best[key]) and tries < max_tries and time.monotonic() < t_end:
            cand = dict(best)
            cand[key] = best[key][:i] + best[key][i + chunk :]
            tries += 1
            try:
                bad = guarded(lambda: fails(cand), seconds=2.0)
            except Diverged:
                bad = False
            except Exception:
                bad = False
            if bad:
                best = cand
                progressed = True
            else:
                i += chunk
        if not progressed:
            chunk //= 2
    return best

"""C10 – structural invariants of the real outputs, over random and degenerate streams, timeframe
configurations (collapse, gap filling, Heikin-Ashi) and append schedules.

Every invariant has its own clause / signature "C10:<kind>:<clause>".  Candle values are those of the
indicator's own candle list (after collapsing / conversion) – "the candle's OHLCV alongside the reading".

Rounding slack (u = 0.5*10^-round_value of the visible reading, us = max(u, 0.5e-4) for helper indicator series,
FN = 1e-10 relative float noise), derived per invariant:
  range RSI, STOCH.stoch, AROON up/down        exact quotient of non-negative parts, then rounded once: u
  range STOCH.k / STOCH.d                      sliding-window mean of values in [0,100] kept in a rounded helper: j*us
                                               after j readings (k), plus the same again for d, + u
  range ADX                                    Wilder mean (a = 1/ps) of DX in [0,100] in a rounded helper: geometric
                                               drift us/a = ps*us, + u
  range TSI                                    quotient of two rounded double-EMA helpers: 100*(eN+eD)/(D-eD) + u from the
                                               reference's budget (indref.tsi); skipped where that is unbounded (D <= 2 eD)
  TR >= high-low                               both sides exact, one rounding: u ; ATR, STDEV >= 0: exact
  lower <= middle <= upper                     the three are the same monotone rounding of ordered numbers: float noise only
  Donchian encloses high/low                   u ; middle = (upper+lower)/2: rounded parts vs rounded mean: 2u
  AROONOSC = up - down, histogram = MACD - signal   three independently rounded numbers: 3u
  averages within the range of their inputs    WMA, VWMA, HLA, VWAP: u ; SMA: j*u after j readings (sliding update of a
                                               rounded value) ; EMA: u/a = u*(p+1)/smoothing ; RMA: p*u
  OBV step in {0, volume}                      2u ; Counter / Supertrend structure: exact
  rounded                                      round(r, round_value) == r exactly
"""
import math

from .. import gen
from . import common as cm
from . import indref as R
from .indref import FN, INF, Q, V
from . import indtotal as T

FIELDS = ["open", "high", "low", "close"]


def _num(x):
    return isinstance(x, (int, float)) and not isinstance(x, bool) and math.isfinite(x)


def invariants(kind, kw, stream, out):
    """yield (clause, index, observed, expected) for every broken invariant (first per clause is enough)"""
    rv = kw.get("round_value", 4)
    q = Q(rv)
    u, us = q.own, q.sub
    S = max([abs(r[2]) for r in stream] + [1.0])
    p = kw.get("period")
    n = len(out)

    def col(f):
        return [(r.get(f) if isinstance(r, dict) else None) for r in out] if f else out

    # ---- every reading is None, a bool or a real number (a complex value, a string, … is no reading at all)
    for t, r in enumerate(out):
        for f, v in (r.items() if isinstance(r, dict) else [("", r)]):
            if v is not None and not isinstance(v, (bool, int, float)):
                yield ("type" + (f":{f}" if f else ""), t, repr(v)[:60], "None, a bool or a real number")
    # ---- every numeric reading is rounded to round_value decimals
    for t, r in enumerate(out):
        for f, v in (r.items() if isinstance(r, dict) else [("", r)]):
            if isinstance(v, float) and math.isfinite(v) and round(v, rv) != v:
                yield ("rounded" + (f":{f}" if f else ""), t, repr(v), f"a multiple of 1e-{rv}")

    def in_range(f, lo, hi, slack_at, clause="range"):
        for t, v in enumerate(col(f)):
            if _num(v):
                s = slack_at(t)
                if s is not None and not (lo - s <= v <= hi + s):
                    yield (clause + (f":{f}" if f else ""), t, v, f"within [{lo}, {hi}] +/- {s:.3g}")

    if kind == "RSI":
        yield from in_range("", 0.0, 100.0, lambda t: u + FN * 100)
    elif kind == "STOCH":
        yield from in_range("stoch", 0.0, 100.0, lambda t: u + FN * 100)
        ks, ds = col("k"), col("d")
        fk = next((t for t, v in enumerate(ks) if v is not None), n)
        fd = next((t for t, v in enumerate(ds) if v is not None), n)
        yield from in_range("k", 0.0, 100.0, lambda t: (t - fk + 1) * us + u + FN * 100)
        yield from in_range("d", 0.0, 100.0, lambda t: (t - fk + 1) * us + (t - fd + 1) * us + u + FN * 100)
    elif kind == "AROON":
        yield from in_range("AROONU", 0.0, 100.0, lambda t: u + FN * 100)
        yield from in_range("AROOND", 0.0, 100.0, lambda t: u + FN * 100)
        for t, r in enumerate(out):
            a, b, c = r.get("AROONU"), r.get("AROOND"), r.get("AROONOSC")
            if _num(a) and _num(b) and _num(c) and abs(c - (a - b)) > 3 * u + FN * 100:
                yield ("osc=up-down", t, c, f"{a} - {b} = {a - b} +/- {3 * u:.3g}")
    elif kind == "ADX":
        ps = kw.get("period_signal") or p
        yield from in_range("ADX", 0.0, 100.0, lambda t: ps * us + u + FN * 100)
    elif kind == "TSI":
        x = R.col(stream, kw.get("input_value", "close"))
        sp = kw.get("smooth_period") or (p // 2 + (p % 2 > 0))
        ref = R.tsi(x, p, sp, q)
        yield from in_range("", -100.0, 100.0, lambda t: (ref[t].e + FN * 100) if isinstance(ref[t], V) and ref[t].e != INF else None)
    elif kind == "TR":
        for t, v in enumerate(out):
            hl = stream[t][2] - stream[t][3]
            if hl < 0:
                yield ("high>=low", t, stream[t], "high - low >= 0")
            if _num(v) and v < hl - (u + FN * S):
                yield ("tr>=high-low", t, v, f">= {hl} - {u:.3g}")
    elif kind == "ATR":
        yield from in_range("", 0.0, INF, lambda t: 0.0, "non-negative")
    elif kind == "StandardDeviation":
        yield from in_range("", 0.0, INF, lambda t: 0.0, "non-negative")
    elif kind in ("BBANDS", "KC", "Donchian"):
        lo_f, mid_f, up_f = {"BBANDS": ("BBL", "BBM", "BBU"), "KC": ("lower", "band", "upper"), "Donchian": ("DCL", "DCM", "DCU")}[kind]
        for t, r in enumerate(out):
            lo, mid, up = r.get(lo_f), r.get(mid_f), r.get(up_f)
            if _num(lo) and _num(mid) and _num(up):
                if not (lo <= mid + FN * S and mid <= up + FN * S):
                    yield ("ordered", t, f"{lo_f}={lo} {mid_f}={mid} {up_f}={up}", "lower <= middle <= upper")
                if kind == "Donchian":
                    if up < stream[t][2] - u - FN * S or lo > stream[t][3] + u + FN * S:
                        yield ("encloses-candle", t, f"[{lo}, {up}]", f"contains low {stream[t][3]} and high {stream[t][2]}")
                    if abs(mid - (up + lo) / 2) > 2 * u + FN * S:
                        yield ("middle=mean", t, mid, f"({up} + {lo})/2 = {(up + lo) / 2} +/- {2 * u:.3g}")
    elif kind == "MACD":
        for t, r in enumerate(out):
            m, s, h = r.get("MACD"), r.get("signal"), r.get("histogram")
            if _num(m) and _num(s) and _num(h) and abs(h - (m - s)) > 3 * u + FN * S:
                yield ("hist=macd-signal", t, h, f"{m} - {s} = {m - s} +/- {3 * u:.3g}")
            if (h is None) != (m is None or s is None):
                yield ("hist-defined", t, repr(r), "histogram exactly when MACD and signal exist")
    elif kind == "Supertrend":
        for t, r in enumerate(out):
            d, tr_, lg, sh = r.get("direction"), r.get("trend"), r.get("long"), r.get("short")
            if d not in (1, -1) or isinstance(d, bool):
                yield ("direction", t, repr(d), "+1 or -1")
            elif tr_ is None:
                if lg is not None or sh is not None:
                    yield ("long-short", t, repr(r), "no long/short without a trend")
            elif not ((lg is None) != (sh is None)) or (lg if d == 1 else sh) != tr_:
                yield ("long-short", t, repr(r), "exactly one of long/short set, on the side of direction, equal to trend")
    elif kind in ("SMA", "EMA", "RMA", "WMA", "VWMA", "HighLowAverage", "VWAP"):
        first = next((t for t, v in enumerate(out) if v is not None), n)
        if kind in ("SMA", "EMA", "RMA", "WMA"):
            x = R.col(stream, kw.get("input_value", "close"))
        elif kind == "VWMA":
            x = R.col(stream, "close")
        for t, v in enumerate(out):
            if not _num(v):
                continue
            if kind in ("SMA", "WMA", "VWMA"):
                w, slack = x[max(0, t - p + 1) : t + 1], ((t - first + 1) * u if kind == "SMA" else u)
            elif kind == "EMA":
                w, slack = x[: t + 1], u * (p + 1) / kw.get("smoothing", 2.0)
            elif kind == "RMA":
                w, slack = x[: t + 1], u * p
            elif kind == "HighLowAverage":
                w, slack = [stream[t][2], stream[t][3]], u
            else:  # VWAP: average of typical prices; with nothing traded yet it is unconstrained
                if math.fsum(r[5] for r in stream[: t + 1]) == 0:
                    continue
                w, slack = [(r[2] + r[3] + r[4]) / 3 for r in stream[: t + 1]], u
            slack += FN * S
            if not (min(w) - slack <= v <= max(w) + slack):
                yield ("average-range", t, v, f"within [{min(w)}, {max(w)}] +/- {slack:.3g}")
    elif kind == "OBV":
        for t in range(1, n):
            if _num(out[t]) and _num(out[t - 1]):
                d, vol = abs(out[t] - out[t - 1]), stream[t][5]
                if min(d, abs(d - vol)) > 2 * u + FN * max(abs(out[t]), vol, 1.0):
                    yield ("step", t, f"moved by {out[t] - out[t - 1]}", f"0 or +/-{vol}")
    elif kind == "Counter":
        x = R.col(stream, kw["input_value"]) if kw.get("input_value") in FIELDS + ["volume"] else None
        for t, v in enumerate(out):
            if isinstance(v, bool) or not isinstance(v, int) or v < 0:
                yield ("non-negative-int", t, repr(v), "int >= 0")
            elif t > 0 and isinstance(out[t - 1], int) and v not in (out[t - 1] + 1, 0):
                yield ("grows-or-resets", t, v, f"{out[t - 1] + 1} or 0")
            elif t == 0 and v not in (0, 1):
                yield ("grows-or-resets", t, v, "0 or 1")


def gen_kwargs(rng, kind):
    kw, need = T.gen_kwargs(rng, kind)
    if "round_value" not in kw and rng.random() < 0.6:
        kw["round_value"] = rng.randint(0, 8)
    if kind in ("SMA", "EMA", "RMA", "WMA", "HMA", "StandardDeviation", "BBANDS", "KC", "RSI", "MACD", "ROC", "TSI", "StandardDeviationThreshold") \
            and rng.random() < 0.4:
        kw["input_value"] = rng.choice(FIELDS)
    if kind == "EMA" and rng.random() < 0.3:
        kw["smoothing"] = rng.choice([1.0, 1.5, 2.5, 3.0])
    return kw, need


def gen_scn(rng, idx, params):
    kind = cm.pick_kind(rng, T.ALL_KINDS, T.ALL_KINDS[idx % len(T.ALL_KINDS)])
    kw, need = gen_kwargs(rng, kind)
    size = params.get("size", 60)
    n = rng.randint(need, need + (30 if size <= 100 else size // 2)) if rng.random() < 0.85 else rng.randint(0, size)
    r = rng.random()
    tf, fill, ha = None, False, rng.random() < 0.2
    if r < 0.3:  # degenerate family (may bring its own timeframe + fill)
        family = rng.choice(T.FAMILIES)
        stream, tf, fill = T.gen_family(rng, family, n)
        meta = {"family": family}
    else:
        family = "random"
        if r < 0.75:
            tf = gen.gen_timeframe(rng)
            fill = rng.random() < 0.35
        step = None
        if tf:
            s = gen.tf_seconds(tf)
            step = max(1, s // rng.choice([1, 1, 2, 3, 5, 10]))
        ts_style = rng.choice(["regular", "dups", "gaps", "mixed"]) if fill else None
        stream, smeta = gen.gen_stream(rng, n, price_style=gen.style_for(rng, kind), ts_style=ts_style, step=step)
        stream = [list(x) for x in stream]
        gaps = rng.random() < 0.5
        if gaps:
            stream = T.add_gaps(rng, stream)
        meta = {"family": "random", "price": smeta["price"], "ts": smeta["ts"], "gaps": gaps}
    (init, chunks), shape = gen.gen_schedule(rng, len(stream))
    scn = {"prop": "C10", "kind": kind, "kwargs": kw, "tf": tf, "fill": fill, "ha": ha, "family": family, "stream": stream, "init": init, "chunks": chunks,
           "bare_single": rng.random() < 0.5}
    if rng.random() < 0.1 and cm.have_numpy():
        scn["numpy"] = rng.choice([True, "mixed", "mixed"])   # numpy.float64 prices and volumes: on all candles, or on every other one
    if rng.random() < 0.15:
        scn["reidx"] = rng.choice([0, "neg"])
    meta.update(reidx=scn.get("reidx") is not None)
    meta.update(kind=kind, tf_unit=tf[0] if tf else "-", fill=bool(fill), ha=ha, schedule=shape, rv=kw.get("round_value", 4), numpy=bool(scn.get("numpy")))
    return scn, meta


def check(scn):
    """-> (first violation core | None, info)"""
    ind, exc = T.build(scn)
    info = {"evaluated": 0, "raised": exc is not None}
    if exc is not None:  # totality is C09's property
        return None, info
    if scn.get("reidx") is not None and len(ind.candles) > 1:
        # the finished series with ONE candle recomputed in place (calculate_index at the first index, given as 0 or as -len): the
        # invariants are about the stored series, however it came about
        try:
            ind.calculate_index(0 if scn["reidx"] == 0 else -len(ind.candles))
        except Exception:  # totality / convergence of maintenance calls are C09's and C14's
            return None, info
    stream = [cm.candle_tuple(c) for c in ind.candles]
    out = [cm.pyval(r) for r in ind.as_list()]
    info["evaluated"] = sum(1 for r in out if r is not None and (not isinstance(r, dict) or any(v is not None for v in r.values())))
    kind = scn["kind"]
    for clause, t, obs, exp in invariants(kind, scn["kwargs"], stream, out):
        return {"clause": clause, "index": t, "observed": obs if isinstance(obs, (int, float, str)) else repr(obs), "expected": exp,
                "signature": f"C10:{kind}:{clause}"}, info
    return None, info


_SHRUNK = set()


def minimise(scn, sig):
    def fails(s):
        v, _ = check(T.fix_sched(s))
        return v is not None and v["signature"] == sig

    small = T.fix_sched(cm.shrink_stream(T.prefix_cut(scn, fails), fails, max_tries=100))
    return T.reduce_params(small, fails, lambda c: T.fix_sched(cm.shrink_stream(c, fails, max_tries=40)))


def case(rng, idx, params):
    scn, meta = gen_scn(rng, idx, params)
    viol, info = check(scn)
    if viol:
        sig = viol["signature"]
        if sig not in _SHRUNK:
            _SHRUNK.add(sig)
            small = minimise(scn, sig)
            v2, _ = check(small)
            if v2 and v2["signature"] == sig:
                scn, viol = small, v2
        viol = {"scenario": scn, **viol}
    meta["raised"] = info["raised"]
    return {"nontrivial": info["evaluated"] > 0, "key": hash(str(scn)), "violation": viol, "meta": meta, "evals": max(1, info["evaluated"]),
            "sample": {"kind": scn["kind"], "kwargs": scn["kwargs"], "tf": scn["tf"], "fill": scn["fill"], "ha": scn["ha"], "n": len(scn["stream"]),
                       "init": scn["init"], "chunks": scn["chunks"][:6], "first_rows": scn["stream"][:2]} if idx < 2 else None}


def replay(witness):
    viol, _ = check(T.fix_sched(witness["scenario"]))
    want = witness.get("signature")
    return {"fails": viol is not None and (want is None or viol["signature"] == want), "detail": viol}

"""Oracles for the analysis functions (hexital.analysis.movement / patterns) on the REAL code.

C16  causal + index-consistent: f(cs, index=i) == f(cs[:i+1]) == f(cs, index=i-len(cs)), never raises on
     missing readings, and the Amorph / Hexital-dict wrapper produces the same column live and in batch.
C17  documented meaning: reference predicates written from the property statement over the extracted
     (None-filtered) series, candle geometry identities, constructed pattern witnesses and single-clause
     counter-witnesses (margins >= 2x under both readings of "average of the 10 previous candles"), and
     scale / shift invariance.

Everything the references need is recomputed from the scenario (plain tuples / dicts), never through the
library's own accessors.
"""
from fractions import Fraction as Fr

from .. import gen
from . import common as cm

PRICE_IDX = {"open": 1, "high": 2, "low": 3, "close": 4, "volume": 5}

ONE = ["value_range", "rising", "falling", "mean_rising", "mean_falling", "highest", "lowest", "highestbar", "lowestbar"]
TWO_NOLEN = ["above", "below"]
TWO_LEN = ["cross", "crossover", "crossunder"]
NOARG = ["positive", "negative"]
PATTERNS = ["doji", "dojistar", "hammer", "inv_hammer"]
ALL_FUNCS = ONE + TWO_NOLEN + TWO_LEN + NOARG + PATTERNS

# highestbar/lowestbar scan `length` candles including the current one while highest/lowest/value_range scan the
# current candle plus `length` before it; the statement ("the current candle and the `length` candles before it")
# and the docstring ("for a given number of bars back") do not settle the far edge, so both widths are accepted.
STRICT_BAR_WINDOW = False


def funcs():
    from hexital.analysis import MOVEMENT_MAP, PATTERN_MAP, movement

    d = dict(MOVEMENT_MAP)
    d.update(PATTERN_MAP)
    d["above"] = movement.above
    d["below"] = movement.below
    return d


def isnum(v):
    return isinstance(v, (int, float)) and not isinstance(v, bool)


# ---------------------------------------------------------------- building real objects from a scenario


def build(scn, stream=None, readings=None):
    stream = scn["stream"] if stream is None else stream
    readings = scn.get("readings") if readings is None else readings
    out = []
    for j, t in enumerate(stream):
        c = cm.mk_candle(tuple(t))
        rd = readings[j] if readings else {}
        for k, v in rd.items():
            v = dict(v) if isinstance(v, dict) else v
            (c.sub_indicators if k.startswith("S") else c.indicators)[k] = v
        out.append(c)
    return out


def named(scn):
    kw = scn.get("kwargs", {})
    return [kw[k] for k in ("indicator", "indicator_one", "indicator_two") if k in kw]


def raw_column(scn, name):
    """raw values (may be dict / None / absent->None) of the top-level reading a name refers to"""
    main = name.split(".")[0]
    if main in PRICE_IDX:
        return [t[PRICE_IDX[main]] for t in scn["stream"]]
    rds = scn.get("readings") or [{}] * len(scn["stream"])
    return [rd.get(main) for rd in rds]


def series(scn, name):
    """the None-filtered numeric series a name denotes, read from the scenario only"""
    out = []
    rds = scn.get("readings") or [{}] * len(scn["stream"])
    for t, rd in zip(scn["stream"], rds):
        if name in PRICE_IDX:
            v = t[PRICE_IDX[name]]
        elif "." in name:
            main, sub = name.split(".", 1)
            d = rd.get(main)
            v = d.get(sub) if isinstance(d, dict) else None
        else:
            v = rd.get(name)
        out.append(v if isnum(v) else None)
    return out


# ---------------------------------------------------------------- generators


def dyadic_candles(rng, n, grid=8, flat_p=0.08, zero_body_p=0.12):
    """well-formed candles (o, h, l, c, v) whose prices are multiples of 1/grid (or plain ints): float arithmetic on them is exact"""
    ints = rng.random() < 0.25
    g = 1 if ints else grid
    p = rng.randint(20 * g, 500 * g)
    out = []
    for _ in range(n):
        o = p + (rng.randint(-2 * g, 2 * g) if rng.random() < 0.3 else 0)
        r = rng.random()
        if r < flat_p:
            c, up, dn = o, 0, 0
        else:
            c = o if r < flat_p + zero_body_p else o + rng.randint(-3 * g, 3 * g)
            up, dn = rng.randint(0, 2 * g), rng.randint(0, 2 * g)
        h, l = max(o, c) + up, min(o, c) - dn
        if l <= g:
            sh = 40 * g
            o, c, h, l = o + sh, c + sh, h + sh, l + sh
        p = c
        if ints:
            out.append((o, h, l, c, rng.randint(0, 1000)))
        else:
            out.append((o / g, h / g, l / g, c / g, rng.randint(0, 1000)))
    return out


def with_ts(rng, prices):
    if rng.random() < 0.5:
        return [(None,) + tuple(p) for p in prices]
    tss, _ = gen.gen_timestamps(rng, len(prices), "regular")
    return [(t,) + tuple(p) for t, p in zip(tss, prices)]


def inject_shapes(rng, prices, grid=8):
    """sprinkle doji / hammer / inverted hammer / long body + gapped doji shapes so that patterns fire"""
    out = list(prices)
    j = 10
    while j < len(out):
        if rng.random() < 0.35:
            po, ph, pl, pc, _ = out[j - 1]
            kind = rng.choice(["doji", "hammer", "invh", "star"])
            u = 1 / grid
            if kind == "doji":
                o = pc
                c = o + rng.choice([0, 0, u, -u])
                out[j] = (o, max(o, c) + rng.randint(0, 16) * u, min(o, c) - rng.randint(0, 16) * u, c, 5)
            elif kind == "hammer":
                lo = pl - rng.randint(0, 8) * u
                b = rng.choice([u, 2 * u])
                out[j] = (lo, lo + b, lo - b * rng.randint(2, 8) - u, lo + b, 5)
            elif kind == "invh":
                top = min(po, pc) - rng.randint(1, 16) * u
                b = rng.choice([u, 2 * u])
                out[j] = (top, top + b * rng.randint(2, 8) + u, top - b, top - b, 5)
            elif j + 1 < len(out):
                big = rng.randint(5, 9)
                up = rng.random() < 0.5
                o = pc
                c = o + big if up else o - big
                out[j] = (o, max(o, c) + u, min(o, c) - u, c, 5)
                s = (c + rng.randint(1, 12) * u) if up else (c - rng.randint(1, 12) * u)
                out[j + 1] = (s, s + rng.randint(0, 8) * u, s - rng.randint(0, 8) * u, s, 5)
                j += 1
        j += 1
    return [tuple(x) for x in out]


def _walk(rng, n, kind):
    if kind == "few":
        pool = [rng.randint(1, 4) for _ in range(2)] + [rng.randint(1, 4) + 0.5]
        return [rng.choice(pool) for _ in range(n)]
    g = 1 if kind in ("ints", "signed") else 8
    v = rng.randint(-3, 3) if kind == "signed" else rng.randint(5 * g, 60 * g)  # "signed": zero and negative readings occur
    out = []
    for _ in range(n):
        v += rng.choice([-3, -2, -1, -1, 0, 0, 0, 1, 1, 2, 3])
        x = v if g == 1 else v / 8
        if kind == "mixed" and float(x).is_integer() and rng.random() < 0.6:
            x = int(x)
        out.append(x)
    return out


def _punch(rng, col, style):
    """make some entries missing: '_ABSENT' (key not present) or None"""
    n = len(col)
    out = list(col)
    if style == "none":
        return out
    k = rng.randint(0, n) if style == "warmup" else 0
    for j in range(n):
        miss = (
            (style == "warmup" and j < k)
            or (style == "sparse" and rng.random() < 0.2)
            or (style == "heavy" and rng.random() < 0.6)
            or style == "all"
        )
        if miss:
            out[j] = "_ABSENT" if rng.random() < 0.5 else None
    return out


MISS_STYLES = ["none", "none", "warmup", "warmup", "sparse", "sparse", "heavy", "all"]


def gen_readings(rng, n, dict_mode=True):
    kind = rng.choice(["ints", "dyadic", "mixed", "few", "signed"])
    a = _walk(rng, n, kind)
    step = 1 if kind in ("ints", "few", "signed") else 0.125
    b = [x + rng.choice([-2, -1, -1, 0, 0, 1, 1, 2]) * step for x in a]
    s = _walk(rng, n, rng.choice(["ints", "dyadic"]))
    dx = _walk(rng, n, kind)
    cols = {"A": _punch(rng, a, rng.choice(MISS_STYLES)), "B": _punch(rng, b, rng.choice(MISS_STYLES)),
            "S": _punch(rng, s, rng.choice(MISS_STYLES))}
    dstyle = rng.choice(MISS_STYLES)
    dcol = _punch(rng, dx, dstyle)
    inner = _punch(rng, dx, rng.choice(["none", "sparse"]))
    out = []
    for j in range(n):
        rd = {}
        for k, col in cols.items():
            if col[j] != "_ABSENT":
                rd[k] = col[j]
        if dict_mode and dcol[j] != "_ABSENT" and dcol[j] is not None:
            rd["D"] = {"x": None if inner[j] in ("_ABSENT", None) else inner[j], "y": dx[j] + 1}
        out.append(rd)
    return out, kind


ONE_NAMES = ["close", "high", "low", "volume", "A", "A", "A", "B", "S", "D.x", "D.x", "D", "Z"]
TWO_NAMES = [("A", "B"), ("A", "B"), ("A", "B"), ("B", "A"), ("close", "open"), ("close", "open"), ("high", "close"),
             ("D.x", "A"), ("A", "Z"), ("S", "B"), ("D", "A"), ("A", "D")]
LENGTHS = [None, None, 1, 1, 2, 2, 3, 4, 5, 8, 13, 45]  # >= 1: a function may legitimately reject a non-positive length
LOOKBACKS = [None, None, None, 1, 2, 3, 5, 12, 45]


def gen_kwargs(rng, fn, no_dict=False, min_len=None):
    kw = {}
    if fn in ONE:
        name = rng.choice(ONE_NAMES)
        while no_dict and name == "D":
            name = rng.choice(ONE_NAMES)
        kw["indicator"] = name
    elif fn in TWO_NOLEN or fn in TWO_LEN:
        pair = rng.choice(TWO_NAMES)
        while no_dict and "D" in pair:
            pair = rng.choice(TWO_NAMES)
        if fn in TWO_NOLEN:
            kw["indicator"], kw["indicator_two"] = pair
        else:
            kw["indicator_one"], kw["indicator_two"] = pair
    if fn in ONE or fn in TWO_LEN:
        ln = rng.choice(LENGTHS)
        while min_len is not None and ln is not None and ln < min_len:
            ln = rng.choice(LENGTHS)
        if ln is not None:
            kw["length"] = ln
    if fn in PATTERNS:
        lb = rng.choice(LOOKBACKS)
        if lb is not None:
            kw["lookback"] = lb
    return kw


def gen_list(rng, fn, nmax=40):
    """(stream, readings, meta) for a direct / wrapped C16 case"""
    if fn in PATTERNS:
        n = rng.randint(11, nmax) if rng.random() < 0.75 else rng.randint(0, nmax)
        if rng.random() < 0.7:
            prices = inject_shapes(rng, dyadic_candles(rng, n))
            style = "shapes"
        else:
            prices, style = gen.gen_prices(rng, n)
    else:
        n = rng.randint(0, nmax)
        if rng.random() < 0.5:
            prices, style = dyadic_candles(rng, n), "dyadic"
        else:
            prices, style = gen.gen_prices(rng, n)
    stream = with_ts(rng, prices)
    readings, kind = gen_readings(rng, n)
    return stream, readings, {"price": style, "values": kind}


# ---------------------------------------------------------------- C16 direct


def _call(f, cs, kw, *index):
    try:
        if index:
            return ("ok", f(cs, index=index[0], **kw))
        return ("ok", f(cs, **kw))
    except Exception as e:  # noqa: BLE001 - the property says no exception
        return ("exc", f"{type(e).__name__}: {e}"[:120])


def _same(a, b):
    return a[0] == "ok" and b[0] == "ok" and type(a[1]) is type(b[1]) and a[1] == b[1]


def _short(r):
    return r[1] if r[0] == "ok" else f"raised {r[1]}"


def _raise_clause(scn, probe):
    """which kind of raise: on a dict-valued reading, on a missing reading, or with every reading present"""
    names = named(scn)
    cols = [raw_column(scn, nm) for nm in names]
    if any(isinstance(v, dict) for nm, col in zip(names, cols) if "." not in nm for v in col):
        rds = [{k: (None if isinstance(v, dict) and k in names else v) for k, v in rd.items()} for rd in scn["readings"]]
        if not probe(dict(scn, readings=rds)):
            return "raises-on-dict"
    if any(not isnum(v) for nm in names for v in series(scn, nm)):
        return "raises-on-missing"
    return "raises"


def check_direct(scn):
    """{clause: violation} for the first index at which each clause fails"""
    f = funcs()[scn["fn"]]
    kw = scn.get("kwargs", {})
    cs = build(scn)
    n = len(cs)
    found = {}
    stats = {"evals": 0, "truthy": 0}
    for i in range(n):
        a = _call(f, cs, kw, i)
        b = _call(f, cs[: i + 1], kw)
        c = _call(f, cs, kw, i - n)
        stats["evals"] += 3
        if a[0] == "ok" and a[1] not in (None, False, 0):
            stats["truthy"] += 1
        forms = {"index=i": a, "truncated,default": b, "index=i-len": c}
        if any(r[0] == "exc" for r in forms.values()):
            def probe(s2, i=i):
                cs2 = build(s2)
                return any(r[0] == "exc" for r in (_call(f, cs2, kw, i), _call(f, cs2[: i + 1], kw), _call(f, cs2, kw, i - n)))

            clause = _raise_clause(scn, probe)
            found.setdefault(clause, {"index": i, "observed": {k: _short(r) for k, r in forms.items()}, "expected": "no exception"})
            continue
        if not _same(a, b):
            found.setdefault("truncation", {"index": i, "observed": {"f(cs,index=i)": _short(a), "f(cs[:i+1])": _short(b)},
                                            "expected": "equal"})
        if not _same(a, c):
            found.setdefault("negative-index", {"index": i, "observed": {"f(cs,index=i)": _short(a), f"f(cs,index={i - n})": _short(c)},
                                                "expected": "equal"})
    return found, stats


# ---------------------------------------------------------------- C16 wrapped (Amorph / Hexital dict)


def _column(obj, mode):
    if mode == "amorph" and hasattr(obj, "as_list"):
        return obj.as_list()
    name = list(obj.indicators.keys())[-1]
    return obj.reading_as_list(name)


def _make_wrapped(scn, cands):
    f = funcs()[scn["fn"]]
    kw = dict(scn.get("kwargs", {}))
    if scn["mode"] == "amorph":
        from hexital.indicators import Amorph

        if scn.get("shared_args") and "length" in kw:
            # the user's ONE args dict serves two wrappers; the sibling, built first, also gets a loose `length` keyword.  The library
            # must copy, not keep (or write into) the caller's dict: the observed wrapper runs with ITS length
            shared = {k: v for k, v in kw.items() if k != "length"}
            Amorph(analysis=f, candles=[], args=shared, length=int(kw["length"]) + 3)
            return Amorph(analysis=f, candles=cands, args=shared, length=kw["length"])
        if scn.get("rehomed"):
            # a wrapper object that has already calculated on a few candles of its own and is then handed to a Hexital: whatever it
            # remembers from its first home must not follow it - its column is the function over the candles it lives on NOW
            from hexital.core.hexital import Hexital

            a = Amorph(analysis=f, candles=build(scn)[: scn["rehomed"]], **({"args": kw} if scn.get("use_args") else kw))
            a.calculate()
            return Hexital("oracle", cands, [a])
        if scn.get("use_args"):
            return Amorph(analysis=f, candles=cands, args=kw)
        return Amorph(analysis=f, candles=cands, **kw)
    from hexital.core.hexital import Hexital

    spec = {"analysis": f if scn.get("callable") else scn["fn"]}
    if scn.get("use_args") or "indicator" in kw:
        spec["args"] = kw
    else:
        spec.update(kw)
    return Hexital("oracle", cands, [dict(p) for p in scn.get("pre", [])] + [spec])


def run_wrapped(scn):
    """(batch column, live column) or raises"""
    mode = scn["mode"]
    n = len(scn["stream"])
    batch = _make_wrapped(scn, build(scn))
    batch.calculate()
    col_b = list(_column(batch, mode))
    fresh = build(scn)
    init = min(scn.get("init", 0), n)
    live = _make_wrapped(scn, fresh[:init])
    live.calculate()
    i = init
    for k in scn.get("chunks", []):
        part = fresh[i : i + k]
        if not part:
            break
        live.append(part[0] if len(part) == 1 else part)
        i += len(part)
    if i < n:
        for c in fresh[i:]:
            live.append(c)
    col_l = list(_column(live, mode))
    return col_b, col_l


def check_wrapped(scn):
    mode = scn["mode"]
    try:
        col_b, col_l = run_wrapped(scn)
    except Exception as e:  # noqa: BLE001
        # a raise that the bare function shows as well is reported by the direct cases (one signature per cause);
        # only a raise that is specific to the wrapper is reported here
        d = dict(scn, mode="direct")
        d["kwargs"] = {k: ("close" if isinstance(v, str) and v.startswith("SMA_") else v) for k, v in scn.get("kwargs", {}).items()}
        if any(c.startswith("raises") for c in check_direct(d)[0]):
            return {}, {"evals": 1, "truthy": 0, "raised": True}
        return {f"{mode}-raises": {"observed": f"{type(e).__name__}: {e}"[:120], "expected": "no exception"}}, {"evals": 1, "truthy": 0}
    stats = {"evals": len(col_b) + len(col_l), "truthy": sum(1 for v in col_b if v not in (None, False, 0))}
    bad = [j for j in range(max(len(col_b), len(col_l)))
           if j >= len(col_b) or j >= len(col_l) or type(col_b[j]) is not type(col_l[j]) or col_b[j] != col_l[j]]
    if bad:
        j = bad[0]
        return {f"{mode}-live-vs-batch": {"index": j, "observed": {"batch": col_b[max(0, j - 2) : j + 3], "live": col_l[max(0, j - 2) : j + 3]},
                                         "expected": "same column"}}, stats
    if mode == "amorph" and ((scn.get("shared_args") and "length" in scn.get("kwargs", {})) or scn.get("rehomed")):
        # the wrapper must run with the arguments IT was given: its column is the bare function at every index
        f = funcs()[scn["fn"]]
        cs = build(scn)
        kw = dict(scn.get("kwargs", {}))
        for j in range(len(cs)):
            r = _call(f, cs, kw, j)
            if r[0] == "exc":
                break
            want = r[1]
            if isinstance(want, float):
                from hexital.utils.indexing import round_values

                want = round_values(want, round_by=4)   # the wrapper rounds its reading (default round_value)
            if j < len(col_b) and not _same(("ok", col_b[j]), ("ok", want)):
                return {"amorph-vs-function": {"index": j, "observed": col_b[j], "expected": want, "note": "the wrapper had calculated on candles of its own before" if scn.get("rehomed") else "a sibling wrapper was built from the same args dict first"}}, stats
    return {}, stats


# ---------------------------------------------------------------- shrinking


def _fix_sched(scn):
    if "init" not in scn and "chunks" not in scn:
        return scn
    s = dict(scn)
    n = len(s["stream"])
    init = min(s.get("init", 0), n)
    rest = n - init
    chunks = []
    for k in s.get("chunks", []):
        if rest <= 0:
            break
        k = min(k, rest)
        chunks.append(k)
        rest -= k
    chunks += [1] * rest
    s["init"], s["chunks"] = init, chunks
    return s


def shrink(scn, fails, tries=120):
    """fewer candles (stream and readings together), smaller length/lookback, fewer reading columns"""
    def ok(s):
        try:
            return bool(fails(s))
        except Exception:  # noqa: BLE001
            return False

    rds = scn.get("readings") or [{} for _ in scn["stream"]]
    rows = {"rows": [[list(t), rd] for t, rd in zip(scn["stream"], rds)]}

    def unrows(d):
        s = dict(scn)
        s["stream"] = [r[0] for r in d["rows"]]
        s["readings"] = [r[1] for r in d["rows"]]
        for k in ("index", "witness_index"):
            if k in s:
                s.pop(k)
        return _fix_sched(s)

    if "witness_index" not in scn:
        best = unrows(cm.shrink_stream(rows, lambda d: ok(unrows(d)), key="rows", max_tries=tries))
        # greedy removal can get stuck when the failure needs one early and one late candle: try tiny sub-lists outright
        rr = [[list(t), rd] for t, rd in zip(best["stream"], best.get("readings") or [{} for _ in best["stream"]])]
        n = len(rr)
        cands = [[rr[a]] for a in range(n)] if n > 1 else []
        if 2 < n <= 16:
            cands += [[rr[a], rr[b]] for a in range(n) for b in range(a + 1, n)]
        elif n > 16:
            cands += [[rr[a], rr[a + 1]] for a in range(n - 1)] + [[rr[0], rr[-1]]]
        if 3 < n <= 40:
            cands += [rr[a : a + 3] for a in range(n - 2)]
        for cnd in cands:
            s = unrows({"rows": cnd})
            if ok(s):
                best = s
                break
    else:
        best = dict(scn)
    # numeric arguments
    for key in ("length", "lookback"):
        v = best.get("kwargs", {}).get(key)
        if isinstance(v, int):
            for cand in sorted({1, 2, 3, 4, v // 2}):
                if 0 < cand < v:
                    s = dict(best, kwargs=dict(best["kwargs"], **{key: cand}))
                    if ok(s):
                        best = s
                        break
    # keep only the named reading columns
    if best.get("readings"):
        keep = {nm.split(".")[0] for nm in named(best)}
        s = dict(best, readings=[{k: v for k, v in rd.items() if k in keep} for rd in best["readings"]])
        if ok(s):
            best = s
    if best.get("chunks") and any(k != 1 for k in best["chunks"]) or best.get("init"):
        s = dict(best, init=0, chunks=[1] * len(best["stream"]))
        if ok(s):
            best = s
    if best.get("pre") is not None and not best["pre"]:
        best.pop("pre")
    return best


# ---------------------------------------------------------------- C16 case functions


def _finish(prop, scn, found, idx, rot, checker):
    """pick one of the failing clauses (rotating so that every signature shows up), shrink for it"""
    if not found:
        return None
    clauses = sorted(found)
    clause = clauses[rot % len(clauses)]
    sig = f"{prop}:{scn['fn']}:{clause}"
    small = shrink(scn, lambda s: clause in checker(s)[0])
    det = checker(small)[0].get(clause) or found[clause]
    return {"scenario": small, "clause": clause, "signature": sig, **det}


def case_c16_direct(rng, idx, params):
    fn = ALL_FUNCS[idx % len(ALL_FUNCS)]
    stream, readings, meta = gen_list(rng, fn, params.get("size", 40))
    scn = {"mode": "direct", "fn": fn, "kwargs": gen_kwargs(rng, fn), "stream": stream, "readings": readings}
    found, stats = check_direct(scn)
    viol = _finish("C16", scn, found, idx, idx // len(ALL_FUNCS), check_direct)
    meta.update({"fn": fn, "mode": "direct", "fired": stats["truthy"] > 0})
    return {"nontrivial": len(stream) >= 2, "key": hash(str(scn)), "violation": viol, "meta": meta, "evals": max(1, stats["evals"]),
            "sample": {"fn": fn, "kwargs": scn["kwargs"], "n": len(stream), "first": stream[:2], "readings": readings[:2]} if idx < 2 else None}


def case_c16_wrapped(rng, idx, params):
    fn = ALL_FUNCS[idx % len(ALL_FUNCS)]
    mode = "amorph" if (idx // len(ALL_FUNCS)) % 2 == 0 else "hexital"
    stream, readings, meta = gen_list(rng, fn, params.get("size", 40))
    kw = gen_kwargs(rng, fn)
    n = len(stream)
    (init, chunks), shape = gen.gen_schedule(rng, n, rng.choice(["empty1", "empty1", "one1", "singles", "random", "few"]))
    scn = {"mode": mode, "fn": fn, "kwargs": kw, "stream": stream, "readings": readings, "init": init, "chunks": chunks,
           "use_args": rng.random() < 0.4}
    if mode == "amorph" and rng.random() < 0.25:
        scn["shared_args"] = True
    elif mode == "amorph" and rng.random() < 0.25:
        scn["rehomed"] = rng.randint(1, 6)
    if mode == "hexital":
        scn["callable"] = fn in TWO_NOLEN or rng.random() < 0.2  # above/below are not in the maps: only the callable form exists
        if (fn in ONE or fn in TWO_NOLEN) and rng.random() < 0.3:
            p = rng.randint(2, 4)  # (SMA period 1 raises on its own at index 0 - not this property's business)
            scn["pre"] = [{"indicator": "SMA", "period": p}]
            kw["indicator"] = f"SMA_{p}"
            if kw.get("indicator_two") == "D":
                kw["indicator_two"] = "B"
    found, stats = check_wrapped(scn)
    viol = _finish(params.get("prop", "C16"), scn, found, idx, 0, check_wrapped)
    meta.update({"fn": fn, "mode": mode, "schedule": shape, "fired": stats["truthy"] > 0, "raised_like_direct": bool(stats.get("raised"))})
    return {"nontrivial": n >= 2 and bool(chunks) and not stats.get("raised"), "key": hash(str(scn)), "violation": viol, "meta": meta,
            "evals": max(1, stats["evals"]), "sample": {"fn": fn, "mode": mode, "kwargs": kw, "n": n, "init": init, "chunks": chunks[:6]} if idx < 2 else None}


# ================================================================ C17 movement references

MOVE_FUNCS = ["above", "below", "rising", "falling", "mean_rising", "mean_falling", "highest", "lowest", "highestbar", "lowestbar",
              "value_range", "crossover", "crossunder"]
UNDET = object()


def _win(s, lo, hi):
    return [(j, s[j]) for j in range(max(lo, 0), hi + 1) if s[j] is not None]


def ref_movement(fn, scn, i, L):
    """set of acceptable results at index i (>= 1) with length L (>= 1), or UNDET"""
    kw = scn["kwargs"]
    if fn in ("above", "below"):
        a, b = series(scn, kw["indicator"])[i], series(scn, kw["indicator_two"])[i]
        if a is None or b is None:
            return [False]
        return [a > b if fn == "above" else a < b]
    if fn in ("crossover", "crossunder"):
        a, b = series(scn, kw["indicator_one"]), series(scn, kw["indicator_two"])
        for j in range(max(i - L + 1, 1), i + 1):
            if None in (a[j], b[j], a[j - 1], b[j - 1]):
                continue
            if fn == "crossover" and a[j] > b[j] and a[j - 1] < b[j - 1]:
                return [True]
            if fn == "crossunder" and a[j] < b[j] and a[j - 1] > b[j - 1]:
                return [True]
        return [False]
    s = series(scn, kw["indicator"])
    cur = s[i]
    if fn in ("rising", "falling", "mean_rising", "mean_falling"):
        prev = [v for _, v in _win(s, i - L, i - 1)]
        if cur is None or not prev:
            return [False]
        if fn == "rising":
            return [all(p < cur for p in prev)]
        if fn == "falling":
            return [all(p > cur for p in prev)]
        mean = sum(Fr(p) for p in prev) / len(prev)
        if mean != Fr(cur) and abs(mean - Fr(cur)) <= Fr(1, 10**9) * max(abs(mean), abs(Fr(cur))):
            return UNDET
        return [mean < Fr(cur) if fn == "mean_rising" else mean > Fr(cur)]
    if fn in ("highest", "lowest"):
        vals = [v for _, v in _win(s, i - L, i)]
        if not vals:
            return [None]
        return [max(vals) if fn == "highest" else min(vals)]
    if fn == "value_range":
        vals = [v for _, v in _win(s, i - L, i)]
        if L < 2 or len(vals) == 1:
            return UNDET
        if not vals:
            return [None]
        return [float(Fr(max(vals)) - Fr(min(vals)))]
    if fn in ("highestbar", "lowestbar"):
        acc = []
        for W in ((L + 1,) if STRICT_BAR_WINDOW else (L, L + 1)):
            w = _win(s, i - W + 1, i)
            if not w:
                return UNDET
            ext = max(v for _, v in w) if fn == "highestbar" else min(v for _, v in w)
            acc.append(i - max(j for j, v in w if v == ext))
        return acc
    raise KeyError(fn)


def _matches(got, accept, fn):
    for e in accept:
        if e is None or isinstance(e, bool):
            if got is e:
                return True
        elif isnum(got) and not isinstance(got, bool):
            if fn == "value_range":
                if cm.close_enough(float(got), float(e), rel=1e-12, absol=0.0):
                    return True
            elif got == e:
                return True
    return False


def check_movement(scn):
    fn = scn["fn"]
    f = funcs()[fn]
    kw = dict(scn["kwargs"])
    cs = build(scn)
    n = len(cs)
    found = {}
    stats = {"evals": 0, "truthy": 0, "undet": 0, "ambiguous": 0}
    lengths = scn["lengths"] if fn not in ("above", "below") else [1]
    for L in lengths:
        if fn not in ("above", "below"):
            kw["length"] = L
        for i in range(1, n):
            exp = ref_movement(fn, scn, i, L)
            if exp is UNDET:
                stats["undet"] += 1
                continue
            if len(set(map(repr, exp))) > 1:
                stats["ambiguous"] += 1
            r = _call(f, cs, kw, i)
            if r[0] == "exc":  # raising is C16's business
                stats["undet"] += 1
                continue
            stats["evals"] += 1
            got = r[1]
            if got not in (None, False, 0):
                stats["truthy"] += 1
            if _matches(got, exp, fn):
                # the same candle addressed from the end (negative index; -1 is the default of a direct call) means the same window
                r2 = _call(f, cs, kw, i - n)
                if r2[0] != "exc" and not _matches(r2[1], exp, fn):
                    found.setdefault("meaning-negative-index", {"index": i - n, "length": L, "observed": r2[1],
                                                                "expected": exp[0] if len(set(map(repr, exp))) == 1 else exp})
                continue
            names = named(scn)
            cur_missing = any(series(scn, nm)[i] is None for nm in names)
            if fn not in ("above", "below") and i - L < 0:
                clause = "clamped-window"
            elif got is True and cur_missing:
                clause = "true-on-missing"
            else:
                clause = "meaning"
            lo = max(0, i - L - 1)
            found.setdefault(clause, {"index": i, "length": L, "observed": got, "expected": exp[0] if len(set(map(repr, exp))) == 1 else exp,
                                      "window": {nm: series(scn, nm)[lo : i + 1] for nm in names}})
    return found, stats


def case_c17_movement(rng, idx, params):
    fn = MOVE_FUNCS[idx % len(MOVE_FUNCS)]
    n = rng.randint(2, params.get("size", 40))
    prices = dyadic_candles(rng, n)
    stream = with_ts(rng, prices)
    readings, kind = gen_readings(rng, n, dict_mode=rng.random() < 0.5)
    kw = gen_kwargs(rng, fn)
    kw.pop("length", None)
    lengths = sorted(set(rng.sample([1, 2, 3, 4, 5, 6, 8, 10, 13, 20, 45], 4)))
    scn = {"mode": "movement", "fn": fn, "kwargs": kw, "stream": stream, "readings": readings, "lengths": lengths}
    found, stats = check_movement(scn)
    viol = _finish("C17", scn, found, idx, idx // len(MOVE_FUNCS), check_movement)
    if viol:
        sc = dict(viol["scenario"])
        if viol.get("length") in sc.get("lengths", []):
            s2 = dict(sc, lengths=[viol["length"]])
            if viol["clause"] in check_movement(s2)[0]:
                viol["scenario"] = s2
    meta = {"fn": fn, "mode": "movement", "values": kind, "fired": stats["truthy"] > 0, "names": ",".join(named(scn))}
    return {"nontrivial": stats["evals"] >= 2, "key": hash(str(scn)), "violation": viol, "meta": meta, "evals": max(1, stats["evals"]),
            "sample": {"fn": fn, "kwargs": kw, "lengths": lengths, "n": n, "readings": readings[:3]} if idx < 2 else None}


# ================================================================ C17 geometry

GEOM = ["realbody", "shadow_upper", "shadow_lower", "high_low", "positive", "negative"]


def ref_geometry(t):
    _, o, h, l, c, _ = t
    return {"realbody": abs(Fr(o) - Fr(c)), "shadow_upper": Fr(h) - max(Fr(o), Fr(c)), "shadow_lower": min(Fr(o), Fr(c)) - Fr(l),
            "high_low": Fr(h) - Fr(l), "positive": c > o, "negative": c < o}


def check_geometry(scn):
    from hexital.analysis import movement

    cs = build(scn)
    found = {}
    ev = 0
    for i, (c, t) in enumerate(zip(cs, scn["stream"])):
        ref = ref_geometry(t)
        for k in GEOM:
            ev += 1
            got = getattr(c, k)
            if isinstance(ref[k], bool):
                good = got is ref[k]
            else:
                good = isnum(got) and cm.close_enough(float(got), float(ref[k]), rel=1e-12, absol=0.0)
            if not good:
                found.setdefault(k, {"fn": "candle", "index": i, "observed": got, "expected": ref[k] if isinstance(ref[k], bool) else float(ref[k]),
                                     "candle": list(t)})
        for k in ("positive", "negative"):
            f = getattr(movement, k)
            for form, got in (("candle", _call(f, c, {})), ("list,index", _call(f, cs, {}, i)),
                              ("list,neg-index", _call(f, cs, {}, i - len(cs)))):
                ev += 1
                if got[0] != "ok" or got[1] is not ref[k]:
                    found.setdefault(f"movement.{k}", {"fn": k, "index": i, "observed": {form: _short(got)}, "expected": ref[k], "candle": list(t)})
    return found, {"evals": ev, "truthy": 0}


def case_c17_geometry(rng, idx, params):
    n = rng.randint(1, 30)
    if rng.random() < 0.5:
        prices, style = dyadic_candles(rng, n, flat_p=0.15, zero_body_p=0.2), "dyadic"
    else:
        prices, style = gen.gen_prices(rng, n)
    scn = {"mode": "geometry", "fn": "candle", "stream": with_ts(rng, prices)}
    found, stats = check_geometry(scn)
    viol = None
    if found:
        clause = sorted(found)[idx % len(found)]
        det = found[clause]
        small = dict(scn, stream=[det["candle"]]) if clause in check_geometry(dict(scn, stream=[det["candle"]]))[0] else scn
        det = check_geometry(small)[0].get(clause, det)
        det = dict(det)
        fn = det.pop("fn", "candle")
        sig = f"C17:candle:{clause}" if fn == "candle" else f"C17:{fn}:candle-direction"
        viol = {"scenario": small, "clause": clause, "signature": sig, **det}
    return {"nontrivial": n >= 1, "key": hash(str(scn)), "violation": viol, "meta": {"mode": "geometry", "price": style}, "evals": stats["evals"],
            "sample": {"candles": scn["stream"][:2]} if idx < 1 else None}


# ================================================================ C17 patterns: clause model, witnesses


def _fr(t):
    return tuple(Fr(x) for x in t[1:5])  # o h l c


def _body(t):
    o, h, l, c = _fr(t)
    return abs(o - c)


def _range(t):
    o, h, l, c = _fr(t)
    return h - l


def _upper(t):
    o, h, l, c = _fr(t)
    return h - max(o, c)


def _lower(t):
    o, h, l, c = _fr(t)
    return min(o, c) - l


def _btop(t):
    o, h, l, c = _fr(t)
    return max(o, c)


def _bbot(t):
    o, h, l, c = _fr(t)
    return min(o, c)


def _avg(stream, metric, i, n, interp):
    """average of a metric over n candles ending at i ('incl') or at i-1 ('excl'); None if not enough history"""
    hi = i if interp == "incl" else i - 1
    lo = hi - n + 1
    if lo < 0:
        return None
    return sum(metric(stream[j]) for j in range(lo, hi + 1)) / n


def pattern_clauses(fn, stream, i, interp):
    """[(clause, kind, x, T)] for the documented shape at index i; kind in lt/gt/pos (pos: x is a signed gap, T the yardstick)"""
    t = stream[i]
    p = stream[i - 1]
    rng10 = _avg(stream, _range, i, 10, interp)
    body10 = _avg(stream, _body, i, 10, interp)
    if rng10 is None or body10 is None:
        return None
    yard = rng10 / 2
    if fn == "doji":
        return [("body-doji", "lt", _body(t), rng10 / 10)]
    if fn == "dojistar":
        pb10 = _avg(stream, _body, i - 1, 10, interp)
        if pb10 is None:
            return None
        po, _, _, pc = _fr(p)
        if pc > po:
            gap = _bbot(t) - _btop(p)
        elif pc < po:
            gap = _bbot(p) - _btop(t)
        else:
            gap = -10 * yard - 1
        return [("prev-body-long", "gt", _body(p), pb10), ("body-doji", "lt", _body(t), rng10 / 10), ("gap-with-trend", "pos", gap, yard)]
    if fn == "hammer":
        near = _avg(stream, _range, i - 1, 5, interp)
        if near is None:
            return None
        return [("body-short", "lt", _body(t), body10), ("lower-shadow-long", "gt", _lower(t), _body(t)),
                ("upper-shadow-veryshort", "lt", _upper(t), rng10 / 10), ("near-prev-low", "lt", _bbot(t) - _fr(p)[2], near / 5)]
    if fn == "inv_hammer":
        return [("body-short", "lt", _body(t), body10), ("upper-shadow-long", "gt", _upper(t), _body(t)),
                ("lower-shadow-veryshort", "lt", _lower(t), rng10 / 10), ("gap-down", "pos", _bbot(p) - _btop(t), yard)]
    raise KeyError(fn)


def _status(kind, x, T, m=2):
    """'holds' / 'fails' with margin m, or 'unclear'"""
    if kind == "lt":
        if T > 0 and m * x <= T:
            return "holds"
        if T > 0 and x >= m * T:
            return "fails"
    elif kind == "gt":
        if T > 0 and x >= m * T:
            return "holds"
        if T > 0 and m * x <= T:
            return "fails"
    elif kind == "pos":
        if T > 0 and x >= T:
            return "holds"
        if T > 0 and x <= -T:
            return "fails"
    return "unclear"


def pattern_status(fn, stream, i):
    """{clause: holds/fails/unclear} combined over both readings of the averaging window"""
    out = {}
    for interp in ("incl", "excl"):
        cl = pattern_clauses(fn, stream, i, interp)
        if cl is None:
            return None
        for name, kind, x, T in cl:
            st = _status(kind, x, T)
            out[name] = st if out.get(name, st) == st else "unclear"
    return out


def pattern_near_tie(fn, stream, i):
    """some threshold comparison is within float noise of equality (under either reading)"""
    for interp in ("incl", "excl"):
        cl = pattern_clauses(fn, stream, i, interp)
        if cl is None:
            continue
        scale = max(abs(x) for x in _fr(stream[i]))
        for name, kind, x, T in cl:
            if kind != "pos" and x != T and abs(x - T) <= Fr(1, 10**8) * max(scale, 1):
                return True
            if kind != "pos" and x == T and T != 0:
                return True  # an exact rational tie against an inexactly computed float threshold
    return False


CLAUSES = {fn: None for fn in PATTERNS}
CLAUSES["doji"] = ["body-doji"]
CLAUSES["dojistar"] = ["prev-body-long", "body-doji", "gap-with-trend"]
CLAUSES["hammer"] = ["body-short", "lower-shadow-long", "upper-shadow-veryshort", "near-prev-low"]
CLAUSES["inv_hammer"] = ["body-short", "upper-shadow-long", "lower-shadow-veryshort", "gap-down"]

G = 64  # constructed candles live on a 1/64 grid (history on 1/8): every value is an exact double


def _q(x, up=False):
    """Fraction -> multiple of 1/G (floor, or ceil)"""
    x = Fr(x) * G
    k = x.numerator // x.denominator
    if up and k != x:
        k += 1
    return Fr(k, G)


def _hist_stats(stream, i):
    """lower / upper bounds (over both window readings, whatever the candle at i looks like) of the averages used at i"""
    r9 = sum(_range(stream[j]) for j in range(i - 9, i))
    b9 = sum(_body(stream[j]) for j in range(i - 9, i))
    rex = _avg(stream, _range, i, 10, "excl")
    bex = _avg(stream, _body, i, 10, "excl")
    return {"r_lo": min(rex, r9 / 10), "r_hi": max(rex, r9 / 10), "b_lo": min(bex, b9 / 10), "b_hi": max(bex, b9 / 10), "r9": r9, "b9": b9}


def _mk(o, c, up, dn, v=7):
    o, c, up, dn = Fr(o), Fr(c), Fr(up), Fr(dn)
    return (None, float(o), float(max(o, c) + up), float(min(o, c) - dn), float(c), v)


def construct(rng, fn, violate):
    """history (>= 10 candles) + constructed candle(s) + short tail; returns (stream, witness index) or None.
    `violate` is None for a witness or the name of the single clause to break."""
    for _ in range(30):
        hist = [(None, float(o), float(h), float(l), float(c), v)
                for o, h, l, c, v in dyadic_candles(rng, rng.randint(10, 24), flat_p=0.03, zero_body_p=0.08)]
        if rng.random() < 0.35 and len(hist) >= 12:
            # one outlier body at the EDGE of the 10-candle windows that end at the witness / at its predecessor: an average taken over
            # a window shifted by one candle then differs by far more than the 2x margins
            j = len(hist) - rng.choice([9, 10, 10, 11])
            _, o_, h_, l_, c_, v_ = hist[j]
            big = float(rng.choice([16, 32, 64]))
            c2 = o_ + big if (rng.random() < 0.5 or o_ - big <= 1) else o_ - big
            hist[j] = (None, o_, max(h_, o_, c2), min(l_, o_, c2), c2, v_)
        stream = list(hist)
        f = lambda a, b: Fr(rng.randint(int(a * 1000), int(b * 1000)), 1000)
        # half of the draws sit right at the 2x margin so that a threshold that moved by more than 2x is noticed
        f_lo = lambda a, b: f(a, min(b, a * 1.25 + 0.01)) if rng.random() < 0.5 else f(a, b)
        f_hi = lambda a, b: f(max(a, b * 0.8), b) if rng.random() < 0.5 else f(a, b)
        flip = rng.random() < 0.5
        if fn == "dojistar":
            i = len(stream)  # the long candle
            st = _hist_stats(stream, i)
            po = Fr(stream[-1][4])
            if violate == "prev-body-long":
                pb = max(Fr(1, G), _q(f_hi(0.05, 0.49) * st["b_lo"]))
            else:
                pb = _q(f_lo(2.6, 6) * st["b_hi"] + Fr(1, G), up=True)
            up_trend = rng.random() < 0.5
            pc = po + pb if up_trend else po - pb
            stream.append(_mk(po, pc, _q(f(0, 0.3) * st["r_hi"]), _q(f(0, 0.3) * st["r_hi"])))
        i = len(stream)
        st = _hist_stats(stream, i)
        prev = stream[-1]
        pbot, ptop, plow = _bbot(prev), _btop(prev), _fr(prev)[2]
        if fn in ("doji", "dojistar"):
            if violate == "body-doji":
                k = f_lo(0.23, 3)
                b = _q(k * st["r_hi"] + Fr(1, G), up=True)
            else:
                k = 1
                b = _q(f_hi(0, 0.049) * st["r_lo"])
            shmax = 0.3 if k < 0.4 else 1.5  # the candle's own range feeds the inclusive average
            su, sl = _q(f(0, shmax) * st["r_hi"]), _q(f(0, shmax) * st["r_hi"])
            if fn == "doji":
                lo = Fr(prev[4]) + _q(f(-1, 1) * st["r_hi"])
            else:
                yard = max(st["r_hi"], (st["r9"] + b + su + sl) / 10) / 2
                g = _q(f_lo(1.0, 3) * yard + Fr(1, G), up=True)
                trend_up = Fr(prev[4]) > Fr(prev[1])
                if violate == "gap-with-trend":
                    # inside / beyond the wrong side of the long body
                    lo = (ptop - g - b) if trend_up else (pbot + g)
                else:
                    lo = (ptop + g) if trend_up else (pbot - g - b)
            o, c = (lo, lo + b) if flip else (lo + b, lo)
            stream.append(_mk(o, c, su, sl))
        else:
            if violate == "body-short":
                b = _q(f_lo(2.6, 6) * st["b_hi"] + Fr(1, G), up=True)
            else:
                b = max(Fr(1, G), _q(f_hi(0.05, 0.49) * st["b_lo"]))
            long_sh = _q(f_lo(2.0, 7) * b + Fr(1, G), up=True)
            short_sh = _q(f_hi(0, 0.5) * b)
            tiny = _q(f_hi(0, 0.049) * st["r_lo"])
            if fn == "hammer":
                ls = short_sh if violate == "lower-shadow-long" else long_sh
                us = tiny
                if violate == "upper-shadow-veryshort":
                    us = _q(f_lo(0.21, 1.5) * max(st["r_hi"], (st["r9"] + b + ls) / 10) + Fr(1, G), up=True)
                near_hi = max(_avg(stream, _range, i - 1, 5, "incl"), _avg(stream, _range, i - 1, 5, "excl")) / 5
                near_lo = min(_avg(stream, _range, i - 1, 5, "incl"), _avg(stream, _range, i - 1, 5, "excl")) / 5
                if violate == "near-prev-low":
                    lo = plow + _q(f_lo(2.0, 8) * near_hi + Fr(1, G), up=True)
                elif rng.random() < 0.5:
                    lo = plow + _q(f_hi(0, 0.5) * near_lo)
                else:
                    lo = plow - _q(f(0, 2) * st["r_hi"])
            else:
                us = short_sh if violate == "upper-shadow-long" else long_sh
                ls = tiny
                if violate == "lower-shadow-veryshort":
                    ls = _q(f_lo(0.21, 1.5) * max(st["r_hi"], (st["r9"] + b + us) / 10) + Fr(1, G), up=True)
                yard = max(st["r_hi"], (st["r9"] + b + us + ls) / 10) / 2
                g = _q(f_lo(1.0, 3) * yard + Fr(1, G), up=True)
                lo = (pbot + g) if violate == "gap-down" else (pbot - g - b)
            o, c = (lo, lo + b) if flip else (lo + b, lo)
            stream.append(_mk(o, c, us, ls))
        if min(x for t in stream for x in t[1:5]) <= 0:
            continue
        w = len(stream) - 1
        stat = pattern_status(fn, stream, w)
        if stat is None:
            continue
        want = {c: ("fails" if c == violate else "holds") for c in CLAUSES[fn]}
        if stat != want:
            continue
        tail = [(None, float(o), float(h), float(l), float(c), v) for o, h, l, c, v in dyadic_candles(rng, rng.randint(0, 3))]
        return stream + tail, w
    return None


def transform(stream, mul=1, add=0):
    out = []
    for t in stream:
        ts, o, h, l, c, v = t
        out.append([ts] + [x * mul + add for x in (o, h, l, c)] + [v])
    return out


SCALES = [2, 4, 8, 0.5, 0.25, 3, 5, 10, 2.0 ** -14, 2.0 ** -20, 2.0 ** 12]   # powers of two scale exactly, however small
SHIFTS = [0.125, 1, 16.5, 100, 1000.125, 4096, -0.5, -8.25]


def _exact_ok(stream, pow2=False):
    """all prices still multiples of 1/64 with plenty of mantissa left and positive; scaling by a power of two is exact
    wherever nothing underflows, however small the result"""
    for t in stream:
        for x in t[1:5]:
            if pow2:
                if not (2.0 ** -200 < x < 2**30):
                    return False
            elif not (0 < x < 2**30) or (x * 64) != int(x * 64):
                return False
    return True


def check_pattern(scn):
    """witness / counter-witness at witness_index, on the base stream and on the recorded scaled / shifted copies"""
    fn, w, violate = scn["fn"], scn["witness_index"], scn.get("violate")
    f = funcs()[fn]
    found = {}
    ev = 0
    expected = violate is None
    for label, mul, add in [("base", 1, 0)] + [("scale", m, 0) for m in scn.get("scales", [])] + [("shift", 1, a) for a in scn.get("shifts", [])]:
        stream = transform(scn["stream"], mul, add)
        if label != "base" and not _exact_ok(stream, pow2=(label == "scale" and _is_pow2(mul))):
            continue
        stat = pattern_status(fn, stream, w)
        want = {c: ("fails" if c == violate else "holds") for c in CLAUSES[fn]}
        if stat != want:  # cannot happen for exact transforms; keep the oracle silent rather than guess
            continue
        r = _call(f, build(scn, stream=stream, readings=[]), {}, w)
        ev += 1
        if r[0] == "exc":
            continue
        if bool(r[1]) is expected:
            continue
        if label == "base":
            clause = "witness-not-reported" if expected else f"reported-despite:{violate}"
        else:
            clause = f"{label}-invariance"
        found.setdefault(clause, {"index": w, "observed": _short(r), "expected": expected, "transform": {"mul": mul, "add": add},
                                  "candles": [list(t[1:5]) for t in stream[max(0, w - 1) : w + 1]],
                                  "clauses": {k: v for k, v in stat.items()}})
    return found, {"evals": ev, "truthy": 0}


def case_c17_pattern(rng, idx, params):
    fn = PATTERNS[idx % len(PATTERNS)]
    kinds = [None] + CLAUSES[fn]
    violate = kinds[(idx // len(PATTERNS)) % len(kinds)]
    built = construct(rng, fn, violate)
    meta = {"fn": fn, "mode": "pattern", "kind": "witness" if violate is None else f"counter:{violate}"}
    if built is None:
        meta["constructed"] = False
        return {"nontrivial": False, "key": ("noconstruct", idx), "violation": None, "meta": meta, "sample": None}
    stream, w = built
    if rng.random() < 0.3:
        # volume is no part of any documented shape: an untraded (zero-volume) witness is judged like any other
        stream = list(stream)
        stream[w] = tuple(stream[w][:5]) + (rng.choice([0, 0, 0.0, 250000]),)
    scn = {"mode": "pattern", "fn": fn, "violate": violate, "witness_index": w, "stream": [list(t) for t in stream],
           "scales": rng.sample(SCALES, 3), "shifts": rng.sample(SHIFTS, 3)}
    found, stats = check_pattern(scn)
    viol = None
    if found:
        order = sorted(found, key=lambda c: (c.endswith("invariance"), c))
        clause = order[0]
        small = dict(scn)
        det = found[clause]
        if clause.endswith("invariance"):
            small["scales"] = [det["transform"]["mul"]] if clause.startswith("scale") else []
            small["shifts"] = [det["transform"]["add"]] if clause.startswith("shift") else []
        else:
            small["scales"], small["shifts"] = [], []
            small["stream"] = small["stream"][: w + 1] if clause in check_pattern(dict(small, stream=small["stream"][: w + 1]))[0] else small["stream"]
        viol = {"scenario": small, "clause": clause, "signature": f"C17:{fn}:{clause}", **det}
    return {"nontrivial": True, "key": hash(str(scn)), "violation": viol, "meta": meta, "evals": max(1, stats["evals"]),
            "sample": {"fn": fn, "kind": meta["kind"], "witness_index": w, "candles": scn["stream"][w - 1 : w + 1]} if idx < 2 else None}


# ================================================================ C17 invariance on random lists

INV_FUNCS = PATTERNS + ["above", "below", "rising", "falling", "mean_rising", "mean_falling", "crossover", "crossunder", "highestbar",
                        "lowestbar", "positive", "negative"]
PRICE_NAMES = ["open", "high", "low", "close"]


def _is_pow2(mul):
    q = Fr(mul)
    a, b = q.numerator, q.denominator
    return a > 0 and (a & (a - 1)) == 0 and (b & (b - 1)) == 0 and (a == 1 or b == 1)


def check_invariance(scn):
    fn = scn["fn"]
    f = funcs()[fn]
    kw = scn.get("kwargs", {})
    base = scn["stream"]
    n = len(base)
    cs0 = build(scn, stream=base, readings=[])
    found = {}
    ev = fired = 0
    for label, mul, add in [("scale", m, 0) for m in scn.get("scales", [])] + [("shift", 1, a) for a in scn.get("shifts", [])]:
        st = transform(base, mul, add)
        if not _exact_ok(st, pow2=(label == "scale" and _is_pow2(mul))):
            continue
        cs1 = build(scn, stream=st, readings=[])
        pow2 = label == "scale" and _is_pow2(mul)
        for i in range(n):
            if fn in PATTERNS and not pow2 and i >= 10 and (pattern_near_tie(fn, base, i) or pattern_near_tie(fn, st, i)):
                continue
            a, b = _call(f, cs0, kw, i), _call(f, cs1, kw, i)
            if a[0] == "exc" or b[0] == "exc":
                continue
            ev += 1
            fired += a[1] not in (None, False, 0)
            if not _same(a, b):
                found.setdefault(f"{label}-invariance", {"index": i, "transform": {"mul": mul, "add": add},
                                                         "observed": {"base": _short(a), "transformed": _short(b)}, "expected": "equal"})
    return found, {"evals": ev, "truthy": fired}


def case_c17_invariance(rng, idx, params):
    fn = INV_FUNCS[idx % len(INV_FUNCS)]
    n = rng.randint(11, 40) if fn in PATTERNS else rng.randint(2, 30)
    prices = dyadic_candles(rng, n)
    if fn in PATTERNS:
        prices = inject_shapes(rng, prices)
    stream = [[None] + [float(x) for x in p[:4]] + [p[4]] for p in prices]
    kw = {}
    if fn in ONE:
        kw = {"indicator": rng.choice(PRICE_NAMES), "length": rng.choice([1, 2, 3, 4, 6, 9])}
    elif fn in TWO_NOLEN:
        a, b = rng.sample(PRICE_NAMES, 2)
        kw = {"indicator": a, "indicator_two": b}
    elif fn in TWO_LEN:
        a, b = rng.sample(PRICE_NAMES, 2)
        kw = {"indicator_one": a, "indicator_two": b, "length": rng.choice([1, 2, 3, 5])}
    scn = {"mode": "invariance", "fn": fn, "kwargs": kw, "stream": stream, "scales": rng.sample(SCALES, 3), "shifts": rng.sample(SHIFTS, 3)}
    found, stats = check_invariance(scn)
    viol = None
    if found:
        clause = sorted(found)[0]
        det = found[clause]
        small = dict(scn, scales=[det["transform"]["mul"]] if clause.startswith("scale") else [],
                     shifts=[det["transform"]["add"]] if clause.startswith("shift") else [])
        small = shrink(small, lambda s: clause in check_invariance(s)[0])
        small.pop("readings", None)
        det = check_invariance(small)[0].get(clause, det)
        viol = {"scenario": small, "clause": clause, "signature": f"C17:{fn}:{clause}", **det}
    return {"nontrivial": stats["evals"] >= 2, "key": hash(str(scn)), "violation": viol,
            "meta": {"fn": fn, "mode": "invariance", "fired": stats["truthy"] > 0}, "evals": max(1, stats["evals"]),
            "sample": {"fn": fn, "kwargs": kw, "n": n, "scales": scn["scales"], "shifts": scn["shifts"]} if idx < 1 else None}


# ================================================================ replay

CHECKERS = {"direct": check_direct, "amorph": check_wrapped, "hexital": check_wrapped, "movement": check_movement,
            "geometry": check_geometry, "pattern": check_pattern, "invariance": check_invariance}


def replay(witness):
    scn = witness["scenario"]
    found, _ = CHECKERS[scn["mode"]](scn)
    want = witness.get("clause")
    if want and want in found:
        return {"fails": True, "detail": {"clause": want, **found[want]}}
    if found:
        c = sorted(found)[0]
        return {"fails": True, "detail": {"clause": c, **found[c]}}
    return {"fails": False, "detail": None}

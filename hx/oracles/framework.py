"""Oracles for the framework properties on the real code: C01 (incremental = batch), C02 (closed
candles are final), C14 (maintenance operations converge to the batch state), C07 (constant work),
C15b (trimming leaves readings unchanged)."""
import copy
import sys

from .. import gen, specs
from . import common as cm


def snapshot(candles):
    return [(cm.candle_tuple(c), copy.deepcopy(c.indicators), copy.deepcopy(c.sub_indicators)) for c in candles]


def same(a, b):
    """exact equality of two snapshots (NaN-safe: a NaN anywhere is itself reported elsewhere)"""
    return a == b


def first_diff(a, b):
    for i, (x, y) in enumerate(zip(a, b)):
        if x != y:
            keys = []
            for d1, d2, nm in ((x[1], y[1], "indicators"), (x[2], y[2], "sub_indicators")):
                for k in sorted(set(d1) | set(d2)):
                    if d1.get(k, "<absent>") != d2.get(k, "<absent>"):
                        keys.append(f"{nm}[{k}]: {d1.get(k, '<absent>')} != {d2.get(k, '<absent>')}")
            if x[0] != y[0]:
                keys.append(f"candle: {x[0]} != {y[0]}")
            return {"index": i, "diff": keys[:4]}
    if len(a) != len(b):
        return {"index": min(len(a), len(b)), "diff": [f"lengths {len(a)} != {len(b)}"]}
    return None


def gen_any_spec(rng, amorph_share=0.2):
    hot = [k for k in specs.ALL_KINDS if k in cm.FOCUS]
    if hot and rng.random() < 0.6:      # change-directed: kinds whose source differs from the recorded baseline
        return specs.gen_spec(rng, hot)
    if rng.random() < amorph_share:
        return specs.gen_amorph_spec(rng)
    return specs.gen_spec(rng)


def gen_cfg(rng, spec, allow_tf=True):
    spec = dict(spec)
    step = None
    if allow_tf and rng.random() < 0.4:
        tf = gen.gen_timeframe(rng)
        spec["tf"] = tf
        spec["fill"] = rng.random() < 0.4
        step = max(1, gen.tf_seconds(tf) // rng.choice([1, 2, 3, 5]))
    return spec, step


def kind_of(spec):
    return spec["kind"] + (":" + spec["fn"] if spec["kind"] == "AMORPH" else "")


# ------------------------------------------------------------------------------------ C01


def _encoded(rows, enc):
    """the appended chunk as Candle objects, or - the same candle data - as dicts / lists (rows without a stamp stay Candle objects)"""
    if not enc or enc == "candle" or any(t[0] is None for t in rows):
        return cm.mk_candles(rows)
    stamps = [c.timestamp for c in cm.mk_candles(rows)]   # naive, or aware under `cm.aware`
    if enc == "dict":
        return [{"open": o, "high": h, "low": l, "close": c, "volume": v, "timestamp": st} for (ts, o, h, l, c, v), st in zip(rows, stamps)]
    return [[st, o, h, l, c, v] for (ts, o, h, l, c, v), st in zip(rows, stamps)]


def run_incremental(spec, stream, init, chunks, on_step=None, enc=None):
    ind = specs.build_indicator(spec, cm.mk_candles(stream[:init]))
    i = init
    if on_step:
        ind.calculate()
        on_step(ind, i)
    for k in chunks:
        ind.append(_encoded(stream[i : i + k], enc))
        i += k
        if on_step:
            on_step(ind, i)
    if not chunks:
        ind.calculate()
    return ind


def run_batch(spec, stream):
    ind = specs.build_indicator(spec, cm.mk_candles(stream))
    ind.calculate()
    return ind


def c01_check(scn):
    with cm.aware(scn.get("tzoff")):
        return _c01_check(scn)


def _c01_check(scn):
    try:
        b = snapshot(run_batch(scn["spec"], scn["stream"]).candles)
    except Exception as e:
        return None  # totality is C09's subject; C01 compares runs that complete
    try:
        a = snapshot(run_incremental(scn["spec"], scn["stream"], scn["init"], scn["chunks"], enc=scn.get("enc")).candles)
    except Exception as e:
        return {"clause": "incremental-raises", "observed": repr(e), "expected": "same as batch (which completed)"}
    d = first_diff(a, b)
    if d:
        return {"clause": "incremental!=batch", "observed": d, "expected": "identical candles and readings"}
    return None


def _fix_sched(scn):
    s = dict(scn)
    n = len(s["stream"])
    init = min(s.get("init", n), n)
    rest = n - init
    chunks = []
    for k in s.get("chunks", []):
        if rest <= 0:
            break
        k = min(k, rest)
        chunks.append(k)
        rest -= k
    if rest > 0:
        chunks.append(rest)
    s["init"], s["chunks"] = init, chunks
    return s


def c01_case(rng, idx, params):
    spec, step = gen_cfg(rng, gen_any_spec(rng))
    if params.get("kinds"):
        spec, step = gen_cfg(rng, specs.gen_spec(rng, params["kinds"]))
    n = rng.randint(0, params.get("size", 60))
    stream, meta = gen.gen_stream(rng, n, price_style=gen.style_for(rng, spec["kind"]), step=step)
    (init, chunks), shape = gen.gen_schedule(rng, n)
    scn = {"spec": spec, "stream": stream, "init": init, "chunks": chunks}
    if rng.random() < 0.12 and stream and stream[0][0] is not None:
        scn["tzoff"] = rng.choice([330, 345, 60, -300, 765, 0, -210])   # aware stamps with a fixed offset (not a multiple of most timeframes)
    if rng.random() < 0.25:
        scn["enc"] = rng.choice(["dict", "list"])   # the appended chunks as dicts / lists: the same stream, so the same end state
    bad = c01_check(scn)
    viol = None
    if bad:
        small = _fix_sched(cm.shrink_stream(scn, lambda s: c01_check(_fix_sched(s)) is not None))
        bad = c01_check(small) or bad
        viol = {"scenario": small, **bad, "signature": f"C01:{kind_of(spec)}:{bad['clause']}"}
    meta.update({"kind": kind_of(spec), "schedule": shape, "tf": bool(spec.get("tf")), "fill": bool(spec.get("fill"))})
    return {"nontrivial": n >= 3 and len(chunks) >= 1, "key": hash(str(scn)), "violation": viol, "meta": meta,
            "sample": {"spec": spec, "n": n, "init": init, "chunks": chunks[:8]} if idx < 2 else None}


def c01_replay(w):
    bad = c01_check(w["scenario"])
    return {"fails": bad is not None, "detail": bad}


# ------------------------------------------------------------------------------------ C02


def c02_check(scn):
    with cm.aware(scn.get("tzoff")):
        return _c02_check(scn)


def _c02_check(scn):
    spec, stream = scn["spec"], scn["stream"]
    snaps = []

    def on_step(ind, consumed):
        s = snapshot(ind.candles)
        closed = s[:-1] if spec.get("tf") and s else s
        snaps.append((consumed, closed, s))

    try:
        run_incremental(spec, stream, scn["init"], scn["chunks"], on_step)
    except Exception:
        return None
    for j in range(len(snaps)):
        for k in range(j + 1, len(snaps)):
            closed, later = snaps[j][1], snaps[k][2]
            if spec.get("life") is not None:
                # trimming pops old candles: compare the closed candles that are still retained later, by timestamp
                by_ts = {c[0][0]: c for c in later}
                kept = [c for c in closed if c[0][0] in by_ts]
                if kept != [by_ts[c[0][0]] for c in kept]:
                    d = first_diff(kept, [by_ts[c[0][0]] for c in kept])
                    return {"clause": "repaint-live", "observed": {"at": snaps[j][0], "later": snaps[k][0], **(d or {})},
                            "expected": "a closed candle that is still retained is unchanged"}
                continue
            if later[: len(closed)] != closed:
                d = first_diff(closed, later[: len(closed)])
                return {"clause": "repaint-live", "observed": {"at": snaps[j][0], "later": snaps[k][0], **(d or {})},
                        "expected": "closed candles of an earlier snapshot are a prefix of every later snapshot"}
    if spec.get("life") is not None:
        return None  # the batch clause compares whole lists; trimming is C15's subject
    # batch over a longer list vs batch over a prefix
    try:
        full = snapshot(run_batch(spec, stream).candles)
        for cut in scn.get("cuts", []):
            part = snapshot(run_batch(spec, stream[:cut]).candles)
            closed = part[:-1] if spec.get("tf") and part else part
            if full[: len(closed)] != closed:
                d = first_diff(closed, full[: len(closed)])
                return {"clause": "look-ahead-batch", "observed": {"cut": cut, **(d or {})},
                        "expected": "batch readings of a prefix equal the readings of the longer batch"}
    except Exception:
        return None
    return None


def c02_case(rng, idx, params):
    spec, step = gen_cfg(rng, gen_any_spec(rng, 0.3))
    n = rng.randint(0, params.get("size", 40))
    stream, meta = gen.gen_stream(rng, n, price_style=gen.style_for(rng, spec["kind"]), step=step)
    if rng.random() < 0.15:
        spec["ha"] = True
    if rng.random() < 0.2 and n > 4:
        # lifespan case: strictly increasing stamps so that retained candles can be matched by timestamp
        stream, meta = gen.gen_stream(rng, n, ts_style=rng.choice(["regular", "gaps", "phase"]), step=step)
        gaps = [b[0] - a[0] for a, b in zip(stream, stream[1:])]
        spec["life"] = max(gaps) * rng.randint(2, 12)
    (init, chunks), shape = gen.gen_schedule(rng, n)
    cuts = sorted({rng.randint(0, n) for _ in range(3)}) if n else []
    scn = {"spec": spec, "stream": stream, "init": init, "chunks": chunks, "cuts": cuts}
    if rng.random() < 0.15 and stream and stream[0][0] is not None:
        scn["tzoff"] = rng.choice([330, 345, 60, -300, 765, 0, -210])   # aware stamps with a fixed offset (not a multiple of most timeframes)
    bad = c02_check(scn)
    viol = None
    if bad:
        viol = {"scenario": scn, **bad, "signature": f"C02:{kind_of(spec)}:{bad['clause']}"}
    meta.update({"kind": kind_of(spec), "schedule": shape, "tf": bool(spec.get("tf"))})
    return {"nontrivial": n >= 3 and len(chunks) >= 1, "key": hash(str(scn)), "violation": viol, "meta": meta,
            "sample": {"spec": spec, "n": n, "chunks": chunks[:8], "cuts": cuts} if idx < 2 else None}


def c02_replay(w):
    bad = c02_check(w["scenario"])
    return {"fails": bad is not None, "detail": bad}


# ------------------------------------------------------------------------------------ C14


def tree_names(ind):
    names = {ind.name}
    for s in list(ind.sub_indicators.values()) + list(ind.managed_indicators.values()):
        names |= tree_names(s)
    return names


def _batch_raises(spec, stream):
    """does a plain batch run over some prefix of the stream raise as well?"""
    for k in range(1, len(stream) + 1):
        try:
            run_batch(spec, stream[:k])
        except Exception:
            return True
    return False


def c14_check(scn):
    spec, stream, prog = scn["spec"], scn["stream"], scn["program"]
    ind = specs.build_indicator(spec, [])
    consumed = 0
    for op in prog:
        try:
            if op[0] == "append":
                ind.append(cm.mk_candles(stream[consumed : consumed + op[1]]))
                consumed += op[1]
            elif op[0] == "calculate":
                before = snapshot(ind.candles)
                ind.calculate()
                mid = snapshot(ind.candles)
                ind.calculate()
                if snapshot(ind.candles) != mid:
                    return {"clause": "calculate-not-idempotent", "observed": first_diff(mid, snapshot(ind.candles)), "expected": "no change"}
            elif op[0] == "purge":
                ind.calculate()
                names = tree_names(ind)
                ind.purge()
                left = sorted({k for c in ind.candles for k in list(c.indicators) + list(c.sub_indicators) if k in names})
                if left:
                    return {"clause": "purge-leaves-entries", "observed": left[:5], "expected": "every entry written by the indicator tree removed"}
            elif op[0] == "recalculate":
                ind.calculate()
                before = snapshot(ind.candles)
                ind.recalculate()
                after = snapshot(ind.candles)
                if before != after:
                    return {"clause": "recalculate-differs", "observed": first_diff(before, after), "expected": "same readings"}
            elif op[0] == "calculate_index":
                ind.calculate()
                n = len(ind.candles)
                if n == 0:
                    continue
                i = op[1] % n
                before = snapshot(ind.candles)
                ind.calculate_index(i if op[2] else i - n)
                after = snapshot(ind.candles)
                if before != after:
                    return {"clause": "calculate_index-differs", "observed": {"i": i, "negative": not op[2], **(first_diff(before, after) or {})},
                            "expected": "recomputing a computed index reproduces it"}
        except Exception as e:
            if _batch_raises(spec, stream[: consumed + (op[1] if op[0] == "append" else 0)]):
                return None  # the indicator itself cannot digest this input (C09's subject), not the maintenance operation
            return {"clause": f"{op[0]}-raises", "observed": repr(e), "expected": "no exception"}
    try:
        ind.calculate()
    except Exception as e:
        if _batch_raises(spec, stream[:consumed]):
            return None
        return {"clause": "final-calculate-raises", "observed": repr(e), "expected": "no exception"}
    try:
        twin = run_batch(spec, stream[:consumed])
    except Exception:
        return None
    d = first_diff(snapshot(ind.candles), snapshot(twin.candles))
    if d:
        return {"clause": "final!=batch", "observed": d, "expected": "batch readings"}
    return None


def c14_case(rng, idx, params):
    spec, step = gen_cfg(rng, gen_any_spec(rng, 0.15), allow_tf=rng.random() < 0.5)
    n = rng.randint(2, params.get("size", 40))
    stream, meta = gen.gen_stream(rng, n, price_style=gen.style_for(rng, spec["kind"]), step=step)
    prog = []
    left = n
    for _ in range(rng.randint(2, params.get("ops", 14))):
        k = rng.random()
        if k < 0.45 and left > 0:
            c = rng.randint(1, min(left, 8))
            prog.append(("append", c))
            left -= c
        elif k < 0.6:
            prog.append(("calculate",))
        elif k < 0.72:
            prog.append(("purge",))
        elif k < 0.84:
            prog.append(("recalculate",))
        else:
            prog.append(("calculate_index", rng.randint(0, 1000), rng.random() < 0.5))
    scn = {"spec": spec, "stream": stream, "program": prog}
    bad = c14_check(scn)
    viol = None
    if bad:
        # shrink the program: drop operations while it still fails
        p = list(prog)
        i = 0
        while i < len(p):
            q = p[:i] + p[i + 1 :]
            if sum(o[1] for o in q if o[0] == "append") and c14_check({**scn, "program": q}):
                p = q
            else:
                i += 1
        scn = {**scn, "program": p}
        bad = c14_check(scn) or bad
        viol = {"scenario": scn, **bad, "signature": f"C14:{kind_of(spec)}:{bad['clause']}"}
    meta.update({"kind": kind_of(spec), "tf": bool(spec.get("tf")), "ops": len(prog)})
    return {"nontrivial": len(prog) >= 3 and n >= 3, "key": hash(str(scn)), "violation": viol, "meta": meta,
            "sample": {"spec": spec, "n": n, "program": prog[:10]} if idx < 2 else None}


def c14_replay(w):
    s = w["scenario"]
    s = {**s, "program": [tuple(o) for o in s["program"]]}
    bad = c14_check(s)
    return {"fails": bad is not None, "detail": bad}


# ------------------------------------------------------------------------------------ C07

PROFILED = ("/hexital/core/indicator.py", "/hexital/indicators/", "/hexital/analysis/", "/hexital/utils/candles.py",
            "/hexital/utils/indexing.py")


class RecList(list):
    """a list that records which indices are read through it"""

    touched = set()

    def _note(self, i):
        n = len(self)
        if isinstance(i, slice):
            RecList.touched.update(range(*i.indices(n)))
            return
        if i < 0:
            i += n
        RecList.touched.add(i)

    def __getitem__(self, i):
        self._note(i)
        return list.__getitem__(self, i)

    def __iter__(self):
        RecList.touched.update(range(len(self)))
        return list.__iter__(self)

    def __reversed__(self):
        RecList.touched.update(range(len(self)))
        return list.__reversed__(self)


def measure_append(spec, stream, n, k=1, with_manager=False, form="list", edit=False):
    """(#calls into indicator code, #distinct candles read through the list) for the append of candles n .. n+k-1; form: the
    appended data as a list of Candle objects, ONE bare Candle object, a dict or a flat list (k = 1)"""
    cands = RecList(cm.mk_candles(stream[:n]))
    ind = specs.build_indicator(spec, cands, with_manager=with_manager)
    ind.calculate()
    if edit and isinstance(getattr(ind, "period", None), int):
        ind.period = ind.period + 1     # (see measure_hexital_append)
    new = cm.mk_candles(stream[n : n + k])
    if k == 1 and form == "bare":
        new = new[0]
    elif k == 1 and form == "dict":
        c = new[0]
        new = {"open": c.open, "high": c.high, "low": c.low, "close": c.close, "volume": c.volume, "timestamp": c.timestamp}
    elif k == 1 and form == "flat":
        c = new[0]
        new = [c.open, c.high, c.low, c.close, c.volume, c.timestamp]
    count = [0]

    def prof(frame, event, arg):
        if event == "call":
            fn = frame.f_code.co_filename
            if any(p in fn for p in PROFILED):
                count[0] += 1

    RecList.touched = set()
    sys.setprofile(prof)
    try:
        ind.append(new)
    finally:
        sys.setprofile(None)
    return count[0], len(RecList.touched)


def c07_check(scn):
    spec, stream = scn["spec"], scn["stream"]
    # the short run is a SUFFIX of the long one, so both appends see the same recent candles
    k = scn.get("chunk", 1)
    total = len(stream) - k
    mgr = bool(scn.get("with_manager"))
    res = [measure_append(spec, stream[total - n :], n, k, mgr, scn.get("form", "list"), bool(scn.get("edit"))) for n in scn["lengths"]]
    base_calls, base_reach = res[0]
    for n, (calls, reach) in zip(scn["lengths"][1:], res[1:]):
        if calls > base_calls * 1.02 + 3:
            return {"clause": "work-grows", "observed": {"n": scn["lengths"], "calls": [r[0] for r in res]},
                    "expected": "number of calls into indicator code per append independent of history length"}
        if reach > base_reach + 2 and not mgr:   # with a timeframe the manager itself re-walks the list (outside the property)
            return {"clause": "window-grows", "observed": {"n": scn["lengths"], "candles_read": [r[1] for r in res]},
                    "expected": "number of distinct candles read per append independent of history length"}
    return None


def c07_case(rng, idx, params):
    spec = gen_any_spec(rng, 0.3)
    if rng.random() < 0.15:
        spec = {"kind": "AMORPH", "fn": rng.choice(["doji", "dojistar", "hammer", "inv_hammer"]), "round": 4}
    if spec["kind"] == "AMORPH" and spec["fn"] in ("doji", "dojistar", "hammer", "inv_hammer") and rng.random() < 0.7:
        spec["lookback"] = rng.choice([1, 2, 5, 12])
    lengths = params.get("lengths", [120, 600])
    # a stressing style for the kind half of the time (e.g. a counted condition that never breaks: the streak grows with the history)
    style = gen.style_for(rng, spec["kind"], prob=0.5) or rng.choice(["walk", "jumpy", "ints", "allzerovol", "flat", "zerovol", "repeat", "rising", "falling"])
    chunk = rng.choice([1, 1, 1, 2, 2, 3])
    stream, meta = gen.gen_stream(rng, max(lengths) + chunk, price_style=style, ts_style="regular", step=60)
    scn = {"spec": spec, "stream": stream, "lengths": lengths, "chunk": chunk}
    if rng.random() < 0.25 and spec["kind"] != "AMORPH":
        # on a gap-filling timeframe: the appended candle(s) arrive after a hole of a few buckets, so the manager inserts several
        # candles in front of them and MORE THAN ONE candle is pending when the indicator resumes
        spec = dict(spec, tf=rng.choice(["T1", "T2"]), fill=True)
        gap = rng.choice([2, 3, 5]) * 120
        stream = stream[:-chunk] + [((c[0] + gap),) + tuple(c[1:]) for c in stream[-chunk:]]
        scn = {"spec": spec, "stream": stream, "lengths": lengths, "chunk": chunk, "with_manager": True}
    elif rng.random() < 0.2 and spec["kind"] != "AMORPH":
        # a lifespan whose window is full at both history lengths (every append pops as many candles as it adds: list positions shift
        # under the indicator), or a collapsing timeframe above the one-minute feed (an append merges into the still-forming bucket and
        # the same index is computed again): neither may cost more on a longer history
        if rng.random() < 0.5:
            spec = dict(spec, life=(min(lengths) // 2) * 60)
        else:
            spec = dict(spec, tf=rng.choice(["T3", "T5"]))
        scn = {"spec": spec, "stream": stream, "lengths": lengths, "chunk": chunk, "with_manager": True}
    if chunk == 1:
        scn["form"] = rng.choice(["list", "bare", "bare", "dict", "flat"])   # every way of handing over ONE candle costs the same
    if rng.random() < 0.1:
        scn["edit"] = True
    meta["chunk"] = chunk
    meta["edit"] = bool(scn.get("edit"))
    meta["form"] = scn.get("form", "list")
    meta["fill_gap"] = bool(scn.get("with_manager"))
    try:
        bad = c07_check(scn)
    except Exception as e:
        bad = None  # exceptions are C09's subject
    viol = {"scenario": scn, **bad, "signature": f"C07:{kind_of(spec)}:{bad['clause']}"} if bad else None
    meta.update({"kind": kind_of(spec)})
    return {"nontrivial": True, "key": hash(str(spec) + str(stream[:3])), "violation": viol, "meta": meta,
            "sample": {"spec": spec, "lengths": lengths} if idx < 2 else None}


def c07_replay(w):
    bad = c07_check(w["scenario"])
    return {"fails": bad is not None, "detail": bad}


# ------------------------------------------------------------------------------------ C15b


LOOKBACK = {  # candles of history a new reading needs, as a function of the spec (generous upper bounds)
}


def c15b_check(scn):
    """trimmed run vs untrimmed twin under the same schedule: readings on retained candles equal"""
    spec, stream = scn["spec"], scn["stream"]
    plain = {k: v for k, v in spec.items() if k != "life"}
    try:
        # (the trimmed object's public column is looked at after every append, as a polling user would)
        a = run_incremental(spec, stream, scn["init"], scn["chunks"], on_step=(lambda ind, i: ind.as_list()) if scn.get("poll") else None)
        b = run_incremental(plain, stream, scn["init"], scn["chunks"])
    except Exception:
        return None
    if scn.get("poll"):
        col, own = a.as_list(), [c.indicators.get(a.name) for c in a.candles]
        if not same(col, own):
            return {"clause": "as_list-of-retained", "observed": first_diff(col, own), "expected": "as_list() = the readings on the retained candles, in order"}
    sa, sb = snapshot(a.candles), snapshot(b.candles)
    tail = sb[len(sb) - len(sa):] if len(sa) <= len(sb) else None
    if tail is None or [x[0] for x in sa] != [x[0] for x in tail]:
        return {"clause": "window", "observed": [x[0][0] for x in sa][:5], "expected": "a suffix of the untrimmed candles"}
    if scn.get("window_only"):   # pauses longer than the lifespan: no look-back survives, only the first clause applies
        return None
    d = first_diff(sa, tail)
    if d:
        return {"clause": "readings-differ", "observed": d, "expected": "readings of the untrimmed run"}
    return None


RECURSIVE_KINDS = ["EMA", "RMA", "OBV", "VWAP", "ATR", "RSI", "MACD", "KC", "SUPERTREND", "TSI", "ADX", "COUNTER", "HLA", "TR"]


def c15b_case(rng, idx, params):
    """purely recursive indicators: once seeded, one predecessor inside the surviving window is all a new
    reading needs.  The stream is dense first (the window holds the whole warm-up, so the trimmed run seeds
    exactly like the untrimmed one) and then 8x sparser (the window shrinks to a few candles)."""
    spec = specs.gen_spec(rng, RECURSIVE_KINDS, max_period=12)
    biggest = max([v for k, v in spec.items() if k in ("period", "fast", "slow", "signal", "smooth") and isinstance(v, int)] or [1])
    warm = 4 * biggest + 6
    n = 2 * (warm + rng.randint(4, 20))
    step = rng.choice([1, 10, 60, 300])
    stream, meta = gen.gen_stream(rng, n, ts_style="phase", step=step)
    k = max(warm + 2, 17)
    life = k * step + rng.randint(0, step - 1)
    meta_tight = rng.random() < 0.4
    if meta_tight:
        # the tightest window the property allows: the dense phase still fits the whole warm-up into the window, and in the
        # sparse phase the candles are exactly one lifespan apart, so exactly ONE predecessor survives each trim
        life = k * step
        half = n // 2
        t0 = stream[0][0]
        stream = [((t0 + i * step) if i < half else (t0 + (half - 1) * step + (i - half + 1) * life),) + tuple(c[1:])
                  for i, c in enumerate(stream)]
    beyond = (not meta_tight) and rng.random() < 0.2
    if beyond:
        # a feed that pauses for longer than the lifespan, several times: after each pause exactly the newest candle is retained - in
        # the INDICATOR's own candle list as well (first clause only; the readings have lost their look-back)
        half = n // 2
        t0 = stream[0][0]
        stream = [((t0 + i * step) if i < half else (t0 + (half - 1) * step + (i - half + 1) * (life + step) if (i - half) % 3 == 0 else None),) + tuple(c[1:])
                  for i, c in enumerate(stream)]
        last = None
        fixed = []
        for t in stream:
            ts = t[0] if t[0] is not None else last + step
            fixed.append((ts,) + tuple(t[1:]))
            last = ts
        stream = fixed
    spec = dict(spec, life=life)
    scn = {"spec": spec, "stream": stream, "init": 0, "chunks": [1] * n, "poll": rng.random() < 0.4}
    if beyond:
        scn["window_only"] = True
    bad = c15b_check(scn)
    viol = None
    if bad:
        viol = {"scenario": scn, **bad, "signature": f"C15:{kind_of(spec)}:{bad['clause']}"}
    meta.update({"kind": kind_of(spec), "window_sparse": 1 if meta_tight else k // 8})
    return {"nontrivial": True, "key": hash(str(scn)), "violation": viol, "meta": meta,
            "sample": {"spec": spec, "n": n, "life": life} if idx < 2 else None}


def c15b_window_case(rng, idx, params):
    """every indicator kind on an evenly spaced stream fed one or two candles at a time, the lifespan covering a generous multiple
    of its periods: in the steady state every append pops exactly as many candles as it adds, list positions shift under the
    indicator, and every look-back stays inside the window (proved for the leaf kinds: C15b_leaf)"""
    spec = specs.gen_spec(rng, max_period=12)
    biggest = max([v for k, v in spec.items() if k in ("period", "fast", "slow", "signal", "smooth", "smoothk") and isinstance(v, int)] or [1])
    warm = 4 * biggest + 6
    n = 2 * warm + rng.randint(6, 30)
    step = rng.choice([1, 10, 60, 300])
    stream, meta = gen.gen_stream(rng, n, price_style=gen.style_for(rng, spec["kind"]), ts_style="regular", step=step)
    life = (warm + rng.randint(0, 3)) * step + rng.randint(0, step - 1)
    chunks, left = [], n
    while left > 0:
        c = min(left, rng.choice([1, 1, 1, 2]))
        chunks.append(c)
        left -= c
    spec = dict(spec, life=life)
    scn = {"spec": spec, "stream": stream, "init": 0, "chunks": chunks, "poll": rng.random() < 0.5}
    bad = c15b_check(scn)
    viol = None
    if bad:
        viol = {"scenario": scn, **bad, "signature": f"C15:{kind_of(spec)}:{bad['clause']}"}
    meta.update({"kind": kind_of(spec), "window_candles": warm})
    return {"nontrivial": True, "key": hash(str(scn)), "violation": viol, "meta": meta,
            "sample": {"spec": spec, "n": n, "life": life} if idx < 1 else None}


def c15b_exact_case(rng, idx, params):
    """read-only window kinds with the lifespan retaining EXACTLY the look-back the new reading needs (the bounded footprint proved in
    HexProofs/Footprint/Kinds.lean: `window k` candles before the newest one - SMA / ROC / HL / AROON p, WMA / VWMA / DONCHIAN p - 1,
    the movement analyses their `length`; measured on the library as well: one candle fewer and the readings differ): the oldest
    retained candle - list index 0 at every append - is part of every window, so whatever sits on it (the window's extreme, the value
    that leaves a running sum) must count"""
    p_ = rng.randint(2, 8)
    kind = rng.choice(["AROON", "AROON", "DONCHIAN", "HL", "SMA", "WMA", "VWMA", "ROC", "AM:highest", "AM:lowest", "AM:highestbar", "AM:lowestbar",
                       "AM:rising", "AM:falling", "AM:mean_rising", "AM:value_range"])
    if kind.startswith("AM:"):
        spec = {"kind": "AMORPH", "fn": kind[3:], "ind": rng.choice(["high", "low", "close"]), "length": p_, "round": 4}
        before = p_ - 1 if kind[3:] in ("highestbar", "lowestbar") else p_
    else:
        spec = {"kind": kind, "period": p_, "round": 4}
        before = p_ - 1 if kind in ("WMA", "VWMA", "DONCHIAN") else p_
    step = rng.choice([1, 60, 300])
    n = 5 * p_ + rng.randint(8, 30)
    stream, meta = gen.gen_stream(rng, n, price_style=rng.choice(["walk", "jumpy", "ints", "rising", "falling", "grid"]), ts_style="regular", step=step)
    spec = dict(spec, life=max(before, 1) * step)
    scn = {"spec": spec, "stream": stream, "init": 0, "chunks": [1] * n}
    bad = c15b_check(scn)
    viol = {"scenario": scn, **bad, "signature": f"C15:{kind_of(spec)}:{bad['clause']}"} if bad else None
    meta.update({"kind": kind_of(spec), "window_candles": before + 1, "exact": True})
    return {"nontrivial": True, "key": hash(str(scn)), "violation": viol, "meta": meta,
            "sample": {"spec": spec, "n": n} if idx < 1 else None}


def c15b_replay(w):
    bad = c15b_check(w["scenario"])
    return {"fails": bad is not None, "detail": bad}


# ------------------------------------------------------------------------------------ C14 inside a Hexital


def c14_hexital_check(scn):
    """maintenance operations aimed at ONE member: it ends with its batch readings, its purge removes all of its
    entries, and nothing written by the other members changes"""
    from hexital.core.hexital import Hexital

    stream = scn["stream"]
    members = [specs.build_indicator(sp, [], with_manager=False) for sp in scn["members"]]
    names = [m.name for m in members]
    if len(set(names)) != len(names):
        return None
    hx = Hexital("H", cm.mk_candles(stream[: scn["init"]]), members)
    try:
        hx.calculate()
        consumed = scn["init"]
        for op in scn["program"]:
            if op[0] == "append":
                hx.append(cm.mk_candles(stream[consumed : consumed + op[1]]))
                consumed += op[1]
                continue
            target = names[op[1] % len(names)]
            own = tree_names(hx.indicator(target))
            before = snapshot(hx.candles())
            if op[0] == "purge":
                hx.purge(target)
                after = snapshot(hx.candles())
                left = sorted({k for c in hx.candles() for k in list(c.indicators) + list(c.sub_indicators) if k in own})
                if left:
                    return {"clause": "purge-leaves-entries", "observed": left[:5], "expected": f"no entry of {target} left"}
            elif op[0] == "recalculate":
                hx.recalculate(target)
                after = snapshot(hx.candles())
            elif op[0] == "readd":
                # remove_indicator = purge + drop; then the same kind under the same name with another input
                spec_i = names.index(target)
                hx.remove_indicator(target)
                after = snapshot(hx.candles())
                left = sorted({k for c in hx.candles() for k in list(c.indicators) + list(c.sub_indicators) if k in own})
                if left:
                    return {"clause": "remove-leaves-entries", "observed": left[:5], "expected": f"no entry of {target} left"}
                sp2 = dict(scn["members"][spec_i])
                if "input" in sp2:
                    sp2["input"] = op[2]
                sp2["name"], sp2["suffix"] = target, None
                scn["members"][spec_i] = sp2
                hx.add_indicator(specs.build_indicator(sp2, [], with_manager=False))
            else:
                # only indices whose reading and predecessors are already computed may be recomputed
                hx.calculate()
                if len(hx.candles()) < -op[2]:
                    continue
                before = snapshot(hx.candles())
                hx.calculate_index(target, op[2])
                after = snapshot(hx.candles())
                if before != after:
                    return {"clause": "calculate_index-differs", "observed": {"target": target, "index": op[2], **(first_diff(before, after) or {})},
                            "expected": "recomputing a computed index reproduces it"}
            # helper indicators are created lazily by the first calculate(): take the names after the operation too
            if target in hx.indicators:
                own = own | tree_names(hx.indicator(target))
            # nothing else may change: compare every key not owned by the target
            for i, (b, a) in enumerate(zip(before, after)):
                for d1, d2 in ((b[1], a[1]), (b[2], a[2])):
                    for k in set(d1) | set(d2):
                        if k not in own and d1.get(k, "<absent>") != d2.get(k, "<absent>"):
                            return {"clause": f"{op[0]}-touches-other", "observed": {"target": target, "key": k, "index": i,
                                                                                       "before": d1.get(k, "<absent>"), "after": d2.get(k, "<absent>")},
                                    "expected": "entries of other indicators untouched"}
        hx.calculate()
    except Exception as e:
        if any(_batch_raises(sp, stream) for sp in scn["members"]):
            return None
        return {"clause": "raises", "observed": repr(e), "expected": "no exception"}
    final = snapshot(hx.candles())
    for sp, nm in zip(scn["members"], names):
        try:
            twin = run_batch({**sp, "name": nm, "suffix": None}, stream[:consumed])
        except Exception:
            continue
        own = tree_names(twin)
        for i, (f, t) in enumerate(zip(final, snapshot(twin.candles))):
            for d1, d2 in ((f[1], t[1]), (f[2], t[2])):
                for k in own:
                    if d1.get(k, "<absent>") != d2.get(k, "<absent>"):
                        return {"clause": "final!=batch", "observed": {"member": nm, "key": k, "index": i, "hexital": d1.get(k, "<absent>"),
                                                                        "batch": d2.get(k, "<absent>")}, "expected": "batch readings"}
    return None


def c14_hexital_case(rng, idx, params):
    base = specs.gen_spec(rng, ["RSI", "STOCH", "VWAP", "STDEV", "MACD", "KC", "BBANDS", "ATR", "HMA", "TSI", "ADX", "SUPERTREND", "EMA", "SMA"])
    base.pop("name", None)
    base.pop("suffix", None)
    members = [base]
    # a second member whose name extends the first one's name with "_": e.g. RSI_4 and RSI_4_high
    other = dict(base)
    other["suffix"] = rng.choice(["high", "x", "2"])
    if "input" in other:
        other["input"] = rng.choice(["high", "low", "open"])
    members.append(other)
    if rng.random() < 0.5:
        members.append(specs.gen_spec(rng))
    rng.shuffle(members)
    n = rng.randint(12, params.get("size", 40))
    stream, meta = gen.gen_stream(rng, n)
    init = rng.randint(0, n // 2)
    left = n - init
    prog = []
    for _ in range(rng.randint(3, 10)):
        k = rng.random()
        if k < 0.45 and left > 0:
            c = rng.randint(1, min(left, 6))
            prog.append(("append", c))
            left -= c
        elif k < 0.65:
            prog.append(("purge", rng.randint(0, 9)))
        elif k < 0.85:
            prog.append(("recalculate", rng.randint(0, 9)))
        elif k < 0.93:
            prog.append(("calculate_index", rng.randint(0, 9), rng.choice([-1, -2, -1])))
        else:
            prog.append(("readd", rng.randint(0, 9), rng.choice(["high", "low", "open"])))
    scn = {"members": members, "stream": stream, "init": init, "program": prog}
    try:
        import copy

        bad = c14_hexital_check(copy.deepcopy(scn))
    except Exception:
        bad = None
    viol = {"scenario": scn, **bad, "signature": f"C14:hexital:{bad['clause']}"} if bad else None
    meta.update({"kind": "hexital:" + base["kind"], "ops": len(prog)})
    return {"nontrivial": len(prog) >= 3, "key": hash(str(scn)), "violation": viol, "meta": meta,
            "sample": {"members": members, "program": prog[:8]} if idx < 1 else None}


def c14_any_replay(w):
    s = w["scenario"]
    if "members" in s:
        import copy

        bad = c14_hexital_check({**copy.deepcopy(s), "program": [tuple(o) for o in s["program"]]})
        return {"fails": bad is not None, "detail": bad}
    return c14_replay(w)


# ------------------------------------------------------------------------------------ C17 geometry under merging


def c17_geometry_live_check(scn):
    """candle geometry identities on every candle of a collapsing manager, after every append, with the
    geometry having been read in between (an indicator on `realbody` / a pattern wrapper does that)"""
    ind = specs.build_indicator(scn["spec"], [])
    i = 0
    for k in scn["chunks"]:
        ind.append(cm.mk_candles(scn["stream"][i : i + k]))
        i += k
        for j, c in enumerate(ind.candles):
            exp = {"realbody": abs(c.open - c.close), "shadow_upper": c.high - max(c.open, c.close),
                   "shadow_lower": min(c.open, c.close) - c.low, "high_low": c.high - c.low,
                   "positive": c.close > c.open, "negative": c.close < c.open}
            got = {"realbody": c.realbody, "shadow_upper": c.shadow_upper, "shadow_lower": c.shadow_lower, "high_low": c.high_low,
                   "positive": c.positive, "negative": c.negative}
            for name in exp:
                e, g = exp[name], got[name]
                ok = (e == g) if isinstance(e, bool) else cm.close_enough(e, g, rel=1e-9, absol=1e-9)
                if not ok:
                    return {"clause": f"geometry:{name}", "observed": {"candle": j, "got": g, "expected": e, "after_candles": i},
                            "expected": "the documented geometry of the candle's current OHLC"}
    return None


def c17_geometry_live_case(rng, idx, params):
    spec = rng.choice([
        {"kind": "SMA", "period": rng.randint(2, 4), "input": rng.choice(["realbody", "shadow_upper", "shadow_lower", "high_low"]), "round": 4},
        {"kind": "AMORPH", "fn": rng.choice(["doji", "hammer", "dojistar", "inv_hammer", "positive", "negative"]), "round": 4},
        {"kind": "COUNTER", "input": rng.choice(["positive", "negative"]), "cv": True, "round": 4},
    ])
    tf = gen.gen_timeframe(rng)
    spec = dict(spec, tf=tf)
    n = rng.randint(4, params.get("size", 40))
    stream, meta = gen.gen_stream(rng, n, step=max(1, gen.tf_seconds(tf) // rng.choice([2, 3, 5])), ts_style="regular")
    scn = {"spec": spec, "stream": stream, "chunks": [1] * n}
    try:
        bad = c17_geometry_live_check(scn)
    except Exception:
        bad = None
    viol = {"scenario": scn, **bad, "signature": f"C17:candle:{bad['clause']}"} if bad else None
    meta.update({"kind": "geometry-live"})
    return {"nontrivial": n >= 4, "key": hash(str(scn)), "violation": viol, "meta": meta, "sample": None}


def c17_geometry_live_replay(w):
    bad = c17_geometry_live_check(w["scenario"])
    return {"fails": bad is not None, "detail": bad}


# ------------------------------------------------------------------------------------ C10: rounded after calculate_index


def c10_rounded_check(scn):
    spec = scn["spec"]
    ind = run_batch(spec, scn["stream"])
    n = len(ind.candles)
    if n == 0:
        return None
    for i in scn["indices"]:
        ind.calculate_index(i % n if scn["positive"] else (i % n) - n)
    rv = spec.get("round", 4)
    for j, c in enumerate(ind.candles):
        v = c.indicators.get(ind.name)
        vals = list(v.values()) if isinstance(v, dict) else [v]
        for x in vals:
            if isinstance(x, float) and round(x, rv) != x:
                return {"clause": "rounded-after-calculate_index", "observed": {"index": j, "value": x, "round_value": rv},
                        "expected": "every stored top-level float is rounded to round_value decimals"}
    return None


def c10_rounded_case(rng, idx, params):
    spec = specs.gen_spec(rng)
    spec["round"] = rng.choice([0, 1, 2, 3, 5, 6])
    n = rng.randint(5, params.get("size", 40))
    stream, meta = gen.gen_stream(rng, n)
    scn = {"spec": spec, "stream": stream, "indices": [rng.randint(0, 1000) for _ in range(3)], "positive": rng.random() < 0.5}
    try:
        bad = c10_rounded_check(scn)
    except Exception:
        bad = None
    viol = {"scenario": scn, **bad, "signature": f"C10:{kind_of(spec)}:{bad['clause']}"} if bad else None
    meta.update({"kind": kind_of(spec) + ":cidx"})
    return {"nontrivial": True, "key": hash(str(scn)), "violation": viol, "meta": meta, "sample": None}


def c10_rounded_replay(w):
    bad = c10_rounded_check(w["scenario"])
    return {"fails": bad is not None, "detail": bad}


# ------------------------------------------------------------------------------------ C07 inside a Hexital (inputs that are other readings)


def measure_hexital_append(members, stream, n, k=1, ha=False, edit=False):
    from hexital.core.hexital import Hexital

    cands = RecList(cm.mk_candles(stream[:n]))
    inds = [specs.build_indicator(sp, [], with_manager=bool(sp.get("tf"))) for sp in members]
    hx = Hexital("H", cands, inds, **({"candlestick_type": "HA"} if ha else {}))
    hx.calculate()
    if edit:
        # a public parameter reassigned after construction (the use case Hexital.recalculate documents), then one ordinary append in
        # between: whatever the library makes of the new value, the cost of the NEXT append must not depend on the history
        for ind in inds:
            if isinstance(getattr(ind, "period", None), int):
                ind.period = ind.period + 1
                break
    new = cm.mk_candles(stream[n : n + k])
    count = [0]

    def prof(frame, event, arg):
        if event == "call" and any(p in frame.f_code.co_filename for p in PROFILED):
            count[0] += 1

    RecList.touched = set()
    sys.setprofile(prof)
    try:
        hx.append(new)
    finally:
        sys.setprofile(None)
    return count[0], len(RecList.touched)


def c07_hexital_check(scn):
    k = scn.get("chunk", 1)
    total = len(scn["stream"]) - k
    has_tf = any(m.get("tf") for m in scn["members"])
    res = [measure_hexital_append(scn["members"], scn["stream"][total - n :], n, k, bool(scn.get("ha")), bool(scn.get("edit"))) for n in scn["lengths"]]
    base_calls, base_reach = res[0]
    # members on collapsing timeframes: the two histories start at different phases of the bucket grid, which moves a few warm-up
    # dependent look-ups (observed: +-2 readings); anything that grows with the history grows by hundreds
    slack = 12 if has_tf else 3
    for calls, reach in res[1:]:
        if calls > base_calls * 1.02 + slack:
            return {"clause": "work-grows", "observed": {"n": scn["lengths"], "calls": [r[0] for r in res]},
                    "expected": "number of calls into indicator code per append independent of history length"}
        if reach > base_reach + 2 and not has_tf:   # a timeframe member's manager re-walks its own list (outside the property)
            return {"clause": "window-grows", "observed": {"n": scn["lengths"], "candles_read": [r[1] for r in res]},
                    "expected": "number of distinct candles read per append independent of history length"}
    return None


def c07_hexital_case(rng, idx, params):
    k = rng.random()
    if k < 0.4:
        # movement analyses over a reading that is None on most candles
        src = {"kind": "SUPERTREND", "period": rng.randint(3, 8), "multiplier": 3.0, "round": 4}
        nm = f"Supertrend_{src['period']}." + rng.choice(["short", "long"])
        members = [src] + [{"kind": "AMORPH", "fn": f, "ind": nm, "length": rng.choice([2, 4, 8]), "round": 4}
                           for f in rng.sample(["highest", "lowest", "rising", "falling", "mean_rising", "value_range"], 2)]
    elif k < 0.8:
        # indicators fed by a nested reading of another member
        m = {"kind": "MACD", "fast": 3, "slow": 6, "signal": 3, "round": 4}
        nm = "MACD_3_6_3." + rng.choice(["MACD", "histogram", "signal"])
        members = [m] + [dict(rng.choice([{"kind": "BBANDS", "period": 5}, {"kind": "STDEVTHRES", "period": 5, "multiplier": 2.0},
                                          {"kind": "STOCH", "period": 5, "slow": 3, "smoothk": 3}, {"kind": "TSI", "period": 6},
                                          {"kind": "STDEV", "period": 6}, {"kind": "SMA", "period": 4}]), input=nm, round=4)]
    else:
        members = [specs.gen_spec(rng) for _ in range(rng.randint(2, 3))]
    chunk = rng.choice([1, 1, 2])
    tie_move = rng.random() < 0.15
    if tie_move:
        # two averages that have been EXACTLY equal for the whole (flat) history, then the appended candle moves: a cross test that
        # looks back over the tie must stop after its `length`, not walk the whole run
        p1, p2 = rng.sample([2, 3, 5, 8], 2)
        members = [{"kind": "SMA", "period": p1, "round": 4}, {"kind": "SMA", "period": p2, "round": 4},
                   {"kind": "AMORPH", "fn": rng.choice(["crossover", "crossunder", "cross"]), "a": f"SMA_{p1}", "b": f"SMA_{p2}", "length": 1, "round": 4}]
        chunk = 1
    if not tie_move and (k >= 0.8 or rng.random() < 0.35):
        # members on collapsing timeframes of their own (one-minute feed): the Hexital must not redo their history on an append
        for m in rng.sample(members, rng.randint(1, len(members))):
            if m["kind"] != "AMORPH" and not str(m.get("input", "close")).count("."):
                tf = rng.choice(["T2", "T3", "T5"])
                biggest = max([v for kk, v in m.items() if kk in ("period", "fast", "slow", "signal", "smooth", "smoothk") and isinstance(v, int)] or [2])
                if (6 * biggest + 12) * int(tf[1:]) <= min(params.get("lengths", [150, 600])):   # "after warm-up": also at the SHORT history, in buckets
                    m["tf"] = tf
    lengths = params.get("lengths", [150, 600])
    stream, meta = gen.gen_stream(rng, max(lengths) + chunk, price_style=rng.choice(["walk", "rising", "falling", "jumpy"]), ts_style="regular", step=60)
    if tie_move:
        lvl = float(rng.randint(20, 200))
        up = rng.choice([1.0, -1.0]) * rng.choice([1.0, 5.0])
        stream = [(t[0], lvl, lvl, lvl, lvl, 10) for t in stream[:-1]] + [(stream[-1][0], lvl, max(lvl, lvl + up), min(lvl, lvl + up), lvl + up, 10)]
    scn = {"members": members, "stream": stream, "lengths": lengths, "chunk": chunk}
    if rng.random() < 0.3:
        scn["ha"] = True        # one converter object shared by the default manager and every member manager
    if not tie_move and rng.random() < 0.15:
        scn["edit"] = True
    try:
        bad = c07_hexital_check(scn)
    except Exception:
        bad = None
    viol = {"scenario": scn, **bad, "signature": f"C07:hexital:{members[-1]['kind']}:{bad['clause']}"} if bad else None
    meta.update({"kind": "hexital:" + members[-1]["kind"], "ha": bool(scn.get("ha")), "edit": bool(scn.get("edit"))})
    return {"nontrivial": True, "key": hash(str(members) + str(stream[:3])), "violation": viol, "meta": meta,
            "sample": {"members": members, "lengths": lengths} if idx < 1 else None}


def c07_any_replay(w):
    if "members" in w["scenario"]:
        bad = c07_hexital_check(w["scenario"])
        return {"fails": bad is not None, "detail": bad}
    return c07_replay(w)


# ------------------------------------------------------------------------------------ C14: a whole Hexital converges to the batch state


def c14_converge_check(scn):
    """a Hexital with members on several timeframes (optionally Heikin-Ashi) is driven through a program of appends and maintenance
    calls - named and UNNAMED purge / recalculate / calculate_index, remove_indicator; after a final calculate() every manager must
    hold exactly what a fresh Hexital with the surviving members holds after ONE calculate() over the whole stream"""
    from hexital.core.hexital import Hexital

    stream = scn["stream"]
    kw = {"timeframe": scn.get("htf")}
    if scn.get("ha"):
        kw["candlestick_type"] = "HA"

    def build(specs_, candles):
        return Hexital("H", candles, [specs.build_indicator(sp, [], with_manager=True) for sp in specs_], **kw)

    try:
        twin0 = build(scn["members"], cm.mk_candles(stream))
        twin0.calculate()
    except Exception:
        return None  # the configuration itself fails in batch: not this property's subject
    alive = list(scn["members"])
    hx = build(alive, cm.mk_candles(stream[: scn["init"]]))
    names = list(hx.indicators)
    if len(names) != len(alive):
        return None
    consumed = scn["init"]
    last = None
    try:
        hx.calculate()
        for op in scn["program"]:
            last = op
            if op[0] == "append":
                hx.append(cm.mk_candles(stream[consumed : consumed + op[1]]))
                consumed += op[1]
                continue
            target = None if op[1] is None else names[op[1] % len(names)]
            if target is not None and target not in hx.indicators:
                continue
            if op[0] == "purge":
                hx.purge(target)
            elif op[0] == "recalculate":
                hx.recalculate(target)
            elif op[0] == "remove" and target is not None and len(hx.indicators) > 1:
                hx.remove_indicator(target)
                alive = [sp for sp, nm in zip(alive, list(names)) if nm != target]
                names = [nm for nm in names if nm != target]
            elif op[0] == "calculate_index":
                hx.calculate()
                touched = [hx.indicator(target)] if target else list(hx.indicators.values())
                if any(len(i.candles) < -op[2] for i in touched):
                    continue   # only candles that exist (and hold a reading) may be recomputed
                hx.calculate_index(target, op[2])
        hx.append(cm.mk_candles(stream[consumed:]))
        hx.calculate()
    except Exception as e:
        return {"clause": "raised", "observed": f"{type(e).__name__} at {last}", "expected": "the program runs (its batch twin does)"}
    try:
        twin = build(alive, cm.mk_candles(stream))
        twin.calculate()
    except Exception:
        return None
    for nm in names:
        a, b = hx.indicator(nm), twin.indicator(nm)
        d = first_diff(snapshot(a.candles), snapshot(b.candles))
        if d:
            # entries of removed members are gone in both; compare everything the member's manager holds
            return {"clause": "not-batch-state", "observed": {"member": nm, **d}, "expected": "the candles and readings of a fresh batch Hexital"}
    return None


def c14_converge_case(rng, idx, params):
    unit, base = rng.choice("TTH"), rng.choice([1, 5, 10])
    htf = f"{unit}{base}" if rng.random() < 0.3 else None
    members = []
    for _ in range(rng.randint(2, 4)):
        sp = specs.gen_spec(rng)
        sp.pop("name", None)
        if rng.random() < 0.55:
            sp["tf"] = f"{unit}{base * rng.choice([1, 2, 3, 5])}"
        members.append(sp)
    n = rng.randint(12, params.get("size", 40) + 20)
    step = max(1, gen.tf_seconds(f"{unit}{base}") // rng.choice([1, 2, 5]))
    stream, meta = gen.gen_stream(rng, n, step=step, ts_style=rng.choice(["regular", "regular", "gaps"]))
    init = rng.randint(0, n // 2)
    left = n - init
    prog = []
    for _ in range(rng.randint(3, 9)):
        k = rng.random()
        tgt = None if rng.random() < 0.35 else rng.randint(0, 9)
        if k < 0.45 and left > 1:
            c = rng.randint(1, min(left - 1, 6))
            prog.append(("append", c))
            left -= c
        elif k < 0.6:
            prog.append(("purge", tgt))
        elif k < 0.75:
            prog.append(("recalculate", tgt))
        elif k < 0.9:
            prog.append(("calculate_index", tgt, rng.choice([-1, -1, -2, -3])))
        else:
            prog.append(("remove", rng.randint(0, 9)))
    scn = {"converge": True, "members": members, "htf": htf, "ha": rng.random() < 0.25, "stream": stream, "init": init, "program": prog}
    try:
        bad = c14_converge_check(copy.deepcopy(scn))
    except Exception:
        bad = None
    viol = {"scenario": scn, **bad, "signature": f"C14:converge:{bad['clause']}"} if bad else None
    meta.update({"kind": "converge", "ops": len(prog), "ha": scn["ha"], "htf": bool(htf), "member_tfs": sum(1 for m in members if m.get("tf"))})
    return {"nontrivial": len(prog) >= 3, "key": hash(str(scn)), "violation": viol, "meta": meta,
            "sample": {"members": members, "program": prog[:8]} if idx < 1 else None}


_c14_any_replay_prev = c14_any_replay


def c14_any_replay(w):  # noqa: F811
    s = w["scenario"]
    if s.get("converge"):
        bad = c14_converge_check({**copy.deepcopy(s), "program": [tuple(o) for o in s["program"]]})
        return {"fails": bad is not None, "detail": bad}
    return _c14_any_replay_prev(w)


# ------------------------------------------------------------------------------------ C02: the same Candle objects fed to two indicators


def c02_shared_check(scn):
    """two standalone indicators are fed the SAME Candle objects (a user keeping one list of candles for several indicators): A on the
    base timeframe holds those very objects; B on a collapsing timeframe works on copies.  Whatever B does, A's closed candles - stamps,
    OHLCV, readings - stay what they were and what A alone shows."""
    with cm.aware(scn.get("tzoff")):
        a_spec, b_spec, stream = scn["a"], scn["b"], scn["stream"]
        try:
            alone = run_incremental(a_spec, stream, 0, scn["chunks"])
            want = snapshot(alone.candles)
        except Exception:
            return None
        a = specs.build_indicator(a_spec, [])
        b = specs.build_indicator(b_spec, [])
        snaps = []
        i = 0
        try:
            for k in scn["chunks"]:
                objs = cm.mk_candles(stream[i : i + k])
                first, second = (a, b) if scn.get("order", "ab") == "ab" else (b, a)
                first.append(objs)
                second.append(objs)
                i += k
                snaps.append(snapshot(a.candles))
        except Exception as e:
            return {"clause": "shared-objects-raise", "observed": repr(e)[:200], "expected": "no exception (A alone runs clean)"}
        for j in range(len(snaps)):
            for later in snaps[j + 1:]:
                if later[: len(snaps[j])] != snaps[j]:
                    d = first_diff(snaps[j], later[: len(snaps[j])])
                    return {"clause": "repaint-shared-objects", "observed": d, "expected": "A's candles of an earlier snapshot are a prefix of every later one"}
        if snaps and snaps[-1] != want:
            return {"clause": "shared-objects-vs-alone", "observed": first_diff(snaps[-1], want), "expected": "what A shows when it is fed alone"}
    return None


def c02_shared_case(rng, idx, params):
    a_spec = specs.gen_spec(rng, ["SMA", "EMA", "RSI", "ATR", "OBV", "MACD", "HLA", "TR"])
    b_spec = dict(specs.gen_spec(rng, ["SMA", "EMA", "WMA", "ATR"]), tf=rng.choice(["T2", "T5", "T3"]), fill=rng.random() < 0.3)
    if rng.random() < 0.2:
        b_spec["ha"] = True
    n = rng.randint(4, params.get("size", 40))
    stream, meta = gen.gen_stream(rng, n, ts_style=rng.choice(["regular", "regular", "gaps"]), step=60)
    (init, chunks), shape = gen.gen_schedule(rng, n, shape=rng.choice(["singles", "few", "random"]))
    chunks = ([init] if init else []) + list(chunks)
    scn = {"check": "c02.shared", "a": a_spec, "b": b_spec, "stream": stream, "chunks": chunks, "order": rng.choice(["ab", "ba"])}
    bad = c02_shared_check(scn)
    viol = {"scenario": scn, **bad, "signature": f"C02:shared-objects:{bad['clause']}"} if bad else None
    meta.update({"kind": kind_of(a_spec), "schedule": shape, "shared": True})
    return {"nontrivial": len(chunks) >= 2, "key": hash(str(scn)), "violation": viol, "meta": meta, "sample": None}


def c02_shared_replay(w):
    bad = c02_shared_check(w["scenario"])
    return {"fails": bad is not None, "detail": bad}

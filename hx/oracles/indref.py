"""Independent reference implementations of the 26 formula indicators (C04, C05, C06; reused for
the slack of C10).

Nothing here imports the library.  Every reference is written from the textbook definition named in
the property statements, computed from the raw candle tuples ``(ts, o, h, l, c, v)`` or from an input
series ``x`` (list of numbers with a ``None`` prefix for inputs that start late).

Values are carried as ``V(v, e)``: the ideal value ``v`` together with a bound ``e`` on how far an
implementation may be from it *because of the configured rounding*.  The rounding model is: every
stored series may be rounded half-to-even to a fixed number of decimals when it is stored, i.e. each
stored value is off by at most one unit ``u = 0.5 * 10**-decimals`` plus whatever its (already rounded)
inputs contribute.  ``Q`` holds the two units in play: ``own`` for the indicator's visible reading
(``round_value``) and ``sub`` for intermediate series that are themselves indicators (in the pinned
tree helper indicators are created without ``round_value`` and so round to 4 decimals; the unit used
is 0.5e-4: helpers round with their own default whatever the visible reading's ``round_value``).
``V`` arithmetic propagates the bound through +, -, *, / (first-order interval bounds, conservative);
recurrences therefore yield the geometric drift budget automatically:
    EMA   e[t] = (1-a) e[t-1] + a e_x + u          (<= u/a + e_x)
    RMA   same with a = 1/period
    ATR   e[t] = ((p-1) e[t-1] + e_TR)/p + u       (<= p u + e_TR)
    SMA   e[t] = max e_x(window) + k u, k = number of readings so far (a sliding-window update of a
          rounded previous reading performs a random walk; a direct window mean needs only u)
Float noise is not part of ``e``; comparisons add FN * scale (see ``tol``).
``UNDEF`` marks points where the textbook formula is 0/0 (flat high-low window in STOCH, zero window
volume in VWMA, zero cumulated volume in VWAP, zero double smoothed |momentum| in TSI, zero ATR or
zero DI sum in ADX): the oracles do not constrain the value there.
"""
from math import fsum, isqrt, sqrt

EPS = 2.220446049250313e-16
FN = 1e-10
INF = float("inf")


class _Undef:
    def __repr__(self):
        return "UNDEF"


UNDEF = _Undef()


class Q:
    """rounding units: own = visible reading, sub = helper indicator series"""

    def __init__(self, round_value=4, sub_round_value=4):
        self.own = 0.5 * 10.0 ** -round_value
        # helper indicators keep their OWN default rounding (4 decimals) whatever the visible reading's round_value is: that is the
        # configured rounding on this tree, and a coarser helper rounding is an error the property does not allow for
        self.sub = 0.5 * 10.0 ** -sub_round_value


class V:
    __slots__ = ("v", "e")

    def __init__(self, v, e=0.0):
        self.v = v
        self.e = e

    def __repr__(self):
        return f"V({self.v!r}, {self.e:.3g})"

    @staticmethod
    def of(x):
        return x if isinstance(x, V) else V(x)

    def rnd(self, u):
        return V(self.v, self.e + u)

    def __add__(self, o):
        o = V.of(o)
        return V(self.v + o.v, self.e + o.e)

    __radd__ = __add__

    def __sub__(self, o):
        o = V.of(o)
        return V(self.v - o.v, self.e + o.e)

    def __rsub__(self, o):
        return V.of(o) - self

    def __neg__(self):
        return V(-self.v, self.e)

    def __abs__(self):
        return V(abs(self.v), self.e)

    def __mul__(self, o):
        o = V.of(o)
        if self.e == INF or o.e == INF:
            return V(self.v * o.v, INF)
        return V(self.v * o.v, abs(self.v) * o.e + abs(o.v) * self.e + self.e * o.e)

    __rmul__ = __mul__

    def __truediv__(self, o):
        o = V.of(o)
        if o.v == 0 and o.e == 0:
            raise ZeroDivisionError
        if self.e == INF or o.e == INF or abs(o.v) <= 2 * o.e:
            return V(self.v / o.v if o.v else 0.0, INF)
        q = self.v / o.v
        return V(q, (self.e + abs(q) * o.e) / (abs(o.v) - o.e))

    def __rtruediv__(self, o):
        return V.of(o) / self


def vmax(vs):
    vs = list(vs)
    return V(max(a.v for a in vs), max(a.e for a in vs))


def vmin(vs):
    vs = list(vs)
    return V(min(a.v for a in vs), max(a.e for a in vs))


def is_num(x):
    return isinstance(x, (int, float)) and not isinstance(x, bool)


def tol(ref, scale):
    """admissible |observed - ref.v|: rounding budget + float noise"""
    return ref.e + FN * max(scale, abs(ref.v))


def lift(xs):
    return [None if x is None else (x if isinstance(x, V) or x is UNDEF else V(x)) for x in xs]


def col(stream, field):
    i = {"open": 1, "high": 2, "low": 3, "close": 4, "volume": 5}[field]
    return [r[i] for r in stream]


def _window(x, t, p):
    """the p values ending at t, or None when one is missing; UNDEF when one is undefined"""
    if t - p + 1 < 0:
        return None
    w = x[t - p + 1 : t + 1]
    for a in w:
        if a is None:
            return None
    for a in w:
        if a is UNDEF:
            return UNDEF
    return w


def _mean(w):
    return V(fsum(a.v for a in w) / len(w), max(a.e for a in w))


# ------------------------------------------------------------------ C04 moving averages


def sma(x, p, u):
    """equally weighted mean of the last p inputs; first reading when p consecutive inputs exist"""
    x = lift(x)
    out, k = [None] * len(x), 0
    for t in range(len(x)):
        w = _window(x, t, p)
        if w is None:
            continue
        if w is UNDEF:
            out[t] = UNDEF
            continue
        k += 1
        out[t] = _mean(w).rnd(k * u)
    return out


def _recursive(x, p, a, seed, u):
    x = lift(x)
    out, prev = [None] * len(x), None
    for t in range(len(x)):
        if prev is UNDEF or x[t] is UNDEF:  # an undefined input leaves everything after it unconstrained
            out[t] = prev = UNDEF
            continue
        if prev is not None:
            prev = (a * x[t] + (1 - a) * prev).rnd(u)
        else:
            w = _window(x, t, p)
            if w is None:
                continue
            prev = UNDEF if w is UNDEF else seed(w).rnd(u)
        out[t] = prev
    return out


def ema(x, p, u, smoothing=2.0):
    """r[t] = a x[t] + (1-a) r[t-1], a = smoothing/(p+1); seeded with the plain mean of the first full window"""
    return _recursive(x, p, smoothing / (p + 1.0), _mean, u)


def rma(x, p, u):
    """Wilder: a = 1/p; seeded with the decay-weighted mean sum((1-a)^j x[t-j]) / sum((1-a)^j), j = 0..p-1"""
    a = 1.0 / p

    def seed(w):
        ws = [(1 - a) ** j for j in range(p)]  # j = 0 is the newest
        num = fsum(wj * xv.v for wj, xv in zip(ws, reversed(w)))
        return V(num / fsum(ws), max(xv.e for xv in w))

    return _recursive(x, p, a, seed, u)


def wma(x, p, u):
    """linearly weighted: newest weight p ... oldest weight 1, divided by p(p+1)/2"""
    x = lift(x)
    out = [None] * len(x)
    den = p * (p + 1) / 2
    for t in range(len(x)):
        w = _window(x, t, p)
        if w is None:
            continue
        if w is UNDEF:
            out[t] = UNDEF
            continue
        out[t] = V(fsum((j + 1) * a.v for j, a in enumerate(w)) / den, max(a.e for a in w)).rnd(u)
    return out


def vwma(stream, p, u):
    """sum(close*volume)/sum(volume) over the last p candles; UNDEF when the window traded nothing"""
    out = [None] * len(stream)
    for t in range(p - 1, len(stream)):
        w = stream[t - p + 1 : t + 1]
        vol = fsum(r[5] for r in w)
        out[t] = UNDEF if vol == 0 else V(fsum(r[4] * r[5] for r in w) / vol).rnd(u)
    return out


def hma(x, p, q):
    """Hull: WMA_{isqrt(p)}( 2*WMA_{p//2}(x) - WMA_p(x) ); three helper series (unit q.sub) + own rounding"""
    full, half = wma(x, p, q.sub), wma(x, max(1, p // 2), q.sub)
    raw = [None if (f is None or h is None) else 2 * h - f for f, h in zip(full, half)]
    return [None if r is None else r.rnd(q.own) for r in wma(raw, max(1, isqrt(p)), q.sub)]


# ------------------------------------------------------------------ C05


def true_range(stream, u):
    """max(high-low, |high-prev close|, |low-prev close|); needs a previous candle -> first at index 1"""
    out = [None] * len(stream)
    for t in range(1, len(stream)):
        h, l, pc = stream[t][2], stream[t][3], stream[t - 1][4]
        out[t] = V(max(h - l, abs(h - pc), abs(l - pc))).rnd(u)
    return out


def atr(stream, p, u_tr, u):
    """Wilder smoothing of TR seeded with the mean of the first p true ranges (index p)"""
    tr = true_range(stream, u_tr)
    out, prev = [None] * len(stream), None
    for t in range(len(stream)):
        if prev is not None:
            prev = ((prev * (p - 1) + tr[t]) / p).rnd(u)
        else:
            w = _window(tr, t, p)
            if w is None:
                continue
            prev = _mean(w).rnd(u)
        out[t] = prev
    return out


def stdev(x, p, u):
    """rolling population standard deviation of the last p inputs.
    Budget: u + e_x (sigma is 1-Lipschitz in the sup norm) + float noise of a *running* variance:
    the update formulas cancel terms of size x^2/p, so a variance carried along n steps may be off by
    about n*eps*max|x|^2 (64x margin); on sigma that is min(sqrt(vn), vn/sigma)."""
    x = lift(x)
    out = [None] * len(x)
    start = next((i for i, a in enumerate(x) if a is not None), None)
    smax = 0.0
    for t in range(len(x)):
        if x[t] is not None:
            smax = max(smax, abs(x[t].v))
        w = _window(x, t, p)
        if w is None:
            continue
        m = fsum(a.v for a in w) / p
        sd = sqrt(fsum((a.v - m) ** 2 for a in w) / p)
        vn = 64 * EPS * (t - start + 1) * max(smax * smax, 1e-300)
        noise = min(sqrt(vn), vn / sd) if sd > 0 else sqrt(vn)
        out[t] = V(sd, max(a.e for a in w) + noise).rnd(u)
    return out


def bbands(x, p, q, k=2.0):
    """middle = SMA_p, lower/upper = middle -/+ 2 sigma_p"""
    mid, sd = sma(x, p, q.sub), stdev(x, p, q.sub)
    out = {"BBL": [], "BBM": [], "BBU": []}
    for m, s in zip(mid, sd):
        ok = m is not None and s is not None
        out["BBM"].append(m.rnd(q.own) if ok else None)
        out["BBL"].append((m - k * s).rnd(q.own) if ok else None)
        out["BBU"].append((m + k * s).rnd(q.own) if ok else None)
    return out


def kc(stream, x, p, mult, q):
    """band = EMA_p(x); lower/upper = band -/+ mult * ATR_p"""
    e, a = ema(x, p, q.sub), atr(stream, p, q.sub, q.sub)
    out = {"lower": [], "band": [], "upper": []}
    for m, s in zip(e, a):
        ok = m is not None and s is not None
        out["band"].append(m.rnd(q.own) if ok else None)
        out["lower"].append((m - mult * s).rnd(q.own) if ok else None)
        out["upper"].append((m + mult * s).rnd(q.own) if ok else None)
    return out


def donchian(stream, p, u):
    """upper = highest high, lower = lowest low of the last p candles (incl. the current), middle = their mean"""
    out = {"DCL": [], "DCM": [], "DCU": []}
    for t in range(len(stream)):
        if t < p - 1:
            for k in out:
                out[k].append(None)
            continue
        w = stream[t - p + 1 : t + 1]
        hi, lo = max(r[2] for r in w), min(r[3] for r in w)
        out["DCU"].append(V(hi).rnd(u))
        out["DCL"].append(V(lo).rnd(u))
        out["DCM"].append(V((hi + lo) / 2).rnd(u))
    return out


def highest_lowest(stream, p, u):
    """extremes of the current candle and the p candles before it ('N periods back'); partial windows at the start"""
    out = {"low": [], "high": []}
    for t in range(len(stream)):
        w = stream[max(0, t - p) : t + 1]
        out["high"].append(V(max(r[2] for r in w)).rnd(u))
        out["low"].append(V(min(r[3] for r in w)).rnd(u))
    return out


def hla(stream, u):
    return [V((r[2] + r[3]) / 2).rnd(u) for r in stream]


def supertrend_bands(stream, p, mult, q):
    """basic bands HL2 -/+ mult*ATR_p as V (None before the ATR exists); the ratchet/flip rule is
    checked step-wise in inddefs.check_supertrend"""
    a = atr(stream, p, q.sub, q.sub)
    lo, up = [], []
    for r, at in zip(stream, a):
        if at is None:
            lo.append(None)
            up.append(None)
        else:
            mid = (r[2] + r[3]) / 2  # helper HL2 may itself be rounded
            lo.append((V(mid).rnd(q.sub) - mult * at))
            up.append((V(mid).rnd(q.sub) + mult * at))
    return lo, up


def stdev_threshold(x, p, mult, q):
    """True iff |x[t]-x[t-1]| > mult*sigma_p[t]; False while sigma is not available.
    Returns per index True/False, or None when the comparison is within the budget of sigma (either answer admissible)."""
    sd = stdev(x, p, q.sub)
    out = []
    for t in range(len(x)):
        if sd[t] is None or t == 0 or x[t - 1] is None:
            out.append(False)
            continue
        move, thr = abs(x[t] - x[t - 1]), mult * sd[t]
        slack = thr.e + FN * max(abs(x[t]), abs(x[t - 1]), thr.v)
        if move == 0 and t + 1 >= p and all(a is not None and a == x[t] for a in x[t + 1 - p : t + 1]):
            # a completely flat window: sigma is exactly 0 and the input did not move - "more than multiplier*sigma" is false
            out.append(False)
            continue
        out.append(None if abs(move - thr.v) <= slack else move > thr.v)
    return out


def counter(x, value):
    """length of the current run of candles whose input equals `value`; a missing input leaves the count unchanged"""
    out, c = [], 0
    for a in x:
        if a is not None:
            c = c + 1 if a == value else 0
        out.append(c)
    return out


# ------------------------------------------------------------------ C06


def rsi(x, p, u):
    """Wilder: average gain/loss = mean over the first p changes (index s+p), then ((p-1)*avg + new)/p;
    RSI = 100*gain/(gain+loss) (= 100 - 100/(1+gain/loss)), 100 when the average loss is 0."""
    out = [None] * len(x)
    start = next((i for i, a in enumerate(x) if a is not None), None)
    if start is None:
        return out
    ag = al = None
    for t in range(start + 1, len(x)):
        d = x[t] - x[t - 1]
        g, l = (d, 0.0) if d > 0 else (0.0, -d)
        if ag is not None:
            ag, al = (ag * (p - 1) + g) / p, (al * (p - 1) + l) / p
        elif t == start + p:
            ch = [x[i] - x[i - 1] for i in range(start + 1, t + 1)]
            ag, al = fsum(c for c in ch if c > 0) / p, fsum(-c for c in ch if c < 0) / p
        else:
            continue
        out[t] = V(100.0 if al == 0 else 100.0 * ag / (ag + al)).rnd(u)
    return out


def macd(x, fast, slow, signal, q):
    """MACD = EMA_fast - EMA_slow; signal = EMA_signal(MACD); histogram = MACD - signal"""
    if slow < fast:
        fast, slow = slow, fast
    f, s = ema(x, fast, q.sub), ema(x, slow, q.sub)
    line = [None if (a is None or b is None) else a - b for a, b in zip(f, s)]
    # the signal average may be fed with the stored (rounded) line
    sig = ema([None if m is None else m.rnd(q.own) for m in line], signal, q.sub)
    out = {"MACD": [], "signal": [], "histogram": []}
    for m, g in zip(line, sig):
        out["MACD"].append(None if m is None else m.rnd(q.own))
        out["signal"].append(None if g is None else g.rnd(q.own))
        out["histogram"].append(None if (m is None or g is None) else (m - g).rnd(q.own))
    return out


def roc(x, p, u):
    """100*(x[t]-x[t-p])/x[t-p]"""
    out = [None] * len(x)
    for t in range(p, len(x)):
        if x[t - p] is None:
            continue
        out[t] = UNDEF if x[t - p] == 0 else V(100.0 * (x[t] - x[t - p]) / x[t - p]).rnd(u)
    return out


def stoch_raw(stream, x, p):
    """100*(x - lowest low)/(highest high - lowest low) over the last p candles; UNDEF when the window is flat"""
    out = [None] * len(stream)
    for t in range(p - 1, len(stream)):
        if x[t - p + 1] is None:
            continue
        w = stream[t - p + 1 : t + 1]
        hi, lo = max(r[2] for r in w), min(r[3] for r in w)
        out[t] = UNDEF if hi == lo else V(100.0 * (x[t] - lo) / (hi - lo))
    return out


def stoch(stream, x, p, smooth_k, slow_d, q, override=None):
    """stoch as above, %K = SMA_smooth_k(stoch), %D = SMA_slow_d(%K).
    `override` supplies values at UNDEF points (the oracle passes the library's own stoch there)."""
    raw = stoch_raw(stream, x, p)
    if override:
        raw = [V(override[t]) if (r is UNDEF and t in override) else r for t, r in enumerate(raw)]
    k = sma(raw, smooth_k, q.sub)
    d = sma(k, slow_d, q.sub)
    rr = lambda s: [a if (a is None or a is UNDEF) else a.rnd(q.own) for a in s]
    return {"stoch": rr(raw), "k": rr(k), "d": rr(d)}


def tsi(x, p, sp, q):
    """100 * EMA_sp(EMA_p(m)) / EMA_sp(EMA_p(|m|)), m[t] = x[t]-x[t-1]"""
    m = [None if (t == 0 or x[t] is None or x[t - 1] is None) else x[t] - x[t - 1] for t in range(len(x))]
    num = ema(ema(m, p, q.sub), sp, q.sub)
    den = ema(ema([None if a is None else abs(a) for a in m], p, q.sub), sp, q.sub)
    out = []
    for a, b in zip(num, den):
        if a is None or b is None:
            out.append(None)
        elif b.v == 0:
            out.append(UNDEF)
        else:
            out.append((100.0 * a / b).rnd(q.own))
    return out


def aroon(stream, p, u):
    """100*(p - bars since the most recent highest high / lowest low)/p over the current and the p previous candles"""
    out = {"AROONU": [], "AROOND": [], "AROONOSC": []}
    for t in range(len(stream)):
        if t < p:
            for k in out:
                out[k].append(None)
            continue
        w = stream[t - p : t + 1]
        hi, lo = max(r[2] for r in w), min(r[3] for r in w)
        since_hi = next(j for j in range(p + 1) if stream[t - j][2] == hi)
        since_lo = next(j for j in range(p + 1) if stream[t - j][3] == lo)
        up, dn = 100.0 * (p - since_hi) / p, 100.0 * (p - since_lo) / p
        out["AROONU"].append(V(up).rnd(u))
        out["AROOND"].append(V(dn).rnd(u))
        out["AROONOSC"].append(V(up - dn).rnd(2 * u))  # may be formed from the rounded parts
    return out


def adx(stream, p, ps, q):
    """+DM/-DM from consecutive highs/lows (index >= 1), Wilder smoothed (RMA_p); ATR_p; DI = 100*RMA(DM)/ATR;
    DX = 100*|+DI - -DI|/(+DI + -DI); ADX = RMA_ps(DX).  DX is in [0,100] by construction, so its budget is capped at 100."""
    n = len(stream)
    pos, neg = [None] * n, [None] * n
    for t in range(1, n):
        up, dn = stream[t][2] - stream[t - 1][2], stream[t - 1][3] - stream[t][3]
        pos[t] = up if (up > dn and up > 0) else 0.0
        neg[t] = dn if (dn > up and dn > 0) else 0.0
    rp, rn, at = rma(pos, p, q.sub), rma(neg, p, q.sub), atr(stream, p, q.sub, q.sub)
    dip, din, dx = [None] * n, [None] * n, [None] * n
    for t in range(n):
        if rp[t] is None or at[t] is None:
            continue
        if at[t].v == 0:
            dip[t] = din[t] = dx[t] = UNDEF
            continue
        dip[t], din[t] = 100.0 * rp[t] / at[t], 100.0 * rn[t] / at[t]
        ssum = dip[t] + din[t]
        if ssum.v == 0:
            dx[t] = UNDEF
        else:
            d = 100.0 * abs(dip[t] - din[t]) / ssum
            dx[t] = V(min(max(d.v, 0.0), 100.0), min(d.e, 100.0))
    ad = rma(dx, ps, q.sub)
    rr = lambda s: [a if (a is None or a is UNDEF) else a.rnd(q.own) for a in s]
    return {"ADX": rr(ad), "DM_Plus": rr(dip), "DM_Neg": rr(din)}


def obv_steps(stream):
    """signed volume added at each candle t >= 1: +v when the close rose, -v when it fell, 0 when unchanged"""
    out = [None]
    for t in range(1, len(stream)):
        c, pc, v = stream[t][4], stream[t - 1][4], stream[t][5]
        out.append(v if c > pc else (-v if c < pc else 0))
    return out


def vwap(stream, u):
    """cumulative sum(typical*volume)/sum(volume), typical = (high+low+close)/3; UNDEF while nothing traded"""
    out, pv, vol = [], [], []
    for r in stream:
        pv.append(((r[2] + r[3] + r[4]) / 3) * r[5])
        vol.append(r[5])
        sv = fsum(vol)
        out.append(UNDEF if sv == 0 else V(fsum(pv) / sv).rnd(u))
    return out

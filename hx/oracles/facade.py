"""Oracles for the Hexital façade properties, run against the REAL library.

C08  members of a Hexital == standalone twins (candles, readings), base candles keep OHLCV, settings round trip
C13  indicators sharing candles do not interfere (presence, order, purge/recalculate/remove aimed at the other)
C19  read-only calls have no side effects; equivalent encodings of a candle give identical results,
     caller-owned containers stay untouched, every timeframe of a Hexital receives the same candle
C20  every access path to a reading agrees with direct inspection of the candle

All comparisons are metamorphic (twin objects of the same library fed the same data) or against direct
inspection of ``candle.indicators`` / an independent resampler, and therefore exact.
Every scenario is a JSON-serialisable dict carrying a ``check`` field; ``replay`` dispatches on it.
"""
import math
from copy import deepcopy
import os
from datetime import datetime, timedelta

from .. import gen, wire
from . import common as cm
from . import manager as om


from ..impl import Diverged, guarded as _guarded  # noqa: E402  (one nest-safe watchdog for the whole harness)


def guarded(fn, seconds=5.0):
    return _guarded(fn, seconds=seconds)


def guard_check(check, seconds=None):
    """wrap a check function: a hang inside the library becomes a 'diverged' verdict instead of a stuck worker"""

    def wrapped(scn):
        try:
            budget = seconds or (20.0 if os.environ.get("HX_TIER") == "thorough" else 8.0)
            return guarded(lambda: check(scn), seconds=budget)
        except Diverged:
            kind = scn.get("check", "c08.roundtrip")
            sig = f"{kind.split('.')[0].upper()}:Hexital:diverged"
            if scn.get("hx", scn.get("cfg", {})).get("ha") and (scn.get("tf") or any(m.get("tf") for m in scn.get("members", []))):
                sig = "C08:Hexital:heikin-ashi+timeframe-member" if kind.startswith("c08") else sig
            return {"clause": "diverged", "observed": "call did not return within 5 s", "expected": "termination", "signature": sig}

    wrapped.__name__ = check.__name__
    wrapped.raw = check
    return wrapped


# ---------------------------------------------------------------------------------------------
# configuration space
# ---------------------------------------------------------------------------------------------

FIELDS = ["close", "close", "close", "high", "low", "open"]


def _p(rng, lo, hi):
    return rng.randint(lo, hi)


def _inp(rng):
    return {} if rng.random() < 0.6 else {"input_value": rng.choice(FIELDS)}


# INDICATOR_MAP key -> parameter generator (all 26 non-Amorph kinds)
KIND_PARAMS = {
    "Counter": lambda r: r.choice([{"input_value": "positive"}, {"input_value": "negative"},
                                   {"input_value": "volume", "count_value": 0}]),
    "aroon": lambda r: {"period": _p(r, 2, 8)},
    "ADX": lambda r: {"period": _p(r, 2, 6), **({} if r.random() < 0.6 else {"period_signal": _p(r, 2, 5)})},
    "ATR": lambda r: {"period": _p(r, 2, 8)},
    "BBANDS": lambda r: {"period": _p(r, 2, 8), **_inp(r)},
    "donchian": lambda r: {"period": _p(r, 2, 8)},
    "EMA": lambda r: {"period": _p(r, 1, 10), **_inp(r), **({} if r.random() < 0.8 else {"smoothing": 3.0})},
    "HL": lambda r: {"period": _p(r, 2, 8)},
    "HLA": lambda r: {},
    "HMA": lambda r: {"period": _p(r, 2, 10), **_inp(r)},
    "KC": lambda r: {"period": _p(r, 2, 8), "multiplier": r.choice([1.5, 2.0, 2.0])},
    "MACD": lambda r: {"fast_period": _p(r, 2, 5), "slow_period": _p(r, 6, 10), "signal_period": _p(r, 2, 4)},
    "OBV": lambda r: {},
    "RMA": lambda r: {"period": _p(r, 1, 8), **_inp(r)},
    "ROC": lambda r: {"period": _p(r, 1, 8), **_inp(r)},
    "RSI": lambda r: {"period": _p(r, 2, 8), **_inp(r)},
    "SMA": lambda r: {"period": _p(r, 1, 10), **_inp(r)},
    "STDEV": lambda r: {"period": _p(r, 2, 8), **_inp(r)},
    "STDEVTHRES": lambda r: {"period": _p(r, 2, 8), "multiplier": r.choice([0.5, 1.0, 2.0])},
    "STOCH": lambda r: {"period": _p(r, 2, 8), "slow_period": _p(r, 2, 3), "smoothing_k": _p(r, 2, 3)},
    "Supertrend": lambda r: {"period": _p(r, 2, 7), "multiplier": r.choice([1.0, 3.0])},
    "TR": lambda r: {},
    "TSI": lambda r: {"period": _p(r, 3, 8)},
    "VWAP": lambda r: {"period": _p(r, 2, 10)},
    "VWMA": lambda r: {"period": _p(r, 2, 8)},
    "WMA": lambda r: {"period": _p(r, 1, 8), **_inp(r)},
}
KINDS = sorted(KIND_PARAMS)
DICT_VALUED = {"aroon", "ADX", "BBANDS", "donchian", "HL", "KC", "MACD", "STOCH", "Supertrend"}

# analysis functions wrapped by Amorph (keys of MOVEMENT_MAP | PATTERN_MAP)
ANALYSIS_PARAMS = {
    "positive": lambda r: {},
    "negative": lambda r: {},
    "value_range": lambda r: {"indicator": r.choice(FIELDS), "length": _p(r, 2, 6)},
    "rising": lambda r: {"indicator": r.choice(FIELDS), "length": _p(r, 1, 5)},
    "falling": lambda r: {"indicator": r.choice(FIELDS), "length": _p(r, 1, 5)},
    "mean_rising": lambda r: {"indicator": r.choice(FIELDS), "length": _p(r, 1, 5)},
    "mean_falling": lambda r: {"indicator": r.choice(FIELDS), "length": _p(r, 1, 5)},
    "highest": lambda r: {"indicator": r.choice(["high", "close", "volume"]), "length": _p(r, 1, 6)},
    "lowest": lambda r: {"indicator": r.choice(["low", "close", "volume"]), "length": _p(r, 1, 6)},
    "highestbar": lambda r: {"indicator": r.choice(["high", "close"]), "length": _p(r, 1, 6)},
    "lowestbar": lambda r: {"indicator": r.choice(["low", "close"]), "length": _p(r, 1, 6)},
    "cross": lambda r: {"indicator_one": "close", "indicator_two": "open", "length": 1},
    "crossover": lambda r: {"indicator_one": "close", "indicator_two": "open", "length": _p(r, 1, 3)},
    "crossunder": lambda r: {"indicator_one": "close", "indicator_two": "open", "length": _p(r, 1, 3)},
    "doji": lambda r: r.choice([{}, {}, {"lookback": _p(r, 1, 4)}]),
    "dojistar": lambda r: r.choice([{}, {}, {"lookback": _p(r, 1, 4)}]),
    "hammer": lambda r: r.choice([{}, {}, {"lookback": _p(r, 1, 4)}]),
    "inv_hammer": lambda r: r.choice([{}, {}, {"lookback": _p(r, 1, 4)}]),
}
ANALYSES = sorted(ANALYSIS_PARAMS)
PREDICATES = ["positive", "negative", "rising", "falling", "mean_rising", "mean_falling", "crossover", "crossunder"]


def analysis_fn(key):
    from hexital.analysis import MOVEMENT_MAP, PATTERN_MAP

    return (PATTERN_MAP | MOVEMENT_MAP)[key]


def gen_spec(rng, amorph_share=0.25, kind=None):
    """{'kind': INDICATOR_MAP key, 'params': {...}} or {'kind': 'Amorph', 'analysis': key, 'params': {...}}"""
    if kind is None and rng.random() < amorph_share:
        a = rng.choice(ANALYSES)
        return {"kind": "Amorph", "analysis": a, "params": ANALYSIS_PARAMS[a](rng)}
    if kind == "Amorph":
        a = rng.choice(ANALYSES)
        return {"kind": "Amorph", "analysis": a, "params": ANALYSIS_PARAMS[a](rng)}
    k = kind or rng.choice(KINDS)
    return {"kind": k, "params": KIND_PARAMS[k](rng)}


def spec_label(spec):
    return spec["kind"] if spec["kind"] != "Amorph" else f"Amorph({spec['analysis']})"


def hx_cfg_kwargs(cfg):
    """Hexital-level / effective settings -> constructor keyword arguments (fresh objects each call)"""
    from hexital.candlesticks.heikinashi import HeikinAshi

    return dict(
        timeframe_fill=bool(cfg.get("fill")),
        candles_lifespan=None if cfg.get("life") is None else timedelta(seconds=cfg["life"]),
        candlestick_type=HeikinAshi() if cfg.get("ha") else None,
    )


def build_obj(spec, tf=None, candles=None, cfg=None, suffix=None):
    """a real Indicator object for a spec (optionally with candles and the effective settings)"""
    from hexital import indicators as I

    kw = dict(spec["params"])
    if tf:
        kw["timeframe"] = tf
    if candles is not None:
        kw["candles"] = candles
    if cfg is not None:
        kw.update(hx_cfg_kwargs(cfg))
    if suffix or spec.get("suffix"):
        kw["name_suffix"] = suffix or spec["suffix"]
    if spec["kind"] == "Amorph":
        return I.Amorph(analysis=analysis_fn(spec["analysis"]), **kw)
    return I.INDICATOR_MAP[spec["kind"]](**kw)


_SHARED_ARGS = {}


def build_member(member, cfg):
    """the object / dict handed to Hexital for a member {'kind','params','tf','form'}"""
    form = member.get("form", "obj")
    if form == "dict_shared_args":
        # two analysis members written with ONE `args` dict object (a user re-using a config fragment) and their differing arguments
        # as direct keywords: the library must not keep, let alone write into, the caller's dict
        shared = _SHARED_ARGS.setdefault(member["shared_key"], dict(member["shared_args"]))
        d = {"analysis": member["analysis"], "args": shared, **{k: v for k, v in member["params"].items() if k not in member["shared_args"]}}
        if member.get("tf"):
            d["timeframe"] = member["tf"]
        return d
    tf = member.get("tf")
    if tf and member.get("tf_lower"):
        tf = tf.lower()   # an equivalent spelling: validate_timeframe upper-cases it
    if form == "obj":
        return build_obj(member, tf=tf)
    if form == "obj_used":
        # an Indicator object that has already calculated on candles of its own (its helper indicators exist and are attached to its
        # own manager) before it is handed to the Hexital: still "given as an Indicator object"
        rows = [(1_500_000_000 + 60 * i, 50.0 + (i * 7) % 5, 53.0 + (i * 7) % 5 + i % 3, 48.0 + (i * 7) % 5 - i % 2, 51.0 + (i * 5) % 6, 10 + i)
                for i in range(14)]
        o = build_obj(member, tf=tf, candles=cm.mk_candles(rows))
        o.calculate()
        # ... and that its owner has looked at (anything an accessor remembers about the earlier run must not survive the move)
        _ = (o.has_reading, o.reading(), o.prev_reading(), o.reading_count(), o.as_list(), str(o))
        return o
    if form == "settings":
        return build_obj(member, tf=tf).settings
    if form == "settings_full":
        return build_obj(member, tf=tf or cfg.get("tf"), cfg=cfg).settings
    d = dict(member["params"])
    if tf:
        d["timeframe"] = tf
    if member.get("suffix"):
        d["name_suffix"] = member["suffix"]
    if member["kind"] == "Amorph":
        # an analysis argument called 'indicator' cannot sit next to the 'indicator' key of the dict form: it goes into 'args'
        if form == "dict_callable" and "indicator" not in member["params"]:
            return {"analysis": analysis_fn(member["analysis"]), **d}
        if form in ("dict_args", "dict_callable") or "indicator" in member["params"]:
            rest = {k: v for k, v in d.items() if k not in member["params"]}
            fn = analysis_fn(member["analysis"]) if form == "dict_callable" else member["analysis"]
            return {"analysis": fn, "args": dict(member["params"]), **rest}
        if form == "dict_args":
            rest = {k: v for k, v in d.items() if k not in member["params"]}
            return {"analysis": member["analysis"], "args": dict(member["params"]), **rest}
        return {"analysis": member["analysis"], **d}
    return {"indicator": member["kind"], **d}


def member_name(member, cfg=None):
    """the name the member is registered under (a 'settings_full' dict carries the effective timeframe in its name)"""
    tf = member.get("tf")
    if cfg and member.get("form") == "settings_full":
        tf = tf or cfg.get("tf")
    return build_obj(member, tf=tf).name


def build_hexital(cfg, members, candles, name="hx"):
    from hexital.core.hexital import Hexital

    _SHARED_ARGS.clear()   # one shared dict object per Hexital built
    return Hexital(name, candles, [build_member(m, cfg) for m in members], timeframe=cfg.get("tf"), **hx_cfg_kwargs(cfg))


# ---------------------------------------------------------------------------------------------
# comparison helpers
# ---------------------------------------------------------------------------------------------


def same(a, b):
    """exact equality of readings: same type, same value (NaN equals NaN), dicts key by key"""
    if isinstance(a, dict) or isinstance(b, dict):
        if not (isinstance(a, dict) and isinstance(b, dict)) or list(a) != list(b):
            return False
        return all(same(a[k], b[k]) for k in a)
    if isinstance(a, (list, tuple)) or isinstance(b, (list, tuple)):
        if not (isinstance(a, (list, tuple)) and isinstance(b, (list, tuple))) or len(a) != len(b):
            return False
        return all(same(x, y) for x, y in zip(a, b))
    if type(a) is not type(b):
        return False
    if isinstance(a, float) and math.isnan(a) and math.isnan(b):
        return True
    return a == b


def first_diff(xs, ys):
    if len(xs) != len(ys):
        return {"observed": f"{len(xs)} entries, last {_short(xs[-1] if xs else None, 80)}",
                "expected": f"{len(ys)} entries, last {_short(ys[-1] if ys else None, 80)}"}
    for i, (x, y) in enumerate(zip(xs, ys)):
        if not same(x, y):
            return {"index": i, "observed": _short(x), "expected": _short(y)}
    return None


def _short(x, n=160):
    s = repr(x)
    return s if len(s) <= n else s[: n - 3] + "..."


def candle_tuples(candles):
    return [cm.candle_tuple(c) for c in candles]


def has_any_reading(col):
    for r in col:
        if isinstance(r, dict):
            if any(v is not None for v in r.values()):
                return True
        elif r is not None:
            return True
    return False


def fix_sched(scn):
    return om._fix_sched(scn)


def steps_of(scn):
    """[(consumed_before, consumed_after)] for construction and every append"""
    init = scn.get("init", len(scn["stream"]))
    out = [(0, init)]
    i = init
    for k in scn.get("chunks", []):
        out.append((i, i + k))
        i += k
    return out


def snap(obj):
    """deep structural snapshot (values, types, key order and aliasing structure) of an object graph"""
    memo = {}

    def go(x):
        if x is None or isinstance(x, (bool, int, float, str)):
            return (type(x).__name__, repr(x))
        if isinstance(x, (datetime, timedelta)):
            return ("time", repr(x))
        i = id(x)
        if i in memo:
            return ("ref", memo[i])
        memo[i] = len(memo)
        if isinstance(x, dict):
            return ("dict", tuple((repr(k), go(v)) for k, v in x.items()))
        if isinstance(x, (list, tuple)):
            return (type(x).__name__, tuple(go(v) for v in x))
        if isinstance(x, (set, frozenset)):
            return ("set", tuple(sorted(repr(v) for v in x)))
        if callable(x) and hasattr(x, "__qualname__"):
            return ("fn", getattr(x, "__module__", ""), x.__qualname__)
        if hasattr(x, "__dict__"):
            return ("obj", type(x).__name__, go(vars(x)))
        return ("other", repr(x))

    return go(obj)


def snap_diff(a, b, path=""):
    """path and leaves of the first difference between two snapshots (None when equal)"""
    if a == b:
        return None
    if not (isinstance(a, tuple) and isinstance(b, tuple)) or not a or not b or a[0] != b[0]:
        return f"{path or '.'}: {_short(a, 90)} -> {_short(b, 90)}"
    tag = a[0]
    if tag == "dict":
        ka, kb = [k for k, _ in a[1]], [k for k, _ in b[1]]
        if ka != kb:
            return f"{path or '.'}: keys {_short(ka, 120)} -> {_short(kb, 120)}"
        for (k, va), (_, vb) in zip(a[1], b[1]):
            d = snap_diff(va, vb, f"{path}[{k}]")
            if d:
                return d
    elif tag in ("list", "tuple"):
        if len(a[1]) != len(b[1]):
            return f"{path or '.'}: length {len(a[1])} -> {len(b[1])}"
        for i, (va, vb) in enumerate(zip(a[1], b[1])):
            d = snap_diff(va, vb, f"{path}[{i}]")
            if d:
                return d
    elif tag == "obj":
        if a[1] != b[1]:
            return f"{path or '.'}: type {a[1]} -> {b[1]}"
        return snap_diff(a[2], b[2], f"{path}<{a[1]}>")
    return f"{path or '.'}: {_short(a, 90)} -> {_short(b, 90)}"


def shrink_list(scn, key, fails, min_len=1):
    """greedy removal of single elements of scn[key] while `fails` stays true"""
    best = dict(scn)
    i = 0
    while i < len(best[key]) and len(best[key]) > min_len:
        cand = dict(best)
        cand[key] = best[key][:i] + best[key][i + 1:]
        try:
            bad = fails(cand)
        except Exception:
            bad = False
        if bad:
            best = cand
        else:
            i += 1
    return best


def shrink_scn(scn, check, max_tries=120):
    """members (if any) first, then the stream; the schedule is re-fitted after every removal"""
    fails = lambda s: check(fix_sched(s)) is not None  # noqa: E731
    best = scn
    if "members" in best and len(best["members"]) > 1 and not best.get("keep_members"):
        best = shrink_list(best, "members", fails)
    best = fix_sched(cm.shrink_stream(best, fails, max_tries=max_tries))
    # a simpler schedule if the failure survives it
    for alt in ({"init": len(best["stream"]), "chunks": []}, {"init": 0, "chunks": [1] * len(best["stream"])}):
        cand = {**best, **alt}
        try:
            if check(cand) is not None:
                best = cand
                break
        except Exception:
            pass
    return best


# ---------------------------------------------------------------------------------------------
# generators shared by the case functions
# ---------------------------------------------------------------------------------------------


def gen_tf_pool(rng):
    """a base timeframe and up to two multiples of it (so that nested timeframes are unambiguous)"""
    unit = rng.choice("STTTHHD")
    base_mult = rng.choice([1, 1, 2, 5, 10, 15]) if unit != "D" else rng.choice([1, 1, 2])
    if unit == "H" and rng.random() < 0.3:
        base_mult = rng.choice([6, 12, 24, 25])     # multiples that reach or pass a whole day
    mults = rng.sample([1, 2, 3, 4], rng.choice([1, 2, 2]))
    return f"{unit}{base_mult}", [f"{unit}{base_mult * m}" for m in mults]


def gen_stream_for(rng, n, base_tf, with_ts=True, price_style=None, ts_style=None):
    if not with_ts:
        return gen.gen_stream(rng, n, price_style=price_style, with_ts=False)
    step = None
    if base_tf:
        s = gen.tf_seconds(base_tf)
        step = max(1, s // rng.choice([1, 1, 2, 2, 3, 5]))
    if ts_style is None:
        ts_style = rng.choice(["regular", "regular", "regular", "gaps", "dups", "mixed"])
    return gen.gen_stream(rng, n, price_style=price_style, ts_style=ts_style, step=step)


def names_collide(members, cfg, cross=False):
    """True if two members share a name, or a default-named helper series of one member coincides with the
    top-level name of another on the same candles (the NoCollision precondition of C08)"""
    names = [member_name(m, cfg) for m in members]
    if len(set(names)) != len(names):
        return True
    for m in members:
        for o, on in zip(members, names):
            if m is o or (not cross and (m.get("tf") or None) != (o.get("tf") or None)):
                continue  # cross: Hexital.reading falls through to the other timeframes, so a helper name matters there as well
            if helper_relation(m, o, on):
                return True
    return False


_HELPERS = {}
_PROBE = [(0, 10, 11, 9, 10, 5), (60, 10, 12, 10, 11, 7), (120, 11, 12, 10, 10, 3)]


def helper_names(member):
    """names of the internal helper series (sub / managed indicators, any depth) the member keeps on its candles,
    read off a real instance after one calculate() - so the precondition follows the tree under test"""
    key = repr((member["kind"], member.get("analysis"), sorted(member["params"].items()), member.get("tf"), member.get("suffix")))
    if key not in _HELPERS:
        names = set()
        try:
            obj = build_obj(member, tf=member.get("tf"), candles=cm.mk_candles(_PROBE))
            try:
                obj.calculate()
            except Exception:
                pass

            def walk(ind):
                for group in (ind.sub_indicators, ind.managed_indicators):
                    for sub in group.values():
                        if sub.name not in names:
                            names.add(sub.name)
                            walk(sub)

            walk(obj)
        except Exception:
            pass
        _HELPERS[key] = names
    return _HELPERS[key]


def helper_relation(owner, other, other_name):
    """does `owner` keep an internal helper series under `other`'s top-level name?  (label of the composite family | None)"""
    if other_name in helper_names(owner):
        if other_name == "TR":
            return "ATR"
        return owner["kind"]
    return None


# ---------------------------------------------------------------------------------------------
# C08 – members of a Hexital behave like standalone twins
# ---------------------------------------------------------------------------------------------


def apply_mut(obj, scn, mut):
    """state-changing maintenance call (the same on the inspected object and on its twin): leaves e.g. the
    cursor of an indicator on an older candle.  mut = [op, member index, index]"""
    op, mem, k = mut
    if scn.get("target") == "hexital":
        names = [member_name(m) for m in scn["members"]]
        name = names[mem % len(names)]
        if name not in obj.indicators:   # (a run that does not hold this member: nothing to do)
            return
        ind = obj.indicator(name)
        n = len(ind.candles) if ind is not None else 0
        if op == "calculate_index" and n:
            obj.calculate_index(name, k % n if k >= 0 else -1 - ((-k - 1) % n))
        elif op == "purge":
            obj.purge(name)
        elif op == "recalculate":
            obj.recalculate(name)
        return
    n = len(obj.candles)
    if op == "calculate_index" and n:
        obj.calculate_index(k % n if k >= 0 else -1 - ((-k - 1) % n))
    elif op == "purge":
        obj.purge()
    elif op == "recalculate":
        obj.recalculate()


def _drive(obj, scn, on_step):
    """calculate after construction, then append chunk by chunk (fresh Candle objects every time)"""
    stream = scn["stream"]
    muts = scn.get("muts") or []
    if not scn.get("lazy"):  # C19 also inspects objects that were given candles but have not calculated yet
        obj.calculate()
    for m in (muts[0] if muts else []):
        apply_mut(obj, scn, m)
    r = on_step(0, scn.get("init", len(stream)))
    if r:
        return r
    for j, (a, b) in enumerate(steps_of(scn)[1:]):
        # optional encoding of the appended chunks (dicts / lists instead of Candle objects); rows without a stamp stay Candle objects
        enc = scn.get("enc") if all(t[0] is not None for t in stream[a:b]) else None
        obj.append(encode_chunk(stream[a:b], enc, False) if enc else cm.mk_candles(stream[a:b]))
        for m in (muts[j + 1] if j + 1 < len(muts) else []):
            apply_mut(obj, scn, m)
        r = on_step(j + 1, b)
        if r:
            return r
    return None


def _twin_trace(member, scn):
    """[(candle tuples, readings column)] of the standalone twin after construction and after every append"""
    cfg = scn["hx"]
    stream = scn["stream"]
    init = scn.get("init", len(stream))
    twin = build_obj(member, tf=member.get("tf") or cfg.get("tf"), candles=cm.mk_candles(stream[:init]), cfg=cfg)
    trace = []

    def on_step(j, consumed):
        trace.append((candle_tuples(twin.candles), deepcopy(twin.as_list())))

    _drive(twin, scn, on_step)
    return trace


def _base_trace(scn):
    """candle tuples of a bare CandleManager with the Hexital-level settings after construction and every append"""
    from hexital.core.candle_manager import CandleManager

    cfg, stream = scn["hx"], scn["stream"]
    mgr = CandleManager(cm.mk_candles(stream[: scn.get("init", len(stream))]), timeframe=cfg.get("tf"),
                        **{k: v for k, v in hx_cfg_kwargs(cfg).items()})
    trace = [candle_tuples(mgr.candles)]
    for a, b in steps_of(scn)[1:]:
        mgr.append(cm.mk_candles(stream[a:b]))
        trace.append(candle_tuples(mgr.candles))
    return trace


LIFE_SIG = "C08:Hexital:lifespan+timeframe-member:at-construction"


def c08_signature(scn, clause, member=None, step=None, index=None):
    cfg = scn["hx"]
    # open known finding: a member's manager is BUILT from what the (already trimmed) default manager holds, so right after
    # construction its oldest retained bucket can be partial.  Only that: first difference at construction, on the oldest bucket.
    if clause in ("member-candles", "member-readings") and cfg.get("life") is not None and any(m.get("tf") for m in scn["members"]) \
            and step == 0:
        return LIFE_SIG
    if clause in ("member-candles", "member-readings", "raised") and cfg.get("ha") and (
            any(m.get("tf") for m in scn["members"])):
        return "C08:Hexital:heikin-ashi+timeframe-member"
    if clause in ("member-candles", "member-readings") and cfg.get("fill") and cfg.get("tf") and any(m.get("tf") for m in scn["members"]):
        return "C08:Hexital:base-fill+timeframe-member"  # likewise only with wide=True
    who = spec_label(member) if member else "Hexital"
    if clause == "member-candles":
        who = "Hexital"
    return f"C08:{who}:{clause}"


@guard_check
def check_c08(scn):
    """None | {'skip': why} | violation description"""
    return _c08_diagnose(scn, _c08_core(scn))


def _c08_core(scn):
    cfg = scn["hx"]
    members = scn["members"]
    stream = scn["stream"]
    init = scn.get("init", len(stream))
    try:
        names = [member_name(m, cfg) for m in members]
        traces = [_twin_trace(m, scn) for m in members]
        base_trace = _base_trace(scn)
    except Exception as e:  # the standalone indicator itself fails on this input: C09's business
        return {"skip": f"standalone raises {type(e).__name__}"}
    any_reading = any(has_any_reading(t[-1][1]) for t in traces)
    plain_base = not cfg.get("ha") and not cfg.get("tf")
    state = {"stage": "construct"}
    late = {int(i): st for i, st in (scn.get("late") or {}).items()}   # member index -> step after which it is registered (add_indicator)
    try:
        hx = build_hexital(cfg, [m for i, m in enumerate(members) if i not in late], cm.mk_candles(stream[:init]))
        early = [n for i, n in enumerate(names) if i not in late]
        missing = [n for n in early if n not in hx.indicators]
        if missing or len(hx.indicators) != len(early):
            return {"clause": "member-names", "observed": sorted(hx.indicators), "expected": sorted(early),
                    "signature": c08_signature(scn, "member-names", members[names.index(missing[0])] if missing else None)}

        def on_step(j, consumed):
            state["stage"] = f"step {j}"
            for i, st in late.items():
                if st == j:
                    hx.add_indicator(build_member(members[i], cfg))
                    hx.calculate()
            for i, (m, n, tr) in enumerate(zip(members, names, traces)):
                if i in late and late[i] > j:
                    continue   # not registered yet
                ind = hx.indicator(n)
                exp_c, exp_r = tr[j]
                d = first_diff(candle_tuples(ind.candles), exp_c)
                if d:
                    return {"clause": "member-candles", "member": n, "step": j, **d,
                            "signature": c08_signature(scn, "member-candles", m, step=j, index=d.get("index"))}
                for label, col in (("as_list", ind.as_list()), ("reading_as_list", hx.reading_as_list(n))):
                    d = first_diff(col, exp_r)
                    if d:
                        return {"clause": "member-readings", "via": label, "member": n, "step": j, **d,
                                "signature": c08_signature(scn, "member-readings", m, step=j)}
            # base candles: exactly those of a bare manager with the Hexital-level settings (members leave them alone) ...
            got = candle_tuples(hx.candles())
            d = first_diff(got, base_trace[j])
            if d:
                return {"clause": "base-candles", "step": j, **d, "signature": c08_signature(scn, "base-candles")}
            # ... and, when nothing collapses or converts them, the caller's original OHLCV
            if plain_base:
                want = [tuple(t) for t in stream[:consumed]]
                if cfg.get("life") is not None and want and want[-1][0] is not None:
                    want = cm.ref_trim(want, cfg["life"])
                if not cm.tuples_equal(got, want, exact=True):
                    return {"clause": "base-candles-original-ohlcv", "step": j, "observed": got[-3:], "expected": want[-3:],
                            "signature": c08_signature(scn, "base-candles")}
            return None

        bad = _drive(hx, scn, on_step)
    except Exception as e:
        return {"clause": "raised", "stage": state["stage"], "observed": repr(e)[:200], "expected": "no exception (the standalone twins run clean)",
                "signature": c08_signature(scn, "raised")}
    if bad:
        return bad
    return None if any_reading else {"skip": "no reading produced"}


HA_SIG = "C08:Hexital:heikin-ashi+timeframe-member"


def _c08_diagnose(scn, bad):
    """keep the Heikin-Ashi signature only if the same scenario passes with plain candles (otherwise report what fails there)"""
    if not bad or bad.get("signature") != HA_SIG or scn.get("_plain"):
        return bad
    plain = deepcopy(scn)
    plain["_plain"] = True
    plain["hx"]["ha"] = False
    try:
        other = _c08_core(plain)
    except Exception:
        other = None
    if other and "skip" not in other:
        other["note"] = "also fails with candlestick_type=None (shown); the scenario asks for Heikin-Ashi"
        return other
    return bad


def gen_c08(rng, size=50, allow_hx_tf=True, allow_ha_member_tf=True, wide=False):
    base_tf, pool = gen_tf_pool(rng)
    with_ts = rng.random() < 0.88
    cfg = {"tf": None, "fill": False, "life": None, "ha": rng.random() < 0.2}
    member_tf = with_ts and rng.random() < 0.75
    if with_ts and allow_hx_tf and rng.random() < 0.3:
        cfg["tf"] = base_tf
    if with_ts and rng.random() < 0.3:
        # a gap-filling base timeframe would hand members a stream that contains synthetic candles only at
        # construction time; fill is therefore combined with member timeframes only when the base is raw
        cfg["fill"] = True   # (member managers are built from the candles as given since fix 3f78fc6: every combination is well defined)
    if with_ts and rng.random() < 0.25:
        cfg["life"] = gen.tf_seconds(base_tf) * rng.choice([0, 1, 3, 10, 20, 40]) + rng.choice([0, 0, 0, 1, gen.tf_seconds(base_tf) // 2])
    if cfg["ha"] and member_tf and not allow_ha_member_tf:
        cfg["ha"] = False
    k = rng.choice([1, 2, 2, 3, 3, 4])
    members = []
    for _ in range(40):
        if len(members) == k:
            break
        m = gen_spec(rng)
        m["tf"] = rng.choice(pool) if member_tf and rng.random() < 0.7 else None
        if m["tf"] and rng.random() < 0.2:
            m["tf_lower"] = True
        if m["tf"] and m["kind"] != "Amorph" and rng.random() < 0.15:
            # manager settings written on the MEMBER: inside a Hexital the manager is the Hexital's, so they decide nothing - neither
            # for this member nor for a neighbour on the same timeframe, whoever registers first (the twin gets the Hexital's)
            m["params"][rng.choice(["timeframe_fill", "candlestick_type"])] = True
            if m["params"].get("candlestick_type") is True:
                m["params"]["candlestick_type"] = "HA"
        if m["kind"] == "Amorph":
            m["form"] = rng.choice(["obj", "dict", "dict_callable", "dict_args", "settings", "obj_used"])
        else:
            m["form"] = rng.choice(["obj", "dict", "settings", "settings_full", "obj_used"])
        if names_collide(members + [m], cfg):
            continue
        if m["form"].startswith("settings") and check_roundtrip({"spec": m, "tf": m["tf"], "cfg": cfg}) is not None:
            m["form"] = "dict"  # the round trip itself is reported by case_c08_roundtrip
            m["settings_fallback"] = True
        members.append(m)
    n = rng.randint(2, size)
    stream, smeta = gen_stream_for(rng, n, base_tf, with_ts)
    (init, chunks), shape = gen.gen_schedule(rng, n)
    scn = {"check": "c08.members", "hx": cfg, "members": members, "stream": stream, "init": init, "chunks": chunks}
    if cfg["life"] is None and not cfg["tf"] and len(members) >= 2 and rng.random() < 0.25:
        # some members are registered LATER through add_indicator, after candles have arrived: their manager is then built from what the
        # default manager holds (everything, since nothing is trimmed, and raw or recoverable) - the twin has seen the same stream
        steps_n = 1 + len(chunks)
        scn["late"] = {str(i): rng.randrange(steps_n) for i in rng.sample(range(len(members)), rng.randint(1, len(members) - 1))}
        scn["keep_members"] = True   # the indices above refer to this member list
    tfs = {m["tf"] for m in members if m["tf"]}
    meta = {"price": smeta["price"], "ts": smeta["ts"], "schedule": shape, "members": len(members), "member_timeframes": len(tfs),
            "hx_tf": bool(cfg["tf"]), "fill": cfg["fill"], "life": cfg["life"] is not None, "ha": cfg["ha"]}
    for m in members:
        meta[f"kind:{spec_label(m)}"] = True
        meta[f"form:{m['form']}"] = True
    return scn, meta


def case_c08(rng, idx, params):
    scn, meta = gen_c08(rng, size=params.get("size", 50), **params.get("genkw", {}))
    bad = check_c08(scn)
    viol = None
    skipped = bool(bad and "skip" in bad)
    if bad and not skipped and bad.get("clause") == "diverged":
        viol = {"scenario": scn, **bad}  # every further attempt would cost the watchdog budget: reported unshrunk
    elif bad and not skipped:
        sig = bad["signature"]
        small = shrink_scn(scn, lambda s: _same_sig(check_c08(s), sig))
        bad2 = check_c08(small)
        if not bad2 or "skip" in bad2:
            small, bad2 = scn, bad
        viol = {"scenario": small, **bad2}
    meta["skipped"] = skipped
    return {"nontrivial": not skipped and (bool(scn["chunks"]) or scn["init"] > 1), "key": hash(str(scn)), "violation": viol, "meta": meta,
            "evals": len(scn["members"]) * (1 + len(scn["chunks"])),
            "sample": _sample(scn) if idx < 2 else None}


def _same_sig(bad, sig):
    return bad if (bad and bad.get("signature") == sig) else None


def _sample(scn):
    out = {k: v for k, v in scn.items() if k not in ("stream", "chunks", "program")}
    out["n"] = len(scn["stream"])
    out["first_candles"] = scn["stream"][:2]
    out["chunks"] = scn.get("chunks", [])[:8]
    return out


# --- settings round trip ----------------------------------------------------------------------


def _norm_settings(s):
    """candlestick types compare by their short name (Amorph.settings carries the object, Indicator.settings the name)"""
    return {k: (v.minimal_name if hasattr(v, "minimal_name") else v) for k, v in s.items()}


@guard_check
def check_roundtrip(scn):
    """settings of a standalone indicator, given back to Hexital as a dict, rebuild an equivalent indicator:
    same class, same name, same settings (a fixed point), same readings on a stream"""
    from hexital.core.hexital import Hexital

    spec, tf, cfg = scn["spec"], scn.get("tf"), scn.get("cfg") or {}
    label = spec_label(spec) if spec["kind"] != "Amorph" else "Amorph"
    sig = f"C08:{label}{'.settings' if label == 'Amorph' else ''}:settings-roundtrip"
    orig = build_obj(spec, tf=tf, cfg=cfg if scn.get("full") else None)
    try:
        s = orig.settings
        s_keep = deepcopy(s)
        hx = Hexital("rt", [], [s], **(hx_cfg_kwargs(cfg) if scn.get("full") else {}))
    except Exception as e:
        if type(e).__name__ == "InvalidIndicator" and spec["kind"] != "Amorph":
            sig = "C08:Indicator.settings:name-not-in-INDICATOR_MAP"  # one defect, whichever kind exhibits it
        return {"clause": "settings-roundtrip", "indicator_kind": label, "observed": repr(e)[:200], "expected": f"an indicator equivalent to {orig.name}",
                "settings": _short(locals().get("s")), "signature": sig}
    if _norm_settings(s) != _norm_settings(s_keep):
        return {"clause": "settings-roundtrip", "observed": "Hexital altered the settings dict it was given", "expected": _short(s_keep), "signature": sig}
    if list(hx.indicators) != [orig.name]:
        return {"clause": "settings-roundtrip", "observed": list(hx.indicators), "expected": [orig.name], "settings": _short(s), "signature": sig}
    rebuilt = hx.indicator(orig.name)
    if type(rebuilt) is not type(orig):
        return {"clause": "settings-roundtrip", "observed": type(rebuilt).__name__, "expected": type(orig).__name__, "signature": sig}
    if getattr(orig, "_analysis_kwargs", None) != getattr(rebuilt, "_analysis_kwargs", None):
        return {"clause": "settings-roundtrip", "observed": f"analysis arguments {getattr(rebuilt, '_analysis_kwargs', None)}",
                "expected": f"analysis arguments {getattr(orig, '_analysis_kwargs', None)}", "settings": _short(s), "signature": sig}
    try:
        s2 = rebuilt.settings
    except Exception as e:
        return {"clause": "settings-roundtrip", "observed": repr(e)[:200], "expected": "settings of the rebuilt indicator", "signature": sig}
    if _norm_settings(s2) != _norm_settings(s):
        return {"clause": "settings-roundtrip", "observed": _short(s2), "expected": _short(s), "signature": sig}
    stream = scn.get("stream") or []
    if stream:
        try:
            a = build_obj(spec, tf=tf, candles=cm.mk_candles(stream), cfg=cfg if scn.get("full") else None)
            a.calculate()
        except Exception:
            return None  # the indicator itself fails on this stream (C09)
        try:
            hx2 = Hexital("rt", cm.mk_candles(stream), [deepcopy(s)], **(hx_cfg_kwargs(cfg) if scn.get("full") else {}))
            hx2.calculate()
            d = first_diff(hx2.indicator(orig.name).as_list(), a.as_list())
        except Exception as e:
            return {"clause": "settings-roundtrip", "observed": repr(e)[:200], "expected": "the rebuilt indicator calculates like the original",
                    "settings": _short(s), "signature": sig}
        if d:
            return {"clause": "settings-roundtrip", **d, "settings": _short(s), "signature": sig}
    return None


def case_c08_roundtrip(rng, idx, params):
    """every kind in turn (case index modulo the kind list), random parameters and effective settings"""
    slots = KINDS + ANALYSES
    slot = slots[idx % len(slots)]
    if slot in KIND_PARAMS:
        spec = gen_spec(rng, kind=slot)
    else:
        spec = {"kind": "Amorph", "analysis": slot, "params": ANALYSIS_PARAMS[slot](rng)}
        if rng.random() < 0.5:   # framework arguments of the wrapper itself, falsy values included
            spec["params"]["round_value"] = rng.choice([0, 0, 2, 6])
    base_tf, pool = gen_tf_pool(rng)
    tf = rng.choice(pool) if rng.random() < 0.5 else None
    full = rng.random() < 0.4
    cfg = {"fill": bool(tf) and rng.random() < 0.5, "life": rng.choice([None, 3600, 86400]), "ha": rng.random() < 0.4} if full else {}
    n = rng.randint(12, 40)
    stream, _ = gen_stream_for(rng, n, base_tf, True, price_style=rng.choice(["walk", "walk", "ints", "jumpy"]), ts_style="regular")
    scn = {"check": "c08.roundtrip", "spec": spec, "tf": tf, "full": full, "cfg": cfg, "stream": stream}
    bad = check_roundtrip(scn)
    viol = None
    if bad:
        small = dict(scn)
        for cand_stream in ([], stream[:12]):
            cand = {**scn, "stream": cand_stream}
            if _same_sig(check_roundtrip(cand), bad["signature"]):
                small = cand
                break
        for simpler in ({"tf": None}, {"full": False, "cfg": {}}):
            cand = {**small, **simpler}
            if _same_sig(check_roundtrip(cand), bad["signature"]):
                small = cand
        viol = {"scenario": small, **(check_roundtrip(small) or bad)}
    meta = {"roundtrip_kind": spec_label(spec), "roundtrip_tf": bool(tf), "roundtrip_full": full}
    return {"nontrivial": True, "key": hash(str(scn)), "violation": viol, "meta": meta, "sample": _sample(scn) if idx < 1 else None}


# ---------------------------------------------------------------------------------------------
# C13 – indicators sharing candles do not interfere
# ---------------------------------------------------------------------------------------------

OPS = ["purge", "recalculate", "remove_indicator", "calculate"]


NAME_SIGS = ("C13:Hexital.purge:substring-match", "C13:BBANDS:helper-name-collision", "C13:ATR:helper-name-collision")


def _c13_relation(scn, clause, target=None):
    """(signature, index of the member whose renaming removes the name relation | None) from the names alone"""
    members = scn["members"]
    names = [member_name(m) for m in members]
    obs, obs_name = members[0], names[0]
    if target is not None and clause in OPS:
        tname = names[target]
        if tname != obs_name and tname in obs_name and clause != "calculate":
            return NAME_SIGS[0], target
    for k, (m, n) in list(enumerate(zip(members, names)))[1:]:
        rel = helper_relation(obs, m, n)
        if rel:
            return f"C13:{rel}:helper-name-collision", k
        rel = helper_relation(m, obs, obs_name)
        if rel:
            return f"C13:{rel}:helper-name-collision", 0
    if clause in OPS:
        return f"C13:Hexital.{clause}:changes-other-member", None
    return f"C13:Hexital:{clause}", None


def c13_signature(scn, clause, target=None):
    """A name-relation signature is only given when the relation is the cause: the same scenario with the related
    member renamed (name_suffix) must pass; otherwise the failure is reported under the generic signature, so that a
    new defect never hides behind a known naming finding."""
    sig, ren = _c13_relation(scn, clause, target)
    if ren is None or scn.get("_renamed"):
        return sig
    renamed = deepcopy(scn)
    renamed["_renamed"] = True
    renamed["members"][ren]["suffix"] = (renamed["members"][ren].get("suffix") or "") + "zq"
    try:
        still = check_c13.raw(renamed)
    except Exception:
        still = None
    if still and "skip" not in still:
        return f"C13:Hexital.{clause}:changes-other-member" if clause in OPS else f"C13:Hexital:{clause}"
    return sig


def _run_solo(member, scn):
    """readings column of the observed indicator alone in a Hexital, after construction and every append"""
    cfg = scn["hx"]
    stream = scn["stream"]
    hx = build_hexital(cfg, [member], cm.mk_candles(stream[: scn.get("init", len(stream))]))
    name = member_name(member)
    trace = []
    _drive(hx, scn, lambda j, consumed: trace.append(deepcopy(hx.indicator(name).as_list())))
    return trace


@guard_check
def check_c13(scn):
    """members[0] is observed; ops = [(step, op, target member index)] are aimed at the others"""
    cfg = scn["hx"]
    members = scn["members"]
    stream = scn["stream"]
    init = scn.get("init", len(stream))
    name = member_name(members[0])
    names = [member_name(m) for m in members]
    try:
        solo = _run_solo(members[0], scn)
        for m in members[1:]:
            _run_solo(m, scn)
    except Exception as e:
        return {"skip": f"a member alone raises {type(e).__name__}"}
    if not has_any_reading(solo[-1]):
        return {"skip": "no reading produced"}
    ops = scn.get("ops", [])
    if ops:
        # the operations must be harmless for the others on their own (purge + later recalculation of a composite is C14's
        # business); only then is a failure in company an interference
        try:
            alone = build_hexital(cfg, members[1:], cm.mk_candles(stream[:init]))

            def ops_alone(j, consumed):
                for (st, op, tgt) in ops:
                    if st == j:
                        getattr(alone, op)(names[tgt])

            _drive(alone, scn, ops_alone)
        except Exception as e:
            return {"skip": f"the operations raise {type(e).__name__} on the other members alone"}
    for order in scn.get("orders", ["obs-first", "obs-last"]):
        ordered = members if order == "obs-first" else members[1:] + members[:1]
        for with_ops in ([False, True] if ops else [False]):
            state = {"stage": "construct"}
            try:
                hx = build_hexital(cfg, ordered, cm.mk_candles(stream[:init]))

                def on_step(j, consumed):
                    state["stage"] = f"step {j}"
                    col = hx.indicator(name).as_list()
                    d = first_diff(col, solo[j])
                    if d:
                        clause = "presence" if order == "obs-first" else "order"
                        last = state.get("last_op")
                        if with_ops and last:
                            clause = last[1]
                        return {"clause": clause, "order": order, "step": j, "after_ops": bool(with_ops and last), **d,
                                "signature": c13_signature(scn, clause, last[2] if (with_ops and last) else None)}
                    if with_ops:
                        for (st, op, tgt) in ops:
                            if st != j:
                                continue
                            state["stage"] = f"step {j} {op}({names[tgt]})"
                            before = deepcopy(col)
                            getattr(hx, op)(names[tgt])
                            state["last_op"] = (st, op, tgt)
                            col = hx.indicator(name).as_list()
                            d = first_diff(col, before)
                            if d:
                                return {"clause": op, "order": order, "step": j, "op": f"{op}({names[tgt]!r})", "observing": name, **d,
                                        "signature": c13_signature(scn, op, tgt)}
                    return None

                bad = _drive(hx, scn, on_step)
            except Exception as e:
                last = state.get("last_op")
                return {"clause": "raised", "order": order, "stage": state["stage"], "observed": repr(e)[:200],
                        "expected": "no exception (every member runs clean alone)",
                        "signature": c13_signature(scn, last[1] if last else "raised", last[2] if last else None)}
            if bad:
                return bad
    return None


def gen_c13(rng, size=50):
    flavour = rng.choice(["substring", "substring", "suffix", "helper", "helper", "random", "random", "random", "alias", "field", "sharedargs"])
    members = None
    if flavour == "sharedargs":
        a = rng.choice(["rising", "falling", "mean_rising", "mean_falling", "highest", "lowest"])
        fld = rng.choice(FIELDS)
        l1, l2 = rng.sample([1, 2, 3, 4, 6, 8], 2)
        members = [{"kind": "Amorph", "analysis": a, "params": {"indicator": fld, "length": ln}, "shared_args": {"indicator": fld},
                    "shared_key": "k"} for ln in (l1, l2)]
    elif flavour == "field":
        # an independent indicator that the user named like a CANDLE FIELD ("high", "volume", ...): a legal, distinct top-level name;
        # a member that reads that field of the candle (by default or through input_value) takes no input from it
        fld = rng.choice(["high", "low", "close", "open", "volume"])
        other = gen_spec(rng, kind=rng.choice(["EMA", "SMA", "RMA", "WMA", "ROC"]))
        other["params"]["fullname_override"] = fld
        other["params"]["input_value"] = rng.choice([f for f in ["high", "low", "close", "open"] if f != fld])
        if fld in ("high", "low", "close") and rng.random() < 0.6:
            reader = gen_spec(rng, kind=rng.choice(["ATR", "TR", "STOCH", "KC", "ADX", "Supertrend", "aroon", "donchian", "HL"]
                                                   + (["HLA"] if fld != "close" else [])))
        elif fld == "volume" and rng.random() < 0.6:
            reader = gen_spec(rng, kind=rng.choice(["OBV", "VWAP", "VWMA"]))
        else:
            reader = gen_spec(rng, kind=rng.choice(["SMA", "EMA", "STDEV", "RSI", "ROC"]))
            reader["params"]["input_value"] = fld
        members = [reader, other]                       # observe the reader of the field, operate on the field-named one
    elif flavour == "alias":
        # an independent indicator that the user named like one of a composite's INTERNAL registry aliases
        # (managed_indicators keys such as "signal", "dx", "ST_data"): a legal, distinct top-level name
        comp, aliases = rng.choice([("MACD", ["signal"]), ("ADX", ["dx", "ADX_data"]), ("STOCH", ["STOCH_d", "STOCH_data"]), ("HMA", ["raw_HMA"]),
                                    ("Supertrend", ["ST_data"]), ("RSI", ["RSI_data"]), ("TSI", ["TSI_data"]), ("VWAP", ["VWAP_data"]),
                                    ("STDEV", ["STDEV_data"])])
        other = gen_spec(rng, kind=rng.choice(["EMA", "SMA", "RMA", "WMA", "ROC"]))
        other["params"]["fullname_override"] = rng.choice(aliases)
        members = [other, gen_spec(rng, kind=comp)]     # observe the alias-named one, operate on the composite
    elif flavour == "substring":
        # the short name is a substring of the long one: EMA_3 / EMA_30, SMA_1 / SMA_12, WMA_2 / VWMA_20, TR / ATR_14 ...
        kind = rng.choice(["EMA", "EMA", "SMA", "RMA", "WMA", "HL", "VWMA", "ATR", "STDEV", "WMA/VWMA", "TR/ATR", "HLA/HL"])
        if kind == "WMA/VWMA":
            d = rng.choice([1, 2])
            members = [{"kind": "VWMA", "params": {"period": d * 10 + rng.randint(0, 2)}}, {"kind": "WMA", "params": {"period": d}}]
        elif kind == "TR/ATR":
            members = [{"kind": rng.choice(["ATR", "ATR", "KC"]), "params": {"period": rng.choice([2, 3, 5, 14])}}, {"kind": "TR", "params": {}}]
        elif kind == "HLA/HL":  # control: 'HL_n' is NOT contained in 'HLA'
            members = [{"kind": "HLA", "params": {}}, {"kind": "HL", "params": {"period": rng.randint(2, 6)}}]
        else:
            d = rng.choice([1, 1, 2, 3]) if kind in ("EMA", "SMA", "RMA", "WMA") else rng.choice([2, 3])
            long = d * 10 + (rng.randint(0, 3) if d == 1 else 0)
            members = [{"kind": kind, "params": {"period": long}}, {"kind": kind, "params": {"period": d}}]
        if rng.random() < 0.3:
            members.reverse()  # observe the short-named one, operate on the long-named one
    elif flavour == "suffix":
        base = gen_spec(rng, amorph_share=0.15)
        twin = deepcopy(base)
        twin["suffix"] = rng.choice(["x", "b", "2"])
        members = [twin, base] if rng.random() < 0.7 else [base, twin]
    elif flavour == "helper":
        p = rng.randint(2, 6)
        which = rng.choice(["BBANDS/SMA", "BBANDS/STDEV", "ATR/TR", "ATRfam/TR", "BBANDS/SMA-other-input"])
        if which == "BBANDS/SMA":
            members = [{"kind": "BBANDS", "params": {"period": p}}, {"kind": "SMA", "params": {"period": p}}]
        elif which == "BBANDS/SMA-other-input":
            members = [{"kind": "BBANDS", "params": {"period": p}},
                       {"kind": rng.choice(["SMA", "STDEV"]), "params": {"period": p, "input_value": rng.choice(["high", "low", "volume"])}}]
        elif which == "BBANDS/STDEV":
            members = [{"kind": "BBANDS", "params": {"period": p}}, {"kind": "STDEV", "params": {"period": p}}]
        elif which == "ATR/TR":
            members = [{"kind": "ATR", "params": {"period": p}}, {"kind": "TR", "params": {}}]
        else:
            k = rng.choice(["KC", "Supertrend", "ADX"])
            members = [gen_spec(rng, kind=k), {"kind": "TR", "params": {}}]
        if rng.random() < 0.5:
            members.reverse()
    if members is None:
        for _ in range(30):
            cand = [gen_spec(rng) for _ in range(rng.choice([2, 2, 3]))]
            names = [member_name(m) for m in cand]
            if len(set(names)) == len(names):
                members = cand
                break
        else:
            members = [{"kind": "EMA", "params": {"period": 3}}, {"kind": "SMA", "params": {"period": 4}}]
    elif rng.random() < 0.25:
        extra = gen_spec(rng)
        if member_name(extra) not in [member_name(m) for m in members]:
            members.append(extra)
    base_tf, pool = gen_tf_pool(rng)
    cfg = {"tf": None, "fill": False, "life": None, "ha": rng.random() < 0.1}
    shared_tf = rng.choice(pool) if rng.random() < 0.25 else None
    if shared_tf is None and rng.random() < 0.15:
        cfg["tf"] = base_tf
    for m in members:
        m["tf"] = shared_tf
        m["form"] = rng.choice(["obj", "obj", "dict", "obj_used"]) if flavour != "sharedargs" else "dict_shared_args"
    if shared_tf is None and not cfg["tf"] and flavour != "sharedargs" and rng.random() < 0.3:
        # members on DIFFERENT managers of the same Hexital: the observed one on the Hexital's candles, the others on a timeframe of
        # their own (or the other way round) - what one manager does must not show on the other
        if rng.random() < 0.5:
            for m in members[1:]:
                m["tf"] = rng.choice(pool)
        else:
            members[0]["tf"] = rng.choice(pool)
    if rng.random() < 0.15:
        s_ = gen.tf_seconds(base_tf)
        cfg["life"] = s_ * rng.choice([3, 10, 20, 40]) + rng.choice([0, 0, 1, s_ // 2])
    if cfg["tf"] and rng.random() < 0.5:
        # the other members name the Hexital's own timeframe explicitly: a second manager over the same buckets
        for m in members[1:]:
            m["tf"] = cfg["tf"]
    if shared_tf and rng.random() < 0.35:
        # a member that carries its own candlestick type: the manager is the Hexital's, so it must not matter to the others
        # (nor depend on who registered first)
        members[rng.randrange(1, len(members))]["params"]["candlestick_type"] = "HA"
    need = max([v for m in members for k, v in m["params"].items() if "period" in k and isinstance(v, int)] + [2])
    lo = min(size, need + 3)
    n = rng.randint(lo, max(lo, size))
    price = rng.choice(["walk", "walk", "walk", "ints", "jumpy", "repeat", "big", "small", None])
    stream, smeta = gen_stream_for(rng, n, base_tf if (shared_tf or cfg["tf"] or cfg["life"] is not None or any(m.get("tf") for m in members)) else None, True, price_style=price,
                                   ts_style=rng.choice(["regular", "regular", "gaps"]))
    resent = False
    if rng.random() < 0.2 and n >= 4:
        # a live feed that RE-SENDS bars (same stamp, same values), one candle at a time: a legal stream (stamps do not decrease); what the
        # library makes of the repeat on each manager must not depend on which other members exist
        for i in sorted(rng.sample(range(1, n), min(n - 1, rng.randint(1, 4))), reverse=True):
            stream.insert(i + 1, stream[i])
        n = len(stream)
        resent = True
    (init, chunks), shape = gen.gen_schedule(rng, n, shape=rng.choice(["empty1", "one1", "singles"]) if resent else None)
    steps = 1 + len(chunks)
    ops = []
    for _ in range(rng.choice([1, 1, 2, 3])):
        st = rng.choice([steps - 1, steps - 1, rng.randrange(steps)])
        ops.append((st, rng.choice(OPS[:3] + OPS[:3] + OPS[3:]), rng.randrange(1, len(members))))
    ops.sort(key=lambda o: o[0])
    # after remove_indicator the target is gone.  Later operations that still NAME it are legal calls (the library ignores a name it
    # does not hold) and must leave the others alone just the same: kept half of the time, and sometimes added on purpose
    keep_stale = rng.random() < 0.5
    seen_removed, clean = set(), []
    for st, op, tgt in ops:
        if tgt in seen_removed and not keep_stale:
            continue
        clean.append([st, op, tgt])
        if op == "remove_indicator":
            seen_removed.add(tgt)
            if keep_stale and rng.random() < 0.6:
                clean.append([rng.choice([st, steps - 1]), rng.choice(["purge", "recalculate", "remove_indicator"]), tgt])
    clean.sort(key=lambda o: o[0])
    scn = {"check": "c13", "hx": cfg, "members": members, "keep_members": True, "stream": stream, "init": init, "chunks": chunks, "ops": clean}
    if rng.random() < 0.2 and len(chunks) >= 2:
        # maintenance calls aimed at the OBSERVED member itself, the same in company and alone (purge then an ordinary append, a
        # recalculation of one index): what they leave behind for the next append must not depend on who else is registered
        muts = [[] for _ in range(steps)]
        for _ in range(rng.choice([1, 1, 2])):
            muts[rng.randrange(0, steps - 1)].append([rng.choice(["purge", "purge", "calculate_index", "recalculate"]), 0, rng.choice([-1, -2, 0, 1])])
        scn["target"] = "hexital"
        scn["muts"] = muts
    if rng.random() < 0.3:
        scn["enc"] = rng.choice(["dict", "list_ts_first", "list_ts_last", "dict_iso"])   # the same raw rows go to every manager
    meta = {"flavour": flavour, "price": smeta["price"], "schedule": shape, "members": len(members), "shared_tf": bool(shared_tf),
            "hx_tf": bool(cfg["tf"]), "ha": cfg["ha"], "observed": spec_label(members[0]), "resent_bars": resent}
    for _, op, _t in clean:
        meta[f"op:{op}"] = True
    return scn, meta


def _c13_refit(scn):
    """keep ops inside the (possibly shortened) schedule"""
    s = fix_sched(scn)
    steps = 1 + len(s["chunks"])
    s["ops"] = [[min(st, steps - 1), op, tgt] for st, op, tgt in scn.get("ops", [])]
    return s


def case_c13(rng, idx, params):
    scn, meta = gen_c13(rng, size=params.get("size", 50))
    bad = check_c13(scn)
    viol = None
    skipped = bool(bad and "skip" in bad)
    if bad and not skipped and bad.get("clause") == "diverged":
        viol = {"scenario": scn, **bad}
    elif bad and not skipped:
        sig = bad["signature"]
        chk = lambda s: _same_sig(check_c13(_c13_refit(s)), sig)  # noqa: E731
        small = scn
        if len(scn["members"]) > 2:  # drop the bystander of a triple if it is not needed
            for drop in range(1, len(scn["members"])):
                cand = deepcopy(scn)
                del cand["members"][drop]
                cand["ops"] = [[st, op, (t if t < drop else t - 1)] for st, op, t in cand["ops"] if t != drop]
                if len(cand["members"]) >= 2 and chk(cand):
                    small = cand
                    break
        if len(small.get("ops", [])) > 1:
            small = shrink_list(small, "ops", lambda s: chk(s) is not None, min_len=0)
        small = _c13_refit(cm.shrink_stream(small, lambda s: chk(s) is not None, max_tries=80))
        bad2 = check_c13(small)
        if not bad2 or "skip" in bad2:
            small, bad2 = scn, bad
        viol = {"scenario": small, **bad2}
    meta["skipped"] = skipped
    return {"nontrivial": not skipped, "key": hash(str(scn)), "violation": viol, "meta": meta,
            "evals": 2 * (2 if scn["ops"] else 1) * (1 + len(scn["chunks"])), "sample": _sample(scn) if idx < 2 else None}


# ---------------------------------------------------------------------------------------------
# C19a – read-only calls leave everything unchanged and the object usable
# ---------------------------------------------------------------------------------------------

IND_ACCESSORS = ["__str__", "__repr__", "name", "settings", "has_reading", "reading", "prev_reading", "as_list", "reading_count",
                 "reading_period", "candles_sum", "read_candle", "prev_exists", "candle_manager"]
HX_ACCESSORS = ["__str__", "__repr__", "name", "reading", "prev_reading", "reading_as_list", "has_reading", "candles", "get_candles",
                "indicator_settings", "timeframes", "indicators", "indicator", "member"]


CANDLE_NAMES = ["high_low", "realbody", "shadow_upper", "shadow_lower", "close", "volume", "positive"]


def _dotted(ind, use):
    """own name, or name.<first key> when the indicator is dict-valued and a dotted name is asked for; a string = that name itself
    (a candle field or one of the derived candle measurements, which every reading accessor also serves)"""
    if isinstance(use, str):
        return use
    if use and ind.candles:
        r = ind.candles[-1].indicators.get(ind.name)
        if isinstance(r, dict) and r:
            return f"{ind.name}.{list(r)[0]}"
    return ind.name


def call_ind_accessor(ind, acc):
    """acc = [label, arg...]; the return value is ignored"""
    label, args = acc[0], acc[1:]
    if label == "__str__":
        return str(ind)
    if label == "__repr__":
        return repr(ind)
    if label == "name":
        return ind.name
    if label == "settings":
        return ind.settings
    if label == "has_reading":
        return ind.has_reading
    if label == "reading":
        return ind.reading(_dotted(ind, args[1]) if args[1] else None, args[0])
    if label == "prev_reading":
        return ind.prev_reading(_dotted(ind, True) if args[0] else None)
    if label == "as_list":
        return ind.as_list(_dotted(ind, args[0]) if args[0] else None)
    if label == "reading_count":
        return ind.reading_count(_dotted(ind, True) if args[0] else None)
    if label == "reading_period":
        return ind.reading_period(args[0], _dotted(ind, True) if args[1] else None)
    if label == "candles_sum":
        return ind.candles_sum(args[0], _dotted(ind, True) if args[1] else None)
    if label == "read_candle":
        return ind.read_candle(ind.candles[args[0]])
    if label == "prev_exists":
        return ind.prev_exists()
    if label == "candle_manager":
        return ind.candle_manager
    raise ValueError(label)


def call_hx_accessor(hx, names, acc):
    label, args = acc[0], acc[1:]
    if label == "__str__":
        return str(hx)
    if label == "__repr__":
        return repr(hx)
    if label == "name":
        return (hx.name, hx.description)
    if label in ("reading", "prev_reading", "reading_as_list", "has_reading", "indicator", "member"):
        n = names[args[0] % len(names)]
        ind = hx.indicator(n)
        if label == "reading":
            return hx.reading(_dotted(ind, args[2]), args[1])
        if label == "prev_reading":
            return hx.prev_reading(_dotted(ind, args[1]))
        if label == "reading_as_list":
            return hx.reading_as_list(_dotted(ind, args[1]))
        if label == "has_reading":
            return hx.has_reading(_dotted(ind, args[1]))
        if label == "indicator":
            return ind
        return call_ind_accessor(ind, args[1])
    if label == "candles":
        tfs = sorted(hx.get_candles())
        return hx.candles(None if args[0] is None else tfs[args[0] % len(tfs)])
    if label == "get_candles":
        return hx.get_candles()
    if label == "indicator_settings":
        return hx.indicator_settings
    if label == "timeframes":
        return hx.timeframes
    if label == "indicators":
        return hx.indicators
    raise ValueError(label)


def gen_ind_accessor(rng, label=None):
    label = label or rng.choice(IND_ACCESSORS)
    idx = rng.choice([None, -1, -1, 0, 1, -2, -3, 2])
    dot = rng.random() < 0.4
    if rng.random() < 0.2:
        dot = rng.choice(CANDLE_NAMES)
    return {"reading": [label, idx, dot], "prev_reading": [label, dot], "as_list": [label, dot], "reading_count": [label, dot],
            "reading_period": [label, rng.randint(1, 6), dot], "candles_sum": [label, rng.randint(1, 6), dot],
            "read_candle": [label, rng.choice([-1, 0, -2, 1])]}.get(label, [label])


def gen_hx_accessor(rng, label=None):
    label = label or rng.choice(HX_ACCESSORS)
    mem = rng.randrange(4)
    dot = rng.random() < 0.4
    if rng.random() < 0.2:
        dot = rng.choice(CANDLE_NAMES)
    return {"reading": [label, mem, rng.choice([-1, -1, 0, 1, -2, 5]), dot], "prev_reading": [label, mem, dot],
            "reading_as_list": [label, mem, dot], "has_reading": [label, mem, dot], "indicator": [label, mem],
            "member": [label, mem, gen_ind_accessor(rng)], "candles": [label, rng.choice([None, 0, 1, 2])]}.get(label, [label])


def acc_label(target, acc):
    if target == "hexital" and acc[0] == "member":
        return f"Indicator.{acc[2][0]}"
    return f"{'Hexital' if target == 'hexital' else 'Indicator'}.{acc[0]}"


def _build_target(scn, candles):
    if scn["target"] == "hexital":
        return build_hexital(scn["hx"], scn["members"], candles)
    m = scn["members"][0]
    return build_obj(m, tf=m.get("tf"), candles=candles, cfg=scn["hx"])


@guard_check
def check_c19_readonly(scn):
    """program[j] = accessors called after step j (0 = construction + calculate)"""
    stream = scn["stream"]
    init = scn.get("init", len(stream))
    target = scn["target"]
    names = [member_name(m) for m in scn["members"]]
    program = scn["program"]
    try:
        twin = _build_target(scn, cm.mk_candles(stream[:init]))
        twin_snaps = []
        _drive(twin, scn, lambda j, consumed: twin_snaps.append(snap(twin)))
    except Exception as e:
        return {"skip": f"uninspected twin raises {type(e).__name__}"}
    calls = {"n": 0, "raised": 0}
    state = {"stage": "construct", "last": None}
    try:
        obj = _build_target(scn, cm.mk_candles(stream[:init]))

        def on_step(j, consumed):
            state["stage"] = f"step {j}"
            cur = snap(obj)
            d = snap_diff(twin_snaps[j], cur)
            if d:
                who = state["last"] or ("Hexital" if target == "hexital" else "Indicator") + ".append"
                return {"clause": "diverges-from-uninspected-twin", "step": j, "observed": d, "expected": "same state as the twin that was never inspected",
                        "signature": f"C19:{who}:diverges-from-twin"}
            for acc in (program[j] if j < len(program) else []):
                lab = acc_label(target, acc)
                calls["n"] += 1
                try:
                    if target == "hexital":
                        call_hx_accessor(obj, names, acc)
                    else:
                        call_ind_accessor(obj, acc)
                except Exception:
                    calls["raised"] += 1  # an accessor may refuse (empty candles, bad index); it must still not change anything
                state["last"] = lab
                after = snap(obj)
                d = snap_diff(cur, after)
                if d:
                    return {"clause": "state-changed", "step": j, "accessor": acc, "observed": d, "expected": "deep snapshot unchanged by a read-only call",
                            "signature": f"C19:{lab}:state-changed"}
            return None

        bad = _drive(obj, scn, on_step)
    except Exception as e:
        who = state["last"] or ("Hexital" if target == "hexital" else "Indicator") + ".append"
        return {"clause": "unusable-after", "stage": state["stage"], "observed": repr(e)[:200],
                "expected": "append + calculate keep working after read-only calls (the uninspected twin runs clean)",
                "signature": f"C19:{who}:unusable-after"}
    if bad:
        return bad
    scn["_calls"] = calls
    return None


def gen_c19_objects(rng, multi_tf=True):
    """(target, hx cfg, members, base_tf) for C19/C20: a standalone indicator or a Hexital with 1..3 members"""
    base_tf, pool = gen_tf_pool(rng)
    target = rng.choice(["indicator", "hexital", "hexital"])
    cfg = {"tf": None, "fill": False, "life": None, "ha": False}
    if target == "indicator":
        m = gen_spec(rng)
        m["tf"] = rng.choice(pool) if rng.random() < 0.3 else None
        cfg["fill"] = bool(m["tf"]) and rng.random() < 0.4
        cfg["ha"] = rng.random() < 0.15
        if rng.random() < 0.2:
            cfg["life"] = gen.tf_seconds(base_tf) * rng.choice([3, 10, 30])
        return target, cfg, [m], base_tf
    members = []
    use_tf = multi_tf and rng.random() < 0.7
    for _ in range(30):
        if len(members) == rng.choice([1, 2, 3, 3]) and members:
            break
        m = gen_spec(rng)
        m["tf"] = rng.choice(pool) if use_tf and rng.random() < 0.6 else None
        m["form"] = rng.choice(["obj", "dict", "obj_used"])
        if not names_collide(members + [m], cfg, cross=True):
            members.append(m)
    if rng.random() < 0.15:
        cfg["tf"] = base_tf
    if rng.random() < 0.25:
        cfg["fill"] = not (cfg["tf"] and any(m["tf"] for m in members))
    if rng.random() < 0.15 and not any(m["tf"] for m in members):
        cfg["ha"] = True
    return target, cfg, members[:3], base_tf


def gen_c19_readonly(rng, size=40):
    target, cfg, members, base_tf = gen_c19_objects(rng)
    n = rng.randint(1, size)
    stream, smeta = gen_stream_for(rng, n, base_tf, True)
    (init, chunks), shape = gen.gen_schedule(rng, n, shape=rng.choice(["few", "random", "one1", "empty1", "singles", "few"]))
    if len(chunks) > 10:  # keep the number of snapshots bounded
        merged = chunks[:9] + [sum(chunks[9:])]
        chunks = merged
    gen_acc = gen_hx_accessor if target == "hexital" else gen_ind_accessor
    program = [[gen_acc(rng) for _ in range(rng.choice([0, 2, 3, 5]))] for _ in range(1 + len(chunks))]
    program[-1] = program[-1] or [gen_acc(rng)]
    scn = {"check": "c19.readonly", "target": target, "hx": cfg, "members": members, "keep_members": True, "stream": stream,
           "init": init, "chunks": chunks, "program": program}
    # "in any state": maintenance calls (same on the twin) leave the cursor on an older candle / readings purged; lazy = no
    # calculate() after construction
    if rng.random() < 0.5:
        scn["muts"] = [[[rng.choice(["calculate_index", "calculate_index", "calculate_index", "purge", "recalculate"]), rng.randrange(4),
                         rng.choice([0, 1, 2, 3, 5, 8, -1, -2, -3, -6])]] if rng.random() < 0.6 else [] for _ in range(1 + len(chunks))]
    if rng.random() < 0.15:
        scn["lazy"] = True
    meta = {"target": target, "price": smeta["price"], "schedule": shape, "members": len(members),
            "timeframes": len({m["tf"] for m in members if m["tf"]}) + 1, "ha": cfg["ha"], "lazy": bool(scn.get("lazy"))}
    for step in program:
        for acc in step:
            meta[f"acc:{acc_label(target, acc)}"] = True
    for step in scn.get("muts") or []:
        for m in step:
            meta[f"mut:{m[0]}"] = True
    return scn, meta


def _c19_minimise(scn, bad):
    """one accessor, the stream consumed so far as a batch, one following append"""
    sig = bad["signature"]
    j = bad.get("step")
    acc = bad.get("accessor")
    cands = []
    if j is not None:
        consumed = steps_of(scn)[j][1]
        progs = [[acc]] if acc else [scn["program"][max(0, j - 1)] if j else [], []]
        if not acc and j:
            # divergence noticed at step j: caused by the accessors of step j-1
            consumed_prev = steps_of(scn)[j - 1][1]
            for a in scn["program"][j - 1]:
                for k in (min(3, consumed_prev), consumed_prev):
                    cands.append({**scn, "stream": scn["stream"][:k] + scn["stream"][consumed_prev:consumed], "init": k,
                                  "chunks": [consumed - consumed_prev], "program": [[a], []]})
        if acc:
            for k in (1, 2, 3, 5, consumed):
                if k <= consumed:
                    tail = scn["stream"][consumed:consumed + 1]
                    cands.append({**scn, "stream": scn["stream"][:k] + tail, "init": k, "chunks": [1] if tail else [], "program": progs + [[]]})
    for cand in cands:
        try:
            b = check_c19_readonly(cand)
        except Exception:
            b = None
        if _same_sig(b, sig):
            if len(cand["members"]) > 1 and cand["target"] == "hexital":
                for keep in range(len(cand["members"])):
                    c2 = {**cand, "members": [cand["members"][keep]]}
                    try:
                        if _same_sig(check_c19_readonly(c2), sig):
                            return c2
                    except Exception:
                        pass
            return cand
    return scn


def case_c19_readonly(rng, idx, params):
    scn, meta = gen_c19_readonly(rng, size=params.get("size", 40))
    bad = check_c19_readonly(scn)
    calls = scn.pop("_calls", {"n": 0, "raised": 0})
    viol = None
    skipped = bool(bad and "skip" in bad)
    if bad and not skipped:
        small = _c19_minimise(scn, bad)
        bad2 = check_c19_readonly(small)
        small.pop("_calls", None)
        if not bad2 or "skip" in bad2:
            small, bad2 = scn, bad
        viol = {"scenario": small, **bad2}
    meta["skipped"] = skipped
    meta["some_accessor_refused"] = calls["raised"] > 0
    return {"nontrivial": not skipped and sum(len(p) for p in scn["program"]) > 0, "key": hash(str(scn)), "violation": viol, "meta": meta,
            "evals": max(1, sum(len(p) for p in scn["program"])), "sample": _sample(scn) | {"program": scn["program"][:3]} if idx < 2 else None}


# ---------------------------------------------------------------------------------------------
# C19b – equivalent encodings of the same candle data
# ---------------------------------------------------------------------------------------------

ENCODINGS = ["candle", "dict", "dict_caps", "dict_iso", "dict_mixed", "dict_extra", "list_ts_last", "list_ts_first", "list_no_ts"]


def encode_chunk(rows, enc, single, stamps=None, extra=()):
    """rows: stream tuples; single: hand over one bare item instead of a list of items (only for one row); stamps: the datetimes to
    use instead of the whole-second ones of the rows (sub-second scenarios)"""
    stamp_of = {id(t): st for t, st in zip(rows, stamps)} if stamps is not None else None

    def one(t):
        ts, o, h, l, c, v = t
        stamp = wire.secs_to_ts(ts) if stamp_of is None else stamp_of[id(t)]
        if enc == "candle" and stamp_of is not None:
            cndl = cm.mk_candle(t)
            cndl.timestamp = stamp
            return cndl
        if enc == "candle":
            return cm.mk_candle(t)
        if enc == "dict":
            d = {"open": o, "high": h, "low": l, "close": c, "volume": v}
            if stamp is not None:
                d["timestamp"] = stamp
            return d
        if enc == "dict_caps":
            d = {"Open": o, "High": h, "Low": l, "Close": c, "Volume": v}
            if stamp is not None:
                d["Timestamp"] = stamp
            return d
        if enc == "dict_iso":
            d = {"open": o, "high": h, "low": l, "close": c, "volume": v}
            if stamp is not None:
                d["timestamp"] = stamp.isoformat()
            return d
        if enc == "dict_extra":
            # a row exported from an earlier run: besides the candle data it carries keys the library does not read - among them
            # "indicators" / "sub_indicators" holding numbers under the very names the members use.  Candle data is OHLCV + stamp;
            # whatever else the caller keeps in the dict is the caller's
            d = {"open": o, "high": h, "low": l, "close": c, "volume": v, "note": "exported", "indicators": {n: 12345.678 for n in extra},
                 "sub_indicators": {n: {"x": 1.0} for n in extra}}
            if stamp is not None:
                d["timestamp"] = stamp
            return d
        if enc == "list_ts_first" and stamp is not None:
            return [stamp, o, h, l, c, v]
        if enc == "list_ts_last" and stamp is not None:
            return [o, h, l, c, v, stamp]
        return [o, h, l, c, v]

    if enc == "dict_mixed":   # lower-case and capitalised dicts in ONE batch: every dict is read with its own spelling
        items = []
        for i, t in enumerate(rows):
            enc = "dict" if i % 2 == 0 else "dict_caps"
            items.append(one(t))
        enc = "dict_mixed"
    else:
        items = [one(t) for t in rows]
    return items[0] if (single and len(items) == 1) else items


def _payload_intact(payload, keep, enc):
    if enc == "candle":
        if isinstance(payload, list):
            return len(payload) == len(keep) and all(a is b for a, b in zip(payload, keep))
        return True
    return same_container(payload, keep)


def same_container(a, b):
    if type(a) is not type(b):
        return False
    if isinstance(a, dict):
        return list(a) == list(b) and all(same_container(a[k], b[k]) for k in a)
    if isinstance(a, list):
        return len(a) == len(b) and all(same_container(x, y) for x, y in zip(a, b))
    return a == b


def _managers(obj, target):
    if target == "hexital":
        return {k: m for k, m in obj._candles.items()}
    return {"own": obj.candle_manager}


def _raw_tuples(candles):
    return [(c.timestamp, c.open, c.high, c.low, c.close, c.volume) for c in candles]


def _state(obj, target, raw_ts=False):
    """(per-manager candle tuples, per-member columns); raw_ts: keep the datetime objects (sub-second scenarios)"""
    tuples = _raw_tuples if raw_ts else candle_tuples
    if target == "hexital":
        cands = {k: tuples(v) for k, v in obj.get_candles().items()}
        cols = {n: deepcopy(i.as_list()) for n, i in obj.indicators.items()}
        lists = obj.get_candles()
    else:
        cands = {"own": tuples(obj.candles)}
        cols = {obj.name: deepcopy(obj.as_list())}
        lists = {"own": obj.candles}
    # which readings each candle of each timeframe carries (a reading leaking into another timeframe's candles shows here)
    for k, v in lists.items():
        cols[f"keys[{k}]"] = [[sorted(c.indicators), sorted(c.sub_indicators)] for c in v]
    return cands, cols


@guard_check
def check_c19_enc(scn):
    """encs[j] = [encoding, single?] of the j-th append; the reference object gets Candle objects"""
    stream = scn["stream"]
    init = scn.get("init", len(stream))
    target = scn["target"]
    cfg = scn["hx"]
    encs = scn["encs"]
    who = "Hexital" if target == "hexital" else "Indicator"
    sub = scn.get("subsec")   # optional micro-seconds added to every stamp, in EVERY encoding alike (the same candle data)

    def mk_rows(a, b):
        cs = cm.mk_candles(stream[a:b])
        if sub:
            for c, k in zip(cs, range(a, b)):
                if c.timestamp is not None and sub[k % len(sub)]:
                    c.timestamp = c.timestamp + timedelta(microseconds=sub[k % len(sub)])
        return cs

    rm = scn.get("remove_at")   # [step, member index]: remove_indicator after that step - the timeframe it was on stays held and fed

    add = scn.get("add_at")    # [step, member]: add_indicator of one more member after that step (possibly on a timeframe not held yet)

    def maybe_remove(o, step):
        if rm and target == "hexital" and rm[0] == step:
            names_ = [member_name(m) for m in scn["members"]]
            o.remove_indicator(names_[rm[1] % len(names_)])
        if add and target == "hexital" and add[0] == step:
            o.add_indicator(build_member(add[1], cfg))
            o.calculate()

    try:
        ref = _build_target(scn, mk_rows(0, init))
        ref_states = []
        ref.calculate()
        maybe_remove(ref, 0)
        ref_states.append(_state(ref, target, bool(sub)))
        for j, (a, b) in enumerate(steps_of(scn)[1:]):
            ref.append(mk_rows(a, b))
            maybe_remove(ref, j + 1)
            ref_states.append(_state(ref, target, bool(sub)))
    except Exception as e:
        return {"skip": f"reference raises {type(e).__name__}"}
    obj = _build_target(scn, mk_rows(0, init))
    obj.calculate()
    maybe_remove(obj, 0)
    bufs = {}
    for j, (a, b) in enumerate(steps_of(scn)[1:]):
        enc, single = encs[j % len(encs)]
        payload = encode_chunk(stream[a:b], enc, single, stamps=[c.timestamp for c in mk_rows(a, b)] if sub else None,
                               extra=[n for n in ((list(obj.indicators) if target == "hexital" else [obj.name]) + ["SMA_3"])])
        if scn.get("reuse_buf") and isinstance(payload, (dict, list)) and enc != "candle":
            # the caller keeps ONE container object as its row buffer and refills it in place for every append: the candle data is what
            # the container holds at the moment of the call, whichever object carries it
            buf = bufs.setdefault(type(payload).__name__, payload)
            if buf is not payload:
                if isinstance(buf, dict):
                    buf.clear()
                    buf.update(payload)
                else:
                    buf[:] = payload
                payload = buf
        flat_first = enc == "list_ts_first" and single and (b - a) == 1 and stream[a][0] is not None
        keep = list(payload) if (enc == "candle" and isinstance(payload, list)) else deepcopy(payload)
        try:
            obj.append(payload)
        except Exception as e:
            if flat_first and isinstance(e, TypeError):
                sig = "C19:CandleManager.append:timestamp-first-list-rejected"
            else:
                sig = f"C19:{who}.append:{enc}:raised-{type(e).__name__}"
            return {"clause": "encoding-accepted", "step": j + 1, "encoding": enc, "single": single, "observed": repr(e)[:160],
                    "expected": "accepted like the Candle form", "signature": sig}
        if not _payload_intact(payload, keep, enc):
            fam = "Candle.from_list:caller-list-mutated" if enc.startswith("list") else (
                "Candle.from_dict:caller-dict-mutated" if enc.startswith("dict") else f"{who}.append:caller-candle-list-mutated")
            return {"clause": "caller-input-unchanged", "step": j + 1, "encoding": enc, "single": single, "observed": _short(payload),
                    "expected": _short(keep), "signature": f"C19:{fam}"}
        maybe_remove(obj, j + 1)
        got_c, got_r = _state(obj, target, bool(sub))
        exp_c, exp_r = ref_states[j + 1]
        fam = enc.split("_")[0]
        for k in exp_c:
            d = first_diff(got_c.get(k, []), exp_c[k])
            if d:
                return {"clause": "encodings-identical", "what": f"candles[{k}]", "step": j + 1, "encoding": enc, **d,
                        "signature": f"C19:{who}.append:{fam}-encoding-differs"}
        for k in exp_r:
            d = first_diff(got_r.get(k, []), exp_r[k])
            if d:
                return {"clause": "encodings-identical", "what": f"readings[{k}]", "step": j + 1, "encoding": enc, **d,
                        "signature": f"C19:{who}.append:{fam}-encoding-differs"}
        # every timeframe received the same candle: independent resampling of the raw stream
        if target == "hexital" and not cfg.get("ha") and cfg.get("life") is None and stream and stream[0][0] is not None and not sub:
            for k, mgr in _managers(obj, target).items():
                want, _ = om.reference(stream[:b], {"tf": mgr.timeframe, "fill": mgr.timeframe_fill})
                if not cm.tuples_equal(candle_tuples(mgr.candles), want, exact=True):
                    return {"clause": "same-candle-every-timeframe", "timeframe": k, "step": j + 1, "encoding": enc,
                            "observed": candle_tuples(mgr.candles)[-3:], "expected": want[-3:],
                            "signature": "C19:Hexital.append:timeframes-disagree"}
    return None


def gen_c19_enc(rng, size=30):
    target, cfg, members, base_tf = gen_c19_objects(rng)
    with_ts = rng.random() < 0.85 or any(m["tf"] for m in members) or bool(cfg["tf"])
    n = rng.randint(2, size)
    stream, smeta = gen_stream_for(rng, n, base_tf, with_ts, ts_style=rng.choice(["regular", "regular", "gaps"]))
    (init, chunks), shape = gen.gen_schedule(rng, n, shape=rng.choice(["empty1", "one1", "singles", "few", "random", "random"]))
    if not chunks:
        init, chunks = max(0, n - 2), [1] * min(2, n)
    pool = [e for e in ENCODINGS if with_ts or e not in ("list_ts_last", "list_ts_first", "dict_iso")]
    if with_ts:
        pool = [e for e in pool if e != "list_no_ts"]
    if rng.random() < 0.7:
        fam = rng.choice(pool)
        encs = [[fam, rng.random() < 0.6] for _ in chunks]
    else:
        encs = [[rng.choice(pool), rng.random() < 0.6] for _ in chunks]
    scn = {"check": "c19.enc", "target": target, "hx": cfg, "members": members, "keep_members": True, "stream": stream,
           "init": init, "chunks": chunks, "encs": encs}
    if rng.random() < 0.25:
        scn["reuse_buf"] = True
    if target == "hexital" and len(members) >= 1 and rng.random() < 0.25:
        scn["remove_at"] = [rng.randrange(len(chunks)), rng.randrange(len(members))]
    if target == "hexital" and with_ts and cfg.get("life") is None and not cfg.get("tf") and rng.random() < 0.25:
        # (only on a Hexital without a timeframe of its own: a manager created late is built from what the default manager holds, and
        # collapsing already collapsed buckets re-associates the volume sums)
        extra = gen_spec(rng, kind=rng.choice(["SMA", "EMA", "ATR", "RSI"]))
        extra["tf"] = (base_tf[0] + str(int(base_tf[1:]) * rng.choice([1, 2, 3]))) if rng.random() < 0.8 else None   # (the stream's own grid)
        extra["form"] = "obj"
        if member_name(extra) not in [member_name(m) for m in members]:
            scn["add_at"] = [rng.randrange(len(chunks)), extra]
    if with_ts and rng.random() < 0.25:
        # stamps with a sub-second part (the same in every encoding): a string and a datetime carrying it are the same candle data
        scn["subsec"] = [rng.choice([0, 250000, 999999, 1, 500000]) for _ in range(rng.randint(1, 4))]
    meta = {"target": target, "price": smeta["price"], "ts": smeta["ts"], "schedule": shape,
            "timeframes": len({m["tf"] for m in members if m["tf"]}) + 1}
    for (e, single), k in zip(encs, chunks):
        meta[f"enc:{e}:{'bare' if single and k == 1 else 'list'}"] = True
    return scn, meta


def case_c19_enc(rng, idx, params):
    scn, meta = gen_c19_enc(rng, size=params.get("size", 30))
    bad = check_c19_enc(scn)
    viol = None
    skipped = bool(bad and "skip" in bad)
    if bad and not skipped and "step" not in bad:
        viol = {"scenario": scn, **bad}   # (a divergence: nothing to localise)
    elif bad and not skipped:
        sig = bad["signature"]
        j = bad["step"]
        a, b = steps_of(scn)[j]
        small = scn
        # the failing append alone, after as few earlier candles as possible
        for k in (0, 1, 2, a):
            if k > a:
                continue
            cand = {**scn, "stream": scn["stream"][a - k:b], "init": k, "chunks": [b - a], "encs": [scn["encs"][(j - 1) % len(scn["encs"])]]}
            try:
                if _same_sig(check_c19_enc(cand), sig):
                    small = cand
                    break
            except Exception:
                pass
        if small["target"] == "hexital" and len(small["members"]) > 1:
            for keep in range(len(small["members"])):
                c2 = {**small, "members": [small["members"][keep]]}
                try:
                    if _same_sig(check_c19_enc(c2), sig):
                        small = c2
                        break
                except Exception:
                    pass
        viol = {"scenario": small, **(check_c19_enc(small) or bad)}
    meta["skipped"] = skipped
    return {"nontrivial": not skipped and bool(scn["chunks"]), "key": hash(str(scn)), "violation": viol, "meta": meta,
            "evals": len(scn["chunks"]), "sample": _sample(scn) | {"encs": scn["encs"][:4]} if idx < 2 else None}


# ---------------------------------------------------------------------------------------------
# C20 – all ways of asking for a reading agree
# ---------------------------------------------------------------------------------------------


def _direct(candle, name, key=None):
    """the reading as stored on the candle (top-level readings only), optionally one field of a dict reading"""
    r = candle.indicators.get(name)
    if key is None:
        return r
    return r.get(key) if isinstance(r, dict) else None


def _trailing(col):
    k = 0
    for r in reversed(col):
        if r is None:
            break
        k += 1
    return k


@guard_check
def check_c20(scn):
    stream = scn["stream"]
    init = scn.get("init", len(stream))
    target = scn["target"]
    names = [member_name(m) for m in scn["members"]]
    try:
        obj = _build_target(scn, cm.mk_candles(stream[:init]))

        def ask_early(j, consumed):
            # the accessors are also asked after every earlier step (a user polling a live feed): what they answer at the end must
            # not depend on having been asked before (caches that miss a trim / a merge / a purge)
            if not scn.get("poll"):
                return None
            for n_ in names:
                ind_ = obj.indicator(n_) if target == "hexital" else obj
                try:
                    ind_.as_list()
                    ind_.reading()
                    ind_.reading_count()
                    if target == "hexital":
                        obj.reading_as_list(n_)
                        obj.reading(n_)
                except Exception:
                    pass
            return None

        _drive(obj, scn, ask_early)
    except Exception as e:
        return {"skip": f"raises {type(e).__name__}"}
    hx = obj if target == "hexital" else None
    inds = [hx.indicator(n) for n in names] if hx else [obj]
    stats = {"evals": 0, "falsy": 0, "readings": 0}

    def bad(ind, path, clause, observed, expected, **kw):
        kind = spec_label(scn["members"][inds.index(ind)])
        return {"clause": clause, "indicator": ind.name, "indicator_kind": kind, "path": path, "observed": _short(observed), "expected": _short(expected),
                "signature": f"C20:{path}:{clause}", **kw}

    for ind in inds:
        name = ind.name
        cands = ind.candles
        n = len(cands)
        keys = [None]
        for c in cands:
            r = c.indicators.get(name)
            if isinstance(r, dict):
                keys += list(r) + ["no_such_field"]
                break
        for key in keys:
            q = name if key is None else f"{name}.{key}"
            col = [_direct(c, name, key) for c in cands]
            stats["evals"] += 1
            stats["readings"] += sum(r is not None for r in col)
            stats["falsy"] += sum((r is not None and not isinstance(r, dict) and not r) for r in col)
            # whole-column accessors
            got = ind.as_list(q) if key is not None else ind.as_list()
            if not same(got, col):
                return bad(ind, "Indicator.as_list", "agrees-with-candle", first_diff(got, col), "the stored readings", name=q)
            got = ind.as_list(q)
            if not same(got, col):
                return bad(ind, "Indicator.as_list", "agrees-with-candle", first_diff(got, col), "the stored readings", name=q)
            if hx:
                got = hx.reading_as_list(q)
                if not same(got, col):
                    return bad(ind, "Hexital.reading_as_list", "agrees-with-candle", first_diff(got, col), "the stored readings", name=q)
            # per-index accessors, positive and negative indices
            for i in range(-n, n):
                want = col[i]
                pos = i if i >= 0 else i + n
                got = ind.reading(q, i)
                if not same(got, want):
                    return bad(ind, "Indicator.reading", "agrees-with-candle", got, want, name=q, index=i)
                if key is None and not same(ind.reading(index=i), want):
                    return bad(ind, "Indicator.reading", "agrees-with-candle", ind.reading(index=i), want, name=None, index=i)
                got = ind.read_candle(cands[i], q)
                if not same(got, want):
                    return bad(ind, "Indicator.read_candle", "agrees-with-candle", got, want, name=q, index=i)
                if not same(ind.reading(q, pos), ind.reading(q, pos - n)):
                    return bad(ind, "Indicator.reading", "positive-negative-index", ind.reading(q, pos - n), ind.reading(q, pos), name=q, index=i)
                if hx:
                    got = hx.reading(q, i)
                    if not same(got, want):
                        return bad(ind, "Hexital.reading", "agrees-with-candle", got, want, name=q, index=i)
                    if not same(hx.reading(q, pos), hx.reading(q, pos - n)):
                        return bad(ind, "Hexital.reading", "positive-negative-index", hx.reading(q, pos - n), hx.reading(q, pos), name=q, index=i)
            # default arguments: latest and previous
            latest = col[-1] if n else None
            prev = col[-2] if n >= 2 else None
            if n:
                got = ind.reading(q) if key is not None else ind.reading()
                if not same(got, latest):
                    return bad(ind, "Indicator.reading", "default-is-latest", got, latest, name=q)
                got = ind.prev_reading(q) if key is not None else ind.prev_reading()
                if not same(got, prev):
                    return bad(ind, "Indicator.prev_reading", "agrees-with-candle", got, prev, name=q)
            if hx:
                got = hx.reading(q)
                if not same(got, latest):
                    return bad(ind, "Hexital.reading", "default-is-latest", got, latest, name=q)
                got = hx.prev_reading(q)
                if not same(got, prev):
                    return bad(ind, "Hexital.prev_reading", "agrees-with-candle", got, prev, name=q)
                got = hx.has_reading(q)
                if got is not (latest is not None):
                    clause = "falsy-reading" if (latest is not None and not latest) else "iff-latest-not-None"
                    return bad(ind, "Hexital.has_reading", clause, got, latest is not None, name=q, latest=_short(latest))
            if key is None:
                got = ind.has_reading
                if got is not (latest is not None):
                    clause = "falsy-reading" if (latest is not None and not latest) else "iff-latest-not-None"
                    return bad(ind, "Indicator.has_reading", clause, got, latest is not None, latest=_short(latest))
            got = ind.reading_count(q) if key is not None else ind.reading_count()
            if got != _trailing(col):
                return bad(ind, "Indicator.reading_count", "trailing-run", got, _trailing(col), name=q)
        # helper series (what the indicator's sub- and managed indicators store under `sub_indicators`): addressed by name through the
        # owner, and through the helper object itself, they are the stored column as well
        helper_names = []
        for c in cands:
            for h in c.sub_indicators:
                if h not in helper_names and h not in c.indicators and not hasattr(c, h):
                    helper_names.append(h)
        for h in helper_names[:6]:
            hcol = [c.sub_indicators.get(h) for c in cands]
            fields = [None]
            for r in hcol:
                if isinstance(r, dict):
                    fields += list(r)[:2]
                    break
            for key in fields:
                q = h if key is None else f"{h}.{key}"
                col = hcol if key is None else [(r.get(key) if isinstance(r, dict) else None) for r in hcol]
                stats["evals"] += 1
                got = ind.as_list(q)
                if not same(got, col):
                    return bad(ind, "Indicator.as_list", "helper-agrees-with-candle", first_diff(got, col), "the stored helper readings", name=q)
                for i in ([-n, -1, 0, n - 1, n // 2] if n else []):
                    got = ind.reading(q, i)
                    if not same(got, col[i]):
                        return bad(ind, "Indicator.reading", "helper-agrees-with-candle", got, col[i], name=q, index=i)
                    got = ind.read_candle(cands[i], q)
                    if not same(got, col[i]):
                        return bad(ind, "Indicator.read_candle", "helper-agrees-with-candle", got, col[i], name=q, index=i)
                if ind.reading_count(q) != _trailing(col):
                    return bad(ind, "Indicator.reading_count", "helper-trailing-run", ind.reading_count(q), _trailing(col), name=q)
        for store in (getattr(ind, "sub_indicators", {}), getattr(ind, "managed_indicators", {})):
            for hobj in list(store.values())[:6]:
                hn = getattr(hobj, "name", None)
                if not hn or not hasattr(hobj, "as_list") or hn not in helper_names or hobj.candles is not cands:
                    continue
                hcol = [c.sub_indicators.get(hn) for c in cands]
                stats["evals"] += 1
                got = hobj.as_list()
                if not same(got, hcol):
                    return bad(ind, "Indicator.as_list", "helper-object-agrees-with-candle", first_diff(got, hcol), "the stored helper readings", name=hn)
                if n and not same(hobj.reading(), hcol[-1]):
                    return bad(ind, "Indicator.reading", "helper-object-agrees-with-candle", hobj.reading(), hcol[-1], name=hn)
    scn["_stats"] = stats
    return None


def gen_c20(rng, size=40):
    target, cfg, members, base_tf = gen_c19_objects(rng)
    flavour = rng.choice(["any", "any", "zeroish", "zeroish", "dict"])
    if flavour != "any":
        # steer at least one member towards readings that are legitimately 0 / False, or dict-valued
        if flavour == "zeroish":
            pick = rng.choice(["Counter", "OBV", "STDEVTHRES", "predicate", "highestbar", "aroon", "VWAP"])
            if pick == "predicate":
                a = rng.choice(PREDICATES)
                spec = {"kind": "Amorph", "analysis": a, "params": ANALYSIS_PARAMS[a](rng)}
            elif pick == "highestbar":
                a = rng.choice(["highestbar", "lowestbar"])
                spec = {"kind": "Amorph", "analysis": a, "params": ANALYSIS_PARAMS[a](rng)}
            else:
                spec = gen_spec(rng, kind=pick)
        else:
            spec = gen_spec(rng, kind=rng.choice(sorted(DICT_VALUED)))
        spec["tf"] = members[0].get("tf")
        spec["form"] = members[0].get("form", "obj")
        trial = [spec] + members[1:]
        if not names_collide(trial, cfg, cross=True):
            members = trial
    n = rng.randint(1, size)
    price = "zerovol" if (flavour == "zeroish" and rng.random() < 0.4) else None
    stream, smeta = gen_stream_for(rng, n, base_tf, True, price_style=price)
    (init, chunks), shape = gen.gen_schedule(rng, n)
    scn = {"check": "c20", "target": target, "hx": cfg, "members": members, "keep_members": True, "stream": stream, "init": init, "chunks": chunks,
           "poll": rng.random() < 0.5}
    meta = {"target": target, "flavour": flavour, "poll": scn["poll"], "price": smeta["price"], "schedule": shape, "members": len(members),
            "timeframes": len({m["tf"] for m in members if m["tf"]}) + 1}
    for m in members:
        meta[f"kind:{spec_label(m)}"] = True
    return scn, meta


def case_c20(rng, idx, params):
    scn, meta = gen_c20(rng, size=params.get("size", 40))
    bad = check_c20(scn)
    stats = scn.pop("_stats", {"evals": 1, "falsy": 0, "readings": 0})
    viol = None
    skipped = bool(bad and "skip" in bad)
    if bad and not skipped:
        sig = bad["signature"]

        def chk(s):
            b = check_c20(s)
            s.pop("_stats", None)
            return _same_sig(b, sig)

        small = scn
        if len(scn["members"]) > 1:
            for keep in range(len(scn["members"])):
                cand = {**scn, "members": [scn["members"][keep]]}
                if chk(cand):
                    small = cand
                    break
        small = fix_sched(cm.shrink_stream(small, lambda s: chk(fix_sched(s)) is not None, max_tries=80))
        cand = {**small, "init": len(small["stream"]), "chunks": []}
        if chk(cand):
            small = cand
        bad2 = check_c20(small)
        small.pop("_stats", None)
        if not bad2 or "skip" in bad2:
            small, bad2 = scn, bad
        viol = {"scenario": small, **bad2}
    meta["skipped"] = skipped
    meta["has_falsy_reading"] = stats["falsy"] > 0
    return {"nontrivial": not skipped and (viol is not None or stats["readings"] > 0), "key": hash(str(scn)), "violation": viol, "meta": meta,
            "evals": stats["evals"], "sample": _sample(scn) if idx < 2 else None}


# ---------------------------------------------------------------------------------------------
# replay
# ---------------------------------------------------------------------------------------------

CHECKS = {
    "c08.members": check_c08,
    "c08.roundtrip": check_roundtrip,
    "c13": check_c13,
    "c19.readonly": check_c19_readonly,
    "c19.enc": check_c19_enc,
    "c20": check_c20,
}


def _norm(scn):
    """JSON turns tuples into lists; candle tuples must be tuples again for exact comparison helpers"""
    s = deepcopy(scn)
    if "stream" in s:
        s["stream"] = [tuple(t) for t in s["stream"]]
    return s


def replay(witness):
    scn = _norm(witness["scenario"])
    bad = CHECKS[scn["check"]](scn)
    scn.pop("_stats", None)
    scn.pop("_calls", None)
    fails = bool(bad) and "skip" not in bad
    return {"fails": fails, "detail": bad}


# --- C02 / C01 at the Hexital level: closed candles of EVERY manager are final, live = batch ------------------------------


def _mgr_snapshot(hx):
    """{manager name: [(candle tuple, indicators, sub_indicators)]} - Hexital.get_candles() deep-copied"""
    return {k: [(cm.candle_tuple(c), deepcopy(c.indicators), deepcopy(c.sub_indicators)) for c in cs] for k, cs in hx.get_candles().items()}


def check_c02_hexital(scn):
    """a Hexital (members on their own timeframes, optional Hexital timeframe / fill / Heikin-Ashi; no lifespan) fed live: at every
    point every candle of every manager except the still-forming last bucket of a collapsing manager is already what it is after
    any further append, and at the end equals what a Hexital constructed over the whole stream holds after one calculate()"""
    cfg, members, stream = scn["hx"], scn["members"], scn["stream"]
    init = scn.get("init", len(stream))
    try:
        batch = build_hexital(cfg, members, cm.mk_candles(stream))
        batch.calculate()
        ref = _mgr_snapshot(batch)
    except Exception as e:  # the configuration fails in batch: C09's subject
        return {"skip": f"batch raises {type(e).__name__}"}
    snaps = []
    try:
        hx = build_hexital(cfg, members, cm.mk_candles(stream[:init]))

        def on_step(j, consumed):
            snaps.append((consumed, _mgr_snapshot(hx)))
            return None

        _drive(hx, scn, on_step)
    except Exception as e:
        return {"clause": "raised-live", "observed": repr(e)[:200], "expected": "no exception (the batch run is clean)",
                "signature": "C02:Hexital:raised-live"}

    def closed(name, cs):
        collapsing = bool(cfg.get("tf")) if name == "default" else True
        return cs[:-1] if collapsing and cs else cs

    # adjacent snapshots suffice: closed(a) is a prefix of snap(a+1) and shorter than it, hence of closed(a+1), and so on
    for a in range(len(snaps) - 1):
        b = a + 1
        for name, cs in snaps[a][1].items():
            c = closed(name, cs)
            later = snaps[b][1].get(name, [])
            if not same(later[: len(c)], c):
                d = first_diff(c, later[: len(c)])
                return {"clause": "repaint-live", "manager": name, "at": snaps[a][0], "later": snaps[b][0], **(d or {}),
                        "signature": "C02:Hexital:repaint-live"}
    last = snaps[-1][1]
    for name, cs in last.items():
        c = closed(name, cs)
        want = ref.get(name, [])
        if not same(want[: len(c)], c):
            d = first_diff(c, want[: len(c)])
            return {"clause": "live-vs-batch", "manager": name, **(d or {}), "signature": "C02:Hexital:live-vs-batch"}
    return None


def case_c02_hexital(rng, idx, params):
    scn, meta = gen_c08(rng, size=params.get("size", 40))
    scn["check"] = "c02.hexital"
    scn["hx"]["life"] = None
    for m in scn["members"]:
        m["form"] = "obj" if m["form"].startswith("settings") else m["form"]
    if scn["init"] == len(scn["stream"]) and len(scn["stream"]) > 3:   # make sure something arrives live
        scn["init"] = rng.randint(0, len(scn["stream"]) - 2)
        rest = len(scn["stream"]) - scn["init"]
        scn["chunks"] = [1] * rest if rng.random() < 0.5 else [rest // 2, rest - rest // 2]
    bad = guard_check(check_c02_hexital)(scn)
    skipped = bool(bad and "skip" in bad)
    viol = None
    if bad and not skipped:
        small = shrink_scn(scn, lambda s: _same_sig(guard_check(check_c02_hexital)(s), bad["signature"])) if bad.get("clause") != "diverged" else scn
        bad2 = guard_check(check_c02_hexital)(small)
        if not bad2 or "skip" in bad2:
            small, bad2 = scn, bad
        viol = {"scenario": small, **bad2}
    meta["skipped"] = skipped
    return {"nontrivial": not skipped and bool(scn["chunks"]), "key": hash(str(scn)), "violation": viol, "meta": meta,
            "evals": len(scn["members"]) * (1 + len(scn["chunks"])), "sample": _sample(scn) if idx < 1 else None}


def replay_c02_hexital(w):
    bad = guard_check(check_c02_hexital)(w["scenario"])
    return {"fails": bool(bad) and "skip" not in bad, "detail": bad}

"""Oracles for the candle-manager properties (C03, C11, C12, C15a, C18): the real CandleManager
under an append schedule against independent references computed from the raw stream."""
import os

from .. import gen
from . import common as cm


def reference(stream, scn):
    ref = list(stream)
    if scn.get("tf"):
        tfs = gen.tf_seconds(scn["tf"])
        ref = cm.ref_resample(ref, tfs)
        if scn.get("fill"):
            ref = cm.ref_fill(ref, tfs)
    raw = ref
    if scn.get("ha"):
        ref = cm.ref_ha(ref)
    if scn.get("life") is not None:
        keep = len(ref) - len(cm.ref_trim(ref, scn["life"]))
        ref, raw = ref[keep:], raw[keep:]
    return ref, raw


def run_scn(scn, on_step):
    """drive the real manager; on_step(k, manager, n_consumed) after construction and each append"""
    from hexital.core.candle_manager import CandleManager

    stream = scn["stream"]
    init = scn.get("init", len(stream))
    sub = scn.get("subsec")      # optional sub-second parts (micro-seconds) added to the stamps handed to the library, which drops them
    enc = scn.get("enc")         # optional encoding of the appended chunks: list of dicts / of lists instead of Candle objects

    def mk(a, b, for_append=False):
        from datetime import timedelta as _td

        cs = cm.mk_candles(stream[a:b])
        if sub:
            for c, k in zip(cs, range(a, b)):
                if c.timestamp is not None and sub[k % len(sub)]:
                    c.timestamp = c.timestamp + _td(microseconds=sub[k % len(sub)])
        if scn.get("preread"):
            # the caller has looked at its candles before handing them over (filtered / logged them by body size): whatever a Candle
            # remembers about that look must not outlive a change of its values
            for c in cs:
                _ = (c.realbody, c.high_low, c.shadow_upper, c.shadow_lower, c.positive, c.negative)
        if for_append and enc == "dict":
            return [{"open": c.open, "high": c.high, "low": c.low, "close": c.close, "volume": c.volume, "timestamp": c.timestamp} for c in cs]
        if for_append and enc == "dict_iso":   # the stamp as an ISO-8601 string without offset: still a naive wall-clock time
            return [{"open": c.open, "high": c.high, "low": c.low, "close": c.close, "volume": c.volume,
                     "timestamp": (c.timestamp.isoformat() if c.timestamp is not None else None)} for c in cs]
        if for_append and enc == "pandas":   # stamps as pandas.Timestamp (a datetime SUBCLASS, what DataFrame rows carry), naive
            import pandas as pd
            from hexital.core.candle import Candle

            return [Candle(open=c.open, high=c.high, low=c.low, close=c.close, volume=c.volume,
                           timestamp=(pd.Timestamp(c.timestamp) if c.timestamp is not None else None)) for c in cs]
        if for_append and enc == "list":
            return [[c.timestamp, c.open, c.high, c.low, c.close, c.volume] for c in cs]
        return cs

    kwargs = cm.mgr_kwargs(scn.get("tf"), scn.get("fill", False), scn.get("ha", False), scn.get("life"))
    if scn.get("tf_enum") and kwargs.get("timeframe"):
        # the same timeframe given as a member of the public TimeFrame enum (where one exists) instead of its string
        from hexital.utils.timeframe import TimeFrame

        kwargs["timeframe"] = next((m_ for m_ in TimeFrame if m_.value == str(kwargs["timeframe"]).upper()), kwargs["timeframe"])
    m = CandleManager(mk(0, init), **kwargs)
    r = on_step(0, m, init)
    if r:
        return r
    i = init
    for j, k in enumerate(scn.get("chunks", [])):
        m.append(mk(i, i + k, for_append=True))
        i += k
        r = on_step(j + 1, m, i)
        if r:
            return r
        for _ in range(scn.get("extra_passes", 0)):
            m._tasks()
            r = on_step(j + 1, m, i)
            if r:
                r["after_extra_pass"] = True
                return r
    return None


def check_scn(scn):
    """None if the manager agrees with the reference at every step, else a description"""
    if scn.get("tzoff") is not None and scn.get("tzprime") is not None:
        # one process serving two zones: the SAME instants were seen a moment ago with the wall clock of another zone (aware stamps that
        # denote the same instant compare and hash equal whatever their zone - anything the library remembers per stamp must not leak
        # from one zone's grid into the other's).  The first pass is only run, not judged.
        d = (scn["tzprime"] - scn["tzoff"]) * 60
        other = {k: v for k, v in scn.items() if k != "tzprime"}
        other["stream"] = [((t[0] + d),) + tuple(t[1:]) if t[0] is not None else t for t in scn["stream"]]
        try:
            with cm.aware(scn["tzprime"]):
                run_scn(other, lambda j, m, consumed: None)
        except Exception:
            pass
    with cm.aware(scn.get("tzoff")):
        return _check_scn(scn)


def _check_scn(scn):
    exact = True   # the four Heikin-Ashi formulas are the same float operations in the same order: bit-for-bit
    st = {"prev": None, "void": False}

    def on_step(j, m, consumed):
        if scn.get("ha") and scn.get("life") is not None and scn.get("tf") and st["prev"] is not None and consumed > st["prev"]:
            # precondition (as in C15): the predecessor a conversion needs must still be retained when it happens.  A bucket
            # that is re-opened (merged, hence converted again) while it is the ONLY retained candle has lost its predecessor to
            # an earlier trim; its Heikin-Ashi open legitimately restarts there and the scenario says nothing from then on.
            before, _ = reference(scn["stream"][: st["prev"]], scn)
            tfs = gen.tf_seconds(scn["tf"])
            first_new = scn["stream"][st["prev"]][0]
            if len(before) == 1 and first_new is not None and -(-first_new // tfs) * tfs == before[-1][0]:
                st["void"] = True
        st["prev"] = consumed
        if st["void"]:
            return None
        ref, raw = reference(scn["stream"][:consumed], scn)
        got = [cm.candle_tuple(c) for c in m.candles]
        if not cm.tuples_equal(got, ref, exact=exact):
            return {"step": j, "consumed": consumed, "observed": got[-6:], "expected": ref[-6:],
                    "observed_len": len(got), "expected_len": len(ref), "clause": "candles"}
        if scn.get("ha"):
            # raw values stay recoverable and every candle is tagged exactly once
            for c, r in zip(m.candles, raw):
                cv = c.clean_values
                if not cv or c.tag != "Heikin-Ashi":
                    return {"step": j, "clause": "converted-once", "observed": str(c), "expected": "tagged with clean_values"}
                rec = (r[0], cv.get("open"), cv.get("high"), cv.get("low"), cv.get("close"), cv.get("volume"))
                if not cm.tuples_equal([rec], [r], exact=True):
                    return {"step": j, "clause": "raw-recoverable", "observed": rec, "expected": r}
        # the derived measurements every indicator / pattern reads (realbody, shadows, range) are those of the values the candle holds NOW
        # (converted, merged): "readings are computed on the converted values"
        for c in m.candles:
            o_, h_, l_, c_ = c.open, c.high, c.low, c.close
            want = (abs(o_ - c_), abs(h_ - l_), abs(h_ - c_) if o_ < c_ else abs(h_ - o_), abs(l_ - o_) if o_ < c_ else abs(l_ - c_))
            have = (c.realbody, c.high_low, c.shadow_upper, c.shadow_lower)
            if have != want:
                return {"step": j, "clause": "measurements-of-current-values", "observed": have, "expected": want, "candle": str(c)[:160]}
        if scn.get("tf") and not scn.get("ha"):
            tfs = gen.tf_seconds(scn["tf"])
            stamps = [g[0] for g in got]
            if any(b <= a for a, b in zip(stamps, stamps[1:])) or any(s % tfs for s in stamps):
                return {"step": j, "clause": "labels", "observed": stamps[-6:], "expected": "aligned, strictly increasing"}
            if scn.get("fill") and any(b - a != tfs for a, b in zip(stamps, stamps[1:])):
                return {"step": j, "clause": "contiguous", "observed": stamps[-6:], "expected": f"step {tfs}"}
            if scn.get("life") is None:
                tv, sv = sum(g[5] for g in got), sum(s[5] for s in scn["stream"][:consumed])
                if not cm.close_enough(tv, sv, rel=1e-9):
                    return {"step": j, "clause": "volume-conserved", "observed": tv, "expected": sv}
        return None

    from ..impl import Diverged, guarded

    try:
        return guarded(lambda: run_scn(scn, on_step), seconds=(40.0 if os.environ.get("HX_TIER") == "thorough" else 12.0))
    except Diverged:
        return {"clause": "does-not-terminate", "observed": "still running after its CPU-time budget (12 s quick, 40 s thorough)", "expected": "the manager's tasks terminate"}
    except Exception as e:  # the property says well-formed input never raises here
        return {"clause": "raised", "observed": repr(e), "expected": "no exception"}


def gen_scn(rng, tf=True, fill=False, ha=False, life=False, size=60):
    tfv = gen.gen_timeframe(rng, allow_none=(tf == "maybe")) if tf else None
    n = rng.randint(0, size)
    step = None
    if tfv:
        s = gen.tf_seconds(tfv)
        step = max(1, s // rng.choice([1, 2, 3, 4, 5, 10, 20])) if (fill or rng.random() < 0.8) else None
    stream, meta = gen.gen_stream(rng, n, step=step)
    if fill and tfv and n >= 4 and rng.random() < 0.06:
        # ONE hole of more than a thousand buckets (a long outage): filled like any other
        k = rng.randint(1, n - 1)
        jump = gen.tf_seconds(tfv) * rng.randint(1001, 1400)
        if gen.tf_seconds(tfv) * 1400 < 40 * 86400:   # keep the filled series affordable: only for fine timeframes
            stream = stream[:k] + [((t[0] + jump),) + tuple(t[1:]) if t[0] is not None else t for t in stream[k:]]
            meta["huge_gap"] = True
    tzoff = rng.choice([330, 345, 60, -300, 765, -210]) if (tfv and rng.random() < 0.15) else None
    if ha and rng.random() < 0.15:
        # the four Heikin-Ashi formulas are defined for ANY o/h/l/c: feeds whose close prints outside [low, high], or that give
        # only open / close (high = low = 0, the Candle defaults) - max / min must still range over all of h, HA-open, HA-close
        def loosen(t):
            ts, o, h, l, c, v = t
            r = rng.random()
            if r < 0.25:
                return (ts, o, h, l, round(h + abs(h - l) * rng.choice([0.5, 1, 3]) + 0.25, 4), v)
            if r < 0.5:
                return (ts, o, h, l, round(max(l - abs(h - l) * rng.choice([0.5, 1, 3]) - 0.25, 0.0001), 4), v)
            if r < 0.65:
                return (ts, o, 0.0, 0.0, c, v)
            return t
        stream = [loosen(t) for t in stream]
        meta["loose_candles"] = True
    (init, chunks), shape = gen.gen_schedule(rng, n)
    scn = {"tf": tfv, "fill": bool(fill and tfv), "ha": bool(ha), "stream": stream, "init": init, "chunks": chunks,
           "life": None, "extra_passes": rng.choice([0, 0, 1, 2])}
    if rng.random() < 0.3:
        scn["preread"] = True
        meta["preread"] = True
    if tfv and rng.random() < 0.3:
        scn["tf_enum"] = True
    if tzoff is not None and stream and all(t[0] is not None for t in stream):
        if rng.random() < 0.6:
            scn["tzprime"] = rng.choice([o for o in (0, 330, 345, 60, -300, 765, -210) if o != tzoff])
        scn["tzoff"] = tzoff   # aware stamps, fixed UTC offset: buckets align to the wall clock of the stamps' own zone
        meta["aware"] = True
    if life:
        base = gen.tf_seconds(tfv) if tfv else rng.choice([1, 60, 3600])
        scn["life"] = base * rng.randint(0, 40) + rng.choice([0, 0, 0, 1, base // 2, max(base - 1, 0), 7])
    meta.update({"schedule": shape, "tf_unit": tfv[0] if tfv else "-", "fill": scn["fill"], "ha": scn["ha"]})
    return scn, meta


def make_case(prop_id, **genkw):
    def case(rng, idx, params):
        scn, meta = gen_scn(rng, size=params.get("size", 60), **{**genkw, **params.get("genkw", {})})
        bad = check_scn(scn)
        viol = None
        if bad:
            small = cm.shrink_stream(scn, lambda s: check_scn(_fix_sched(s)) is not None)
            small = _fix_sched(small)
            bad2 = check_scn(small) or bad
            viol = {"scenario": small, **bad2, "signature": f"{prop_id}:{bad2.get('clause')}"}
        return {"nontrivial": len(scn["stream"]) >= 2 and bool(scn["chunks"] or scn["init"] > 1),
                "key": hash(str(scn)), "violation": viol, "meta": meta,
                "sample": {"tf": scn["tf"], "n": len(scn["stream"]), "init": scn["init"], "chunks": scn["chunks"][:8],
                           "first_candles": scn["stream"][:2]} if idx < 2 else None}

    return case


def _fix_sched(scn):
    """after candles were removed, make the schedule consistent with the stream length"""
    s = dict(scn)
    n = len(s["stream"])
    init = min(s.get("init", n), n)
    rest = n - init
    chunks = []
    for k in s.get("chunks", []):
        if rest <= 0:
            break
        k = min(k, rest)
        chunks.append(k)
        rest -= k
    if rest > 0:
        chunks.append(rest)
    s["init"], s["chunks"] = init, chunks
    return s


def replay(witness):
    bad = check_scn(witness["scenario"])
    return {"fails": bad is not None, "detail": bad}


# ---------------------------------------------------------------- every timeframe of a Hexital (C03 inside the façade)


def check_hexital_tfs(scn):
    """a Hexital whose members name several (nesting or NOT nesting) timeframes, history at construction and/or appends:
    every manager it holds must carry exactly the independent resampling of the raw stream consumed so far"""
    from hexital.core.hexital import Hexital
    from hexital.indicators import EMA

    stream = scn["stream"]
    init = scn.get("init", len(stream))
    try:
        from datetime import timedelta as _td

        extra = {} if scn.get("life") is None else {"candles_lifespan": _td(seconds=scn["life"])}
        if scn.get("ha"):
            extra["candlestick_type"] = "HA"
        if scn.get("fill"):
            extra["timeframe_fill"] = True
        if scn.get("htf"):
            extra["timeframe"] = scn["htf"]
        late = {int(i): st for i, st in (scn.get("late") or {}).items()}   # member index -> the step after which it is ADDED (add_indicator)
        def member(tf):   # object or dict form (a dict member's timeframe must be honoured exactly like an object's)
            return {"indicator": "EMA", "period": 2, "timeframe": tf} if scn.get("dict_members") else EMA(period=2, timeframe=tf)

        hx = Hexital("tfs", cm.mk_candles(stream[:init]), [member(tf) for i, tf in enumerate(scn["tfs"]) if i not in late], **extra)
        hx.calculate()
        consumed = init
        steps = [init] + list(scn.get("chunks", []))
        for j, k in enumerate(steps):
            if j:
                hx.append(cm.mk_candles(stream[consumed : consumed + k]))
                consumed += k
            for i, st in late.items():
                if st == j:
                    hx.add_indicator(EMA(period=2, timeframe=scn["tfs"][i]))
                    hx.calculate()
            for st, op in (scn.get("maint") or []):
                if st == j:      # maintenance aimed at EVERYTHING (no name): readings go and come back, the candles themselves stay
                    getattr(hx, op)()
                    hx.calculate()
            for key, candles in hx.get_candles().items():
                tf = (scn.get("htf") if key == "default" else key) or None
                want = cm.ref_resample(stream[:consumed], gen.tf_seconds(tf)) if tf else list(stream[:consumed])
                if scn.get("fill") and tf:
                    want = cm.ref_fill(want, gen.tf_seconds(tf))   # every collapsing manager fills its OWN gaps from its own buckets
                if scn.get("ha"):
                    want = cm.ref_ha(want)                     # every manager converts its own (collapsed raw) buckets
                if scn.get("life") is not None:
                    want = cm.ref_trim(want, scn["life"])     # every manager keeps its own window newest - lifespan
                got = [cm.candle_tuple(c) for c in candles]
                if not cm.tuples_equal(got, [tuple(w) for w in want], exact=True):
                    return {"step": j, "timeframe": key, "clause": "hexital-timeframe", "observed": got[-4:], "expected": want[-4:],
                            "observed_len": len(got), "expected_len": len(want)}
    except Exception as e:
        return {"clause": "raised", "observed": repr(e)[:200], "expected": "no exception"}
    return None


def case_hexital_tfs(rng, idx, params):
    unit = rng.choice("STTH")
    base = rng.choice([1, 2, 5, 10, 15])
    mults = rng.sample([1, 2, 3, 4, 5, 6], rng.choice([2, 2, 3]))          # e.g. T10 + T15: neither nests in the other
    if rng.random() < 0.5:
        mults.sort()                                                         # the finer one registered first
    tfs = [f"{unit}{base * m}" for m in mults]
    n = rng.randint(2, params.get("size", 60))
    step = max(1, gen.tf_seconds(f"{unit}{base}") // rng.choice([1, 2, 3, 5]))
    stream, meta = gen.gen_stream(rng, n, step=step, ts_style=(rng.choice(["gaps", "biggaps", "mixed", "regular"]) if params.get("fill") else None))
    (init, chunks), shape = gen.gen_schedule(rng, n, shape=rng.choice(["batch", "few", "random", "one1", "empty1"]))
    scn = {"check": "hexital-tfs", "tfs": tfs, "stream": stream, "init": init, "chunks": chunks}
    if params.get("fill"):
        scn["fill"] = True
    if params.get("ha"):
        scn["ha"] = True
    if True:
        if rng.random() < (0.5 if params.get("ha") else 0.3):
            # the Hexital's own timeframe: the common base of the members' timeframes - or, since member managers are built from the
            # candles as given (fix 3f78fc6), ANY timeframe, also one the members' buckets do not nest in
            scn["htf"] = f"{unit}{base}" if rng.random() < 0.5 else f"{unit}{base * rng.choice([2, 3, 4, 7])}"
    if params.get("life"):
        b = gen.tf_seconds(f"{unit}{base}")
        scn["life"] = b * rng.choice([0, 0, 1, 2, 5, 12, 30]) + rng.choice([0, 0, 1, b // 2])
        # a member's manager is BUILT from what the default manager still holds (already trimmed raw candles cannot come back: a
        # bucket whose label lies inside the window may have lost raw candles that lie outside it) - so that every manager is
        # given the whole stream, everything beyond the first candle arrives through append, which feeds every manager
        if init > 1:
            scn["chunks"] = [init - 1] + list(chunks)
            scn["init"] = 1
    if rng.random() < 0.4:
        scn["dict_members"] = True
    if scn.get("life") is None and not scn.get("htf") and len(tfs) >= 2 and rng.random() < 0.35:
        # some members are registered LATER through add_indicator (their manager is then built from what the default manager holds:
        # untrimmed, raw or recoverable - so it must still be the resampling of the whole stream)
        steps_n = 1 + len(scn["chunks"])
        scn["late"] = {str(i): rng.randrange(steps_n) for i in rng.sample(range(len(tfs)), rng.randint(1, len(tfs) - 1))}
    if rng.random() < 0.3 and scn["chunks"]:
        scn["maint"] = [[rng.randrange(len(scn["chunks"])), rng.choice(["purge", "recalculate"])] for _ in range(rng.choice([1, 1, 2]))]
    bad = check_hexital_tfs(scn)
    viol = None
    if bad:
        small = cm.shrink_stream(scn, lambda s: check_hexital_tfs(_fix_sched(s)) is not None, max_tries=60)
        small = _fix_sched(small)
        bad2 = check_hexital_tfs(small) or bad
        viol = {"scenario": small, **bad2, "signature": f"{params.get('pid', 'C03')}:{bad2.get('clause')}"}
    meta.update({"schedule": shape, "life": scn.get("life") is not None, "nesting": all(b % a == 0 for a, b in zip(sorted(mults), sorted(mults)[1:])), "tfs": len(tfs)})
    return {"nontrivial": n >= 2, "key": hash(str(scn)), "violation": viol, "meta": meta,
            "sample": {"tfs": tfs, "n": n, "init": init, "chunks": chunks[:8]} if idx < 2 else None}


_replay_plain = replay


def replay(witness):  # noqa: F811
    scn = witness["scenario"]
    if scn.get("check") == "hexital-tfs":
        bad = check_hexital_tfs(scn)
        return {"fails": bad is not None, "detail": bad}
    return _replay_plain(witness)


def collect_scn(scn):
    """the manager's candles (stamps as naive datetimes, OHLCV) after construction and after every append - or the exception"""
    out = []

    def on_step(j, m, consumed):
        out.append([(c.timestamp, c.open, c.high, c.low, c.close, c.volume) for c in m.candles])
        return None

    try:
        run_scn(scn, on_step)
    except Exception as e:
        out.append(("raised", type(e).__name__))
    return out

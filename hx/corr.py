"""Correspondence check: the same operation lists through the real package and the Lean model
driver, outputs diffed line by line (bit-exact; no tolerance)."""
import multiprocessing as mp
import os

from . import gen, specs, wire

VIEWS = {}


def view(name):
    def deco(f):
        VIEWS[name] = f
        return f

    return deco


@view("full")
def _full(line):
    return line


@view("ohlcv")
def _ohlcv(line):
    if line.startswith("C "):
        return " ".join(line.split(" ")[:7])
    return line


COMPONENTS = {}


def component(name, view="full"):
    def deco(f):
        COMPONENTS[name] = (f, view)
        return f

    return deco


# --------------------------------------------------------------------------------------
# arithmetic


@component("arith")
def gen_arith(rng, size):
    lines = []

    def rf():
        k = rng.random()
        if k < 0.3:
            return rng.uniform(-1e5, 1e5)
        if k < 0.5:
            return round(rng.uniform(0, 2e4), rng.randint(0, 6)) + rng.choice([0, 5e-5, 0.00005, 1e-9])
        if k < 0.6:
            return rng.randint(-(10**6), 10**6) / (10 ** rng.randint(0, 6))
        if k < 0.7:
            return (rng.randint(0, 10**7) * 2 + 1) / 2 / 10 ** rng.randint(1, 6)
        if k < 0.8:
            return rng.uniform(-1, 1) * 10 ** rng.randint(-12, 12)
        if k < 0.9:
            return rng.uniform(0, 1)
        return float(rng.randint(-1000, 1000))

    def num():
        return wire.enc_num(rng.randint(-(10**6), 10**6) if rng.random() < 0.3 else rf())

    for _ in range(max(20, size)):
        k = rng.random()
        if k < 0.4:
            lines.append(f"arith round {rng.choice([4, 4, 4, 2, 0, 8, 1, 6, 3])} {wire.fbits(rf())}")
        elif k < 0.6:
            lines.append("arith sum " + " ".join(num() for _ in range(rng.randint(0, 30))))
        elif k < 0.7:
            lines.append(f"arith pow {wire.fbits(1 - 1 / rng.randint(2, 200))} {rng.randint(0, 300)}")
        elif k < 0.75:
            lines.append(f"arith sqrt {wire.fbits(abs(rf()))}")
        elif k < 0.9:
            lines.append(f"arith {rng.choice(['div', 'add', 'sub', 'mul', 'lt', 'eq'])} {num()} {num()}")
        else:
            lines.append(f"arith {rng.choice(['max', 'min'])} " + " ".join(num() for _ in range(rng.randint(1, 5))))
    return lines, {"kind": "arith"}


# --------------------------------------------------------------------------------------
# candle manager


def _mgr_case(rng, size, tf, fill, ha, life, extra_passes=False, malformed=False):
    n = rng.randint(0, size)
    step = None
    if tf is not None:
        s = gen.tf_seconds(tf)
        step = max(1, s // rng.choice([1, 2, 3, 4, 5, 10, 20])) if (fill or rng.random() < 0.8) else None
    stream, meta = gen.gen_stream(rng, n, step=step)
    if malformed and n >= 2:
        k = rng.random()
        i = rng.randrange(1, n)
        if k < 0.5:
            stream[i] = (stream[i - 1][0] - rng.randint(1, 10**4),) + stream[i][1:]
            meta["malformed"] = "out-of-order"
        else:
            stream[i] = (None,) + stream[i][1:]
            meta["malformed"] = "none-ts"
    sched, shape = gen.gen_schedule(rng, n)
    parts = gen.split_by(stream, sched)
    head = f"tf={tf or '-'} fill={int(fill)} ha={int(ha)} life={'-' if life is None else life}"
    lines = [f"mgr {head} " + wire.enc_candles(parts[0]), "msnap"]
    for p in parts[1:]:
        lines.append("mapp " + wire.enc_candles(p))
        lines.append("msnap")
        if extra_passes and rng.random() < 0.3:
            for _ in range(rng.randint(1, 3)):
                lines.append("mtasks")
            lines.append("msnap")
    meta.update({"n": n, "tf": tf, "fill": fill, "ha": ha, "life": life, "schedule": shape, "appends": len(parts) - 1})
    return lines, meta


def _life(rng, tf):
    base = gen.tf_seconds(tf) if tf else rng.choice([1, 60, 3600])
    return base * rng.randint(0, 40)


@component("manager.collapse", view="ohlcv")
def gen_mgr_collapse(rng, size):
    return _mgr_case(rng, size, gen.gen_timeframe(rng), False, False, None, extra_passes=True)


@component("manager.fill", view="ohlcv")
def gen_mgr_fill(rng, size):
    return _mgr_case(rng, size, gen.gen_timeframe(rng), True, False, None, extra_passes=True)


@component("manager.trim", view="ohlcv")
def gen_mgr_trim(rng, size):
    tf = gen.gen_timeframe(rng, allow_none=True)
    return _mgr_case(rng, size, tf, rng.random() < 0.3, False, _life(rng, tf))


@component("manager.ha")
def gen_mgr_ha(rng, size):
    tf = gen.gen_timeframe(rng, allow_none=True)
    return _mgr_case(rng, size, tf, rng.random() < 0.3 and tf is not None, True, None, extra_passes=True)


@component("manager.state")
def gen_mgr_state(rng, size):
    tf = gen.gen_timeframe(rng, allow_none=True)
    life = _life(rng, tf) if rng.random() < 0.3 else None
    return _mgr_case(rng, size, tf, rng.random() < 0.4 and tf is not None, rng.random() < 0.4, life, extra_passes=True)


@component("manager.malformed")
def gen_mgr_malformed(rng, size):
    tf = gen.gen_timeframe(rng, allow_none=True)
    return _mgr_case(rng, max(4, size // 3), tf, False, rng.random() < 0.3, None, malformed=True)


# --------------------------------------------------------------------------------------
# indicators


def _ind_case(rng, size, spec, programs=False, mgr=True):
    n = rng.randint(0, size)
    tf = None
    if mgr and rng.random() < 0.3:
        tf = gen.gen_timeframe(rng)
        spec = dict(spec, tf=tf, fill=rng.random() < 0.4)
    if mgr and rng.random() < 0.15:
        spec = dict(spec, ha=True)
    step = None
    if tf is not None:
        step = max(1, gen.tf_seconds(tf) // rng.choice([1, 2, 3, 5]))
    stream, meta = gen.gen_stream(rng, n, step=step)
    if mgr and rng.random() < 0.1 and n:
        span = (step or 60) * rng.randint(3, 40)
        spec = dict(spec, life=span)
    sched, shape = gen.gen_schedule(rng, n)
    parts = gen.split_by(stream, sched)
    lines = [f"ind {specs.spec_params(spec)} " + wire.enc_candles(parts[0]), "icalc", "isnap"]
    for p in parts[1:]:
        lines.append("iapp " + wire.enc_candles(p))
        lines.append("isnap")
        if programs and rng.random() < 0.3:
            k = rng.random()
            if k < 0.25:
                lines.append("ipurge")
            elif k < 0.5:
                lines.append("irecalc")
            elif k < 0.75:
                lines.append(f"icidx s={rng.randint(-3, 6)} e=-")
            else:
                lines.append("icalc")
            lines.append("isnap")
    if rng.random() < 0.5:
        for what in ("has_reading", "active", "reading_count", "reading", "prev_reading"):
            lines.append(f"iacc {what}")
    meta.update({"kind": spec["kind"] + (":" + spec["fn"] if spec["kind"] == "AMORPH" else ""), "schedule": shape,
                 "tf": bool(tf), "ha": bool(spec.get("ha")), "n": n, "appends": len(parts) - 1})
    return lines, meta


def _mk_ind_component(kind):
    def genf(rng, size):
        return _ind_case(rng, size, specs.gen_spec(rng, [kind]), programs=rng.random() < 0.3)

    return genf


for _k in specs.ALL_KINDS:
    COMPONENTS[f"ind.{_k}"] = (_mk_ind_component(_k), "full")


# --------------------------------------------------------------------------------------
# running


def split_on_reset(lines):
    out, cur = [], []
    for l in lines:
        if l == "reset":
            out.append(cur)
            cur = []
        else:
            cur.append(l)
    out.append(cur)
    return out


def _cut(lines):
    """a scenario ends at its first error: keep everything up to and including it"""
    for j, l in enumerate(lines):
        if l.startswith("err "):
            return lines[: j + 1]
    return lines


def _worker(args):
    comp, seed, idxs, size, tz = args
    if tz:
        import time

        os.environ["TZ"] = tz
        time.tzset()
    from . import impl, model

    genf, vname = COMPONENTS[comp]
    vf = VIEWS[vname]
    cases = []
    all_lines = []
    for i in idxs:
        rng = gen.rng_for(seed, comp, i)
        lines, meta = genf(rng, size)
        cases.append((i, lines, meta))
        all_lines.extend(lines)
        all_lines.append("reset")
    model_out = split_on_reset(model.run_model(all_lines))
    res = []
    runner = impl.ImplRunner()
    for (i, lines, meta), mo in zip(cases, model_out):
        runner.reset()
        io = runner.run(lines)
        a = _cut([vf(x) for x in io])
        b = _cut([vf(x) for x in mo])
        diff = None
        if a != b:
            for j, (x, y) in enumerate(zip(a, b)):
                if x != y:
                    diff = {"line": j, "impl": x, "model": y}
                    break
            if diff is None:
                diff = {"line": min(len(a), len(b)), "impl": f"<{len(a)} lines>", "model": f"<{len(b)} lines>"}
        errs = sorted({x for x in io if x.startswith("err ")})
        nontrivial = len(lines) > 2 and any(x.startswith("C ") or x[:2] in ("i:", "f:") or x.isdigit() for x in io)
        res.append({"case": i, "meta": meta, "diff": diff, "errors": errs, "nontrivial": nontrivial,
                    "hash": hash(tuple(lines)), "nlines": len(lines)})
    return res


def run_component(comp, seed, n_cases, size, workers=None, tz=None):
    """returns dict(cases, disagreements, distribution, sample)"""
    workers = workers or min(16, os.cpu_count() or 4)
    idxs = list(range(n_cases))
    chunks = [idxs[k::workers] for k in range(workers) if idxs[k::workers]]
    args = [(comp, seed, ch, size, tz) for ch in chunks]
    if len(args) == 1 and not tz:
        results = [_worker(args[0])]
    else:
        with mp.get_context("fork").Pool(len(args)) as pool:
            results = pool.map(_worker, args)
    flat = sorted((r for rs in results for r in rs), key=lambda r: r["case"])
    dist = {}
    for r in flat:
        for k, v in r["meta"].items():
            if isinstance(v, (str, bool, type(None))) or k in ("appends",):
                key = f"{k}={v}"
                dist[key] = dist.get(key, 0) + 1
        for e in r["errors"]:
            dist[e] = dist.get(e, 0) + 1
    dis = [r for r in flat if r["diff"]]
    return {
        "component": comp + (f"@{tz}" if tz else ""),
        "base_component": comp,
        "tz": tz,
        "cases": len(flat),
        "distinct_nontrivial": len({r["hash"] for r in flat if r["nontrivial"]}),
        "disagreements": dis,
        "distribution": dist,
    }


def regen_case(comp, seed, idx, size):
    genf, vname = COMPONENTS[comp]
    return genf(gen.rng_for(seed, comp, idx), size)

"""Correspondence check: the same operation lists through the real package and the Lean model
driver, outputs diffed line by line (bit-exact; no tolerance)."""
import multiprocessing as mp
import os

from . import gen, specs, wire

VIEWS = {}


def view(name):
    def deco(f):
        VIEWS[name] = f
        return f

    return deco


@view("full")
def _full(line):
    return line


@view("ohlcv")
def _ohlcv(line):
    if line.startswith("C "):
        return " ".join(line.split(" ")[:7])
    return line


COMPONENTS = {}


def component(name, view="full"):
    def deco(f):
        COMPONENTS[name] = (f, view)
        return f

    return deco


# --------------------------------------------------------------------------------------
# arithmetic


@component("arith")
def gen_arith(rng, size):
    lines = []

    def rf():
        k = rng.random()
        if k < 0.3:
            return rng.uniform(-1e5, 1e5)
        if k < 0.5:
            return round(rng.uniform(0, 2e4), rng.randint(0, 6)) + rng.choice([0, 5e-5, 0.00005, 1e-9])
        if k < 0.6:
            return rng.randint(-(10**6), 10**6) / (10 ** rng.randint(0, 6))
        if k < 0.7:
            return (rng.randint(0, 10**7) * 2 + 1) / 2 / 10 ** rng.randint(1, 6)
        if k < 0.8:
            return rng.uniform(-1, 1) * 10 ** rng.randint(-12, 12)
        if k < 0.9:
            return rng.uniform(0, 1)
        return float(rng.randint(-1000, 1000))

    def num():
        return wire.enc_num(rng.randint(-(10**6), 10**6) if rng.random() < 0.3 else rf())

    for _ in range(max(20, size)):
        k = rng.random()
        if k < 0.4:
            lines.append(f"arith round {rng.choice([4, 4, 4, 2, 0, 8, 1, 6, 3])} {wire.fbits(rf())}")
        elif k < 0.6:
            lines.append("arith sum " + " ".join(num() for _ in range(rng.randint(0, 30))))
        elif k < 0.7:
            lines.append(f"arith pow {wire.fbits(1 - 1 / rng.randint(2, 200))} {rng.randint(0, 300)}")
        elif k < 0.75:
            lines.append(f"arith sqrt {wire.fbits(abs(rf()))}")
        elif k < 0.9:
            lines.append(f"arith {rng.choice(['div', 'add', 'sub', 'mul', 'lt', 'eq'])} {num()} {num()}")
        else:
            lines.append(f"arith {rng.choice(['max', 'min'])} " + " ".join(num() for _ in range(rng.randint(1, 5))))
    return lines, {"kind": "arith"}


# --------------------------------------------------------------------------------------
# candle manager


# the values of hexital.utils.timeframe.TimeFrame: `tfenum=1` makes the implementation side hand the timeframe over as that
# enum member instead of the string (the model reads the same `tf=`)
TF_ENUM = {"S1", "S5", "S10", "S15", "S30", "T1", "T5", "T10", "T15", "T30", "T45", "H1", "H2", "H3", "H4", "D1", "D7"}


def _tfenum(rng, tf, p=0.3):
    return " tfenum=1" if (tf in TF_ENUM and rng.random() < p) else ""


def _iso_enc(rng, enc, p):
    """with probability p: the timestamps travel as ISO-8601 strings (in dicts / into the Candle constructor)"""
    if rng.random() < p:
        return rng.choice(["isodict", "isodict", "isocandle"]) + " iso=" + rng.choice("TSB")
    return enc


def _csv(t):
    return wire.enc_candle_tokens(t).replace(" ", ",")


def _twin(rng, t):
    """a candle to compare with the held one: the same values, the same values in the other number type (10 == 10.0), or
    ONE of the compared attributes changed (each of timestamp / open / high / low / close / volume decides on its own)"""
    r = rng.random()
    t = list(t)
    if r < 0.35:
        return tuple(t)
    k = rng.randrange(6)
    if r < 0.55:
        v = t[k]
        if k > 0 and isinstance(v, float) and v == int(v):
            t[k] = int(v)
        elif k > 0 and isinstance(v, int) and not isinstance(v, bool):
            t[k] = float(v)
        return tuple(t)
    if k == 0:
        t[0] = None if (t[0] is None or rng.random() < 0.2) else t[0] + rng.choice([1, -1, 60])
    else:
        t[k] = t[k] + rng.choice([1, -1, 0.5, 0.0001])
    return tuple(t)


def _mgr_probes(rng, stream_so_far, tf, fill, life):
    """read-only manager accessors: find_indicator (truthiness of the newest-first readings), CandleManager.__eq__
    (lifespan / timeframe string / fill only), Candle.__eq__ (two held candles, a held one against a fresh one, against a non-candle)"""
    out = []
    for _ in range(rng.randint(1, 3)):
        out.append("macc find name=" + rng.choice(["close", "volume", "volume", "positive", "negative", "open", "realbody", "shadow_upper", "Nope"]))
    k = rng.random()
    if k < 0.35:
        o_tf, o_fill, o_life = tf, fill, life
    else:
        o_tf = rng.choice([tf, tf, None, "T5", "H1", "T60", "S60", "T1", (tf or "T1").lower()])
        o_fill = fill if rng.random() < 0.7 else not fill
        o_life = life if rng.random() < 0.6 else rng.choice([None, 0, 60, 3600, (life or 0) + 1])
    out.append(f"macc eq tf={o_tf or '-'} fill={int(bool(o_fill))} life={'-' if o_life is None else o_life}" + _tfenum(rng, (o_tf or ""), 0.4))
    if rng.random() < 0.15:
        out.append("macc eq other=int")
    m = len(stream_so_far)
    for _ in range(rng.randint(1, 3)):
        i = rng.choice([0, -1, -2, 1, 2, rng.randint(-m - 1, m)])   # the manager may hold fewer candles than it was fed
        r = rng.random()
        if r < 0.4:
            out.append(f"macc ceq i={i} j={rng.choice([i, i, 0, -1, rng.randint(-m - 1, m), i - m if i >= 0 else i + m])}")
        elif r < 0.9 and m:
            j = rng.randrange(m)
            out.append(f"macc ceq i={rng.choice([j, j, j - m, i])} c={_csv(_twin(rng, stream_so_far[j]))}")
        else:
            out.append(f"macc ceq i={i} other=int")
    return out


def _mgr_case(rng, size, tf, fill, ha, life, extra_passes=False, malformed=False, accessors=False):
    n = rng.randint(0, size)
    step = None
    if tf is not None:
        s = gen.tf_seconds(tf)
        step = max(1, s // rng.choice([1, 2, 3, 4, 5, 10, 20])) if (fill or rng.random() < 0.8) else None
    stream, meta = gen.gen_stream(rng, n, step=step)
    if ha and rng.random() < 0.12:
        # prices that are not a well-formed candle (close outside [low, high]; high = low = 0): Heikin-Ashi is defined for any o/h/l/c
        def loosen(t):
            ts, o, h, l, c, v = t
            r = rng.random()
            if r < 0.25:
                return (ts, o, h, l, round(h + abs(h - l) * rng.choice([0.5, 1, 3]) + 0.25, 4), v)
            if r < 0.5:
                return (ts, o, h, l, round(max(l - abs(h - l) * rng.choice([0.5, 1, 3]) - 0.25, 0.0001), 4), v)
            if r < 0.65:
                return (ts, o, 0.0, 0.0, c, v)
            return t
        stream = [loosen(t) for t in stream]
        meta["loose"] = True
    if malformed and n >= 2:
        k = rng.random()
        i = rng.randrange(1, n)
        if k < 0.5:
            stream[i] = (stream[i - 1][0] - rng.randint(1, 10**4),) + stream[i][1:]
            meta["malformed"] = "out-of-order"
        else:
            if rng.random() < 0.3:
                i = rng.choice([0, n - 1])   # the first candle (collapse gives up) / the newest one (trim has no reference time)
            stream[i] = (None,) + stream[i][1:]
            meta["malformed"] = "none-ts"
    sched, shape = gen.gen_schedule(rng, n)
    parts = gen.split_by(stream, sched)
    head = f"tf={tf or '-'} fill={int(fill)} ha={int(ha)} life={'-' if life is None else life}"
    if malformed and parts[0] and rng.random() < 0.08:
        # a CandleManager built directly takes any string: the prefix is only looked at when there is something to collapse
        # (InvalidTimeFrame from the constructor; the scenario ends there)
        head = f"tf={rng.choice(['X5', 'M1', '5T', 'x5', 'W1'])} fill={int(fill)} ha={int(ha)} life={'-' if life is None else life}"
        meta["malformed"] = meta.get("malformed", "") + "+bad-timeframe"
    elif accessors or malformed:
        head += _tfenum(rng, tf)
    lines = [f"mgr {head} " + wire.enc_candles(parts[0]), "msnap"]
    fed = list(parts[0])
    if accessors and rng.random() < 0.5:
        lines += _mgr_probes(rng, fed, tf, fill, life)
    for p in parts[1:]:
        enc = rng.choice(["candle", "candle", "dict", "list", "tlist"])
        if accessors:
            enc = _iso_enc(rng, enc, 0.2)
        single = int(len(p) == 1 and rng.random() < 0.5)
        if accessors and rng.random() < 0.06:
            # append([]) returns before anything happens
            lines.append(f"mapp enc={rng.choice(['candle', 'dict', 'list'])} single=0 n=0")
            lines.append("msnap")
        lines.append(f"mapp enc={enc} single={single} " + wire.enc_candles(p))
        lines.append("msnap")
        fed += list(p)
        if accessors and rng.random() < 0.35:
            lines += _mgr_probes(rng, fed, tf, fill, life)
        if extra_passes and rng.random() < 0.3:
            for _ in range(rng.randint(1, 3)):
                lines.append("mtasks")
            lines.append("msnap")
    if accessors and rng.random() < 0.15:
        # the public tag setter, at the end of the scenario: a candle is tagged once (a Heikin-Ashi manager has tagged them all:
        # CandleAlreadyTagged); on another manager the tag is state the next pass has to live with
        lines += [f"mtag i={rng.choice([-1, 0, 1, -2])}", "msnap", "mtasks", "msnap"]
        if parts[1:] and rng.random() < 0.5:
            lines += ["mapp enc=candle single=0 " + wire.enc_candles([(t[0] + (gen.tf_seconds(tf) if tf else 60),) + t[1:] for t in stream[-1:] if t[0] is not None]), "msnap"]
    if malformed and ("malformed" not in meta or rng.random() < 0.2):
        # something append() does not accept at all (a float / a list of strings): TypeError, the scenario ends there
        lines.append(f"mapp enc={rng.choice(['badobj', 'badlist'])} single=0 " + wire.enc_candles(stream[-1:]))
        lines.append("msnap")
        meta["malformed"] = meta.get("malformed", "") + "+not-candles"
    meta.update({"n": n, "tf": tf, "fill": fill, "ha": ha, "life": life, "schedule": shape, "appends": len(parts) - 1})
    return lines, meta


def _life(rng, tf):
    base = gen.tf_seconds(tf) if tf else rng.choice([1, 60, 3600])
    # not only whole multiples of the timeframe: the cut-off newest - lifespan may fall inside a bucket
    return base * rng.randint(0, 40) + rng.choice([0, 0, 0, 1, base // 2, base - 1, 7])


@component("manager.collapse", view="ohlcv")
def gen_mgr_collapse(rng, size):
    return _mgr_case(rng, size, gen.gen_timeframe(rng), False, False, None, extra_passes=True)


@component("manager.fill", view="ohlcv")
def gen_mgr_fill(rng, size):
    return _mgr_case(rng, size, gen.gen_timeframe(rng), True, False, None, extra_passes=True)


@component("manager.trim", view="ohlcv")
def gen_mgr_trim(rng, size):
    tf = gen.gen_timeframe(rng, allow_none=True)
    return _mgr_case(rng, size, tf, rng.random() < 0.3, False, _life(rng, tf))


@component("manager.ha")
def gen_mgr_ha(rng, size):
    tf = gen.gen_timeframe(rng, allow_none=True)
    return _mgr_case(rng, size, tf, rng.random() < 0.3 and tf is not None, True, None, extra_passes=True)


@component("manager.state")
def gen_mgr_state(rng, size):
    tf = gen.gen_timeframe(rng, allow_none=True)
    life = _life(rng, tf) if rng.random() < 0.3 else None
    return _mgr_case(rng, size, tf, rng.random() < 0.4 and tf is not None, rng.random() < 0.4, life, extra_passes=True, accessors=True)


@component("manager.malformed")
def gen_mgr_malformed(rng, size):
    tf = gen.gen_timeframe(rng, allow_none=True)
    life = _life(rng, tf) if rng.random() < 0.25 else None
    return _mgr_case(rng, max(4, size // 3), tf, False, rng.random() < 0.3, life, malformed=True)


# --------------------------------------------------------------------------------------
# indicators


def _ind_case(rng, size, spec, programs=False, mgr=True):
    n = rng.randint(0, size)
    tf = None
    if mgr and rng.random() < 0.3:
        tf = gen.gen_timeframe(rng)
        spec = dict(spec, tf=tf, fill=rng.random() < 0.4)
    if mgr and rng.random() < 0.15:
        spec = dict(spec, ha=True)
    step = None
    if tf is not None:
        step = max(1, gen.tf_seconds(tf) // rng.choice([1, 2, 3, 5]))
    stream, meta = gen.gen_stream(rng, n, price_style=gen.style_for(rng, spec["kind"]), step=step)
    if mgr and rng.random() < 0.1 and n:
        span = (step or 60) * rng.randint(3, 40)
        spec = dict(spec, life=span)
    # a Counter over a reading that is None on some candles (another indicator warming up, a field that is not there): the streak
    # is carried over those candles.  The reading is put on the candles from outside (`iset`) before the Counter runs
    sparse = spec["kind"] == "COUNTER" and rng.random() < 0.4
    if sparse:
        spec = dict(spec, input=rng.choice(["A", "A", "A", "A.x", "Zmissing"]), cv=rng.choice([True, True, False, 0, 1, 3]))

    def readings(idxs):
        vals = ["n", "b:1", "b:1", "b:0", "i:0", "i:1", "i:3", "f:" + str(wire.fbits(1.0)), "{x=b:1;y=n}", "{x=n}", "{x=i:3}"]
        return [f"iset idx={i} sub=0 name=A val={rng.choice(vals)}" for i in idxs if rng.random() < 0.6]

    sched, shape = gen.gen_schedule(rng, n)
    parts = gen.split_by(stream, sched)
    lines = [f"ind {specs.spec_params(spec)}{_tfenum(rng, tf)} " + wire.enc_candles(parts[0])]
    if sparse and tf is None:
        lines += readings(range(len(parts[0])))
    lines += ["icalc", "isnap"]
    for p in parts[1:]:
        enc = _iso_enc(rng, rng.choice(["candle", "candle", "candle", "dict", "list", "tlist"]), 0.08)
        single = int(len(p) == 1 and rng.random() < 0.5)
        lines.append(f"iapp enc={enc} single={single} " + wire.enc_candles(p))
        lines.append("isnap")
        if sparse and rng.random() < 0.5:
            # the appended candles were counted without the reading (None: the streak stands); now it arrives and everything is redone
            lines += readings(range(-min(len(p), 3), 0)) + ["irecalc", "isnap"]
        if programs and rng.random() < 0.3:
            k = rng.random()
            if k < 0.25:
                lines.append("ipurge")
                if rng.random() < 0.5:
                    # a burst without an append in between: readings reappear in the MIDDLE of the list, so the following
                    # calculate() starts from 0 and must skip them (the `is not None: continue` test of the loop)
                    lines.append("isnap")
                    lines.append(f"icidx s={rng.randint(-3, 6)} e=-")
                    lines.append("isnap")
                    lines.append("icalc")
            elif k < 0.5:
                lines.append("irecalc")
            elif k < 0.75:
                s_ = rng.randint(-3, 6)
                # explicit end index: within the documented use (an end below -len is re-normalised a second time by the
                # sub-indicators of the real code, which the model - indices normalised once - does not follow: outside the domain)
                # (likewise a start below -len, which only the default end tolerates)
                # (end=-1: the negative end the code normalises itself; on at least one candle it stays inside the list)
                e_ = "-" if (rng.random() < 0.6 or s_ < 0) else str(rng.choice([s_ + 1, s_ + 2, s_ + 3, -1]))
                lines.append(f"icidx s={s_} e={e_}")
            else:
                lines.append("icalc")
            lines.append("isnap")
    if rng.random() < 0.5:
        for what in ("has_reading", "active", "reading_count", "reading", "prev_reading"):
            lines.append(f"iacc {what}")
    meta.update({"kind": spec["kind"] + (":" + spec["fn"] if spec["kind"] == "AMORPH" else ""), "schedule": shape,
                 "tf": bool(tf), "ha": bool(spec.get("ha")), "n": n, "appends": len(parts) - 1, "sparse": bool(sparse)})
    return lines, meta


def _mk_ind_component(kind):
    def genf(rng, size):
        return _ind_case(rng, size, specs.gen_spec(rng, [kind]), programs=rng.random() < 0.3)

    return genf


for _k in specs.ALL_KINDS:
    COMPONENTS[f"ind.{_k}"] = (_mk_ind_component(_k), "full")


def _mk_amorph_component(fn):
    def genf(rng, size):
        return _ind_case(rng, size, specs.gen_amorph_spec(rng, [fn]), programs=rng.random() < 0.2)

    return genf


AMORPH_FNS = [f for f in specs.ANALYSIS if f not in ("above", "below")]
for _f in AMORPH_FNS:
    COMPONENTS[f"amorph.{_f}"] = (_mk_amorph_component(_f), "full")


DICT_FIELDS = {"BBANDS": ["BBL", "BBM", "BBU"], "KC": ["lower", "band", "upper"], "DONCHIAN": ["DCL", "DCM", "DCU"], "HL": ["low", "high"],
               "SUPERTREND": ["trend", "direction", "long", "short"], "MACD": ["MACD", "signal", "histogram"],
               "STOCH": ["stoch", "k", "d"], "AROON": ["AROONU", "AROOND", "AROONOSC"], "ADX": ["ADX", "DM_Plus", "DM_Neg"]}


def _probe_name(spec):
    return specs.build_indicator({**spec, "fill": False, "ha": False, "life": None}, []).name


def gen_hexital(rng, size, ha_ok=False, life_ok=False, programs=True, enc=None):
    """a Hexital with 1..4 members (mixed timeframes), fed through a schedule, with façade operations"""
    n = rng.randint(0, size)
    htf = gen.gen_timeframe(rng) if rng.random() < 0.25 else None
    members = []
    base_step = gen.tf_seconds(htf) if htf else rng.choice([60, 60, 300, 3600])
    for _ in range(rng.randint(1, 4)):
        sp = specs.gen_amorph_spec(rng) if rng.random() < 0.15 else specs.gen_spec(rng)
        if rng.random() < 0.4:
            mult = rng.choice([2, 3, 5, 1] if htf else [2, 3, 5])   # 1: the Hexital's own timeframe named explicitly by a member
            unit, k = (htf[0], int(htf[1:])) if htf else ("T", rng.choice([1, 5]))
            sp["tf"] = f"{unit}{k * mult}"
            if rng.random() < 0.25:
                sp["tf"] = sp["tf"].lower()
        if rng.random() < 0.12:
            sp["ha"] = True     # a member-level candlestick type: inside a Hexital the member's manager (the Hexital's) decides
        members.append(sp)
    # an indicator fed by another member's reading (a late-starting input), registered after (or before) it
    if rng.random() < 0.3:
        src = members[0]
        try:
            src_name = _probe_name(src)
            fields = DICT_FIELDS.get(src["kind"])
            inp = src_name + ("." + rng.choice(fields) if fields else "")
            dep = {"kind": rng.choice(["EMA", "RMA", "SMA", "WMA", "ROC", "STDEV", "RSI"]), "period": rng.randint(2, 6), "input": inp, "round": 4}
            if src.get("tf"):
                dep["tf"] = src["tf"]
            members.insert(rng.choice([1, 1, 1, 0]), dep)
        except Exception:  # noqa
            pass
    stream, meta = gen.gen_stream(rng, n, step=max(1, base_step // rng.choice([1, 1, 2, 5])))
    sched, shape = gen.gen_schedule(rng, n)
    parts = gen.split_by(stream, sched)
    enc = enc or _iso_enc(rng, rng.choice(["candle", "dict", "list", "tlist"]), 0.12)
    ha = ha_ok and rng.random() < 0.3
    life = base_step * rng.choice([0, 1, 3, 5, 20, 60]) + rng.choice([0, 0, 1, base_step // 2]) if (life_ok and rng.random() < 0.3) else None
    lines = []
    member_names = []
    for sp in members:
        # form=used: an Indicator object that has already run once on its own (empty) candles, so its helper indicators exist and
        # have to follow it to the Hexital's manager
        lines.append(f"hmember {specs.spec_params(sp)}{_tfenum(rng, sp.get('tf'))} form={rng.choice(['obj', 'obj', 'dict', 'used'])}")
        try:
            member_names.append(_probe_name(sp))
        except Exception:  # noqa
            pass
    if not member_names:
        member_names = ["SMA_5"]
    # Hexital-level gap filling also without an own timeframe: it then applies to the members' managers
    hfill = rng.random() < 0.3 and (htf is not None or any(m.get("tf") for m in members))
    if hfill:
        # keep the filled series small: a stream spanning tens of thousands of buckets of the finest collapsing timeframe is the same
        # scenario as one spanning a few hundred, at a hundred times the cost
        stamps = [t[0] for t in stream if t[0] is not None]
        finest = min([gen.tf_seconds(x) for x in [htf] + [m.get("tf") for m in members] if x] or [1])
        if stamps and (max(stamps) - min(stamps)) // finest > 2000:
            hfill = False
    if programs and rng.random() < 0.01:
        lines.append("hmember form=bad")   # InvalidIndicator from the constructor (after the default manager was built)
    lines.append(f"hnew tf={htf or '-'}{_tfenum(rng, htf)} fill={int(hfill)} ha={int(ha)} life={'-' if life is None else life} "
                 + wire.enc_candles(parts[0]))
    lines += ["hcalc", "hsnap"]
    names = []
    for p in parts[1:]:
        lines.append(f"happ enc={enc} single={int(len(p) == 1 and rng.random() < 0.5)} " + wire.enc_candles(p))
        lines.append("hsnap")
        if programs and rng.random() < 0.25:
            lines.append("hacc names")
            # the read-only views of the façade: timeframes, get_candles(), candles(tf) (a held timeframe, an unknown one, none)
            lines.append(rng.choice(["hacc timeframes", "hacc getcandles",
                                     "hacc candles tf=" + rng.choice([m.get("tf") or "-" for m in members] + ["-", "T77", (htf or "-")]).upper()]))
            k = rng.random()
            tgt = "-" if rng.random() < 0.2 else rng.choice(member_names + ["EMA_3", "TR"])
            if k < 0.2:
                lines.append(f"hpurge name={tgt}")
            elif k < 0.4:
                lines.append(f"hrecalc name={tgt}")
            elif k < 0.55:
                lines.append(f"hcidx name={tgt} idx={rng.choice([-1, -2, 0, 3])}")
            elif k < 0.7:
                lines.append(f"hrem name={tgt}")
            elif k < 0.85:
                # add a new member – half of the time one that re-uses the name of an existing (possibly removed) member
                sp2 = specs.gen_spec(rng)
                if rng.random() < 0.5:
                    sp2 = dict(rng.choice(members))
                    if "input" in sp2:
                        sp2["input"] = rng.choice(["high", "low", "open"])
                if rng.random() < 0.35:
                    # on a timeframe the Hexital may not hold yet: add_indicator builds that manager from the default manager's candles
                    unit, k_ = (htf[0], int(htf[1:])) if htf else ("T", rng.choice([1, 5]))
                    sp2 = dict(sp2, tf=f"{unit}{k_ * rng.choice([1, 2, 3, 4, 5, 7])}")
                lines.append(f"hmember {specs.spec_params(sp2)} form={rng.choice(['obj', 'used'])}")
                lines.append("hadd")
            elif k < 0.9:
                lines.append("hadd")    # add_indicator([]): nothing to validate
            # the members as objects / as configuration, after whatever the program did to them
            if rng.random() < 0.4:
                lines.append("hacc indicator_settings")
                lines.append(f"hacc indicator member={rng.choice(member_names + ['EMA_3'])} what={rng.choice(['name', 'active', 'has_reading', 'reading', 'reading_count'])}")
            lines.append("hcalc")
            lines.append("hsnap")
    if programs and rng.random() < 0.05:
        lines += ["hmember form=bad", "hadd", "hsnap"]   # neither an Indicator nor a dict: InvalidIndicator (at the end: the scenario stops there)
    meta.update({"members": len(members), "htf": bool(htf), "mixed_tf": any(m.get("tf") for m in members), "enc": enc,
                 "ha": ha, "life": life is not None, "schedule": shape, "n": n})
    return lines, meta


@component("hexital")
def gen_hexital_plain(rng, size):
    return gen_hexital(rng, size)


@component("hexital.ha")
def gen_hexital_ha(rng, size):
    return gen_hexital(rng, size, ha_ok=True)


@component("hexital.life")
def gen_hexital_life(rng, size):
    return gen_hexital(rng, size, life_ok=True)


@component("access")
def gen_access(rng, size):
    """every read accessor of an indicator object at every index, interleaved with appends"""
    if rng.random() < 0.35:
        spec = rng.choice([
            {"kind": "COUNTER", "input": "positive", "cv": rng.choice([True, False]), "round": 4},
            {"kind": "COUNTER", "input": "volume", "cv": 0, "round": 4},
            specs.gen_amorph_spec(rng, ["positive", "negative", "rising", "doji", "highestbar"]),
            {"kind": "OBV", "round": 4},
        ])
    else:
        spec = specs.gen_spec(rng)
    n = rng.randint(0, min(size, 30))
    stream, meta = gen.gen_stream(rng, n, price_style=rng.choice(["walk", "zerovol", "flat", "ints", "jumpy"]))
    sched, shape = gen.gen_schedule(rng, n)
    parts = gen.split_by(stream, sched)
    name = _probe_name(spec)
    fields = DICT_FIELDS.get(spec["kind"], [])
    lines = [f"ind {specs.spec_params(spec)} " + wire.enc_candles(parts[0]), "icalc"]
    fed = list(parts[0])
    try:
        probe = specs.build_indicator({**spec, "fill": False, "ha": False, "life": None}, [])
        probe.calculate()
        child_names = [i.name for i in list(probe.sub_indicators.values()) + list(probe.managed_indicators.values())]
    except Exception:  # noqa
        child_names = []

    def probes(count):
        out = ["iacc name", "iacc active", "iacc has_reading", "iacc reading", "iacc prev_reading", "iacc as_list", "iacc reading_count"]
        nm = name + "." + rng.choice(fields) if fields and rng.random() < 0.6 else None
        q = f" name={nm}" if nm else ""
        out += [f"iacc as_list{q}", f"iacc reading_count{q}", f"iacc prev_reading{q}"]
        for i in range(-count - 1, count + 1):
            out.append(f"iacc reading idx={i}{q}")
        for _ in range(3):
            out.append(f"iacc reading_period period={rng.randint(1, 8)} name={rng.choice(['close', name])} idx={rng.randint(-2, max(count, 1))}")
            out.append(f"iacc candles_sum length={rng.randint(1, 8)} name={rng.choice(['close', 'volume', name])} idx={rng.randint(-2, max(count, 1))}")
        # utils.candles.reading_period itself, with and without an index
        out.append(f"iacc reading_period_fn period={rng.randint(0, 6)} name={rng.choice(['close', name])}" + rng.choice(["", "", f" idx={rng.randint(-2, max(count, 1))}"]))
        # read_candle: a candle of the object's own list / a fresh candle that is in no list
        for _ in range(3):
            out.append(f"iacc read_candle idx={rng.randint(-count - 1, count)}{rng.choice([q, '', ' name=' + rng.choice(['close', 'high_low', 'positive', 'volume', 'Zmissing'])])}")
        if fed:
            out.append(f"iacc read_candle c={_csv(rng.choice(fed))}{rng.choice([q, ' name=close', ' name=negative', ' name=realbody'])}")
        # the manager's find_indicator (TRUTHY readings only: 0 / False / 0.0 do not count) and candle equality
        out += ["iacc find", f"iacc find{q}", "iacc find name=" + rng.choice(["volume", "positive", "negative", "realbody", "Zmissing", name])]
        for _ in range(2):
            i = rng.randint(-count - 1, count)
            out.append(f"iacc ceq i={i} j={rng.choice([i, i, i - count if i >= 0 else i + count, rng.randint(-count - 1, count)])}")
        if fed:
            j = rng.randrange(len(fed))
            out.append(f"iacc ceq i={rng.choice([j, j - len(fed)])} c={_csv(_twin(rng, fed[j]))}")
        # utils.indexing called directly (validate_index is used by nothing in the library; None indices)
        for _ in range(2):
            ix = rng.choice(["None", "None", str(rng.randint(-count - 2, count + 1))])
            out.append(f"util {rng.choice(['validate_index', 'validate_index', 'absindex', 'valid_index'])} idx={ix} len={rng.choice([count, count, 0, 1])}"
                       + (f" default={rng.randint(-count - 1, count + 1)}" if rng.random() < 0.5 else ""))
        return out

    def purge_by_name():
        """CandleManager.purge(<one name>) on the object's manager: that key only (helper series stay), then calculate() refills"""
        tgt = rng.choice([name, name, name] + child_names + ["Zmissing"])
        return [f"ipurgename name={tgt}", "isnap", "icalc", "isnap"]

    consumed = len(parts[0])
    lines += probes(consumed) + ["isnap"]
    for p in parts[1:]:
        lines.append("iapp " + wire.enc_candles(p))
        consumed += len(p)
        fed += list(p)
        if rng.random() < 0.5:
            lines += probes(consumed)
        lines.append("isnap")
        if rng.random() < 0.12:
            lines += purge_by_name()
    meta.update({"kind": spec["kind"], "schedule": shape, "n": n})
    return lines, meta


@component("hexital.access")
def gen_hexital_access(rng, size):
    lines, meta = gen_hexital(rng, min(size, 30), programs=False)
    # names of the members, from the real constructors (also compared through the `ok name=` lines)
    names = []
    fields = {}
    for l in lines:
        if l.startswith("hmember "):
            ps = dict(t.split("=", 1) for t in l.split()[1:] if "=" in t)
            ps = {k: (None if v == "-" else v) for k, v in ps.items()}
            try:
                names.append(_probe_name(specs.params_to_spec(ps)))
                fields[names[-1]] = DICT_FIELDS.get(ps["kind"], [])
            except Exception:  # noqa
                pass
    out = []
    for l in lines:
        out.append(l)
        if l == "hsnap" and names and rng.random() < 0.6:
            nm = rng.choice(names + ["Nope_1"])
            out += [f"hacc has_reading name={nm}", f"hacc reading name={nm}", f"hacc prev_reading name={nm}", f"hacc as_list name={nm}",
                    f"hacc reading name={nm} idx={rng.randint(-5, 5)}", "hacc names"]
            # reading_as_list dispatches on the part before the dot
            fs = fields.get(nm) or ["x"]
            if rng.random() < 0.5:
                out.append(f"hacc as_list name={nm}.{rng.choice(fs + ['Zmissing'])}")
            # index=None is no valid index for any manager
            if rng.random() < 0.3:
                out.append(f"hacc reading name={nm} idx=None")
            # Hexital.indicator(name): the member object itself, asked the same questions (KeyError for an unknown name)
            if rng.random() < 0.6:
                what = rng.choice(["name", "active", "has_reading", "reading", "prev_reading", "as_list", "reading_count",
                                   f"reading idx={rng.randint(-5, 5)}", f"read_candle idx={rng.randint(-5, 5)}", "find",
                                   f"as_list name={nm}.{rng.choice(fs)}", f"reading_period period={rng.randint(1, 5)} idx={rng.randint(-2, 6)}"])
                out.append(f"hacc indicator member={nm} what={what}")
            if rng.random() < 0.4:
                out.append("hacc indicator_settings")
    return out, meta


def _rand_reading(rng):
    k = rng.random()
    if k < 0.2:
        return "n"
    if k < 0.3:
        return "{x=" + wire.enc_num(float(rng.randint(0, 9))) + ";y=n}"
    if k < 0.4:
        return wire.enc_num(rng.random() < 0.5)
    if k < 0.7:
        return wire.enc_num(rng.randint(-5, 5))
    return wire.enc_num(round(rng.uniform(-5, 5), 3))


def _mk_analysis_component(fn):
    """direct calls of an analysis function at every index (positive and negative) of a list whose
    candles carry arbitrary readings A and B (numbers, None, bools, dicts, or absent)"""

    def genf(rng, size):
        n = rng.randint(0, min(size, 24))
        # the candlestick patterns also on a market that shows them (a long body, then a gapped doji)
        star = fn in ("doji", "dojistar", "hammer", "inv_hammer") and rng.random() < 0.4
        if star:
            n = max(n, min(size, rng.randint(12, 24)))
        stream, meta = gen.gen_stream(rng, n, price_style="star" if star else None)
        lines = ["ind kind=HLA round=4 name=- suffix=- tf=- fill=0 ha=0 life=- " + wire.enc_candles(stream)]
        for i in range(n):
            for nm in ("A", "B"):
                if rng.random() < 0.75:
                    lines.append(f"iset idx={i} sub={int(rng.random() < 0.2)} name={nm} val={_rand_reading(rng)}")
        args = specs.ANALYSIS[fn]
        for _ in range(3):
            toks = [f"fn={fn}"]
            pool = ["A", "B", "close", "high", "A.x", "Zmissing"]
            if "ind" in args:
                toks.append(f"ind={rng.choice(pool)}")
            if "a" in args:
                toks.append(f"a={rng.choice(pool)} b={rng.choice(pool)}")
            if "length" in args:
                toks.append(f"length={rng.choice([1, 1, 2, 3, 4, 7, 30])}")
            if "lookback" in args and rng.random() < 0.5:
                toks.append(f"lookback={rng.choice([1, 2, 3, 12])}")
            base = " ".join(toks)
            for i in list(range(-n - 1, n + 1)) + [None]:
                lines.append(f"ana {base}" + ("" if i is None else f" idx={i}"))
            if fn in ("positive", "negative"):
                # the same function handed ONE candle (the index argument is then ignored)
                for _ in range(3):
                    lines.append(f"ana {base} one={rng.randint(-n - 1, n)}" + rng.choice(["", f" idx={rng.randint(-n - 1, n)}"]))
        meta.update({"fn": fn, "n": n})
        return lines, meta

    return genf


for _f in specs.ANALYSIS:
    COMPONENTS[f"analysis.{_f}"] = (_mk_analysis_component(_f), "full")


AUTIL_AVG = ["realbody_avg", "high_low_avg", "shadow_upper_avg", "shadow_lower_avg"]
AUTIL_PCT = ["_realbody_percentage", "_high_low_percentage"]
AUTIL_LEN = ["candle_doji", "candle_bodylong", "candle_bodyverylong", "candle_bodyshort", "candle_shadow_veryshort", "candle_shadow_short",
             "candle_near", "candle_far", "candle_equal"]
AUTIL_AT = ["candle_shadow_long", "candle_shadow_verylong"]
AUTIL_GAP = ["realbody_gapup", "realbody_gapdown", "candle_gapup", "candle_gapdown"]


@component("analysis.utils")
def gen_analysis_utils(rng, size):
    """hexital.analysis.utils called directly: every function at every index (None, negative, past the end) of a list of 0..24
    candles, lengths 0 / 1 / ... / longer than the list / negative / the default, the gap predicates on every kind of pair"""
    n = rng.randint(0, min(size, 24))
    stream, meta = gen.gen_stream(rng, n, price_style=rng.choice([None, None, "gappy", "ints", "grid", "jumpy", "flat"]))
    lines = ["ind kind=HLA round=4 name=- suffix=- tf=- fill=0 ha=0 life=- " + wire.enc_candles(stream)]
    idxs = list(range(-n - 2, n + 2)) + [None]
    ix = lambda i: "" if i is None else f" idx={i}"  # noqa
    for fn in rng.sample(AUTIL_AVG, 2) + rng.sample(AUTIL_PCT, 1) + rng.sample(AUTIL_LEN, 3):
        for _ in range(2):
            length = rng.choice([0, 1, 1, 2, 3, 5, 10, n, n + 1, 30, -2, None])
            if fn in AUTIL_AVG and length is None:
                length = 10     # no default there
            base = f"autil fn={fn}" + ("" if length is None else f" length={length}")
            if fn in AUTIL_PCT and rng.random() < 0.7:
                base += " pct=" + wire.enc_num(rng.choice([1.0, 0.1, 3, 0, 0.5, -1.5, 2]))
            for i in idxs:
                lines.append(base + ix(i))
    for fn in AUTIL_AT:
        for i in idxs:
            lines.append(f"autil fn={fn}" + ix(i))
    for fn in AUTIL_GAP:
        for _ in range(max(4, n)):
            i = rng.randint(-n - 1, n)
            lines.append(f"autil fn={fn} idx={i} two={rng.choice([i - 1, i - 1, i + 1, i, rng.randint(-n - 1, n)])}")
    meta.update({"n": n})
    return lines, meta


# --------------------------------------------------------------------------------------
# running


def resolve_component(name):
    """static components, plus dynamic groups: `ind:SMA,EMA` / `ind:ALL` / `ind.life:ALL` (lifespan forced) /
    `amorph:ALL` / `analysis:rising,falling` pick one member of the group per case"""
    if name in COMPONENTS:
        return COMPONENTS[name]
    fam, _, members = name.partition(":")
    if fam in ("ind", "ind.life"):
        kinds = specs.ALL_KINDS if members == "ALL" else members.split(",")

        def genf(rng, size):
            spec = specs.gen_spec(rng, [rng.choice(kinds)])
            lines, meta = _ind_case(rng, size, spec, programs=rng.random() < 0.3)
            return lines, meta

        def genf_life(rng, size):
            spec = specs.gen_spec(rng, [rng.choice(kinds)])
            spec["life"] = rng.choice([60, 300, 3600]) * rng.randint(3, 40)
            return _ind_case(rng, size, spec, programs=False)

        return (genf_life if fam == "ind.life" else genf), "full"
    if fam == "amorph":
        fns = AMORPH_FNS if members == "ALL" else members.split(",")
        return (lambda rng, size: _mk_amorph_component(rng.choice(fns))(rng, size)), "full"
    if fam == "analysis":
        fns = list(specs.ANALYSIS) if members == "ALL" else members.split(",")
        return (lambda rng, size: _mk_analysis_component(rng.choice(fns))(rng, size)), "full"
    raise KeyError(name)


def split_on_reset(lines):
    out, cur = [], []
    for l in lines:
        if l == "reset":
            out.append(cur)
            cur = []
        else:
            cur.append(l)
    out.append(cur)
    return out


def _cut(lines):
    """a scenario ends at its first error: keep everything up to and including it"""
    for j, l in enumerate(lines):
        if l.startswith("err "):
            return lines[: j + 1]
    return lines


def _worker(args):
    comp, seed, idxs, size, tz = args
    if tz:
        import time

        os.environ["TZ"] = tz
        time.tzset()
    from . import impl, model

    genf, vname = resolve_component(comp)
    vf = VIEWS[vname]
    cases = []
    all_lines = []
    for i in idxs:
        rng = gen.rng_for(seed, comp, i)
        lines, meta = genf(rng, size)
        cases.append((i, lines, meta))
        all_lines.extend(lines)
        all_lines.append("reset")
    model_out = split_on_reset(model.run_model(all_lines))
    res = []
    runner = impl.ImplRunner()
    for (i, lines, meta), mo in zip(cases, model_out):
        runner.reset()
        _t0 = __import__("time").time()
        try:
            io = runner.run(lines)
        except impl.Diverged:  # a watchdog that fired outside ImplRunner._try: never let it kill the pool worker (the pool would wait forever)
            io = ["err diverges"]
        except Exception as e:  # noqa  (the harness could not digest what the code under test did: a disagreement, not a crash of the check)
            if os.environ.get("HX_STRICT"):
                raise
            io = [f"harness-crash {type(e).__name__}: {str(e)[:200]}"]
        if os.environ.get("HX_SLOW") and __import__("time").time() - _t0 > float(os.environ["HX_SLOW"]):
            print(f"SLOW tie case={i} {__import__('time').time() - _t0:.1f}s lines={len(lines)} out={len(io)} meta={meta} first={[l[:120] for l in lines[:3]]}", file=__import__("sys").stderr)
        a = _cut([vf(x) for x in io])
        b = _cut([vf(x) for x in mo])
        diff = None
        if a != b:
            for j, (x, y) in enumerate(zip(a, b)):
                if x != y:
                    diff = {"line": j, "impl": x, "model": y}
                    break
            if diff is None:
                diff = {"line": min(len(a), len(b)), "impl": f"<{len(a)} lines>", "model": f"<{len(b)} lines>"}
        errs = sorted({x for x in io if x.startswith("err ") or x.startswith("aerr ")})
        nontrivial = len(lines) > 2 and any(x.startswith("C ") or x[:2] in ("i:", "f:", "b:") or x.isdigit() for x in io)
        res.append({"case": i, "meta": meta, "diff": diff, "errors": errs, "nontrivial": nontrivial,
                    "hash": hash(tuple(lines)), "nlines": len(lines),
                    "sample": [l[:160] for l in lines[:4]] if i == 0 else None})
    return res


def run_component(comp, seed, n_cases, size, workers=None, tz=None):
    """returns dict(cases, disagreements, distribution, sample)"""
    workers = workers or min(16, os.cpu_count() or 4)
    idxs = list(range(n_cases))
    chunks = [idxs[k::workers] for k in range(workers) if idxs[k::workers]]
    args = [(comp, seed, ch, size, tz) for ch in chunks]
    if len(args) == 1 and not tz:
        results = [_worker(args[0])]
    else:
        with mp.get_context("fork").Pool(len(args)) as pool:
            results = pool.map(_worker, args)
    flat = sorted((r for rs in results for r in rs), key=lambda r: r["case"])
    dist = {}
    for r in flat:
        for k, v in r["meta"].items():
            if isinstance(v, (str, bool, type(None))) or k in ("appends",):
                key = f"{k}={v}"
                dist[key] = dist.get(key, 0) + 1
        for e in r["errors"]:
            dist[e] = dist.get(e, 0) + 1
    dis = [r for r in flat if r["diff"]]
    return {
        "component": comp + (f"@{tz}" if tz else ""),
        "base_component": comp,
        "tz": tz,
        "cases": len(flat),
        "distinct_nontrivial": len({r["hash"] for r in flat if r["nontrivial"]}),
        "disagreements": dis,
        "distribution": dist,
        "sample": next((r["sample"] for r in flat if r.get("sample")), None),
    }


def regen_case(comp, seed, idx, size):
    genf, vname = resolve_component(comp)
    return genf(gen.rng_for(seed, comp, idx), size)


from . import corr_settings  # noqa: E402,F401  (registers the "settings" component)

"""C09 – calculation is total: no exception, only finite numbers, no gaps after warm-up."""
from ..oracles import common as cm
from ..oracles import indtotal as ot

ID = "C09"
LEAN_MODULE = "HexProps.C09"
SCOPE = []
ORACLE_RULE = ("C09: every shipped formula indicator (26 kinds, rotating) x degenerate family (" + ", ".join(ot.FAMILIES) + "; the fill families run a "
               "timeframe with timeframe_fill=True so the manager inserts flat zero-volume candles) x periods >= 2 (mostly 2..6) x append schedule on the real "
               "class: no exception from construction/calculate/append, every value in candle.indicators and candle.sub_indicators is None/bool/finite, "
               "no None after the first value per output field; non-trivial = at least 2 candles and at least one reading (or a violation)")
ASSUMPTIONS = ["Supertrend's long/short fields are exempt from the no-gap clause: exactly one of them is set by design (C10 checks that)",
               "Counter is exercised on input_value='volume', count_value=0; the other indicators on their default price inputs",
               "TZ=UTC for the timeframe families"]
PARTIAL = 'exact ordered field: every division/sqrt is guarded; the nine field-reading leaf kinds never raise on any raw stream; composite series and IEEE overflow/NaN outside (C09_FULL); open finding: ROC on a zero reference input'


def oracle(ctx):
    quick = ctx["tier"] == "quick"
    n = (26 * len(ot.FAMILIES) * (40 if quick else 160)) * ctx["boost"]
    return cm.run_cases(ot.case, ctx["seed"], ID, n, {"size": 60 if quick else 250})


replay = ot.replay

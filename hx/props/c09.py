"""C09 – calculation is total: no exception, only finite numbers, no gaps after warm-up."""
from ..oracles import common as cm
from ..oracles import indtotal as ot

ID = "C09"
LEAN_MODULE = "HexProps.C09"
SCOPE = []
ORACLE_RULE = ("C09: every shipped formula indicator (26 kinds, rotating) x degenerate family (" + ", ".join(ot.FAMILIES) + "; the fill families run a "
               "timeframe with timeframe_fill=True so the manager inserts flat zero-volume candles) x periods >= 2 (mostly 2..6) x append schedule on the real "
               "class: no exception from construction/calculate/append, every value in candle.indicators and candle.sub_indicators is None/bool/finite, "
               "no None after the first value per output field; non-trivial = at least 2 candles and at least one reading (or a violation)")
ASSUMPTIONS = ["Supertrend's long/short fields are exempt from the no-gap clause: exactly one of them is set by design (C10 checks that)",
               "Counter is exercised on input_value='volume', count_value=0; the other indicators on their default price inputs",
               "TZ=UTC for the timeframe families"]
PARTIAL = "exact ordered field for 'denominator is not 0' (IEEE overflow/NaN outside). Proved: every division/sqrt guarded per call; and for EVERY composite and leaf kind (ATR, RSI, KC, STDEV, BBANDS, Supertrend, MACD, STOCH, TSI, ADX, HMA, VWAP, Donchian, HighestLowest, Aroon, Counter, STDEVTHRES, SMA, EMA, RMA, WMA, VWMA, HLA, TR, OBV): X_never_raises - the batch run and every append schedule return on every raw stream, on the base timeframe, a collapsing timeframe and with gap filling - and X_no_gaps - every output field is None exactly below its warm-up index and a number from it on. Also proved: Amorph over all 20 functions on every manager (amorph_never_raises, amorph_no_gaps); every X_never_raises / X_no_gaps on Heikin-Ashi managers (alone, on a collapsing timeframe, with gap filling: three more MgrSpec instances); lifespan managers for all 27 classes under C15's retention hypothesis (never_raises_lifespan; Amorph unconditionally) - without that hypothesis SMA / ROC / WMA / VWMA / BBANDS / HMA raise IndexError after a trim that keeps fewer candles than their look-back (lifespan_short_retention_raises, replayed on the library; outside this property's quantifier, which has no lifespan). Chained inputs: X_no_gaps_inputs / X_never_raises_inputs for 17 kinds over a None-then-numeric column on any candle list, and the two-member Hexital form (rsi_over_ema_hexital, sma_over_rsi_hexital, chained_pair_no_gaps: the live run returns on every MgrSpec). Round 7: lifespan managers TOGETHER with a collapsing timeframe / fill / Heikin-Ashi - the trimmed run returns whenever the untrimmed one does, under the retention hypothesis (never_raises_lifespan_mgr and the per-kind instances; without it SMA raises on a timeframe too: lifespan_short_retention_raises_tf). Open (C09_FULL): longer chains and dotted-field sources at the Hexital level; lifespan with a collapsing timeframe; ROC with a zero reference input is an open known finding"


def oracle(ctx):
    quick = ctx["tier"] == "quick"
    n = (26 * len(ot.FAMILIES) * (40 if quick else 160)) * ctx["boost"]
    return cm.merge_results(cm.run_cases(ot.case, ctx["seed"], ID, n, {"size": 60 if quick else 250}),
                            cm.run_cases(ot.case, ctx["seed"], ID + "vl", 10 if quick else 60, {"size": 60, "families": ["walk-verylongflat"]}),
                            cm.run_cases(ot.case_hexital_chain, ctx["seed"], ID + "hc", 150 * ctx["boost"] if quick else 1500, {}))


replay = ot.replay

"""C11 – Heikin-Ashi conversion follows its recurrence under every append schedule."""
from ..oracles import common as cm
from ..oracles import manager as om

ID = "C11"
LEAN_MODULE = "HexProps.C11"
SCOPE = [("arith", 40, 60), ("manager.ha", 400, 50), ("manager.state", 150, 50), ("hexital.ha", 100, 40)]
ORACLE_RULE = ("C11: random stream x optional timeframe/fill x append schedule (many starting from 0 or 1 candles) with the Heikin-Ashi type on the "
               "real CandleManager vs an independent left fold of the four formulas over the independently resampled raw stream (with a lifespan: its tail); tag and clean_values checked; and every manager of a Heikin-Ashi Hexital whose members name "
               "several timeframes (possibly the Hexital's own) against the same fold")
ASSUMPTIONS = ["TZ=UTC for this check"]
PARTIAL = 'proved for every schedule: without a timeframe, with a collapsing timeframe (with_timeframe) and with timeframe + gap filling, also for input candles that already carry readings (with_timeframe_fill_full); MEMBER MANAGERS OF A HEXITAL under any program of facade operations: haSpec of the raw stream, collapsed to the effective member timeframe and filled (member_schedule, member_schedule_tf, member_schedule_tf_fill, member_manager_is_bare). Round 8: the DEFAULT manager of a Hexital none of whose members lives on it is exactly the manager fed the same appends (default_manager_is_bare, default_schedule / _tf / _tf_fill); Heikin-Ashi + LIFESPAN: without a timeframe unconditionally - the manager holds haSpec of the stream minus the popped candles after every schedule (life_schedule); on a collapsing timeframe (with / without fill) under the exact condition that a re-opened bucket is never the first retained candle once something was popped (KeepsPredecessor; implied by C15 retention with look-back >= 1: life_schedule_tf, life_schedule_tf_retains, life_schedule_tf_fill) - without it the statement is false (life_schedule_tf_needs_predecessor: the re-opened bucket is converted as if it were the first candle ever; replayed on the library, which the property does not exclude - see DESIGN section 18); members and default manager of a lifespan Hexital (member_life_schedule, default_life_schedule). On a GAP-FILLED timeframe the condition reduces to the configuration alone: timeframe <= lifespan (keeps_predecessor_of_fill_le, life_schedule_tf_fill_of_le), and that bound is sharp (life_schedule_tf_fill_le_sharp: lifespan = timeframe - 1 s, replayed on the library); members / default manager with fill + Heikin-Ashi + lifespan (member_tf_fill_ha_life, default_tf_fill_ha_life and their _of_le forms). Open: input candles that already carry readings on lifespan managers'
_case = om.make_case(ID, tf="maybe", ha=True)
_case_fill = om.make_case(ID, tf=True, fill=True, ha=True)
# with a lifespan the held candles must be the tail of the recurrence over the WHOLE stream (conversion happens before trimming)
_case_life = om.make_case(ID, tf="maybe", ha=True, life=True)


def oracle(ctx):
    n = (300 if ctx["tier"] == "quick" else 3000) * ctx["boost"]
    sz = {"size": 50 if ctx["tier"] == "quick" else 200}
    return cm.merge_results(cm.run_cases(_case, ctx["seed"], ID, n, sz), cm.run_cases(_case_fill, ctx["seed"], ID + "f", n // 4, sz),
                            cm.run_cases(_case_life, ctx["seed"], ID + "l", n // 2, sz),
                            cm.run_cases(om.case_hexital_tfs, ctx["seed"], ID + "hx", n // 2, {**sz, "ha": True, "pid": ID}))


replay = om.replay

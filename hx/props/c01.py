"""C01 – incremental appends give exactly the batch result (schedule independence)."""
from ..oracles import analysis as oa
from ..oracles import common as cm
from ..oracles import framework as fw

ID = "C01"
LEAN_MODULE = "HexProps.C01"
SCOPE = []
ORACLE_RULE = "C01: see hx/oracles/framework.py (c01_case): random indicator spec (26 kinds + Amorph wrappers) x stream style x timeframe/fill x schedule (appended chunks also as dicts / lists) on the real code; pattern / movement wrappers on dyadic candles with exact ties (hx/oracles/analysis.py: case_c16_wrapped), batch column vs live column"
ASSUMPTIONS = ["TZ=UTC for this check"]
PARTIAL = "proved for ALL 27 shipped indicator classes (CoveredTreeX: the 14 leaf classes incl. Amorph x 20 functions, and every composite - VWAP, STDEV, RSI, ATR, KC, STDEVTHRES, BBANDS, Supertrend, MACD, HMA, STOCH, TSI, ADX) with candle-attribute inputs: leaf classes on the base timeframe unconditionally (equality in PyM); all classes on the base or a collapsing timeframe with or without gap filling as 'the live run returns => the batch run returns the same candles' (C01_trees). and for indicator-valued inputs in the standard pattern: a dependent SMA/EMA/RMA/WMA/ROC member over a source member (SMA..ROC, MACD, KC, Supertrend, BBANDS, STOCH, TSI, ADX) of the same Hexital, chains of any length, any timeframe / fill (C01_chain_covered, C01_chain_any_length). Not proved (C01_FULL): dependent composites and sources without a component instance, members on different timeframes, period 1 for HMA/STOCH (index-0 fallback to a child's full calculate()), names that are not ordinary keys; those are covered by correspondence + search only Round 5: indicator-valued inputs for EVERY class that takes an input_value as a dependent (SMA, EMA, RMA, WMA, ROC, Counter, Amorph, STDEV, RSI, MACD, KC, BBANDS, STDEVTHRES, HMA, STOCH, TSI) over any of the 27 classes as a source on the same manager, chains of any length, any timeframe / fill (C01_pair_more, C01_chain_more, C01_chain_more_tf). Still open: members on different timeframes feeding each other, parameter corners (period 1 for HMA / STOCH, names that are not ordinary keys). Round 8: HEIKIN-ASHI managers (alone, on a collapsing timeframe, with gap filling) for all 27 classes and for chains of any length, and the generic form over any manager spec (C01_trees_mgr, C01_trees_ha, C01_trees_haCfg, C01_chain_more_ha / _haCfg). Lifespan managers: not a theorem for C01 (a trimmed live run and a trimmed batch run legitimately keep different suffixes); covered by C15"


def oracle(ctx):
    n = (800 if ctx["tier"] == "quick" else 4000) * ctx["boost"]
    return cm.merge_results(cm.run_cases(fw.c01_case, ctx["seed"], ID, n, {"size": 60 if ctx["tier"] == "quick" else 3 * 60}),
                            # pattern / movement wrappers on candles with exact ties and threshold-sitting bodies: batch column = live column
                            cm.run_cases(oa.case_c16_wrapped, ctx["seed"], ID + "w", n, {"size": 40, "prop": ID}))


def replay(w):
    if w.get("scenario", {}).get("mode") in ("amorph", "hexital"):
        return oa.replay(w)
    return fw.c01_replay(w)

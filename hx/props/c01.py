"""C01 – incremental appends give exactly the batch result (schedule independence)."""
from ..oracles import common as cm
from ..oracles import framework as fw

ID = "C01"
LEAN_MODULE = "HexProps.C01"
SCOPE = []
ORACLE_RULE = "C01: see hx/oracles/framework.py (c01_case): random indicator spec (26 kinds + Amorph wrappers) x stream style x timeframe/fill x schedule on the real code"
ASSUMPTIONS = ["TZ=UTC for this check"]
PARTIAL = ""


def oracle(ctx):
    n = (800 if ctx["tier"] == "quick" else 4000) * ctx["boost"]
    return cm.run_cases(fw.c01_case, ctx["seed"], ID, n, {"size": 60 if ctx["tier"] == "quick" else 3 * 60})


replay = fw.c01_replay

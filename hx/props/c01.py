"""C01 – incremental appends give exactly the batch result (schedule independence)."""
from ..oracles import common as cm
from ..oracles import framework as fw

ID = "C01"
LEAN_MODULE = "HexProps.C01"
SCOPE = []
ORACLE_RULE = "C01: see hx/oracles/framework.py (c01_case): random indicator spec (26 kinds + Amorph wrappers) x stream style x timeframe/fill x schedule on the real code"
ASSUMPTIONS = ["TZ=UTC for this check"]
PARTIAL = "proved for every leaf indicator class (HLA, TR, OBV, SMA, EMA, RMA, WMA, VWMA, ROC, Counter, HL, Aroon, Donchian, Amorph x 20 functions; inputs = candle attributes) on the base timeframe (unconditional, equality in PyM) and on a collapsing timeframe with or without gap filling (whenever the live run returns); proved as 'the live run returns => the batch run returns the same candles' for the composite trees VWAP, STDEV, RSI, ATR, KC, STDEVTHRES, BBANDS, Supertrend (C01_trees, any timeframe / fill); MACD, STOCH, HMA, TSI, ADX (indicator-type managed children) and indicator-valued inputs are stated as C01_FULL and covered by correspondence + search only"


def oracle(ctx):
    n = (800 if ctx["tier"] == "quick" else 4000) * ctx["boost"]
    return cm.run_cases(fw.c01_case, ctx["seed"], ID, n, {"size": 60 if ctx["tier"] == "quick" else 3 * 60})


replay = fw.c01_replay

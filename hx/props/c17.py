"""C17 – movement, candle-shape and pattern predicates mean what they document."""
from ..oracles import analysis as oa
from ..oracles import common as cm
from ..oracles import framework as fw

ID = "C17"
LEAN_MODULE = "HexProps.C17"
SCOPE = []
ORACLE_RULE = ("C17: (movement) each of above/below/rising/falling/mean_*/highest/lowest/highestbar/lowestbar/value_range/crossover/crossunder "
               "in rotation x random list (2..40 candles) x reading columns with missing / None / dict entries and ties x 4 lengths, every index >= 1 "
               "against reference predicates over the None-filtered series; (geometry) random well-formed candles against the four identities and "
               "the sign rule; (patterns) for each pattern a constructed witness and one counter-witness per documented clause after >= 10 history "
               "candles, margins >= 2x under both readings of the averaging window, plus exact scaled and shifted copies; (invariance) random "
               "dyadic lists x 3 factors x 3 shifts for every predicate; non-trivial = at least 2 evaluated indices / a constructed witness")
ASSUMPTIONS = ["the averages behind the pattern thresholds may either include the evaluated candle (as the code does) or end just before it "
               "(as the docstrings and TA-Lib say): witnesses keep a 2x margin under both readings",
               "highestbar/lowestbar may scan `length` or `length`+1 candles (statement and docstring leave the far edge open): both are accepted",
               "value_range with length < 2 or a single reading in the window, and highestbar/lowestbar over a window without readings, are not judged",
               "prices in the pattern / invariance cases are multiples of 1/64 below 2^30 so that scaling and shifting are exact in binary floating point; "
               "indices whose threshold comparison is within 1e-8 of equality are skipped for non-power-of-two factors and for shifts",
               "`cross` (either direction) is not listed in the statement and is only covered by C16"]
PARTIAL = 'strictness/extreme statements assume a strict weak order on the carrier (holds for exact fields and ints; IEEE NaN excluded); scale/shift invariance over exact fields'


def oracle(ctx):
    quick = ctx["tier"] == "quick"
    b = ctx["boost"]
    k = 1 if quick else 10
    sz = {"size": 40}
    return cm.merge_results(
        cm.run_cases(oa.case_c17_movement, ctx["seed"], ID + "m", 3000 * k * b, sz),
        cm.run_cases(oa.case_c17_geometry, ctx["seed"], ID + "g", 400 * k * b, sz),
        cm.run_cases(oa.case_c17_pattern, ctx["seed"], ID + "p", 2040 * k * b, sz),
        cm.run_cases(oa.case_c17_invariance, ctx["seed"], ID + "i", 1600 * k * b, sz),
        cm.run_cases(fw.c17_geometry_live_case, ctx["seed"], ID + "gl", 300 * k * b, sz),
    )


def replay(w):
    if "chunks" in w["scenario"] and "spec" in w["scenario"]:
        return fw.c17_geometry_live_replay(w)
    return oa.replay(w)

"""C18 – timeframe bucketing does not depend on the process time zone."""
import os
import time

from ..oracles import common as cm
from ..oracles import manager as om

ID = "C18"
LEAN_MODULE = "HexProps.C18"
ZONES_QUICK = ["Asia/Kolkata", "America/New_York", "NPT-5:45"]
ZONES_ALL = ZONES_QUICK + ["Australia/Lord_Howe", "Europe/London", "UTC", "Pacific/Chatham"]
SCOPE = [("manager.collapse", 120, 50, {"tz": z}) for z in ZONES_QUICK] + \
        [("manager.fill", 60, 50, {"tz": "Asia/Kolkata"}), ("manager.fill", 60, 50, {"tz": "America/New_York"})] + \
        [("manager.collapse", 120, 50, {"tz": z, "thorough_only": True}) for z in ZONES_ALL[3:]]
ORACLE_RULE = ("C18: the C03 scenarios on the real CandleManager in worker processes whose TZ is set to each zone (tzset), including streams placed "
               "on DST transition days of that zone (optionally with sub-second stamps, dict / list encoded chunks and a lifespan), compared exactly with the zone-free independent resampler")
ASSUMPTIONS = ["the tz database and datetime's own fold/gap rules are runtime and trusted",
               "streams that step back in time (outside C03's domain: non-decreasing stamps) are compared zone-against-UTC as well: the same outcome - candles or the same exception - in every zone", "naive timestamps; with sub-second parts (which the library drops at places of its own choosing - C03's domain is whole seconds) the run under a zone is compared with the same run under UTC instead of with the resampler"]
PARTIAL = 'the Lean model has no zone parameter; that the code consults no zone is established by the tz correspondence (sampled), not by a theorem'
TRUSTED_EXTRA = ["C18: zone independence of the code is tied by running the correspondence under several TZ settings (sampled)"]

# (zone, a naive local second on/near a transition day of that zone)
TRANSITIONS = {
    "America/New_York": [1615680000, 1636243200],   # 2021-03-14, 2021-11-07
    "Europe/London": [1616889600, 1635638400],      # 2021-03-28, 2021-10-31
    "Australia/Lord_Howe": [1617494400, 1633219200],  # 2021-04-04, 2021-10-03
    "Pacific/Chatham": [1617494400, 1632528000],
}


def _have_pandas():
    try:
        import pandas  # noqa: F401

        return True
    except Exception:
        return False


def _check(scn, tz):
    """whole-second stamps: against the zone-free independent resampler.  Sub-second stamps (which the library drops at places of
    its own choosing): the same run under this zone and under UTC must give identical candles - the property itself."""
    if not scn.get("subsec") and not scn.get("stepback"):
        return om.check_scn(scn)
    here = om.collect_scn(scn)
    old = os.environ.get("TZ")
    os.environ["TZ"] = "UTC"
    time.tzset()
    try:
        utc = om.collect_scn(scn)
    finally:
        if old is None:
            os.environ.pop("TZ", None)
        else:
            os.environ["TZ"] = old
        time.tzset()
    if here != utc:
        j = next((i for i, (a, b) in enumerate(zip(here, utc)) if a != b), min(len(here), len(utc)))
        return {"clause": "zone-vs-utc", "step": j, "observed": str(here[j] if j < len(here) else None)[:300],
                "expected": str(utc[j] if j < len(utc) else None)[:300]}
    return None


def _case(rng, idx, params):
    scn, meta = om.gen_scn(rng, tf=True, fill=rng.random() < 0.4, life=rng.random() < 0.3, ha=rng.random() < 0.25, size=params.get("size", 50))
    tz = params["tz"]
    # everything on the way from the caller's naive stamps to the held buckets must be zone-free: sub-second parts (dropped by
    # the library), dict / list encodings of appended chunks, and lifespan trimming
    if rng.random() < 0.4:
        scn["subsec"] = [rng.choice([0, 1, 250000, 999999]) for _ in range(7)]
    scn["enc"] = rng.choice(["candle", "dict", "dict", "list", "list", "dict_iso", "dict_iso", "pandas"])
    if scn["enc"] == "pandas" and not _have_pandas():
        scn["enc"] = "candle"
    if scn["enc"] in ("dict_iso", "pandas") and scn.get("chunks") and scn.get("init", 0) > 1 and rng.random() < 0.5:
        # let most of the stream arrive through append, where the encoding applies
        rest = len(scn["stream"]) - 1
        scn["init"], scn["chunks"] = 1, ([1] * rest if rng.random() < 0.5 else [rest])
    meta.update({"subsec": bool(scn.get("subsec")), "enc": scn["enc"], "life": scn.get("life") is not None, "ha": bool(scn.get("ha"))})
    if tz in TRANSITIONS and rng.random() < 0.6 and scn["stream"]:
        span = scn["stream"][-1][0] - scn["stream"][0][0]
        base = rng.choice(TRANSITIONS[tz]) + 7200 - rng.randint(0, max(span, 7200))
        shift = base - scn["stream"][0][0]
        scn["stream"] = [(t + shift,) + tuple(r) for (t, *r) in scn["stream"]]
        meta["transition_day"] = True
    if rng.random() < 0.12 and len(scn["stream"]) >= 4:
        # a stream that STEPS BACK (a stale tick, an hour delivered twice): whatever the library does with it - merge it, drop it,
        # raise InvalidCandleOrder - it must do the same in every zone; compared with the same run under UTC
        k = rng.randint(2, len(scn["stream"]) - 1)
        back = rng.choice([1, 2, 5]) * rng.choice([60, 600, 3600]) + rng.randint(0, 59)
        t, *r = scn["stream"][k]
        scn["stream"] = scn["stream"][:k] + [(scn["stream"][k - 1][0] - back,) + tuple(r)] + scn["stream"][k:]
        scn = om._fix_sched(scn)
        scn["stepback"] = True
        meta["stepback"] = True
    bad = _check(scn, tz)
    viol = None
    if bad:
        small = cm.shrink_stream(scn, lambda s: _check(om._fix_sched(s), tz) is not None)
        small = om._fix_sched(small)
        bad2 = _check(small, tz) or bad
        viol = {"scenario": small, "tz": tz, **bad2, "signature": f"{ID}:{tz}:{bad2.get('clause')}"}
    meta["tz"] = tz
    return {"nontrivial": len(scn["stream"]) >= 2, "key": hash((tz, str(scn))), "violation": viol, "meta": meta,
            "sample": {"tz": tz, "tf": scn["tf"], "n": len(scn["stream"]), "first": scn["stream"][:2]} if idx < 1 else None}


def oracle(ctx):
    zones = ZONES_QUICK if ctx["tier"] == "quick" else ZONES_ALL
    n = (180 if ctx["tier"] == "quick" else 1000) * ctx["boost"]
    rs = [cm.run_cases(_case, ctx["seed"], f"{ID}-{z}", n, {"size": 50, "tz": z}) for z in zones]
    return cm.merge_results(*rs)


def replay(witness):
    tz = witness.get("tz")
    old = os.environ.get("TZ")
    if tz:
        os.environ["TZ"] = tz
        time.tzset()
    try:
        bad = _check(witness["scenario"], tz)
    finally:
        if old is not None:
            os.environ["TZ"] = old
            time.tzset()
    return {"fails": bad is not None, "detail": bad}

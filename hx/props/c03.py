"""C03 – timeframe collapsing equals right-closed, right-labelled OHLCV resampling."""
from ..oracles import common as cm
from ..oracles import manager as om

ID = "C03"
LEAN_MODULE = "HexProps.C03"
# (component, quick cases, max stream size)
SCOPE = [("arith", 40, 60), ("manager.collapse", 400, 60)]
ORACLE_RULE = ("C03: random stream x timeframe x append schedule (+ repeated _tasks passes) on the real CandleManager, "
               "compared exactly with an independent resampler; and a Hexital whose members name several timeframes (nesting or not, history at "
               "construction and/or appends): every manager it holds against the same resampler; non-trivial = at least 2 candles and at least one append or a multi-candle construction")
ASSUMPTIONS = ["timestamps are naive datetimes at second resolution; process TZ=UTC for this check (C18 owns time zones)",
               "integer magnitudes below 2^53"]
PARTIAL = ""
_case = om.make_case(ID, tf=True, fill=False)
_case_life = om.make_case(ID, tf=True, fill=False, life=True)   # what a lifespan manager retains are still whole resampled buckets


def oracle(ctx):
    n = (300 if ctx["tier"] == "quick" else 3000) * ctx["boost"]
    sz = {"size": 60 if ctx["tier"] == "quick" else 300}
    return cm.merge_results(cm.run_cases(_case, ctx["seed"], ID, n, sz), cm.run_cases(_case_life, ctx["seed"], ID + "l", n // 3, sz),
                            cm.run_cases(om.case_hexital_tfs, ctx["seed"], ID + "hx", n // 3, sz))


replay = om.replay

"""C07 – work per appended candle is constant."""
from ..oracles import common as cm
from ..oracles import framework as fw

ID = "C07"
LEAN_MODULE = "HexProps.C07"
SCOPE = []
ORACLE_RULE = "C07: see hx/oracles/framework.py (c07_case): random indicator spec (26 kinds + Amorph wrappers) x stream style x timeframe/fill x schedule on the real code"
ASSUMPTIONS = ["TZ=UTC for this check"]
PARTIAL = "proved: one loop iteration (one reading) per appended or merged candle per node, none on a complete list; bounded footprint for ALL 27 classes - read-only classes: the reading at index i is a function of candles i-W..i only, W = window(parameters); every class incl. the nine whose step writes helper series (bounded_footprint_trees): on a finished list, dropping old candles that leave lookback(parameters) finished ones gives exactly the full result minus those candles (equation in PyM: same candles or same exception), the new candle is a function of the last lookback candles and the appended one, one append changes exactly one candle; on a collapsing timeframe (with or without fill) the same in buckets: a raw candle recomputes exactly the bucket it merges into or opens. Not theorems by nature: call / instruction counts (measured on the real code: recording list, sys.setprofile), wall-clock cost, the manager's own re-walk"


def oracle(ctx):
    n = (192 if ctx["tier"] == "quick" else 1920) * ctx["boost"]
    return cm.merge_results(cm.run_cases(fw.c07_case, ctx["seed"], ID, n, {"size": 0}),
                            cm.run_cases(fw.c07_hexital_case, ctx["seed"], ID + "hx", n // 3, {"size": 0}))


replay = fw.c07_any_replay

"""C07 – work per appended candle is constant."""
from ..oracles import common as cm
from ..oracles import framework as fw

ID = "C07"
LEAN_MODULE = "HexProps.C07"
SCOPE = []
ORACLE_RULE = "C07: see hx/oracles/framework.py (c07_case): random indicator spec (26 kinds + Amorph wrappers) x stream style x timeframe/fill x schedule on the real code"
ASSUMPTIONS = ["TZ=UTC for this check"]
PARTIAL = "proved: one loop iteration (one reading) per appended or merged candle per node, none on a complete list; bounded footprint - for every read-only class (14 leaf classes incl. Amorph x 20 functions, own readings of ATR/BBANDS/KC/STDEVTHRES) the reading at index i is a function of candles i-W..i only, W = window(parameters); for the nine kinds whose step writes helper series the window and the call counts are measured on the real code (recording list, sys.setprofile); wall-clock cost and the manager's own re-walk are outside"


def oracle(ctx):
    n = (192 if ctx["tier"] == "quick" else 1920) * ctx["boost"]
    return cm.merge_results(cm.run_cases(fw.c07_case, ctx["seed"], ID, n, {"size": 0}),
                            cm.run_cases(fw.c07_hexital_case, ctx["seed"], ID + "hx", n // 3, {"size": 0}))


replay = fw.c07_any_replay

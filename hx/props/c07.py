"""C07 – work per appended candle is constant."""
from ..oracles import common as cm
from ..oracles import framework as fw

ID = "C07"
LEAN_MODULE = "HexProps.C07"
SCOPE = []
ORACLE_RULE = "C07: see hx/oracles/framework.py (c07_case): random indicator spec (26 kinds + Amorph wrappers) x stream style x timeframe/fill x schedule on the real code"
ASSUMPTIONS = ["TZ=UTC for this check"]
PARTIAL = 'proved: exactly one reading per appended/merged candle per node after warm-up; the size of the look-back window, call counts and wall-clock are measured on the real code (recording list, sys.setprofile), not proved'


def oracle(ctx):
    n = (192 if ctx["tier"] == "quick" else 1920) * ctx["boost"]
    return cm.merge_results(cm.run_cases(fw.c07_case, ctx["seed"], ID, n, {"size": 0}),
                            cm.run_cases(fw.c07_hexital_case, ctx["seed"], ID + "hx", n // 3, {"size": 0}))


replay = fw.c07_any_replay

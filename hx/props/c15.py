"""C15 – lifespan trimming keeps exactly the window (and leaves its readings unchanged)."""
from ..oracles import common as cm
from ..oracles import framework as fw
from ..oracles import manager as om

ID = "C15"
LEAN_MODULE = "HexProps.C15"
SCOPE = [("manager.trim", 400, 60), ("ind.life:ALL", 150, 40), ("hexital.life", 60, 40)]
ORACLE_RULE = ("C15b: purely recursive indicators appended one candle at a time under a lifespan that always keeps the predecessor, compared exactly with an untrimmed twin; C15a: random stream x lifespan x optional timeframe/fill x append schedule on the real CandleManager; retained candles compared exactly "
               "with the independently computed window of the (resampled) stream after every append; the same for every manager of a Hexital with a "
               "Hexital-level lifespan (zero included) and members on several timeframes")
ASSUMPTIONS = ["TZ=UTC for this check", "lifespan >= 0"]
PARTIAL = 'window clause proved for every schedule, without and with a collapsing timeframe; readings clause proved for ALL 27 classes over every construction prefix and append schedule, on the base timeframe (C15b_leaf, C15b_FULL_holds, C15b_trees_FULL_holds, C15b_trees_look) AND on a collapsing timeframe without / with gap filling (C15b_trees_tf, C15b_trees_tf_fill: each popping append retains treeLook CLOSED buckets - counting the still-forming bucket as retained history makes the statement false, C15b_trees_tf_naive_false, replayed on the library). MEMBERS OF A HEXITAL (own timeframe or that of the Hexital, any Hexital timeframe, with / without fill): the member of the lifespan Hexital = the member of the same Hexital without lifespan minus the popped candles (C15b_member_look, C15b_member_tf, C15b_member_tf_fill), window clause window_member_tf. Heikin-Ashi managers alone and on a timeframe: C15b_trees_ha, C15b_trees_tf_ha (same retention hypotheses as without conversion). Round 7: Heikin-Ashi + fill too (C15b_trees_tf_fill_ha) and Heikin-Ashi members of a Hexital (C15b_member_ha / _tf_ha / _tf_fill_ha): every manager combination is covered, standalone and as members: correspondence + oracle with an untrimmed twin at the tightest admissible window'
_case = om.make_case(ID, tf="maybe", life=True)
_case_fill = om.make_case(ID, tf=True, fill=True, life=True)


def oracle(ctx):
    n = (300 if ctx["tier"] == "quick" else 3000) * ctx["boost"]
    sz = {"size": 60 if ctx["tier"] == "quick" else 200}
    return cm.merge_results(cm.run_cases(_case, ctx["seed"], ID, n, sz), cm.run_cases(_case_fill, ctx["seed"], ID + "f", n // 4, sz),
                            cm.run_cases(fw.c15b_case, ctx["seed"], ID + "b", n, sz),
                            cm.run_cases(fw.c15b_window_case, ctx["seed"], ID + "w", n, sz),
                            cm.run_cases(fw.c15b_exact_case, ctx["seed"], ID + "x", n, sz),
                            cm.run_cases(om.case_hexital_tfs, ctx["seed"], ID + "hx", n // 3, {**sz, "life": True, "pid": ID}))


def replay(w):
    return fw.c15b_replay(w) if "spec" in w["scenario"] else om.replay(w)
